#!/usr/bin/env python3
"""tools_seed_store.py <worktree> <n> <ID> <what> <needs> <result> <history>
Stores a confirmed seeded change under /verif/seeded/<ID>/ (round 2 ids are C01-3, C01-4, ...)."""
import sys, os, json, shutil
wt, n, sid, what, needs, result, history = sys.argv[1:8]
d = f"/verif/seeded/{sid}"
os.makedirs(d, exist_ok=True)
shutil.copy(f"{wt}/SEEDED/change{n}.diff", f"{d}/patch.diff")
shutil.copy(f"{wt}/SEEDED/demo{n}_test.go", f"{d}/demo_test.go.txt")
if os.path.exists(f"{wt}/SEEDED/NOTES.md"):
    shutil.copy(f"{wt}/SEEDED/NOTES.md", f"{d}/AUTHOR_NOTES.md")
prop = sid.split("-")[0]
meta = {
 "id": sid, "property": prop, "round": 2,
 "what_it_breaks": what, "needs_to_manifest": needs,
 "written_by": "fresh sub-agent given only the property text, short descriptions of the two round-1 changes (to avoid duplicates) and a scratch worktree of /repo (nothing from /verif)",
 "confirmed": "in the scratch worktree: go build ./... ok; demo test passes on the clean tree and fails with the change; go test of the touched packages + pkg/action + pkg/storage/... passes with the change (tools_seed_eval.sh); full-suite results by the author agent are in AUTHOR_NOTES.md",
 "ran": f"git -C /repo apply patch.diff; ./run.sh check {prop} --tier quick; git -C /repo checkout -- .",
 "result": result, "history": history,
}
json.dump(meta, open(f"{d}/meta.json", "w"), indent=1)
print("stored", d)
