// Command rewrite produces instrumented copies of Go source files for the
// vsched explorer and an overlay.json for `go build -overlay`.
//
//	rewrite -out <dir> -repo /repo -shim <dir with vsched sources> file.go...
//
// Rewrites (purely syntactic, so mutated sources are still handled):
//
//	import "sync"            -> sync "helm.sh/helm/v4/pkg/vsched/vsync"
//	go f(a, b)               -> { _f, _a0, _a1 := f, a, b; vsched.Go(func() { _f(_a0, _a1) }) }
//	ch <- v                  -> vsched.Send(ch, v)
//	<-ch                     -> vsched.Recv(ch)
//
// Unsupported constructs (select, close, comma-ok receive, range over a
// channel cannot be told apart syntactically and is rejected when the ranged
// expression is a known channel name) make the tool exit with status 3 and a
// message; callers treat that as "cannot instrument", never as a violation.
package main

import (
	"bytes"
	"encoding/json"
	"flag"
	"fmt"
	"go/ast"
	"go/format"
	"go/parser"
	"go/token"
	"os"
	"path/filepath"
	"strings"
)

const modPath = "helm.sh/helm/v4"

func main() {
	out := flag.String("out", "", "output directory")
	repo := flag.String("repo", "/repo", "repository root")
	shim := flag.String("shim", "", "directory holding vsched/vsched.go and vsched/vsync/vsync.go")
	from := flag.String("from", "", "optional directory with alternative sources (same relative paths); used to instrument deliberately broken variants")
	flag.Parse()
	if *out == "" || *shim == "" {
		fmt.Fprintln(os.Stderr, "usage: rewrite -out dir -shim dir files...")
		os.Exit(2)
	}
	os.MkdirAll(*out, 0o755)
	overlay := map[string]string{}
	report := map[string]map[string]int{}
	for _, rel := range flag.Args() {
		src := filepath.Join(*repo, rel)
		read := src
		if *from != "" {
			if _, err := os.Stat(filepath.Join(*from, rel)); err == nil {
				read = filepath.Join(*from, rel)
			}
		}
		dst := filepath.Join(*out, strings.ReplaceAll(rel, "/", "__"))
		counts, err := rewriteFile(read, dst)
		if err != nil {
			fmt.Fprintf(os.Stderr, "rewrite: %s: %v\n", rel, err)
			os.Exit(3)
		}
		overlay[src] = dst
		report[rel] = counts
	}
	overlay[filepath.Join(*repo, "pkg/vsched/vsched.go")] = filepath.Join(*shim, "vsched/vsched.go")
	overlay[filepath.Join(*repo, "pkg/vsched/vsync/vsync.go")] = filepath.Join(*shim, "vsched/vsync/vsync.go")
	b, _ := json.MarshalIndent(map[string]any{"Replace": overlay}, "", " ")
	if err := os.WriteFile(filepath.Join(*out, "overlay.json"), b, 0o644); err != nil {
		fmt.Fprintln(os.Stderr, err)
		os.Exit(2)
	}
	rb, _ := json.MarshalIndent(report, "", " ")
	os.WriteFile(filepath.Join(*out, "report.json"), rb, 0o644)
	fmt.Println(string(rb))
}

type rewriter struct {
	fset    *token.FileSet
	n       int
	counts  map[string]int
	err     error
	usedSch bool
}

func (r *rewriter) fail(pos token.Pos, msg string) {
	if r.err == nil {
		r.err = fmt.Errorf("%s: unsupported construct: %s", r.fset.Position(pos), msg)
	}
}

func sel(pkg, name string) ast.Expr {
	return &ast.SelectorExpr{X: ast.NewIdent(pkg), Sel: ast.NewIdent(name)}
}

func rewriteFile(src, dst string) (map[string]int, error) {
	fset := token.NewFileSet()
	f, err := parser.ParseFile(fset, src, nil, parser.ParseComments)
	if err != nil {
		return nil, err
	}
	r := &rewriter{fset: fset, counts: map[string]int{}}
	// imports
	for _, im := range f.Imports {
		if im.Path.Value == `"sync"` {
			im.Path.Value = `"` + modPath + `/pkg/vsched/vsync"`
			if im.Name == nil {
				im.Name = ast.NewIdent("sync")
			}
			r.counts["sync-import"]++
		}
	}
	// statements and expressions
	for _, d := range f.Decls {
		if fd, ok := d.(*ast.FuncDecl); ok && fd.Body != nil {
			r.block(fd.Body)
		}
		if gd, ok := d.(*ast.GenDecl); ok {
			ast.Inspect(gd, func(n ast.Node) bool {
				if fl, ok := n.(*ast.FuncLit); ok {
					r.block(fl.Body)
					return false
				}
				return true
			})
		}
	}
	if r.err != nil {
		return nil, r.err
	}
	if r.usedSch {
		addImport(f, modPath+"/pkg/vsched")
	}
	var buf bytes.Buffer
	if err := format.Node(&buf, fset, f); err != nil {
		return nil, err
	}
	return r.counts, os.WriteFile(dst, buf.Bytes(), 0o644)
}

func addImport(f *ast.File, path string) {
	spec := &ast.ImportSpec{Path: &ast.BasicLit{Kind: token.STRING, Value: `"` + path + `"`}}
	for _, d := range f.Decls {
		if gd, ok := d.(*ast.GenDecl); ok && gd.Tok == token.IMPORT {
			gd.Specs = append(gd.Specs, spec)
			if !gd.Lparen.IsValid() {
				gd.Lparen = gd.Pos()
				gd.Rparen = gd.End()
			}
			f.Imports = append(f.Imports, spec)
			return
		}
	}
	gd := &ast.GenDecl{Tok: token.IMPORT, Specs: []ast.Spec{spec}}
	f.Decls = append([]ast.Decl{gd}, f.Decls...)
	f.Imports = append(f.Imports, spec)
}

func (r *rewriter) block(b *ast.BlockStmt) {
	if b == nil {
		return
	}
	for i, s := range b.List {
		b.List[i] = r.stmt(s)
	}
}

func (r *rewriter) stmts(list []ast.Stmt) {
	for i, s := range list {
		list[i] = r.stmt(s)
	}
}

func (r *rewriter) stmt(s ast.Stmt) ast.Stmt {
	switch x := s.(type) {
	case nil:
		return nil
	case *ast.GoStmt:
		r.counts["go"]++
		r.usedSch = true
		call := x.Call
		// evaluate function value and arguments now, run later
		r.exprs(call.Args)
		call.Fun = r.expr(call.Fun)
		r.n++
		var lhs []ast.Expr
		var rhs []ast.Expr
		fn := ast.NewIdent(fmt.Sprintf("_vs%d_f", r.n))
		lhs = append(lhs, fn)
		rhs = append(rhs, call.Fun)
		var args []ast.Expr
		for i, a := range call.Args {
			id := ast.NewIdent(fmt.Sprintf("_vs%d_a%d", r.n, i))
			lhs = append(lhs, id)
			rhs = append(rhs, a)
			args = append(args, id)
		}
		inner := &ast.CallExpr{Fun: fn, Args: args, Ellipsis: call.Ellipsis}
		if call.Ellipsis.IsValid() {
			inner.Ellipsis = 1
		}
		assign := &ast.AssignStmt{Lhs: lhs, Tok: token.DEFINE, Rhs: rhs}
		goCall := &ast.ExprStmt{X: &ast.CallExpr{Fun: sel("vsched", "Go"), Args: []ast.Expr{
			&ast.FuncLit{Type: &ast.FuncType{Params: &ast.FieldList{}}, Body: &ast.BlockStmt{List: []ast.Stmt{&ast.ExprStmt{X: inner}}}},
		}}}
		return &ast.BlockStmt{List: []ast.Stmt{assign, goCall}}
	case *ast.SendStmt:
		r.counts["send"]++
		r.usedSch = true
		return &ast.ExprStmt{X: &ast.CallExpr{Fun: sel("vsched", "Send"), Args: []ast.Expr{r.expr(x.Chan), r.expr(x.Value)}}}
	case *ast.SelectStmt:
		r.fail(x.Pos(), "select statement")
		return x
	case *ast.BlockStmt:
		r.block(x)
	case *ast.IfStmt:
		x.Init = r.stmt(x.Init)
		x.Cond = r.expr(x.Cond)
		r.block(x.Body)
		x.Else = r.stmt(x.Else)
	case *ast.ForStmt:
		x.Init = r.stmt(x.Init)
		x.Cond = r.expr(x.Cond)
		x.Post = r.stmt(x.Post)
		r.block(x.Body)
	case *ast.RangeStmt:
		x.X = r.expr(x.X)
		r.block(x.Body)
	case *ast.SwitchStmt:
		x.Init = r.stmt(x.Init)
		x.Tag = r.expr(x.Tag)
		r.block(x.Body)
	case *ast.TypeSwitchStmt:
		x.Init = r.stmt(x.Init)
		x.Assign = r.stmt(x.Assign)
		r.block(x.Body)
	case *ast.CaseClause:
		r.exprs(x.List)
		r.stmts(x.Body)
	case *ast.LabeledStmt:
		x.Stmt = r.stmt(x.Stmt)
	case *ast.ExprStmt:
		x.X = r.expr(x.X)
	case *ast.AssignStmt:
		if len(x.Lhs) == 2 && len(x.Rhs) == 1 {
			if u, ok := x.Rhs[0].(*ast.UnaryExpr); ok && u.Op == token.ARROW {
				r.fail(x.Pos(), "comma-ok receive")
			}
		}
		r.exprs(x.Lhs)
		r.exprs(x.Rhs)
	case *ast.ReturnStmt:
		r.exprs(x.Results)
	case *ast.DeferStmt:
		r.exprs(x.Call.Args)
		x.Call.Fun = r.expr(x.Call.Fun)
	case *ast.DeclStmt:
		if gd, ok := x.Decl.(*ast.GenDecl); ok {
			for _, sp := range gd.Specs {
				if vs, ok := sp.(*ast.ValueSpec); ok {
					r.exprs(vs.Values)
				}
			}
		}
	case *ast.IncDecStmt:
		x.X = r.expr(x.X)
	}
	return s
}

func (r *rewriter) exprs(list []ast.Expr) {
	for i, e := range list {
		list[i] = r.expr(e)
	}
}

func (r *rewriter) expr(e ast.Expr) ast.Expr {
	switch x := e.(type) {
	case nil:
		return nil
	case *ast.UnaryExpr:
		x.X = r.expr(x.X)
		if x.Op == token.ARROW {
			r.counts["recv"]++
			r.usedSch = true
			return &ast.CallExpr{Fun: sel("vsched", "Recv"), Args: []ast.Expr{x.X}}
		}
	case *ast.CallExpr:
		if id, ok := x.Fun.(*ast.Ident); ok && id.Name == "close" && len(x.Args) == 1 {
			r.fail(x.Pos(), "close of a channel")
		}
		x.Fun = r.expr(x.Fun)
		r.exprs(x.Args)
	case *ast.FuncLit:
		r.block(x.Body)
	case *ast.BinaryExpr:
		x.X = r.expr(x.X)
		x.Y = r.expr(x.Y)
	case *ast.ParenExpr:
		x.X = r.expr(x.X)
	case *ast.SelectorExpr:
		x.X = r.expr(x.X)
	case *ast.IndexExpr:
		x.X = r.expr(x.X)
		x.Index = r.expr(x.Index)
	case *ast.SliceExpr:
		x.X = r.expr(x.X)
		x.Low, x.High, x.Max = r.expr(x.Low), r.expr(x.High), r.expr(x.Max)
	case *ast.StarExpr:
		x.X = r.expr(x.X)
	case *ast.TypeAssertExpr:
		x.X = r.expr(x.X)
	case *ast.CompositeLit:
		r.exprs(x.Elts)
	case *ast.KeyValueExpr:
		x.Key = r.expr(x.Key)
		x.Value = r.expr(x.Value)
	}
	return e
}
