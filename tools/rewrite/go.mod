module verif/tools/rewrite

go 1.24.0
