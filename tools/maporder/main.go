// Command maporder turns Go's map iteration order into a choice the explorer
// owns: every `range` statement over a map-typed expression (found with type
// information, not by name) in the given packages of the working tree is
// rewritten to iterate through vorder.Seq2(m, "<site>"), and an overlay.json
// for `go build -overlay` is written. Nothing is written to the repository.
//
//	maporder -out <dir> -repo /repo -shim <dir with vorder/vorder.go> [-from <dir>] ./pkg/engine ./pkg/action ...
package main

import (
	"bytes"
	"encoding/json"
	"flag"
	"fmt"
	"go/ast"
	"go/format"
	"go/token"
	"go/types"
	"os"
	"path/filepath"
	"strings"

	"golang.org/x/tools/go/packages"
)

const modPath = "helm.sh/helm/v4"

func main() {
	out := flag.String("out", "", "output directory")
	repo := flag.String("repo", "/repo", "repository root")
	shim := flag.String("shim", "", "directory holding vorder/vorder.go")
	from := flag.String("from", "", "optional directory with alternative sources (same relative paths)")
	flag.Parse()
	if *out == "" || *shim == "" || flag.NArg() == 0 {
		fmt.Fprintln(os.Stderr, "usage: maporder -out dir -shim dir packages...")
		os.Exit(2)
	}
	os.MkdirAll(*out, 0o755)
	cfg := &packages.Config{
		Mode: packages.NeedName | packages.NeedFiles | packages.NeedCompiledGoFiles | packages.NeedSyntax | packages.NeedTypes | packages.NeedTypesInfo | packages.NeedImports,
		Dir:  *repo,
	}
	if *from != "" {
		cfg.Overlay = map[string][]byte{}
		filepath.Walk(*from, func(p string, info os.FileInfo, err error) error {
			if err == nil && !info.IsDir() && strings.HasSuffix(p, ".go") {
				rel, _ := filepath.Rel(*from, p)
				b, _ := os.ReadFile(p)
				cfg.Overlay[filepath.Join(*repo, rel)] = b
			}
			return nil
		})
	}
	pkgs, err := packages.Load(cfg, flag.Args()...)
	if err != nil {
		fmt.Fprintln(os.Stderr, "maporder: load:", err)
		os.Exit(3)
	}
	overlay := map[string]string{}
	type site struct {
		ID   string `json:"id"`
		Pos  string `json:"pos"`
		Type string `json:"type"`
	}
	var sites []site
	syncSites := map[string][]string{}
	for _, p := range pkgs {
		if len(p.Errors) > 0 {
			fmt.Fprintf(os.Stderr, "maporder: package %s has errors: %v\n", p.PkgPath, p.Errors[0])
			os.Exit(3)
		}
		for i, f := range p.Syntax {
			fname := p.CompiledGoFiles[i]
			if strings.HasSuffix(fname, "_test.go") {
				continue
			}
			rel, _ := filepath.Rel(*repo, fname)
			changed := false
			ast.Inspect(f, func(n ast.Node) bool {
				switch x := n.(type) {
				case *ast.GoStmt:
					syncSites[p.PkgPath] = append(syncSites[p.PkgPath], "go@"+p.Fset.Position(x.Pos()).String())
				case *ast.SendStmt:
					syncSites[p.PkgPath] = append(syncSites[p.PkgPath], "send@"+p.Fset.Position(x.Pos()).String())
				case *ast.SelectStmt:
					syncSites[p.PkgPath] = append(syncSites[p.PkgPath], "select@"+p.Fset.Position(x.Pos()).String())
				case *ast.RangeStmt:
					tv, ok := p.TypesInfo.Types[x.X]
					if !ok {
						return true
					}
					if _, isMap := tv.Type.Underlying().(*types.Map); !isMap {
						return true
					}
					pos := p.Fset.Position(x.Pos())
					id := fmt.Sprintf("%s:%d", rel, pos.Line)
					sites = append(sites, site{ID: id, Pos: pos.String(), Type: tv.Type.String()})
					x.X = &ast.CallExpr{
						Fun:  &ast.SelectorExpr{X: ast.NewIdent("vorder"), Sel: ast.NewIdent("Seq2")},
						Args: []ast.Expr{x.X, &ast.BasicLit{Kind: token.STRING, Value: fmt.Sprintf("%q", id)}},
					}
					changed = true
				}
				return true
			})
			if !changed {
				continue
			}
			addImport(f, modPath+"/pkg/vorder")
			var buf bytes.Buffer
			if err := format.Node(&buf, p.Fset, f); err != nil {
				fmt.Fprintln(os.Stderr, "maporder: print:", err)
				os.Exit(3)
			}
			dst := filepath.Join(*out, strings.ReplaceAll(rel, "/", "__"))
			os.WriteFile(dst, buf.Bytes(), 0o644)
			overlay[fname] = dst
		}
	}
	overlay[filepath.Join(*repo, "pkg/vorder/vorder.go")] = filepath.Join(*shim, "vorder/vorder.go")
	b, _ := json.MarshalIndent(map[string]any{"Replace": overlay}, "", " ")
	os.WriteFile(filepath.Join(*out, "overlay.json"), b, 0o644)
	rb, _ := json.MarshalIndent(map[string]any{"sites": sites, "sync_constructs": syncSites}, "", " ")
	os.WriteFile(filepath.Join(*out, "sites.json"), rb, 0o644)
	fmt.Printf("maporder: %d range-over-map sites rewritten in %d files\n", len(sites), len(overlay)-1)
}

func addImport(f *ast.File, path string) {
	for _, im := range f.Imports {
		if im.Path.Value == `"`+path+`"` {
			return
		}
	}
	spec := &ast.ImportSpec{Path: &ast.BasicLit{Kind: token.STRING, Value: `"` + path + `"`}}
	for _, d := range f.Decls {
		if gd, ok := d.(*ast.GenDecl); ok && gd.Tok == token.IMPORT {
			gd.Specs = append(gd.Specs, spec)
			if !gd.Lparen.IsValid() {
				gd.Lparen = gd.Pos()
				gd.Rparen = gd.End()
			}
			f.Imports = append(f.Imports, spec)
			return
		}
	}
	gd := &ast.GenDecl{Tok: token.IMPORT, Specs: []ast.Spec{spec}}
	f.Decls = append([]ast.Decl{gd}, f.Decls...)
	f.Imports = append(f.Imports, spec)
}
