#!/bin/bash
# Entry point for every registered command: rebuilds the harness from /repo's
# current working tree, then runs it.   ./run.sh check C10 --tier quick
set -u
cd "$(dirname "$0")"
. ./env.sh
export VERIF_DIR="$(pwd)"
mkdir -p bin evidence replays
if [ ! -f harness/go.sum ] || [ /repo/go.sum -nt harness/go.sum ]; then cp /repo/go.sum harness/go.sum; fi
( cd harness && go build -o ../bin/verif ./cmd/verif ) >bin/build.log 2>&1
rc=$?
if [ $rc -ne 0 ]; then
  # The tree under test does not build: nothing can be decided. Not an alarm.
  echo "HARNESS-BUILD-FAILED (see bin/build.log)" >&2
  tail -20 bin/build.log >&2
  exit 3
fi
exec ./bin/verif "$@"
