#!/bin/bash
# Entry point for every registered command: rebuilds the harness from /repo's
# current working tree, then runs it.   ./run.sh check C10 --tier quick
# Checks that explore at lock/goroutine/channel granularity (C08 barrier, C09
# lock level) run in a build where the files under exploration are rewritten
# from the working tree and mounted with `go build -overlay` (nothing is
# written to /repo).
set -u
cd "$(dirname "$0")"
. ./env.sh
export VERIF_DIR="$(pwd)"
mkdir -p bin evidence replays
cp /repo/go.sum harness/go.sum 2>/dev/null
prop=""
case "${1:-}" in
  check) prop="${2:-}";;
  replay) prop=$(sed -n 's/.*"property": *"\([A-Z0-9]*\)".*/\1/p' "${2:-/dev/null}" | head -1);;
esac
variant=plain
case "$prop" in C08|C09) variant=vsched;; esac
fail_build() {
  # The tree under test does not build: nothing can be decided. Not an alarm.
  echo "HARNESS-BUILD-FAILED (see bin/build.log)" >&2
  tail -20 bin/build.log >&2
  exit 3
}
if [ "$variant" = vsched ]; then
  if [ ! -x bin/rewrite ] || [ tools/rewrite/main.go -nt bin/rewrite ]; then
    ( cd tools/rewrite && go build -o ../../bin/rewrite . ) >bin/build.log 2>&1 || fail_build
  fi
  ov=$(mktemp -d /var/tmp/verif-ov.XXXXXX)
  trap 'rm -rf "$ov"' EXIT
  if ./bin/rewrite -out "$ov" -shim "$(pwd)/harness/shim" pkg/kube/client.go pkg/kube/wait.go pkg/storage/driver/memory.go >"$ov/rewrite.log" 2>&1; then
    ( cd harness && go build -tags vsched -overlay "$ov/overlay.json" -o ../bin/verif-vsched ./cmd/verif ) >bin/build.log 2>&1 || fail_build
    ./bin/verif-vsched "$@"
    exit $?
  else
    echo "HARNESS-CANNOT-INSTRUMENT: $(tail -1 "$ov/rewrite.log")" >&2
    variant=plain   # the lock/goroutine-level parts report exhaustive:false
  fi
fi
( cd harness && go build -o ../bin/verif ./cmd/verif ) >bin/build.log 2>&1 || fail_build
./bin/verif "$@"
