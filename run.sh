#!/bin/bash
# Entry point for every registered command: rebuilds the harness from /repo's
# current working tree, then runs it.   ./run.sh check C10 --tier quick
# Checks that explore at lock/goroutine/channel granularity (C08 barrier, C09
# lock level) run in a build where the files under exploration are rewritten
# from the working tree and mounted with `go build -overlay` (nothing is
# written to /repo).
set -u
cd "$(dirname "$0")"
. ./env.sh
export VERIF_DIR="$(pwd)"
# The tree under test is /repo. VERIF_REPO overrides it ONLY for background experiments on a snapshot
# (vp run --with-repo); registered commands never set it.
REPO="${VERIF_REPO:-/repo}"
if [ "$REPO" != /repo ]; then ( cd harness && go mod edit -replace "helm.sh/helm/v4=$REPO" ); fi
mkdir -p bin evidence replays
cp "$REPO/go.sum" harness/go.sum 2>/dev/null
prop=""
case "${1:-}" in
  check) prop="${2:-}";;
  replay) prop=$(sed -n 's/.*"property": *"\([A-Z0-9]*\)".*/\1/p' "${2:-/dev/null}" | head -1);;
esac
variant=plain
case "$prop" in C08|C09) variant=vsched;; C05) variant=maporder;; esac
MAPORDER_PKGS="./pkg/engine ./pkg/action ./pkg/release/util ./pkg/chart/v2/util ./pkg/chart/v2/loader ./pkg/chart/v2 ./pkg/cli/values"
tier=quick
for a in "$@"; do case "$a" in thorough) tier=thorough;; esac; done
racepass() {
  # separate free-running pass under Go's race detector (see DESIGN.md §8.4): $1 = mode, $2 = iterations
  ( cd harness && go build -race -o ../bin/racepass ./cmd/racepass ) >bin/race-build.log 2>&1 || { echo '{"built":false}' >bin/racepass.json; return; }
  GORACE="exitcode=66 halt_on_error=0" ./bin/racepass "$1" "$2" >bin/racepass.out 2>&1
  rc=$?
  n=$(grep -c "WARNING: DATA RACE" bin/racepass.out)
  printf '{"built":true,"mode":"%s","iterations":%d,"exit_code":%d,"race_reports":%d,"output":"%s"}\n' "$1" "$2" "$rc" "$n" "$VERIF_DIR/bin/racepass.out" >bin/racepass.json
}
if [ "${1:-}" = check ] && { [ "$prop" = C09 ] || [ "$prop" = C05 ]; }; then
  mode=storage; [ "$prop" = C05 ] && mode=render
  iters=15; [ "$tier" = thorough ] && iters=60
  racepass $mode $iters
  export VERIF_RACEPASS="$VERIF_DIR/bin/racepass.json"
fi
if [ "${1:-}" = replay ] && { [ "$prop" = C09 ] || [ "$prop" = C05 ]; } && grep -q '"key": *"race|' "${2:-/dev/null}"; then
  ( cd harness && go build -race -o ../bin/racepass ./cmd/racepass ) >bin/race-build.log 2>&1
fi
fail_build() {
  # The tree under test does not build: nothing can be decided. Not an alarm.
  echo "HARNESS-BUILD-FAILED (see bin/build.log)" >&2
  tail -20 bin/build.log >&2
  exit 3
}
if [ "$variant" = vsched ]; then
  if [ ! -x bin/rewrite ] || [ tools/rewrite/main.go -nt bin/rewrite ]; then
    ( cd tools/rewrite && go build -o ../../bin/rewrite . ) >bin/build.log 2>&1 || fail_build
  fi
  ov=$(mktemp -d /var/tmp/verif-ov.XXXXXX)
  trap 'rm -rf "$ov"' EXIT
  if ./bin/rewrite -repo "$REPO" -out "$ov" -shim "$(pwd)/harness/shim" pkg/kube/client.go pkg/kube/wait.go pkg/storage/driver/memory.go >"$ov/rewrite.log" 2>&1; then
    ( cd harness && go build -tags vsched -overlay "$ov/overlay.json" -o ../bin/verif-vsched ./cmd/verif ) >bin/build.log 2>&1 || fail_build
    ./bin/verif-vsched "$@"
    exit $?
  else
    echo "HARNESS-CANNOT-INSTRUMENT: $(tail -1 "$ov/rewrite.log")" >&2
    variant=plain   # the lock/goroutine-level parts report exhaustive:false
  fi
fi
if [ "$variant" = maporder ]; then
  # C05: every range-over-map of the rendering packages becomes an explored choice
  if [ ! -x bin/maporder ] || [ tools/maporder/main.go -nt bin/maporder ]; then
    ( cd tools/maporder && go build -o ../../bin/maporder . ) >bin/build.log 2>&1 || fail_build
  fi
  ov=$(mktemp -d /var/tmp/verif-ov.XXXXXX)
  trap 'rm -rf "$ov"' EXIT
  if ( cd "$REPO" && "$VERIF_DIR/bin/maporder" -repo "$REPO" -out "$ov" -shim "$VERIF_DIR/harness/shim" $MAPORDER_PKGS ) >"$ov/maporder.log" 2>&1; then
    ( cd harness && go build -tags maporder -overlay "$ov/overlay.json" -o ../bin/verif-maporder ./cmd/verif ) >bin/build.log 2>&1 || fail_build
    cp "$ov/sites.json" bin/maporder-sites.json
    VERIF_MAPORDER_SITES="$VERIF_DIR/bin/maporder-sites.json" ./bin/verif-maporder "$@"
    exit $?
  else
    echo "HARNESS-CANNOT-INSTRUMENT: $(tail -1 "$ov/maporder.log")" >&2
  fi
fi
( cd harness && go build -o ../bin/verif ./cmd/verif ) >bin/build.log 2>&1 || fail_build
./bin/verif "$@"
