#!/usr/bin/env python3
# Validates MANIFEST.json and every evidence file against the schemas (run with python3-vt).
import json,sys,glob,jsonschema
m=json.load(open('/verif/MANIFEST.json')); jsonschema.validate(m,json.load(open('/root/.vp/MANIFEST.schema.json'))); print("manifest ok")
es=json.load(open('/root/.vp/EVIDENCE.schema.json'))
for f in sorted(glob.glob('/verif/evidence/*.json')):
    jsonschema.validate(json.load(open(f)),es); print(f,"ok")
