#!/bin/bash
# usage: LANE=<name> tools_seed_eval_lane.sh <worktree> <n> <pkgdir-for-demo> "<check ids>"
# Same confirmation as tools_seed_eval.sh, but the checks run in an isolated copy of /verif against a patched
# copy of a clean /repo worktree (/var/tmp/repo-clean), so that several lanes can run side by side and /repo
# itself is left alone. The lane's copy of /verif is made once per lane (remove /var/tmp/lane-<name>-verif to refresh).
set -u
wt=$1; n=$2; pkg=$3; checks=$4
. /verif/env.sh
snap=/var/tmp/lane-$LANE-repo; vdir=/var/tmp/lane-$LANE-verif
[ -d $vdir ] || rsync -a --exclude bin --exclude replays --exclude evidence --exclude .git --exclude seeded /verif/ $vdir/
cd "$wt" || exit 2
git checkout -q -- . ; git clean -qfd -e SEEDED
demo=SEEDED/demo${n}_test.go
cp "$demo" "$pkg/zz_seeded_demo_test.go"
run=$(grep -o 'func Test[A-Za-z0-9_]*' "$demo" | sed 's/func //' | paste -sd'|')
echo "== demo on clean tree (expect PASS)"; go test -count=1 -run "^($run)\$" "./$pkg/" 2>&1 | tail -3
git apply SEEDED/change${n}.diff || { echo "APPLY FAILED"; exit 2; }
echo "== build with change"; go build ./... 2>&1 | tail -3
echo "== demo with change (expect FAIL)"; go test -count=1 -run "^($run)\$" "./$pkg/" 2>&1 | tail -5
rm -f "$pkg/zz_seeded_demo_test.go"
echo "== existing tests of touched packages with change"
pkgs=$(git diff --name-only | xargs -n1 dirname | sort -u | sed 's#^#./#' | paste -sd' ')
go test -count=1 $pkgs ./pkg/action/ ./pkg/storage/... 2>&1 | grep -E "^(ok|FAIL|---)" | head -20
git checkout -q -- . ; git clean -qfd -e SEEDED
echo "== my checks on a patched copy of the clean tree (lane $LANE)"
rm -rf $snap; rsync -a --exclude .git /var/tmp/repo-clean/ $snap/ && (cd $snap && patch -p1 -s < "$wt/SEEDED/change${n}.diff") || { echo "APPLY TO SNAPSHOT FAILED"; exit 2; }
cd $vdir
for c in $checks; do
  VERIF_REPO=$snap ./run.sh check $c --tier quick > /var/tmp/seed-eval-$LANE-$c.log 2>&1; rc=$?
  echo "check $c exit=$rc: $(grep -c '^VIOLATION' /var/tmp/seed-eval-$LANE-$c.log) VIOLATION lines"; grep -E '^violation' /var/tmp/seed-eval-$LANE-$c.log | cut -c1-300 | head -4; grep -E '^check' /var/tmp/seed-eval-$LANE-$c.log
done
rm -rf $snap $vdir/replays/*/ 2>/dev/null
