#!/usr/bin/env python3
# usage: tools_register.py CNN category engine "<text>" "<note>" "<technique>"   — adds/replaces a MANIFEST check entry and links the package in checks/all.go
import json,sys,re
pid,cat,engine,text,note,tech=sys.argv[1:7]
m=json.load(open('/verif/MANIFEST.json'))
m['checks']=[c for c in m['checks'] if c['property_id']!=pid]
m['checks'].append({"property_id":pid,"quick_cmd":f"./run.sh check {pid} --tier quick","thorough_cmd":f"./run.sh check {pid} --tier thorough","evidence_file":f"evidence/{pid}.json","replay_cmd_template":"./run.sh replay {path}","engine":engine,"level_claimed":{"category":cat,"text":text,"design_ref":f"DESIGN.md §3 {pid}"},"level_note":note,"technique":tech})
m['checks'].sort(key=lambda c:c['property_id'])
for e in m['engines']:
    if e['name']=='core' and pid not in e['serves_properties']:
        e['serves_properties'].append(pid); e['serves_properties'].sort()
json.dump(m,open('/verif/MANIFEST.json','w'),indent=1)
p='/verif/harness/checks/all.go'
s=open(p).read()
imp=f'\t_ "verif/harness/checks/{pid.lower()}"\n'
if imp not in s:
    lines=[l for l in s.split('\n') if l.startswith('\t_ "verif/harness/checks/')]
    lines.append(imp.rstrip('\n')); lines=sorted(set(lines))
    s=re.sub(r'import \(\n(.*?)\)', 'import (\n'+'\n'.join(lines)+'\n)', s, flags=re.S)
    open(p,'w').write(s)
print("registered",pid)
