#!/usr/bin/env python3
"""Regenerates the table of DESIGN.md §8.5 from seeded/*/meta.json (between the markers)."""
import json, glob, re, os
rows=[]
def key(p):
    m=re.match(r".*/C(\d+)-(\d+)$", p); return (int(m.group(1)), int(m.group(2)))
for d in sorted([d for d in glob.glob("/verif/seeded/C*-*") if re.match(r".*/C\d+-\d+$", d)], key=key):
    m=json.load(open(d+"/meta.json"))
    hist=m.get("history","")
    missed = hist.upper().startswith("MISSED") or "MISSED" in hist[:40]
    verdict=("**missed at first** → " if missed else "")+ (re.sub(r"^MISSED[^:;(]*[:;]?\s*","",hist) if missed else hist or "caught")
    res=m.get("result","")
    def esc(s): return s.replace("|","\\|").replace("\n"," ")
    rows.append(f"| {m['id']} | {esc(m['what_it_breaks'])} | {esc(m['needs_to_manifest'])} | {esc(verdict)} — {esc(res)} |")
table="| id | change | needs | verdict — what fires |\n|---|---|---|---|\n"+"\n".join(rows)
p="/verif/DESIGN.md"; s=open(p).read()
a="<!-- SEEDED-TABLE-BEGIN -->"; b="<!-- SEEDED-TABLE-END -->"
if a in s:
    s=s[:s.index(a)+len(a)]+"\n"+table+"\n"+s[s.index(b):]
    open(p,"w").write(s)
n=len(rows); missed=sum(1 for r in rows if "missed at first" in r)
print(f"{n} seeded changes, {missed} missed at first")
