#!/usr/bin/env python3
"""tools_manifest_append.py CNN "sentence(s) appended to level_claimed.text" ["sentence appended to level_note"]  (idempotent per sentence)"""
import json, sys
m=json.load(open('/verif/MANIFEST.json'))
cid, add = sys.argv[1], sys.argv[2]
note = sys.argv[3] if len(sys.argv) > 3 else ""
for c in m['checks']:
    if c['property_id']==cid:
        if add and add not in c['level_claimed']['text']:
            c['level_claimed']['text']=c['level_claimed']['text'].rstrip()+" "+add
        if note and note not in c.get('level_note',''):
            c['level_note']=(c.get('level_note','').rstrip()+" "+note).strip()
json.dump(m,open('/verif/MANIFEST.json','w'),indent=1)
print("ok", cid)
