#!/bin/bash
# Run once after a fresh restore, offline: builds the tools and warms the Go
# build cache so that later per-check rebuilds are incremental.
set -u
cd "$(dirname "$0")"
. ./env.sh
mkdir -p bin evidence replays
cp /repo/go.sum harness/go.sum
( cd tools/rewrite && go build -o ../../bin/rewrite . ) || exit 1
( cd tools/maporder && go build -o ../../bin/maporder . ) || exit 1
( cd harness && go build -o ../bin/verif ./cmd/verif ) || exit 1
ov=$(mktemp -d /var/tmp/verif-ov.XXXXXX)
./bin/rewrite -out "$ov" -shim "$(pwd)/harness/shim" pkg/kube/client.go pkg/kube/wait.go pkg/storage/driver/memory.go >/dev/null \
  && ( cd harness && go build -tags vsched -overlay "$ov/overlay.json" -o ../bin/verif-vsched ./cmd/verif )
rc=$?
rm -rf "$ov"
[ $rc -eq 0 ] || exit 1
( cd harness && go build -race -o ../bin/racepass ./cmd/racepass ) || echo "note: -race build failed; the race pass will be skipped"
./bin/verif list
