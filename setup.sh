#!/bin/bash
# Run once after a fresh restore, offline: warms the Go build cache so that
# later per-check rebuilds are incremental.
set -u
cd "$(dirname "$0")"
. ./env.sh
mkdir -p bin evidence replays
cp /repo/go.sum harness/go.sum
( cd harness && go build -o ../bin/verif ./cmd/verif ) || exit 1
./bin/verif list
