// Package vorder makes Go's map iteration order an explored choice. It is
// mounted into the Helm module as a virtual package (go build -overlay)
// together with copies of the source files in which every `range` over a map
// has been rewritten to `range vorder.Seq2(m, site)`.
//
// Inactive (no plan installed): iteration uses the runtime's own order, i.e.
// the instrumented binary behaves like the original. Active: keys are
// snapshotted and sorted; the explorer's plan maps the index of a dynamic
// occurrence (counted among occurrences over maps with >= 2 keys) to a
// permutation number; all other occurrences iterate in sorted order.
package vorder

import (
	"fmt"
	"iter"
	"sort"
	"sync"
)

// Occ is one dynamic range-over-map occurrence of an execution.
type Occ struct {
	Site string `json:"site"`
	N    int    `json:"n"`
}

var (
	mu     sync.Mutex
	active bool
	plan   map[int]int
	occs   []Occ
)

// Begin activates the seam with a plan (occurrence index -> permutation number).
func Begin(p map[int]int) {
	mu.Lock()
	active, plan, occs = true, p, nil
	mu.Unlock()
}

// End deactivates the seam and returns the occurrences seen.
func End() []Occ {
	mu.Lock()
	defer mu.Unlock()
	active = false
	o := occs
	occs, plan = nil, nil
	return o
}

// Perms returns how many permutations are explored for n keys: n! for n <= 4,
// otherwise the n rotations plus the reversal.
func Perms(n int) int {
	switch {
	case n < 2:
		return 1
	case n <= 4:
		f := 1
		for i := 2; i <= n; i++ {
			f *= i
		}
		return f
	}
	return n + 1
}

// permute returns the p-th order of n sorted positions (p = 0 is the identity).
func permute(n, p int) []int {
	idx := make([]int, n)
	for i := range idx {
		idx[i] = i
	}
	if p == 0 || n < 2 {
		return idx
	}
	if n <= 4 {
		// p-th permutation in lexicographic order (factorial number system)
		avail := append([]int{}, idx...)
		out := make([]int, 0, n)
		f := 1
		for i := 2; i < n; i++ {
			f *= i
		}
		rem := p
		for i := n - 1; i >= 0; i-- {
			q := rem / f
			rem = rem % f
			out = append(out, avail[q])
			avail = append(avail[:q], avail[q+1:]...)
			if i > 0 {
				f /= max(i, 1)
			}
		}
		return out
	}
	if p == n { // reversal
		for i := range idx {
			idx[i] = n - 1 - i
		}
		return idx
	}
	for i := range idx { // rotation by p
		idx[i] = (i + p) % n
	}
	return idx
}

// Seq2 iterates m in the order chosen by the explorer.
func Seq2[M ~map[K]V, K comparable, V any](m M, site string) iter.Seq2[K, V] {
	return func(yield func(K, V) bool) {
		mu.Lock()
		on := active
		mu.Unlock()
		if !on {
			for k, v := range m {
				if !yield(k, v) {
					return
				}
			}
			return
		}
		keys := make([]K, 0, len(m))
		for k := range m {
			keys = append(keys, k)
		}
		sort.Slice(keys, func(i, j int) bool { return fmt.Sprint(keys[i]) < fmt.Sprint(keys[j]) })
		p := 0
		if len(keys) >= 2 {
			mu.Lock()
			n := len(occs)
			occs = append(occs, Occ{Site: site, N: len(keys)})
			// a deviation elsewhere may have changed which map this occurrence ranges over:
			// reduce the planned permutation number to the permutations this map has
			p = plan[n] % Perms(len(keys))
			mu.Unlock()
		}
		for _, i := range permute(len(keys), p) {
			k := keys[i]
			v, ok := m[k]
			if !ok {
				continue // deleted during iteration: not produced, as in Go
			}
			if !yield(k, v) {
				return
			}
		}
	}
}
