// Package vsched is a cooperative, deterministic scheduler for exhaustive
// exploration of interleavings at lock / goroutine / channel granularity.
// It is mounted into the Helm module as a virtual package (go build -overlay)
// together with rewritten copies of the files under exploration, whose `sync`
// import, `go` statements and channel operations are redirected here.
//
// When no exploration is active every primitive falls through to the real
// one, so an instrumented binary behaves like the original outside Run.
package vsched

import (
	"fmt"
	"reflect"
	"sync"
	"time"
)

type opKind int

const (
	opReady opKind = iota // always enabled (spawn, explicit yield, after rendezvous)
	opLock
	opRLock
	opWait
	opSend
	opRecv
)

type thread struct {
	id    int
	grant chan struct{}
	kind  opKind
	obj   any     // *MutexModel | *WGModel | chan id
	val   any     // value being sent / received
	tag   string  // human readable
	done  bool
}

// MutexModel is the model state of a (RW)mutex.
type MutexModel struct {
	Writer  bool
	Readers int
}

// WGModel is the model state of a WaitGroup.
type WGModel struct{ N int }

type sched struct {
	threads []*thread
	cur     *thread
	ev      chan *thread // a thread parked or finished
	trace   []string
	aborted bool
}

var (
	active   *sched
	activeMu sync.Mutex
)

// Active reports whether an exploration is running.
func Active() bool { activeMu.Lock(); defer activeMu.Unlock(); return active != nil }

func get() *sched { activeMu.Lock(); defer activeMu.Unlock(); return active }

func (s *sched) park(k opKind, obj any, val any, tag string) any {
	t := s.cur
	t.kind, t.obj, t.val, t.tag = k, obj, val, tag
	s.ev <- t
	<-t.grant
	if s.aborted {
		panic(abortPanic{})
	}
	return t.val
}

type abortPanic struct{}

// Go starts f as a new scheduled thread (or a plain goroutine when inactive).
func Go(f func()) {
	s := get()
	if s == nil {
		go f()
		return
	}
	t := &thread{id: len(s.threads), grant: make(chan struct{}), kind: opReady, tag: "start"}
	s.threads = append(s.threads, t)
	go func() {
		<-t.grant
		defer func() {
			if p := recover(); p != nil {
				if _, ok := p.(abortPanic); !ok {
					s.trace = append(s.trace, fmt.Sprintf("T%d PANIC %v", t.id, p))
				}
			}
			t.done = true
			s.ev <- t
		}()
		if !s.aborted {
			f()
		}
	}()
	// spawning is a scheduling point: the child may run before the parent continues
	s.park(opReady, nil, nil, "go")
}

// Yield is an explicit scheduling point (used by harness callbacks).
func Yield(tag string) {
	if s := get(); s != nil {
		s.park(opReady, nil, nil, tag)
	}
}

func chanID(ch any) uintptr { return reflect.ValueOf(ch).Pointer() }

// Send models `ch <- v` on an unbuffered channel.
func Send[T any](ch chan<- T, v T) {
	s := get()
	if s == nil {
		ch <- v
		return
	}
	s.park(opSend, chanID(ch), any(v), "send")
}

// Recv models `<-ch` on an unbuffered channel.
func Recv[T any](ch <-chan T) T {
	s := get()
	if s == nil {
		return <-ch
	}
	v := s.park(opRecv, chanID(ch), nil, "recv")
	if v == nil {
		var zero T
		return zero
	}
	return v.(T)
}

// LockPoint / RLockPoint / WaitPoint are used by vsync.
func LockPoint(m *MutexModel) bool {
	s := get()
	if s == nil {
		return false
	}
	s.park(opLock, m, nil, "lock")
	return true
}
func RLockPoint(m *MutexModel) bool {
	s := get()
	if s == nil {
		return false
	}
	s.park(opRLock, m, nil, "rlock")
	return true
}
func WaitPoint(w *WGModel) bool {
	s := get()
	if s == nil {
		return false
	}
	s.park(opWait, w, nil, "wg.wait")
	return true
}

// enabled reports whether t's pending operation can proceed now.
func (s *sched) enabled(t *thread) bool {
	if t.done {
		return false
	}
	switch t.kind {
	case opReady:
		return true
	case opLock:
		m := t.obj.(*MutexModel)
		return !m.Writer && m.Readers == 0
	case opRLock:
		return !t.obj.(*MutexModel).Writer
	case opWait:
		return t.obj.(*WGModel).N == 0
	case opSend:
		return s.partner(t, opRecv) != nil
	case opRecv:
		return s.partner(t, opSend) != nil
	}
	return false
}

func (s *sched) partner(t *thread, k opKind) *thread {
	for _, u := range s.threads {
		if u != t && !u.done && u.kind == k && u.obj == t.obj {
			return u
		}
	}
	return nil
}

// fire performs the model effect of t's pending operation.
func (s *sched) fire(t *thread) {
	switch t.kind {
	case opLock:
		t.obj.(*MutexModel).Writer = true
	case opRLock:
		t.obj.(*MutexModel).Readers++
	case opSend:
		r := s.partner(t, opRecv)
		r.val = t.val
		r.kind, r.obj = opReady, nil
	case opRecv:
		w := s.partner(t, opSend)
		t.val = w.val
		w.kind, w.obj = opReady, nil
	}
	t.kind, t.obj = opReady, nil
}

// Execution is the record of one complete (or deadlocked) run.
type Execution struct {
	Choices  []int
	Trace    []string
	Deadlock bool
	Stuck    bool
	// per scheduling point, for the explorer
	points []point
}

type point struct {
	enabled        []int
	runningEnabled bool
	chosen         int
}

// RunOnce executes body under the scheduler following the given choices
// (thread ids); beyond them the default policy applies: keep running the
// current thread if it is enabled, else the lowest enabled id.
func RunOnce(body func(), choices []int) (*Execution, error) {
	s := &sched{ev: make(chan *thread)}
	activeMu.Lock()
	if active != nil {
		activeMu.Unlock()
		return nil, fmt.Errorf("vsched: nested exploration")
	}
	active = s
	activeMu.Unlock()
	defer func() { activeMu.Lock(); active = nil; activeMu.Unlock() }()

	ex := &Execution{}
	main := &thread{id: 0, grant: make(chan struct{}), kind: opReady, tag: "main"}
	s.threads = append(s.threads, main)
	go func() {
		<-main.grant
		defer func() {
			if p := recover(); p != nil {
				if _, ok := p.(abortPanic); !ok {
					s.trace = append(s.trace, fmt.Sprintf("T0 PANIC %v", p))
				}
			}
			main.done = true
			s.ev <- main
		}()
		body()
	}()
	running := -1
	for i := 0; ; i++ {
		var en []int
		allDone := true
		for _, t := range s.threads {
			if !t.done {
				allDone = false
			}
			if s.enabled(t) {
				en = append(en, t.id)
			}
		}
		if allDone {
			break
		}
		if len(en) == 0 {
			ex.Deadlock = true
			s.abort()
			break
		}
		runningEnabled := false
		for _, e := range en {
			if e == running {
				runningEnabled = true
			}
		}
		order := en
		if runningEnabled {
			order = []int{running}
			for _, e := range en {
				if e != running {
					order = append(order, e)
				}
			}
		}
		pick := order[0]
		if i < len(choices) {
			ok := false
			for _, e := range en {
				if e == choices[i] {
					ok = true
				}
			}
			if !ok {
				s.abort()
				return nil, fmt.Errorf("vsched: replay diverged at point %d: thread %d not enabled %v", i, choices[i], en)
			}
			pick = choices[i]
		}
		ex.points = append(ex.points, point{enabled: order, runningEnabled: runningEnabled, chosen: pick})
		ex.Choices = append(ex.Choices, pick)
		t := s.threads[pick]
		ex.Trace = append(ex.Trace, fmt.Sprintf("T%d:%s", pick, t.tag))
		s.fire(t)
		s.cur = t
		running = pick
		t.grant <- struct{}{}
		select {
		case <-s.ev:
		case <-time.After(30 * time.Second):
			ex.Stuck = true
			s.abort()
			return ex, fmt.Errorf("vsched: thread %d neither parked nor finished (un-instrumented blocking?)", pick)
		}
	}
	ex.Trace = append(ex.Trace, s.trace...)
	return ex, nil
}

// abort releases every parked thread; they unwind with a panic that is
// swallowed in the thread wrapper.
func (s *sched) abort() {
	s.aborted = true
	for _, t := range s.threads {
		if t.done {
			continue
		}
		go func(t *thread) {
			select {
			case t.grant <- struct{}{}:
			case <-time.After(5 * time.Second):
			}
		}(t)
	}
	deadline := time.After(10 * time.Second)
	for {
		left := 0
		for _, t := range s.threads {
			if !t.done {
				left++
			}
		}
		if left == 0 {
			return
		}
		select {
		case <-s.ev:
		case <-deadline:
			return
		}
	}
}

// Stats of an exploration.
type Stats struct {
	Executions int
	Points     int
	MaxPoints  int
	Deadlocks  int
	Capped     bool
}

// Explore runs body under every schedule with at most `bound` preemptions
// (bound < 0 = unbounded). mk must build a fresh closed system each time and
// return the body plus a function called after the execution to judge it.
func Explore(mk func() (body func(), after func(ex *Execution)), bound int, maxExec int, stop *bool) (Stats, error) {
	var st Stats
	stack := [][]int{nil}
	for len(stack) > 0 {
		if maxExec > 0 && st.Executions >= maxExec {
			st.Capped = true
			return st, nil
		}
		if stop != nil && *stop {
			return st, nil // a violation was found: the caller has what it needs
		}
		prefix := stack[len(stack)-1]
		stack = stack[:len(stack)-1]
		body, after := mk()
		ex, err := RunOnce(body, prefix)
		if err != nil {
			return st, err
		}
		st.Executions++
		st.Points += len(ex.points)
		if len(ex.points) > st.MaxPoints {
			st.MaxPoints = len(ex.points)
		}
		if ex.Deadlock {
			st.Deadlocks++
		}
		after(ex)
		// alternatives after the prefix
		preempt := 0
		running := -1
		for i, p := range ex.points {
			if i >= len(prefix) {
				for _, alt := range p.enabled[1:] {
					if alt == p.chosen {
						continue
					}
					cost := preempt
					if p.runningEnabled {
						cost++
					}
					if bound >= 0 && cost > bound {
						continue
					}
					np := append(append([]int{}, ex.Choices[:i]...), alt)
					stack = append(stack, np)
				}
			}
			if p.runningEnabled && p.chosen != running {
				preempt++
			}
			running = p.chosen
		}
	}
	return st, nil
}
