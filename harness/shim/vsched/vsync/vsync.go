// Package vsync mirrors the parts of package sync used by the files under
// exploration; Mutex, RWMutex and WaitGroup are routed through the vsched
// scheduler when an exploration is active and to the real primitives
// otherwise.
package vsync

import (
	"sync"

	"helm.sh/helm/v4/pkg/vsched"
)

type (
	Once   = sync.Once
	Map    = sync.Map
	Pool   = sync.Pool
	Locker = sync.Locker
	Cond   = sync.Cond
)

type Mutex struct {
	real  sync.Mutex
	model vsched.MutexModel
}

func (m *Mutex) Lock() {
	if vsched.LockPoint(&m.model) {
		return
	}
	m.real.Lock()
}

func (m *Mutex) Unlock() {
	if vsched.Active() {
		m.model.Writer = false
		return
	}
	m.real.Unlock()
}

type RWMutex struct {
	real  sync.RWMutex
	model vsched.MutexModel
}

func (m *RWMutex) Lock() {
	if vsched.LockPoint(&m.model) {
		return
	}
	m.real.Lock()
}
func (m *RWMutex) Unlock() {
	if vsched.Active() {
		m.model.Writer = false
		return
	}
	m.real.Unlock()
}
func (m *RWMutex) RLock() {
	if vsched.RLockPoint(&m.model) {
		return
	}
	m.real.RLock()
}
func (m *RWMutex) RUnlock() {
	if vsched.Active() {
		m.model.Readers--
		return
	}
	m.real.RUnlock()
}

type WaitGroup struct {
	real  sync.WaitGroup
	model vsched.WGModel
}

func (w *WaitGroup) Add(n int) {
	if vsched.Active() {
		w.model.N += n
		return
	}
	w.real.Add(n)
}
func (w *WaitGroup) Done() { w.Add(-1) }
func (w *WaitGroup) Wait() {
	if vsched.WaitPoint(&w.model) {
		return
	}
	w.real.Wait()
}
