package c20

import (
	"bytes"
	"encoding/json"
	"errors"
	"fmt"
	"os"
	"strings"
	"time"

	"helm.sh/helm/v4/pkg/ignore"
	"helm.sh/helm/v4/pkg/strvals"

	"verif/harness/internal/core"
)

// ---------------------------------------------------------------------------
// string entry points: every string up to a length bound over an alphabet is
// fed to a set of functions.

type strFunc struct {
	Name string
	Fn   func(s string) error
}

type strEntry struct {
	name     string
	alphabet []string // tokens (usually single characters)
	maxLen   func(thorough bool) int
	extra    func(thorough bool) []string // explicit additional inputs (appended after the enumeration)
	funcs    []strFunc
	floors   []string
	batch    int64

	extraMemo map[bool][]string
}

func (s *strEntry) extras(thorough bool) []string {
	if s.extraMemo == nil {
		s.extraMemo = map[bool][]string{}
	}
	if x, ok := s.extraMemo[thorough]; ok {
		return x
	}
	x := s.extra(thorough)
	s.extraMemo[thorough] = x
	return x
}

func (s *strEntry) Name() string     { return s.name }
func (s *strEntry) Floors() []string { return s.floors }

// count of strings of length <= n
func (s *strEntry) total(n int) int64 {
	var t, p int64 = 0, 1
	for l := 0; l <= n; l++ {
		t += p
		p *= int64(len(s.alphabet))
	}
	return t
}

// nth returns the idx-th string in length-then-lexicographic order.
func (s *strEntry) nth(idx int64) string {
	k := int64(len(s.alphabet))
	l := 0
	p := int64(1)
	for idx >= p {
		idx -= p
		p *= k
		l++
	}
	toks := make([]string, l)
	for i := l - 1; i >= 0; i-- {
		toks[i] = s.alphabet[idx%k]
		idx /= k
	}
	return strings.Join(toks, "")
}

func (s *strEntry) input(idx, enumTotal int64, extra []string) string {
	if idx < enumTotal {
		return s.nth(idx)
	}
	return extra[idx-enumTotal]
}

type strBatchStats struct {
	Strings int64            `json:"strings"`
	SomeOK  int64            `json:"some_ok"`
	AllErr  int64            `json:"all_err"`
	Calls   map[string]int64 `json:"calls"` // "<func>:ok" / "<func>:error"
}

type strBad struct {
	Input string `json:"input"`
	Res   res    `json:"res"`
}

// Serve runs the strings [From,To) through every function.
func (s *strEntry) Serve(e *env, req request) {
	thorough := os.Getenv("C20_TIER") == "thorough"
	enumTotal := s.total(s.maxLen(thorough))
	extra := s.extras(thorough)
	st := strBatchStats{Calls: map[string]int64{}}
	// one announced stage per request: the driver bisects a batch that dies
	e.g.do(fmt.Sprintf("batch[%d,%d)", req.From, req.To), func() res {
		for idx := req.From; idx < req.To; idx++ {
			in := s.input(idx, enumTotal, extra)
			anyOK := false
			for _, f := range s.funcs {
				r := call(f.Name, func() error { return f.Fn(in) })
				st.Calls[f.Name+":"+r.Kind]++
				if r.Kind == "ok" {
					anyOK = true
				}
				if r.bad() {
					b, _ := json.Marshal(strBad{Input: in, Res: r})
					e.g.emit.WriteString("X ")
					e.g.emit.Write(b)
					e.g.emit.WriteString("\n")
				}
			}
			st.Strings++
			if anyOK {
				st.SomeOK++
			} else {
				st.AllErr++
			}
		}
		return res{Stage: "batch", Kind: "ok"}
	})
	b, _ := json.Marshal(st)
	e.g.emit.WriteString("X ")
	e.g.emit.Write(b)
	e.g.emit.WriteString("\n")
}

func (s *strEntry) keyFor(r res) string {
	return core.SanitizeKey(fmt.Sprintf("%s/%s/%s", s.name, r.kindKey(), r.whereStr()))
}

// whereStr: for string entry points the class of a failure is the panicking
// Helm function (one defect reached through all forty call variants is one
// key); without a panic site, the function family that was called.
func (r res) whereStr() string {
	if r.Kind == "panic" && r.Site != "" {
		return "in:" + r.Site
	}
	fam := r.Stage
	if i := strings.IndexByte(fam, '/'); i >= 0 {
		fam = fam[:i]
	}
	return "call:" + fam
}

func (s *strEntry) violation(in string, r res) core.Violation {
	rd := replayData{Entry: s.name, Input: &in}
	what := fmt.Sprintf("%s: %s(%q) %s", s.name, r.Stage, in, r.Detail)
	if r.Site != "" && r.Kind == "panic" {
		what += " in " + r.Site
	}
	return core.Violation{Property: prop, Key: s.keyFor(r), What: firstLine(what, 600), Replay: []byte(mustJSON(rd))}
}

func (s *strEntry) Explore(e *env) {
	c := e.c
	thorough := c.Thorough()
	n := s.maxLen(thorough)
	enumTotal := s.total(n)
	extra := s.extras(thorough)
	total := enumTotal + int64(len(extra))
	c.Bound(s.name+"_alphabet", strings.Join(s.alphabet, " "))
	c.Bound(s.name+"_max_length", fmt.Sprint(n))
	c.Bound(s.name+"_strings", fmt.Sprint(total))
	c.Bound(s.name+"_functions", fmt.Sprint(len(s.funcs)))
	batch := s.batch
	if batch == 0 {
		batch = 2048
	}
	seenKey := map[string]int{}
	for from := int64(0); from < total; from += batch {
		if !c.NextMine() {
			continue
		}
		if e.overBudget() {
			return
		}
		to := from + batch
		if to > total {
			to = total
		}
		s.runRange(e, from, to, enumTotal, extra, seenKey)
	}
}

// runRange executes [from,to) in the case server; a range that kills or hangs
// the child is split until the single responsible input is found.
func (s *strEntry) runRange(e *env, from, to, enumTotal int64, extra []string, seenKey map[string]int) {
	c := e.c
	rd := replayData{Entry: s.name}
	first := s.input(from, enumTotal, extra)
	rd.Input = &first
	c.Mark(mustJSON(rd))
	rep := e.remote.do(request{Entry: s.name, From: from, To: to})
	var died *res
	for i := range rep.results {
		if rep.results[i].bad() {
			died = &rep.results[i]
		}
	}
	if died != nil {
		if to-from > 1 {
			mid := (from + to) / 2
			s.runRange(e, from, mid, enumTotal, extra, seenKey)
			s.runRange(e, mid, to, enumTotal, extra, seenKey)
			return
		}
		in := s.input(from, enumTotal, extra)
		r := *died
		r.Stage = "any"
		c.Eval(1)
		c.Distinct(s.name + "|" + in)
		c.Outcome(s.name + ":" + r.Kind)
		v := s.violation(in, r)
		c.Violate(v.Property, v.Key, v.What, jsonRaw(v.Replay))
		return
	}
	for _, x := range rep.extra {
		var bad strBad
		if json.Unmarshal(x, &bad) == nil && bad.Res.Kind != "" {
			v := s.violation(bad.Input, bad.Res)
			seenKey[v.Key]++
			c.Violate(v.Property, v.Key, v.What, jsonRaw(v.Replay))
			c.Outcome(s.name + ":" + bad.Res.Kind)
			continue
		}
		var st strBatchStats
		if json.Unmarshal(x, &st) == nil && st.Calls != nil {
			c.Eval(st.Strings)
			for k, n := range st.Calls {
				c.Count(s.name+"_call_"+k, n)
			}
			for i := int64(0); i < st.SomeOK; i++ {
				c.Outcome(s.name + ":accepted-by-some-function")
			}
			for i := int64(0); i < st.AllErr; i++ {
				c.Outcome(s.name + ":rejected-by-all")
			}
			if st.SomeOK > 0 {
				c.Floor(s.name + ":accept")
			}
			if st.AllErr > 0 {
				c.Floor(s.name + ":reject")
			}
		}
	}
	for idx := from; idx < to; idx++ {
		in := s.input(idx, enumTotal, extra)
		c.Distinct(s.name + "|" + in)
		if idx%100003 == 7 {
			c.Sample(map[string]any{"entry": s.name, "input": in, "functions": len(s.funcs), "outcome": "every function returned (ok or error)"})
		}
	}
}

// RunOne re-runs one recorded input (through the case server of e).
func (s *strEntry) RunOne(e *env, rd replayData) []core.Violation {
	if rd.Input == nil {
		return nil
	}
	// find the index of the input: replay sends the literal string instead
	var out []core.Violation
	rep := e.remote.doLiteral(s.name, *rd.Input)
	for i := range rep.results {
		if rep.results[i].bad() {
			r := rep.results[i]
			r.Stage = "any"
			out = append(out, s.violation(*rd.Input, r))
		}
	}
	for _, x := range rep.extra {
		var bad strBad
		if json.Unmarshal(x, &bad) == nil && bad.Res.Kind != "" {
			out = append(out, s.violation(bad.Input, bad.Res))
		}
	}
	return out
}

// ServeLiteral runs one literal input (replay).
func (s *strEntry) ServeLiteral(e *env, in string) {
	e.g.do("literal", func() res {
		for _, f := range s.funcs {
			r := call(f.Name, func() error { return f.Fn(in) })
			if r.bad() {
				b, _ := json.Marshal(strBad{Input: in, Res: r})
				e.g.emit.WriteString("X ")
				e.g.emit.Write(b)
				e.g.emit.WriteString("\n")
			}
		}
		return res{Stage: "literal", Kind: "ok"}
	})
}

// ---------------------------------------------------------------------------
// strvals

// destinations that --set style parsers write into (values files are parsed
// first, then every --set flag is applied on top)
func strvalsDests() []func() map[string]interface{} {
	m := func(kv ...interface{}) map[string]interface{} {
		out := map[string]interface{}{}
		for i := 0; i+1 < len(kv); i += 2 {
			out[kv[i].(string)] = kv[i+1]
		}
		return out
	}
	return []func() map[string]interface{}{
		func() map[string]interface{} { return m() },
		func() map[string]interface{} { return m("a", "s", "0", "s", "-", "s", "aa", "s") },
		func() map[string]interface{} { return m("a", nil, "0", nil) },
		func() map[string]interface{} {
			return m("a", []interface{}{"x", nil, m("a", "y"), []interface{}{"z"}}, "0", []interface{}{})
		},
		func() map[string]interface{} {
			return m("a", m("a", m("a", "deep"), "0", []interface{}{int64(1)}), "0", m("a", "s"))
		},
		func() map[string]interface{} {
			return m("a", []interface{}{[]interface{}{[]interface{}{"n"}}, "s"}, "0", int64(7), "-", true)
		},
		func() map[string]interface{} {
			return m("a", json.Number("1"), "0", 1.5, "-", []string{"typed"}, "aa", map[string]string{"typed": "map"})
		},
	}
}

var errReader = errors.New("reader refused")

func newStrvalsEntry() *strEntry {
	dests := strvalsDests()
	readers := []strvals.RunesValueReader{
		func(rs []rune) (interface{}, error) { return string(rs), nil },
		func(rs []rune) (interface{}, error) { return nil, errReader },
		func(rs []rune) (interface{}, error) { return map[string]interface{}{"from": "file"}, nil },
	}
	var fs []strFunc
	add := func(name string, fn func(s string) error) { fs = append(fs, strFunc{Name: name, Fn: fn}) }
	add("Parse", func(s string) error { _, err := strvals.Parse(s); return err })
	add("ParseString", func(s string) error { _, err := strvals.ParseString(s); return err })
	add("ParseLiteral", func(s string) error { _, err := strvals.ParseLiteral(s); return err })
	add("ToYAML", func(s string) error { _, err := strvals.ToYAML(s); return err })
	for ri, rd := range readers {
		rd := rd
		add(fmt.Sprintf("ParseFile/reader%d", ri), func(s string) error { _, err := strvals.ParseFile(s, rd); return err })
	}
	for di, mk := range dests {
		mk := mk
		add(fmt.Sprintf("ParseInto/dest%d", di), func(s string) error { return strvals.ParseInto(s, mk()) })
		add(fmt.Sprintf("ParseIntoString/dest%d", di), func(s string) error { return strvals.ParseIntoString(s, mk()) })
		add(fmt.Sprintf("ParseJSON/dest%d", di), func(s string) error { return strvals.ParseJSON(s, mk()) })
		add(fmt.Sprintf("ParseLiteralInto/dest%d", di), func(s string) error { return strvals.ParseLiteralInto(s, mk()) })
		add(fmt.Sprintf("ParseIntoFile/dest%d", di), func(s string) error { return strvals.ParseIntoFile(s, mk(), readers[di%len(readers)]) })
	}
	// applying two flags in sequence on the same destination
	add("ParseInto-twice", func(s string) error {
		d := map[string]interface{}{}
		err1 := strvals.ParseInto(s, d)
		err2 := strvals.ParseInto(s, d)
		err3 := strvals.ParseJSON(s, d)
		err4 := strvals.ParseLiteralInto(s, d)
		if err1 != nil {
			return err1
		}
		if err2 != nil {
			return err2
		}
		if err3 != nil {
			return err3
		}
		return err4
	})
	return &strEntry{
		name:     "strvals",
		alphabet: []string{"a", ".", "=", ",", "[", "]", "{", "}", "\\", "0", "-"},
		maxLen: func(thorough bool) int {
			if thorough {
				return 6
			}
			return 5
		},
		extra:  strvalsExtra,
		funcs:  fs,
		floors: []string{"strvals:accept", "strvals:reject"},
		batch:  2048,
	}
}

// strvalsExtra: index and nesting limits, which need longer inputs than the
// enumeration reaches: every enumerated string of length <= 4 containing a "0"
// with that "0" replaced by each limit value, plus nesting chains.
func strvalsExtra(thorough bool) []string {
	se := &strEntry{alphabet: []string{"a", ".", "=", ",", "[", "]", "{", "}", "\\", "0", "-"}}
	n := 4 // (a valid index of 65535 allocates 1 MB per call: the base set stays small in both tiers)
	_ = thorough
	limits := []string{"65535", "65536", "65537", "4294967296", "9223372036854775807", "9223372036854775808", "99999999999999999999", "0x10", "1e3", "+1", "00", " 1", "１"}
	var out []string
	t := se.total(n)
	for i := int64(0); i < t; i++ {
		s := se.nth(i)
		if !strings.Contains(s, "0") || !strings.Contains(s, "[") {
			continue
		}
		for _, l := range limits {
			out = append(out, strings.Replace(s, "0", l, 1))
			if strings.Count(s, "0") > 1 {
				out = append(out, strings.ReplaceAll(s, "0", l))
			}
		}
	}
	for _, depth := range []int{29, 30, 31, 32, 100, 5000} {
		out = append(out,
			strings.Repeat("a.", depth)+"a=0",
			strings.Repeat("a.", depth)+"a",
			"a"+strings.Repeat("[0]", depth)+"=0",
			"a"+strings.Repeat("[0]", depth),
			"a"+strings.Repeat("[0].a", depth)+"=0",
			"a={"+strings.Repeat("{", depth)+"}",
			"a="+strings.Repeat("[", depth),
			"a="+strings.Repeat("[", depth)+strings.Repeat("]", depth),
			"a="+strings.Repeat("{\"a\":", depth)+"1"+strings.Repeat("}", depth),
			strings.Repeat("a=0,", depth),
			strings.Repeat("\\", depth),
		)
	}
	out = append(out, "a=\xff\xfe", "\xff=1", "a[\xff]=1", "a=\x00", "\x00", "a=null", "a=true", "a=\"", "a='", "a= ", " a = 1 ", "a=1,a.b=2", "a.b=1,a=2", "a[0]=1,a.b=2", "a.b=1,a[0]=2",
		"a[1]=x,a[0].b=y", "a[0][0]=x,a[0].b=y", "a[0].b=y,a[0][0]=x", "a={x,y},a[5]=z", "a=,a.b=", "a[0]=,a[0][0]=", "a[0][0]=,a[0]=1,a[0][0]=2")
	return out
}

// ---------------------------------------------------------------------------
// .helmignore rules

type fakeInfo struct {
	name string
	dir  bool
}

func (f fakeInfo) Name() string { return f.name }
func (f fakeInfo) Size() int64  { return 0 }
func (f fakeInfo) Mode() os.FileMode {
	if f.dir {
		return os.ModeDir | 0o755
	}
	return 0o644
}
func (f fakeInfo) ModTime() time.Time { return time.Time{} }
func (f fakeInfo) IsDir() bool        { return f.dir }
func (f fakeInfo) Sys() interface{}   { return nil }

func newIgnoreEntry() *strEntry {
	paths := []string{"a", "a/a", "aa/a.a", ".", "./", "", "/", "a/", "[", "-", "\\", "a/../a", "templates/a.yaml"}
	probe := func(r *ignore.Rules) {
		for _, p := range paths {
			r.Ignore(p, fakeInfo{name: p, dir: false})
			r.Ignore(p, fakeInfo{name: p, dir: true})
		}
	}
	fs := []strFunc{
		{Name: "Parse+Ignore", Fn: func(s string) error {
			r, err := ignore.Parse(strings.NewReader(s))
			if r != nil {
				probe(r)
			}
			return err
		}},
		{Name: "Parse+AddDefaults+Ignore", Fn: func(s string) error {
			r, err := ignore.Parse(bytes.NewReader([]byte("# c\n" + s + "\n" + s)))
			if err != nil {
				return err
			}
			r.AddDefaults()
			probe(r)
			return nil
		}},
	}
	return &strEntry{
		name:     "helmignore",
		alphabet: []string{"a", "*", "?", "/", "!", "[", "]", "\\", "-", "#", "\n", " ", "."},
		maxLen: func(thorough bool) int {
			if thorough {
				return 5
			}
			return 4
		},
		extra: func(bool) []string {
			return []string{"\xef\xbb\xbf", "\xef\xbb\xbf#c\na", "\xff\xfe", "a\x00b", strings.Repeat("a", 70000), strings.Repeat("[", 5000), strings.Repeat("*", 3000) + "b",
				strings.Repeat("a*", 40) + "b", "[^a]", "[a-]", "[]a]", "[!a]", "\r\n", "a\r\n!a\r\n", "!/a/", "/!a", "!!a", "!#a", "\\#a", "\\!a", "a/**/b", "**", "***"}
		},
		funcs:  fs,
		floors: []string{"helmignore:accept", "helmignore:reject"},
		batch:  2048,
	}
}
