package c20

import (
	"context"
	"encoding/json"
	"fmt"
	"io"
	"os"

	v1 "k8s.io/api/core/v1"
	metav1 "k8s.io/apimachinery/pkg/apis/meta/v1"
	"k8s.io/client-go/kubernetes/fake"

	"helm.sh/helm/v4/pkg/action"
	chart "helm.sh/helm/v4/pkg/chart/v2"
	chartutil "helm.sh/helm/v4/pkg/chart/v2/util"
	kubefake "helm.sh/helm/v4/pkg/kube/fake"
	rspb "helm.sh/helm/v4/pkg/release/v1"
	"helm.sh/helm/v4/pkg/storage"
	"helm.sh/helm/v4/pkg/storage/driver"
)

// ---------------------------------------------------------------------------
// entry point "history": the whole history (1..3 revisions) of one release on
// the Secrets / ConfigMaps backends, every revision independently good,
// absent or corrupted - including the histories in which EVERY record is
// unreadable, where the drivers return an empty list with a nil error - read
// through pkg/storage (Last, History, Deployed ...) and through the actions
// that start from the last revision (status, get, get values, history,
// rollback, upgrade, uninstall).

const noReleaseKey = "\x00no-release-key" // marker body: the object has no "release" data key

func historyStatus(rev int) rspb.Status {
	if rev == 3 {
		return rspb.StatusDeployed
	}
	return rspb.StatusSuperseded
}

func historyFiles() []fileSpec {
	var fs []fileSpec
	for rev := 1; rev <= 3; rev++ {
		js, _ := json.Marshal(goodRelease(rev, historyStatus(rev)))
		fs = append(fs, fileSpec{Name: fmt.Sprintf("@r%d", rev), Slots: []slot{kv("all", encodeBody(string(js)))}})
	}
	return fs
}

// corruption classes of one record. unreadable = the driver cannot decode it
// (it is skipped by List/Query); odd = it decodes to a release that lacks what
// a release normally has.
type recClass struct {
	name       string
	body       func(rev int, good string) string
	unreadable bool
	quick      bool // takes part in the quick tier's triples
}

func recClasses() []recClass {
	lit := func(s string) func(int, string) string { return func(int, string) string { return s } }
	enc := func(js string) func(int, string) string { return func(int, string) string { return encodeBody(js) } }
	return []recClass{
		{"empty", lit(""), true, true},
		{"no-release-key", lit(noReleaseKey), true, true},
		{"not-base64", lit("!!!not base64!!!"), true, true},
		{"not-gzip", lit(b64([]byte("plain garbage, neither gzip nor json"))), true, false},
		{"gzip-magic-only", lit(b64([]byte{0x1f, 0x8b, 0x08})), true, false},
		{"gzip-truncated", func(_ int, good string) string { g := gz([]byte(good)); return b64(g[:len(g)/2]) }, true, true},
		{"gzip-bad-crc", func(_ int, good string) string { return b64(flipLast(gz([]byte(good)))) }, true, false},
		{"double-base64", func(_ int, good string) string { return b64([]byte(encodeBody(good))) }, true, false},
		{"not-json", enc("this is not json"), true, false},
		{"json-truncated", func(_ int, good string) string { return encodeBody(good[:len(good)/2]) }, true, true},
		{"json-list", enc(`[]`), true, false},
		{"json-string", enc(`"s"`), true, false},
		{"json-version-string", func(rev int, _ string) string {
			return encodeBody(fmt.Sprintf(`{"name":"app","version":"%d","info":{"status":"deployed"}}`, rev))
		}, true, false},
		// decodable but odd
		{"json-null", enc(`null`), false, true},
		{"json-emptyobj", enc(`{}`), false, false},
		{"no-info", func(rev int, _ string) string {
			return encodeBody(fmt.Sprintf(`{"name":"app","version":%d,"namespace":"default"}`, rev))
		}, false, true},
		{"no-chart", func(rev int, _ string) string {
			return encodeBody(fmt.Sprintf(`{"name":"app","version":%d,"namespace":"default","info":{"status":"deployed"}}`, rev))
		}, false, true},
		{"chart-without-metadata", func(rev int, _ string) string {
			return encodeBody(fmt.Sprintf(`{"name":"app","version":%d,"namespace":"default","info":{"status":"deployed"},"chart":{"metadata":null,"templates":[null],"values":null}}`, rev))
		}, false, false},
		{"hooks-null-item", func(rev int, _ string) string {
			return encodeBody(fmt.Sprintf(`{"name":"app","version":%d,"namespace":"default","info":{"status":"deployed"},"chart":{"metadata":{"name":"ch","version":"0.1.0"}},"hooks":[null]}`, rev))
		}, false, false},
		{"version-zero", enc(`{"name":"app","namespace":"default","info":{"status":"deployed"},"chart":{"metadata":{"name":"ch","version":"0.1.0"}}}`), false, false},
		{"other-release", enc(`{"name":"zzz","version":7,"namespace":"elsewhere","info":{"status":"deployed"},"chart":{"metadata":{"name":"ch","version":"0.1.0"}}}`), false, false},
		{"status-unknown", func(rev int, _ string) string {
			return encodeBody(fmt.Sprintf(`{"name":"app","version":%d,"namespace":"default","info":{"status":"banana"},"chart":{"metadata":{"name":"ch","version":"0.1.0"}}}`, rev))
		}, false, false},
		{"pending", func(rev int, _ string) string {
			return encodeBody(fmt.Sprintf(`{"name":"app","version":%d,"namespace":"default","info":{"status":"pending-upgrade"},"chart":{"metadata":{"name":"ch","version":"0.1.0"}}}`, rev))
		}, false, false},
	}
}

func historyDevs() []Dev {
	var d []Dev
	for rev := 1; rev <= 3; rev++ {
		f := fmt.Sprintf("@r%d", rev)
		js, _ := json.Marshal(goodRelease(rev, historyStatus(rev)))
		d = append(d, Dev{ID: f + ":absent", Class: "record:absent", File: f, Absent: true, Core: true, Triple: true})
		for _, c := range recClasses() {
			cls := "record:decodable-but-odd"
			if c.unreadable {
				cls = "record:unreadable"
			}
			d = append(d, Dev{ID: f + ":" + c.name, Class: cls, File: f, Text: c.body(rev, string(js)), Core: true, Triple: c.quick})
		}
	}
	return d
}

// oddBodies: the bodies of the "decodable but odd" classes (any revision).
var oddBodies = func() map[string]bool {
	m := map[string]bool{}
	for rev := 1; rev <= 3; rev++ {
		js, _ := json.Marshal(goodRelease(rev, historyStatus(rev)))
		for _, c := range recClasses() {
			if !c.unreadable {
				m[c.body(rev, string(js))] = true
			}
		}
	}
	return m
}()

func historyChart() *chart.Chart {
	return &chart.Chart{
		Metadata:  &chart.Metadata{Name: "ch", Version: "0.2.0", APIVersion: "v2"},
		Templates: []*chart.File{{Name: "templates/cm.yaml", Data: []byte("apiVersion: v1\nkind: ConfigMap\nmetadata:\n  name: {{ .Release.Name }}-cm\ndata:\n  k: {{ .Values.k | default \"d\" | quote }}\n")}},
		Values:    map[string]interface{}{"k": "v"},
	}
}

func historyExec(e *env, fs fileset) []res {
	var out []res
	for _, drv := range []string{"secrets", "configmaps"} {
		drv := drv
		// mk builds a fresh store holding the (possibly deviated) history
		mk := func() driver.Driver {
			cs := fake.NewSimpleClientset()
			for rev := 1; rev <= 3; rev++ {
				body, ok := fs.get(fmt.Sprintf("@r%d", rev))
				if !ok {
					continue
				}
				labels := map[string]string{"name": "app", "owner": "helm", "version": fmt.Sprint(rev), "status": historyStatus(rev).String()}
				meta := metav1.ObjectMeta{Name: fmt.Sprintf("sh.helm.release.v1.app.v%d", rev), Namespace: "default", Labels: labels}
				var err error
				if drv == "secrets" {
					obj := &v1.Secret{ObjectMeta: meta, Type: "helm.sh/release.v1"}
					if string(body) != noReleaseKey {
						obj.Data = map[string][]byte{"release": body}
					}
					_, err = cs.CoreV1().Secrets("default").Create(context.Background(), obj, metav1.CreateOptions{})
				} else {
					obj := &v1.ConfigMap{ObjectMeta: meta}
					if string(body) != noReleaseKey {
						obj.Data = map[string]string{"release": string(body)}
					}
					_, err = cs.CoreV1().ConfigMaps("default").Create(context.Background(), obj, metav1.CreateOptions{})
				}
				if err != nil {
					out = append(out, res{Stage: "setup", Kind: "harness", Detail: err.Error()})
					return nil
				}
			}
			if drv == "secrets" {
				return driver.NewSecrets(cs.CoreV1().Secrets("default"))
			}
			return driver.NewConfigMaps(cs.CoreV1().ConfigMaps("default"))
		}
		cfg := func() *action.Configuration {
			d := mk()
			if d == nil {
				return nil
			}
			return &action.Configuration{
				Releases:     storage.Init(d),
				KubeClient:   &kubefake.FailingKubeClient{PrintingKubeClient: kubefake.PrintingKubeClient{Out: io.Discard}},
				Capabilities: chartutil.DefaultCapabilities,
			}
		}
		p := drv + "/"
		d := mk()
		if d == nil {
			return out
		}
		st := storage.Init(d)
		touch := func(r *rspb.Release) {
			if r != nil {
				_ = r.Name + fmt.Sprint(r.Version)
			}
		}
		out = append(out, e.g.run(p+"Storage.Last", func() error { r, err := st.Last("app"); touch(r); return err }))
		out = append(out, e.g.run(p+"Storage.History", func() error {
			rs, err := st.History("app")
			for _, r := range rs {
				touch(r)
			}
			return err
		}))
		out = append(out, e.g.run(p+"Storage.Deployed", func() error { r, err := st.Deployed("app"); touch(r); return err }))
		out = append(out, e.g.run(p+"Storage.DeployedAll", func() error { _, err := st.DeployedAll("app"); return err }))
		out = append(out, e.g.run(p+"Storage.Get", func() error {
			var last error
			for rev := 1; rev <= 3; rev++ {
				if _, err := st.Get("app", rev); err != nil {
					last = err
				}
			}
			return last
		}))
		out = append(out, e.g.run(p+"Storage.ListReleases", func() error { _, err := st.ListReleases(); return err }))
		out = append(out, e.g.run(p+"Storage.ListDeployed", func() error { _, err := st.ListDeployed(); return err }))

		// The actions that start from the last revision; each on its own store.
		// They are driven over histories whose records are good, absent or
		// unreadable. A record that decodes but lacks info/chart is given to
		// pkg/storage only (above): the actions dereference Info/Chart of such a
		// record in several places, which the maintainers of this harness have
		// not (yet) ruled in scope - C20_ODD_RECORD_ACTIONS=1 includes them.
		if os.Getenv("C20_ODD_RECORD_ACTIONS") != "1" {
			odd := false
			for rev := 1; rev <= 3; rev++ {
				if b, ok := fs.get(fmt.Sprintf("@r%d", rev)); ok && oddBodies[string(b)] {
					odd = true
				}
			}
			if odd {
				continue
			}
		}
		act := func(name string, fn func(c *action.Configuration) error) {
			c := cfg()
			if c == nil {
				return
			}
			out = append(out, e.g.run(p+name, func() error { return fn(c) }))
		}
		act("action.Status", func(c *action.Configuration) error { _, err := action.NewStatus(c).Run("app"); return err })
		act("action.Get", func(c *action.Configuration) error { _, err := action.NewGet(c).Run("app"); return err })
		act("action.GetValues", func(c *action.Configuration) error {
			g := action.NewGetValues(c)
			g.AllValues = true
			_, err := g.Run("app")
			return err
		})
		act("action.History", func(c *action.Configuration) error { _, err := action.NewHistory(c).Run("app"); return err })
		act("action.List", func(c *action.Configuration) error {
			l := action.NewList(c)
			l.All = true
			l.SetStateMask()
			_, err := l.Run()
			return err
		})
		act("action.Rollback", func(c *action.Configuration) error { return action.NewRollback(c).Run("app") })
		act("action.Upgrade", func(c *action.Configuration) error {
			u := action.NewUpgrade(c)
			u.Namespace = "default"
			_, err := u.Run("app", historyChart(), map[string]interface{}{"k": "new"})
			return err
		})
		act("action.Uninstall", func(c *action.Configuration) error {
			u := action.NewUninstall(c)
			_, err := u.Run("app")
			return err
		})
	}
	return out
}

func newHistoryEntry() *docEntry {
	return &docEntry{
		name:  "history",
		files: historyFiles(),
		devs:  historyDevs(),
		exec:  historyExec,
		// quick: all singles and pairs, triples over the quick classes (every
		// all-unreadable history of 1, 2 and 3 records is among them);
		// thorough: all triples
		pairAll:     true,
		tripleQuick: true,
		floors: []string{"history:baseline-ok", "history:all-ok", "history:error:Storage.Last", "history:error:Storage.History", "history:error:action.Status",
			"history:error:action.Upgrade", "history:error:action.Rollback", "history:error:action.Uninstall", "history:error:action.Get"},
	}
}
