package c20

import (
	"archive/tar"
	"bytes"
	"compress/gzip"
	"fmt"
	"os"
	"path/filepath"
	"strings"

	"helm.sh/helm/v4/pkg/action"
	chart "helm.sh/helm/v4/pkg/chart/v2"
	"helm.sh/helm/v4/pkg/chart/v2/loader"
	chartutil "helm.sh/helm/v4/pkg/chart/v2/util"
	"helm.sh/helm/v4/pkg/engine"
	"helm.sh/helm/v4/pkg/lint"
	"helm.sh/helm/v4/pkg/lint/support"
	releaseutil "helm.sh/helm/v4/pkg/release/util"
)

// ---------------------------------------------------------------------------
// entry point "chart": a chart (parent + one subchart) loaded from memory, from
// an archive and from a directory, then pushed through dependency processing,
// value computation, rendering, manifest sorting and lint.

func kv(name, text string) slot { return slot{Name: name, Text: text} }

func chartFiles() []fileSpec {
	return []fileSpec{
		{Name: "Chart.yaml", Slots: []slot{
			kv("apiVersion", "apiVersion: v2\n"),
			kv("name", "name: parent\n"),
			kv("version", "version: 0.1.0\n"),
			kv("type", "type: application\n"),
			kv("appVersion", "appVersion: \"1.0\"\n"),
			kv("description", "description: a chart\n"),
			kv("kubeVersion", "kubeVersion: \">=1.0.0-0\"\n"),
			kv("keywords", "keywords: [k1, k2]\n"),
			kv("sources", "sources: [\"https://example.com/src\"]\n"),
			kv("home", "home: https://example.com\n"),
			kv("icon", "icon: https://example.com/i.png\n"),
			kv("deprecated", "deprecated: false\n"),
			kv("maintainers", "maintainers:\n- name: m\n  email: m@example.com\n  url: https://example.com/m\n"),
			kv("annotations", "annotations:\n  a: b\n"),
			kv("dependencies", "dependencies:\n"),
			kv("dep.name", "- name: sub\n"),
			kv("dep.version", "  version: 0.1.0\n"),
			kv("dep.repository", "  repository: https://example.com/charts\n"),
			kv("dep.condition", "  condition: sub.enabled\n"),
			kv("dep.tags", "  tags: [t1]\n"),
			kv("dep.alias", ""),
			kv("dep.enabled", ""),
			kv("dep.import-values", "  import-values:\n  - child: data\n    parent: imported\n  - exp\n"),
			kv("tail", ""),
		}},
		{Name: "values.yaml", Slots: []slot{
			kv("sub", "sub:\n  enabled: true\n  data:\n    k: fromparent\n"),
			kv("tags", "tags:\n  t1: true\n"),
			kv("global", "global:\n  g: 1\n"),
			kv("x", "x: hello\n"),
			kv("tplstr", "tplstr: \"{{ .Values.x }}\"\n"),
			kv("list", "list: [a, b]\n"),
			kv("imported", "imported:\n  own: 1\n"),
			kv("tail", ""),
		}},
		{Name: "values.schema.json", Slots: []slot{
			kv("open", "{\"$schema\":\"http://json-schema.org/draft-07/schema#\",\"type\":\"object\",\"properties\":{"),
			kv("x", "\"x\":{\"type\":\"string\",\"minLength\":1},"),
			kv("sub", "\"sub\":{\"type\":\"object\"},"),
			kv("list", "\"list\":{\"type\":\"array\",\"items\":{\"type\":\"string\"}}"),
			kv("close", "},"),
			kv("required", "\"required\":[\"x\"]"),
			kv("end", "}\n"),
		}},
		{Name: "templates/_helpers.tpl", Slots: []slot{
			kv("all", "{{- define \"p.name\" -}}{{ .Release.Name }}-{{ .Chart.Name }}{{- end -}}\n"),
		}},
		{Name: "templates/cm.yaml", Slots: []slot{
			kv("head", "apiVersion: v1\nkind: ConfigMap\n"),
			kv("metadata", "metadata:\n  name: {{ include \"p.name\" . }}\n"),
			kv("annotations", "  annotations:\n    \"helm.sh/hook\": pre-install\n    \"helm.sh/hook-weight\": \"5\"\n"),
			kv("data", "data:\n"),
			kv("x", "  x: {{ .Values.x | quote }}\n"),
			kv("t", "  t: {{ tpl .Values.tplstr . | quote }}\n"),
			kv("l", "  l: \"{{ range .Files.Lines \"files/data.txt\" }}{{ . }}{{ end }}\"\n"),
			kv("imp", "  imp: {{ .Values.imported | toJson | quote }}\n"),
			kv("extra", ""),
		}},
		{Name: "templates/deploy.yaml", Slots: []slot{
			kv("all", "apiVersion: apps/v1\nkind: Deployment\nmetadata:\n  name: {{ .Release.Name }}\nspec:\n  selector:\n    matchLabels: {a: b}\n"),
		}},
		{Name: "templates/NOTES.txt", Slots: []slot{kv("all", "installed {{ .Release.Name }}\n")}},
		{Name: "files/data.txt", Slots: []slot{kv("all", "l1\nl2\n")}},
		{Name: "Chart.lock", Slots: []slot{
			kv("all", "dependencies:\n- name: sub\n  repository: https://example.com/charts\n  version: 0.1.0\ndigest: sha256:0000\ngenerated: \"2024-01-01T00:00:00Z\"\n"),
		}},
		{Name: ".helmignore", Slots: []slot{kv("all", "*.bak\n.git/\n")}},
		{Name: "charts/sub/Chart.yaml", Slots: []slot{
			kv("apiVersion", "apiVersion: v2\n"),
			kv("name", "name: sub\n"),
			kv("version", "version: 0.1.0\n"),
			kv("type", ""),
			kv("tail", ""),
		}},
		{Name: "charts/sub/values.yaml", Slots: []slot{
			kv("enabled", "enabled: true\n"),
			kv("data", "data:\n  k: fromsub\n  k2: v2\n"),
			kv("exports", "exports:\n  exp:\n    e: 1\n"),
			kv("global", "global: {}\n"),
			kv("tail", ""),
		}},
		{Name: "charts/sub/values.schema.json", Slots: []slot{kv("all", "{\"type\":\"object\"}\n")}},
		{Name: "charts/sub/templates/svc.yaml", Slots: []slot{
			kv("all", "apiVersion: v1\nkind: Service\nmetadata:\n  name: {{ .Release.Name }}-sub\nspec:\n  ports: [{port: {{ .Values.global.g | default 80 }}}]\n"),
		}},
		// user-supplied values (-f file): not part of the chart directory
		{Name: "@uservalues", Slots: []slot{kv("all", "x: user\n")}},
	}
}

func chartDevs() []Dev {
	var d []Dev
	const C = "Chart.yaml"
	line := func(slotName string) string {
		for _, f := range chartFiles() {
			if f.Name == C {
				for _, s := range f.Slots {
					if s.Name == slotName {
						return s.Text
					}
				}
			}
		}
		return ""
	}
	// generic per-field shapes; the ones that can survive loading are core
	for _, f := range []struct {
		slot, key string
		core      []string
	}{
		{"apiVersion", "apiVersion", []string{"missing", "empty"}},
		{"name", "name", []string{"ctrl"}},
		{"version", "version", nil},
		{"type", "type", []string{"missing"}},
		{"appVersion", "appVersion", nil},
		{"description", "description", nil},
		{"kubeVersion", "kubeVersion", []string{"str"}},
		{"keywords", "keywords", []string{"null"}},
		{"sources", "sources", []string{"null"}},
		{"home", "home", nil},
		{"icon", "icon", nil},
		{"deprecated", "deprecated", nil},
		{"maintainers", "maintainers", []string{"listnull", "null"}},
		{"annotations", "annotations", []string{"null"}},
	} {
		d = append(d, fieldDevs(C, f.slot, "", f.key, line(f.slot), f.core...)...)
	}
	for _, f := range []struct {
		slot, key string
		core      []string
	}{
		{"dep.name", "name", []string{"empty"}},
		{"dep.version", "version", []string{"missing", "str", "empty"}},
		{"dep.repository", "repository", []string{"missing"}},
		{"dep.condition", "condition", []string{"str", "empty", "long"}},
		{"dep.tags", "tags", []string{"null", "listnull", "emptylist"}},
	} {
		devs := fieldDevs(C, f.slot, "  ", f.key, line(f.slot), f.core...)
		if f.slot == "dep.name" {
			// the list item marker lives in this slot
			for i := range devs {
				if devs[i].Text == "" {
					devs[i].Text = "- x-nothing: 1\n"
				} else if strings.HasPrefix(devs[i].Text, "  ") {
					devs[i].Text = "- " + devs[i].Text[2:]
				}
			}
		}
		d = append(d, devs...)
	}
	// dependencies list as a whole
	d = append(d, custom(C, "dependencies", true,
		"null-item-first", "dependencies:\n- null\n",
		"null-only", "dependencies:\n- null\n- null\n",
	)...)
	d = append(d, custom(C, "tail", true,
		"dep-null-item-last", "- null\n",
		"dep-scalar-item", "- justastring\n",
		"dep-second-missing-chart", "- name: ghost\n  version: 1.0.0\n  repository: https://example.com\n  condition: ghost.enabled\n  import-values: [x]\n",
		"dep-second-same-name", "- name: sub\n  version: 0.1.0\n  repository: https://example.com\n  alias: sub2\n  import-values:\n  - child: data\n    parent: imported2\n",
		"dep-dup-name", "- name: sub\n  version: 0.1.0\n  repository: https://other.example.com\n",
		"unknown-field", "unknownField: 1\n",
		"dup-dependencies", "dependencies: null\n",
	)...)
	d = append(d, Dev{ID: C + "#dependencies=toplevel-null", File: C, Slot: "dependencies", Text: "dependencies: null\nx-ignored:\n", Core: true})
	d = append(d, Dev{ID: C + "#dependencies=map", File: C, Slot: "dependencies", Text: "dependencies: {a: b}\nx-ignored:\n"})
	d = append(d, Dev{ID: C + "#dependencies=str", File: C, Slot: "dependencies", Text: "dependencies: s\nx-ignored:\n"})

	// field-specific shapes
	d = append(d, custom(C, "name", true,
		"dotdot", "name: ../evil\n",
		"slash", "name: a/b\n",
		"dot", "name: .\n",
		"spaces", "name: \"  \"\n",
		"template", "name: \"{{ .Values.x }}\"\n",
		"subname", "name: sub\n",
	)...)
	d = append(d, custom(C, "version", true,
		"notsemver", "version: banana\n",
		"vprefix", "version: v1.2.3\n",
		"huge", "version: 99999999999999999999999.0.0\n",
		"partial", "version: \"1\"\n",
		"prerelease", "version: 1.0.0-alpha.01+build..x\n",
		"unquoted-float", "version: 1.0\n",
	)...)
	d = append(d, custom(C, "apiVersion", true,
		"v1", "apiVersion: v1\n",
		"v3", "apiVersion: v3\n",
	)...)
	d = append(d, custom(C, "type", true,
		"library", "type: library\n",
		"other", "type: other\n",
		"Library", "type: LIBRARY\n",
	)...)
	d = append(d, custom(C, "kubeVersion", true,
		"bad", "kubeVersion: \">>1 ||| <\"\n",
		"unsat", "kubeVersion: \">=99.0.0\"\n",
	)...)
	d = append(d, custom(C, "icon", false, "badurl", "icon: \"://\\x00\"\n", "percent", "icon: \"http://%zz\"\n")...)
	d = append(d, custom(C, "sources", false, "badurl", "sources: [\"://x\", \"\", null]\n")...)
	d = append(d, custom(C, "maintainers", true,
		"item-scalar", "maintainers:\n- justastring\n",
		"item-fields-null", "maintainers:\n- name: null\n  email: null\n  url: null\n",
		"item-bad-url", "maintainers:\n- name: m\n  url: \"://\"\n  email: \"not an email\"\n",
		"item-list", "maintainers:\n- [a]\n",
	)...)
	d = append(d, custom(C, "annotations", false,
		"nonstring-values", "annotations:\n  a: 1\n",
		"null-value", "annotations:\n  a: null\n",
		"nested", "annotations:\n  a: {b: c}\n",
	)...)
	d = append(d, custom(C, "dep.version", true,
		"badrange", "  version: \">>x\"\n",
		"star", "  version: \"*\"\n",
		"unsat", "  version: \">=9.0.0\"\n",
		"caret", "  version: \"^0.1.0-0\"\n",
	)...)
	d = append(d, custom(C, "dep.repository", false,
		"file", "  repository: \"file://../../../etc\"\n",
		"alias", "  repository: \"@nope\"\n",
		"oci", "  repository: \"oci://\"\n",
		"badurl", "  repository: \"://\"\n",
	)...)
	d = append(d, custom(C, "dep.condition", true,
		"dots", "  condition: \"a..b\"\n",
		"dot", "  condition: \".\"\n",
		"commas", "  condition: \",,sub.enabled,,\"\n",
		"trailing-dot", "  condition: \"sub.\"\n",
		"into-scalar", "  condition: \"x.y.z\"\n",
		"into-list", "  condition: \"list.0\"\n",
		"nonbool", "  condition: \"x\"\n",
		"table", "  condition: \"sub\"\n",
		"spaces", "  condition: \"  sub.enabled , x \"\n",
	)...)
	d = append(d, custom(C, "dep.tags", true,
		"nonstring", "  tags: [1, true]\n",
		"missing-tag", "  tags: [nope]\n",
		"scalar", "  tags: t1\n",
	)...)
	d = append(d, custom(C, "dep.alias", true,
		"alias", "  alias: other\n",
		"alias-bad", "  alias: \"a/b\"\n",
		"alias-null", "  alias: null\n",
		"alias-int", "  alias: 1\n",
		"alias-same", "  alias: sub\n",
		"alias-parent", "  alias: parent\n",
		"alias-global", "  alias: global\n",
	)...)
	d = append(d, custom(C, "dep.enabled", false,
		"enabled-false", "  enabled: false\n",
		"enabled-str", "  enabled: \"yes\"\n",
		"enabled-null", "  enabled: null\n",
	)...)
	// import-values shapes
	iv := func(name, class, text string) Dev {
		_ = class
		return Dev{ID: C + "#dep.import-values=" + name, File: C, Slot: "dep.import-values", Text: text, Core: true}
	}
	d = append(d,
		iv("missing", "missing", ""),
		iv("null", "null", "  import-values: null\n"),
		iv("str", "str", "  import-values: data\n"),
		iv("map", "map", "  import-values: {child: data, parent: imported}\n"),
		iv("emptylist", "emptylist", "  import-values: []\n"),
		iv("item-null", "item-null", "  import-values: [null]\n"),
		iv("item-int", "item-nonstring-scalar", "  import-values: [1]\n"),
		iv("item-bool", "item-nonstring-scalar", "  import-values: [true]\n"),
		iv("item-list", "item-list", "  import-values: [[a, b]]\n"),
		iv("item-emptymap", "child-or-parent-not-a-string", "  import-values: [{}]\n"),
		iv("child-int", "child-or-parent-not-a-string", "  import-values: [{child: 1, parent: x}]\n"),
		iv("child-null", "child-or-parent-not-a-string", "  import-values: [{child: null, parent: x}]\n"),
		iv("child-missing", "child-or-parent-not-a-string", "  import-values: [{parent: x}]\n"),
		iv("child-list", "child-or-parent-not-a-string", "  import-values: [{child: [a], parent: x}]\n"),
		iv("child-map", "child-or-parent-not-a-string", "  import-values: [{child: {a: b}, parent: x}]\n"),
		iv("parent-int", "child-or-parent-not-a-string", "  import-values: [{child: data, parent: 1}]\n"),
		iv("parent-null", "child-or-parent-not-a-string", "  import-values: [{child: data, parent: null}]\n"),
		iv("parent-missing", "child-or-parent-not-a-string", "  import-values: [{child: data}]\n"),
		iv("parent-map", "child-or-parent-not-a-string", "  import-values: [{child: data, parent: {a: b}}]\n"),
		iv("extra-key", "extra-key", "  import-values: [{child: data, parent: imported, extra: 1}]\n"),
		iv("empty-strings", "empty-strings", "  import-values: [{child: \"\", parent: \"\"}]\n"),
		iv("dots", "dots", "  import-values: [{child: \".\", parent: \".\"}]\n"),
		iv("dotdots", "dotdots", "  import-values: [{child: \"a..b\", parent: \"..\"}]\n"),
		iv("child-scalar-path", "child-scalar-path", "  import-values: [{child: enabled, parent: imported}]\n"),
		iv("child-into-scalar", "child-into-scalar", "  import-values: [{child: enabled.x, parent: x}]\n"),
		iv("parent-scalar-path", "parent-scalar-path", "  import-values: [{child: data, parent: x}]\n"),
		iv("parent-under-scalar", "parent-under-scalar", "  import-values: [{child: data, parent: x.y}]\n"),
		iv("parent-is-sub", "parent-is-sub", "  import-values: [{child: data, parent: sub}]\n"),
		iv("str-empty", "str-empty", "  import-values: [\"\"]\n"),
		iv("str-dot", "str-dot", "  import-values: [\".\"]\n"),
		iv("str-missing-export", "str-missing-export", "  import-values: [nope]\n"),
		iv("str-long", "str-long", "  import-values: [\""+strings.Repeat("a.", 2000)+"a\"]\n"),
		iv("many", "many", "  import-values: [exp, exp, {child: data, parent: imported}, {child: data, parent: imported.own}]\n"),
	)
	d = append(d, genericYAMLDocs(C)...)

	// ---- values.yaml (parent) ----
	const V = "values.yaml"
	d = append(d, custom(V, "sub", true,
		"null", "sub: null\n",
		"int", "sub: 1\n",
		"str", "sub: s\n",
		"list", "sub: [a]\n",
		"emptymap", "sub: {}\n",
		"missing", "",
		"enabled-null", "sub:\n  enabled: null\n",
		"enabled-str", "sub:\n  enabled: \"true\"\n",
		"enabled-int", "sub:\n  enabled: 1\n",
		"enabled-map", "sub:\n  enabled: {a: b}\n",
		"enabled-list", "sub:\n  enabled: []\n",
		"enabled-false", "sub:\n  enabled: false\n",
		"data-scalar", "sub:\n  enabled: true\n  data: scalar\n",
		"data-null", "sub:\n  enabled: true\n  data: null\n",
		"data-list", "sub:\n  enabled: true\n  data: [1]\n",
		"global-scalar", "sub:\n  enabled: true\n  global: 1\n",
		"global-null", "sub:\n  enabled: true\n  global: null\n",
		"exports-scalar", "sub:\n  enabled: true\n  exports: 1\n",
		"exports-exp-scalar", "sub:\n  enabled: true\n  exports: {exp: 1}\n",
		"exports-exp-null", "sub:\n  enabled: true\n  exports: {exp: null}\n",
		"exports-null", "sub:\n  enabled: true\n  exports: null\n",
	)...)
	d = append(d, custom(V, "tags", true,
		"null", "tags: null\n",
		"scalar", "tags: x\n",
		"list", "tags: [t1]\n",
		"t1-str", "tags:\n  t1: \"true\"\n",
		"t1-null", "tags:\n  t1: null\n",
		"t1-false", "tags:\n  t1: false\n",
		"t1-map", "tags:\n  t1: {a: b}\n",
		"missing", "",
	)...)
	d = append(d, custom(V, "global", true,
		"null", "global: null\n",
		"scalar", "global: 1\n",
		"list", "global: [1]\n",
		"g-map", "global:\n  g: {a: {b: c}}\n",
		"g-null", "global:\n  g: null\n",
		"missing", "",
	)...)
	d = append(d, custom(V, "x", true,
		"null", "x: null\n",
		"int", "x: 1\n",
		"map", "x: {y: {z: 1}}\n",
		"list", "x: [1]\n",
		"missing", "",
		"empty", "x: \"\"\n",
		"template", "x: \"{{ .Values.x }}\"\n",
		"bigint", "x: 123456789012345678901234567890\n",
		"multiline", "x: |\n  a: b\n  ---\n  c: d\n",
	)...)
	d = append(d, custom(V, "tplstr", true,
		"unclosed", "tplstr: \"{{\"\n",
		"badfunc", "tplstr: \"{{ nosuchfunc }}\"\n",
		"self", "tplstr: \"{{ tpl .Values.tplstr . }}\"\n",
		"nil-deref", "tplstr: \"{{ .Values.nope.deeper.x }}\"\n",
		"null", "tplstr: null\n",
		"int", "tplstr: 1\n",
		"map", "tplstr: {a: b}\n",
		"define", "tplstr: \"{{ define \\\"p.name\\\" }}redefined{{ end }}\"\n",
		"include-loop", "tplstr: \"{{ define \\\"loop\\\" }}{{ include \\\"loop\\\" . }}{{ end }}{{ include \\\"loop\\\" . }}\"\n",
		"template-loop", "tplstr: \"{{ define \\\"tl\\\" }}{{ template \\\"tl\\\" . }}{{ end }}{{ template \\\"tl\\\" . }}\"\n",
		"fail", "tplstr: \"{{ fail \\\"boom\\\" }}\"\n",
		"nonutf8", "tplstr: \"\\xff{{ .Values.x }}\"\n",
	)...)
	d = append(d, custom(V, "list", false,
		"null", "list: null\n",
		"scalar", "list: a\n",
		"listnull", "list: [null, 1, {a: b}]\n",
	)...)
	d = append(d, custom(V, "imported", true,
		"scalar", "imported: 1\n",
		"null", "imported: null\n",
		"list", "imported: [1]\n",
		"missing", "",
	)...)
	d = append(d, custom(V, "tail", true,
		"exports", "exports:\n  data: {a: 1}\n",
		"chart-name-key", "parent: {x: 1}\n",
		"Values-key", "Values: 1\nRelease: 2\nChart: 3\n",
	)...)
	d = append(d, genericYAMLDocs(V)...)

	// ---- values.schema.json ----
	const S = "values.schema.json"
	d = append(d, wholeDevs(S, true,
		"empty", "",
		"null", "null",
		"list", "[]",
		"string", "\"s\"",
		"int", "1",
		"true", "true",
		"false", "false",
		"emptyobj", "{}",
		"yaml", "type: object\n",
		"nonutf8", "{\"type\":\"\xff\"}",
		"bom", "\xef\xbb\xbf{}",
		"deep", strings.Repeat("{\"properties\":{\"a\":", 100)+"{}"+strings.Repeat("}}", 100), // compile time grows ~cubically: 800 levels take 5 s
		"deep-100k", strings.Repeat("[", 100000),
		"ref-self", "{\"$ref\":\"#\"}",
		"ref-loop", "{\"properties\":{\"x\":{\"$ref\":\"#/definitions/a\"}},\"definitions\":{\"a\":{\"$ref\":\"#/definitions/b\"},\"b\":{\"$ref\":\"#/definitions/a\"}}}",
		"ref-recursive", "{\"type\":\"object\",\"additionalProperties\":{\"$ref\":\"#\"}}",
		"ref-missing", "{\"$ref\":\"#/definitions/nope\"}",
		"ref-file", "{\"$ref\":\"file:///nonexistent/schema.json\"}",
		"ref-relative", "{\"$ref\":\"other.json#/x\"}",
		"ref-badptr", "{\"$ref\":\"#/%zz/~2\"}",
		"ref-nonstring", "{\"$ref\":1}",
		"schema-unknown", "{\"$schema\":\"http://example.invalid/nope\",\"type\":\"object\"}",
		"schema-nonstring", "{\"$schema\":1}",
		"id-weird", "{\"$id\":\"://\",\"type\":\"object\"}",
		"dup-key", "{\"type\":\"object\",\"type\":\"string\"}",
		"trailing", "{} {}",
		"bad-regex", "{\"properties\":{\"x\":{\"pattern\":\"(\"}}}",
		"bad-regex-props", "{\"patternProperties\":{\"(\":{}}}",
		"lookahead-regex", "{\"properties\":{\"x\":{\"pattern\":\"^(?!a)\"}}}",
		"format-unknown", "{\"properties\":{\"x\":{\"format\":\"nope\"}}}",
		"format-regex", "{\"properties\":{\"x\":{\"format\":\"regex\"}}}",
		"huge-number", "{\"properties\":{\"x\":{\"minLength\":1e999}}}",
		"draft2020", "{\"$schema\":\"https://json-schema.org/draft/2020-12/schema\",\"$dynamicRef\":\"#x\",\"prefixItems\":1}",
	)...)
	d = append(d, custom(S, "x", true,
		"type-int", "\"x\":{\"type\":1},",
		"type-null", "\"x\":{\"type\":null},",
		"type-unknown", "\"x\":{\"type\":\"nope\"},",
		"type-list-mixed", "\"x\":{\"type\":[\"string\",1,null]},",
		"null", "\"x\":null,",
		"true", "\"x\":true,",
		"false", "\"x\":false,",
		"list", "\"x\":[],",
		"minLength-neg", "\"x\":{\"minLength\":-1},",
		"minLength-str", "\"x\":{\"minLength\":\"1\"},",
		"minLength-float", "\"x\":{\"minLength\":1.5},",
		"multipleOf-zero", "\"x\":{\"multipleOf\":0},",
		"enum-null", "\"x\":{\"enum\":null},",
		"enum-empty", "\"x\":{\"enum\":[]},",
		"const-obj", "\"x\":{\"const\":{\"a\":[1,null]}},",
		"type-object", "\"x\":{\"type\":\"object\",\"required\":[\"y\"]},",
		"type-number", "\"x\":{\"type\":\"number\",\"multipleOf\":0.1,\"maximum\":1e308},",
		"allOf-null", "\"x\":{\"allOf\":null},",
		"allOf-empty", "\"x\":{\"allOf\":[]},",
		"not-self", "\"x\":{\"not\":{\"$ref\":\"#/properties/x\"}},",
		"ref-self", "\"x\":{\"$ref\":\"#/properties/x\"},",
		"if-then", "\"x\":{\"if\":true,\"then\":false,\"else\":1},",
		"items-list", "\"x\":{\"items\":[{},null]},",
		"deps", "\"x\":{\"dependencies\":{\"a\":1}},",
	)...)
	d = append(d, custom(S, "sub", true,
		"sub-string", "\"sub\":{\"type\":\"string\"},",
		"sub-false", "\"sub\":false,",
	)...)
	d = append(d, custom(S, "required", true,
		"str", "\"required\":\"x\"",
		"null", "\"required\":null",
		"ints", "\"required\":[1]",
		"dups", "\"required\":[\"x\",\"x\"]",
		"missingprop", "\"required\":[\"nope\"]",
		"additional-false", "\"additionalProperties\":false",
	)...)
	d = append(d, custom(S, "open", false,
		"properties-list", "{\"type\":\"object\",\"properties\":[",
		"type-array", "{\"type\":\"array\",\"properties\":{",
		"type-int", "{\"type\":1,\"properties\":{",
	)...)
	d = append(d, Dev{ID: S + ":absent", File: S, Absent: true, Core: true})

	// ---- templates ----
	const T = "templates/cm.yaml"
	d = append(d, custom(T, "x", true,
		"unclosed", "  x: {{ .Values.x\n",
		"unclosed2", "  x: {{\n",
		"badfunc", "  x: {{ nosuchfunc 1 }}\n",
		"nil-deref", "  x: {{ .Values.nope.deeper.x }}\n",
		"field-of-string", "  x: {{ .Values.x.y.z }}\n",
		"index-oob", "  x: {{ index .Values.list 5 }}\n",
		"index-badtype", "  x: {{ index .Values.x \"a\" }}\n",
		"index-nil", "  x: {{ index .Values.nope 0 }}\n",
		"fail", "  x: {{ fail \"boom\" }}\n",
		"required", "  x: {{ required \"need it\" .Values.nope }}\n",
		"required-args", "  x: {{ required .Values.nope }}\n",
		"toyaml-root", "  x: {{ toYaml . | quote }}\n",
		"tojson-root", "  x: {{ toJson . | quote }}\n",
		"toToml-root", "  x: {{ toToml . | quote }}\n",
		"template-undefined", "  x: {{ template \"nope\" . }}\n",
		"include-undefined", "  x: {{ include \"nope\" . }}\n",
		"include-nonstring", "  x: {{ include 1 . }}\n",
		"include-self-file", "  x: {{ include \"parent/templates/cm.yaml\" . }}\n",
		"include-loop", "  x: {{ include \"loop\" . }}\n{{- define \"loop\" }}{{ include \"loop\" . }}{{ end }}\n",
		"include-mutual", "  x: {{ include \"la\" . }}\n{{- define \"la\" }}{{ include \"lb\" . }}{{ end }}{{ define \"lb\" }}{{ include \"la\" . }}{{ end }}\n",
		"template-loop", "  x: {{ template \"tl\" . }}\n{{- define \"tl\" }}{{ template \"tl\" . }}{{ end }}\n",
		"tpl-loop", "  x: {{ tpl \"{{ tpl .Values.tplstr . }}{{ include \\\"p.name\\\" . }}\" . }}\n",
		"tpl-self-literal", "  x: {{ $s := \"{{ tpl $.Values.selfs $ }}\" }}{{ tpl $s (dict \"Values\" (dict \"selfs\" $s) \"Template\" .Template) }}\n",
		"tpl-nil", "  x: {{ tpl .Values.nope . }}\n",
		"tpl-nonmap-ctx", "  x: {{ tpl \"{{ . }}\" 1 }}\n",
		"tpl-garbage", "  x: {{ tpl \"{{ if }}{{ end }}{{ end }}\\x00\\xff\" . }}\n",
		"tpl-nil-ctx", "  x: {{ tpl \"{{ .Template.Name }}\" nil }}\n",
		"files-get-missing", "  x: {{ .Files.Get \"nope\" | quote }}\n",
		"files-lines-missing", "  x: {{ .Files.Lines \"nope\" | toJson }}\n",
		"files-glob-bad", "  x: {{ (.Files.Glob \"[\").AsConfig | quote }}\n",
		"files-glob-all", "  x: {{ (.Files.Glob \"**\").AsSecrets | quote }}\n",
		"files-asconfig-nil", "  x: {{ .Files.AsConfig | quote }}\n",
		"files-nonstring", "  x: {{ .Files.Get 1 }}\n",
		"lookup", "  x: {{ lookup \"v1\" \"Pod\" \"ns\" \"n\" | toJson | quote }}\n",
		"lookup-badargs", "  x: {{ lookup 1 2 3 4 }}\n",
		"regex-bad", "  x: {{ regexMatch \"(\" \"x\" }}\n",
		"mustregex-bad", "  x: {{ mustRegexReplaceAll \"(\" \"x\" \"y\" }}\n",
		"fromyaml-bad", "  x: {{ fromYaml \"a: [\" | toJson | quote }}\n",
		"fromyamlarray-bad", "  x: {{ fromYamlArray \"a: b\" | toJson | quote }}\n",
		"fromjson-bad", "  x: {{ fromJson \"{\" | toJson | quote }}\n",
		"fromjson-deep", "  x: {{ fromJson (repeat 20000 \"[\") | toJson | quote }}\n",
		"b64dec-bad", "  x: {{ b64dec \"!!!\" | quote }}\n",
		"div-zero", "  x: {{ div 1 0 }}\n",
		"mod-zero", "  x: {{ mod 1 0 }}\n",
		"substr-oob", "  x: {{ substr 5 1 \"abc\" | quote }}\n",
		"substr-neg", "  x: {{ substr -3 -1 \"abc\" | quote }}\n",
		"trunc-neg", "  x: {{ trunc -10 \"abc\" | quote }}\n",
		"slice-oob", "  x: {{ slice .Values.list 1 9 | toJson }}\n",
		"first-nil", "  x: {{ first .Values.nope }}\n",
		"first-scalar", "  x: {{ first 1 }}\n",
		"last-empty", "  x: {{ last (list) }}\n",
		"get-nil", "  x: {{ get .Values.nope \"a\" }}\n",
		"set-nil", "  x: {{ set .Values.nope \"a\" 1 }}\n",
		"dict-odd", "  x: {{ dict \"a\" | toJson }}\n",
		"dict-nonstring-key", "  x: {{ dict 1 2 | toJson }}\n",
		"merge-nonmap", "  x: {{ merge .Values.x .Values | toJson }}\n",
		"merge-self", "  x: {{ merge .Values .Values | toJson | quote }}\n",
		"mergeoverwrite-nil", "  x: {{ mergeOverwrite .Values.nope .Values | toJson | quote }}\n",
		"deepcopy-nil", "  x: {{ deepCopy .Values.nope | toJson }}\n",
		"dig-nonmap", "  x: {{ dig \"a\" \"b\" \"def\" .Values.x }}\n",
		"semver-bad", "  x: {{ semver \"banana\" }}\n",
		"semvercompare-bad", "  x: {{ semverCompare \">>x\" \"1.0.0\" }}\n",
		"todate-bad", "  x: {{ toDate \"2006\" \"banana\" }}\n",
		"date-badtype", "  x: {{ date \"2006\" \"notadate\" }}\n",
		"atoi-bad", "  x: {{ atoi \"x\" }}\n",
		"int-ofmap", "  x: {{ int .Values }}\n",
		"add-strings", "  x: {{ add \"a\" .Values }}\n",
		"seq-huge-args", "  x: {{ seq 1 2 3 4 5 }}\n",
		"until-neg", "  x: {{ until -5 | toJson }}\n",
		"splitn-zero", "  x: {{ splitn \"\" 0 \"abc\" | toJson }}\n",
		"indent-neg", "  x: {{ indent -4 \"abc\" | quote }}\n",
		"repeat-neg", "  x: {{ repeat -1 \"abc\" | quote }}\n",
		"randAlpha-neg", "  x: {{ randAlpha -1 | quote }}\n",
		"abbrev-small", "  x: {{ abbrev 1 \"hello world\" | quote }}\n",
		"abbrevboth", "  x: {{ abbrevboth 5 1 \"hello world\" | quote }}\n",
		"wrap-zero", "  x: {{ wrap 0 \"hello world\" | quote }}\n",
		"wrapWith-neg", "  x: {{ wrapWith -1 \"\" \"hello world\" | quote }}\n",
		"sha-ofmap", "  x: {{ sha256sum .Values }}\n",
		"derivePassword-bad", "  x: {{ derivePassword 1 \"nope\" \"a\" \"b\" \"c\" | quote }}\n",
		"buildCustomCert-bad", "  x: {{ buildCustomCert \"!!\" \"!!\" | toJson }}\n",
		"decryptAES-bad", "  x: {{ decryptAES \"k\" \"!!\" | quote }}\n",
		"urlparse-bad", "  x: {{ urlParse \"://\\x00\" | toJson }}\n",
		"urljoin-bad", "  x: {{ urlJoin (dict \"host\" 1) | quote }}\n",
		"kindof-nil", "  x: {{ kindOf .Values.nope }}{{ typeOf nil }}{{ kindIs \"map\" nil }}\n",
		"ternary-args", "  x: {{ ternary 1 2 \"notbool\" }}\n",
		"empty-pipeline", "  x: {{ | quote }}\n",
		"range-scalar", "  x: {{ range .Values.x }}{{ . }}{{ end }}\n",
		"range-int", "  x: {{ range $i := 3 }}{{ $i }}{{ end }}\n",
		"with-else-end-unbalanced", "  x: {{ if .Values.x }}a{{ else }}b{{ else }}c{{ end }}\n",
		"end-unbalanced", "  x: {{ end }}\n",
		"break-outside", "  x: {{ break }}\n",
		"comment-unclosed", "  x: {{/* unclosed\n",
		"raw-string-unclosed", "  x: {{ ` }}\n",
		"var-undefined", "  x: {{ $nope }}\n",
		"call-nonfunc", "  x: {{ call .Values.x }}\n",
		"method-on-nil", "  x: {{ .Capabilities.APIVersions.Has 1 }}\n",
		"kubeversion-method", "  x: {{ .Capabilities.KubeVersion.GitVersion }}{{ .Capabilities.KubeVersion.Nope }}\n",
		"chart-field-missing", "  x: {{ .Chart.Nope }}\n",
		"subcharts-walk", "  x: {{ .Subcharts.sub.Values.enabled }}{{ .Subcharts.nope.Values.x }}\n",
		"printf-bad", "  x: {{ printf \"%d %s %!\" \"a\" }}\n",
		"html-js", "  x: {{ html . }}{{ js . }}{{ urlquery . }}\n",
		"and-or-noargs", "  x: {{ and }}{{ or }}\n",
		"eq-incomparable", "  x: {{ eq .Values .Values }}{{ lt \"a\" 1 }}\n",
		"len-nil", "  x: {{ len .Values.nope }}{{ len 1 }}\n",
		"nonutf8", "  x: \"\xff\xfe{{ .Values.x }}\"\n",
		"nul-byte", "  x: \"\x00{{ .Values.x }}\"\n",
		"long-action", "  x: {{ "+strings.Repeat("(", 5000)+".Values.x"+strings.Repeat(")", 5000)+" }}\n",
		"deep-if", "  x: "+strings.Repeat("{{ if true }}", 3000)+"y"+strings.Repeat("{{ end }}", 3000)+"\n",
		"deep-pipeline", "  x: {{ .Values.x "+strings.Repeat("| trim ", 5000)+"}}\n", // (not `quote`: every level doubles the escapes, a memory bomb)
		"delims", "  x: {{`{{`}} {{ \"}}\" }} {{\"{{\"}}\n",
		"trim-markers", "  x: {{- -}}\n",
		"novalue", "  x: {{ .Values.nope }}\n",
	)...)
	d = append(d, custom(T, "t", true,
		"tpl-missing", "  t: {{ tpl .Values.nosuch . | quote }}\n",
		"tpl-of-map", "  t: {{ tpl .Values . | quote }}\n",
		"tpl-ctx-values", "  t: {{ tpl .Values.tplstr .Values | quote }}\n",
		"removed", "",
	)...)
	d = append(d, custom(T, "l", true,
		"lines-nonstring", "  l: {{ .Files.Lines 1 }}\n",
		"lines-dir", "  l: {{ .Files.Lines \"files\" | toJson | quote }}\n",
		"getbytes", "  l: {{ .Files.GetBytes \"files/data.txt\" | toJson | quote }}\n",
	)...)
	d = append(d, custom(T, "imp", false,
		"walk", "  imp: {{ .Values.imported.k | quote }}{{ .Values.imported.own | quote }}\n",
	)...)
	d = append(d, custom(T, "head", true,
		"kind-int", "apiVersion: v1\nkind: 1\n",
		"kind-null", "apiVersion: v1\nkind: null\n",
		"kind-list", "apiVersion: v1\nkind: List\nitems:\n- null\n- metadata: null\n- metadata: {annotations: {\"helm.sh/resource-policy\": keep}}\n",
		"kind-list-items-scalar", "apiVersion: v1\nkind: List\nitems: x\n",
		"apiversion-weird", "apiVersion: a/b/c/d\nkind: ConfigMap\n",
		"apiversion-int", "apiVersion: 1\nkind: ConfigMap\n",
		"apiversion-missing", "kind: ConfigMap\n",
		"deprecated-api", "apiVersion: extensions/v1beta1\nkind: Ingress\n",
		"deployment-no-selector", "apiVersion: apps/v1\nkind: Deployment\n",
		"leading-indent", "  apiVersion: v1\n  kind: ConfigMap\n",
		"leading-doc-sep", "---\n---\n# c\n---\napiVersion: v1\nkind: ConfigMap\n",
		"tabs", "apiVersion:\tv1\nkind:\tConfigMap\n",
		"toplevel-list", "- apiVersion: v1\n- kind: ConfigMap\n",
		"toplevel-scalar", "just text\n",
		"json", "{\"apiVersion\":\"v1\",\"kind\":\"ConfigMap\"}\n---\n",
		"empty", "",
	)...)
	d = append(d, custom(T, "metadata", true,
		"null", "metadata: null\n",
		"list", "metadata: [a]\n",
		"scalar", "metadata: x\n",
		"missing", "",
		"name-int", "metadata:\n  name: 1\n",
		"name-null", "metadata:\n  name: null\n",
		"name-long", "metadata:\n  name: "+strings.Repeat("n", 300)+"\n",
		"name-invalid", "metadata:\n  name: \"UPPER_case/..\"\n",
		"name-map", "metadata:\n  name: {a: b}\n",
		"namespace", "metadata:\n  name: x\n  namespace: 1\n",
		"generatename", "metadata:\n  generateName: x-\n",
	)...)
	d = append(d, custom(T, "annotations", true,
		"null", "  annotations: null\n",
		"list", "  annotations: [a]\n",
		"scalar", "  annotations: x\n",
		"hook-int", "  annotations:\n    \"helm.sh/hook\": 1\n",
		"hook-null", "  annotations:\n    \"helm.sh/hook\": null\n",
		"hook-list", "  annotations:\n    \"helm.sh/hook\": [pre-install]\n",
		"hook-unknown", "  annotations:\n    \"helm.sh/hook\": \"nope,pre-install\"\n",
		"hook-empty", "  annotations:\n    \"helm.sh/hook\": \"\"\n",
		"hook-commas", "  annotations:\n    \"helm.sh/hook\": \",,, ,\"\n",
		"weight-bad", "  annotations:\n    \"helm.sh/hook\": pre-install\n    \"helm.sh/hook-weight\": \"9999999999999999999999\"\n",
		"weight-int", "  annotations:\n    \"helm.sh/hook\": pre-install\n    \"helm.sh/hook-weight\": 5\n",
		"delete-policy-bad", "  annotations:\n    \"helm.sh/hook\": test\n    \"helm.sh/hook-delete-policy\": \",nope,,\"\n    \"helm.sh/hook-output-log-policy\": \"x, ,\"\n",
		"resource-policy", "  annotations:\n    \"helm.sh/resource-policy\": 1\n",
		"value-map", "  annotations:\n    a: {b: c}\n",
	)...)
	d = append(d, custom(T, "data", true,
		"doc-sep-inside", "---\n",
		"doc-end-inside", "...\ngarbage: [\n",
		"data-list", "data: [\n",
	)...)
	d = append(d, custom(T, "extra", true,
		"second-doc-null", "---\nnull\n",
		"second-doc-scalar", "---\nfoo\n",
		"second-doc-empty", "---\n---\n  \n---\n# only a comment\n",
		"second-doc-badyaml", "---\na: [\n",
		"second-doc-nometadata", "---\napiVersion: v1\nkind: Pod\n",
		"second-doc-hook", "---\napiVersion: v1\nkind: Pod\nmetadata:\n  name: t\n  annotations: {\"helm.sh/hook\": \"test-success, pre-delete\"}\n",
		"dup-key", "data: {}\n",
		"sep-no-newline", "---",
		"sep-with-text", "--- # comment\napiVersion: v1\nkind: Pod\nmetadata: {name: p}\n",
		"crlf-sep", "\r\n---\r\napiVersion: v1\r\nkind: Pod\r\nmetadata: {name: p}\r\n",
	)...)
	d = append(d, wholeDevs(T, true,
		"empty", "",
		"whitespace", " \n\t\n",
		"nonutf8", "\xff\xfe\x00\x01",
		"only-comment", "# nothing\n",
		"only-define", "{{ define \"x\" }}y{{ end }}\n",
		"redefine-helper", "{{ define \"p.name\" }}z{{ end }}{{ define \"p.name\" }}w{{ end }}a: {{ include \"p.name\" . }}\n",
	)...)
	d = append(d, Dev{ID: T + ":absent", File: T, Absent: true})
	const H = "templates/_helpers.tpl"
	d = append(d, wholeDevs(H, true,
		"empty", "",
		"unclosed-define", "{{ define \"p.name\" }}x\n",
		"define-nonstring", "{{ define 1 }}x{{ end }}\n",
		"self-include", "{{ define \"p.name\" }}{{ include \"p.name\" . }}{{ end }}\n",
		"self-template", "{{ define \"p.name\" }}{{ template \"p.name\" . }}{{ end }}\n",
		"define-fails", "{{ define \"p.name\" }}{{ fail \"no\" }}{{ end }}\n",
		"define-multidoc", "{{ define \"p.name\" }}a\n---\nb: c{{ end }}\n",
		"define-tpl-self", "{{ define \"p.name\" }}{{ tpl \"{{ include \\\"p.name\\\" . }}\" . }}{{ end }}\n",
		"nonutf8", "{{ define \"p.name\" }}\xff{{ end }}\n",
	)...)
	d = append(d, Dev{ID: H + ":absent", File: H, Absent: true, Core: true})
	// include nested to just below its limit, then on through tpl whose text
	// re-enters the chain from the top (and the other order): the two nesting
	// limits must add up, not multiply
	for _, depth := range []int{10, 500, 900, 999} {
		d = append(d,
			Dev{ID: fmt.Sprintf("%s:include-chain-%d-then-tpl", H, depth), Class: "include-chain-then-tpl-reentering-it", File: H, Text: includeThenTpl(depth)},
			Dev{ID: fmt.Sprintf("%s:tpl-chain-%d-then-include", H, depth), Class: "tpl-chain-then-include-reentering-it", File: H, Text: tplThenInclude(depth)},
		)
	}
	d = append(d, wholeDevs("templates/deploy.yaml", false,
		"no-selector", "apiVersion: apps/v1\nkind: Deployment\nmetadata:\n  name: x\n",
		"no-metadata", "apiVersion: apps/v1\nkind: StatefulSet\n",
		"metadata-null", "apiVersion: apps/v1\nkind: DaemonSet\nmetadata: null\n",
	)...)
	d = append(d, wholeDevs("templates/NOTES.txt", false,
		"empty", "",
		"bad", "{{ .Values.nope.x }}\n",
		"unclosed", "{{",
	)...)
	d = append(d, wholeDevs("files/data.txt", true,
		"empty", "",
		"no-newline", "x",
		"only-newline", "\n",
		"nonutf8", "\xff\n\xfe",
		"crlf", "a\r\nb\r\n",
	)...)
	d = append(d, Dev{ID: "files/data.txt:absent", File: "files/data.txt", Absent: true})

	// ---- lock, ignore ----
	d = append(d, wholeDevs("Chart.lock", false,
		"empty", "",
		"null", "null\n",
		"list", "- a\n",
		"scalar", "x\n",
		"deps-null-item", "dependencies: [null]\ndigest: x\n",
		"deps-scalar", "dependencies: x\n",
		"generated-bad", "generated: notadate\n",
		"generated-int", "generated: 1\n",
		"digest-int", "digest: 1\n",
		"badyaml", "a: [\n",
		"nonutf8", "\xff\xfe",
	)...)
	d = append(d, Dev{ID: "Chart.lock:absent", File: "Chart.lock", Absent: true})
	d = append(d, wholeDevs(".helmignore", false,
		"empty", "",
		"bad-pattern", "[\n",
		"doublestar", "**/x\n",
		"negate-only", "!\n",
		"slash-only", "/\n",
		"ignore-all", "*\n",
		"ignore-chartyaml", "Chart.yaml\n",
		"ignore-templates", "templates/\n",
		"negate-all", "!*\n",
		"nonutf8", "\xff\xfe\n",
		"long-line", strings.Repeat("a", 70000)+"\n",
		"backslash", "\\\n",
		"bom", "\xef\xbb\xbf# c\n*.x\n",
	)...)

	// ---- subchart ----
	const SC = "charts/sub/Chart.yaml"
	d = append(d, custom(SC, "name", true,
		"mismatch", "name: other\n",
		"null", "name: null\n",
		"int", "name: 1\n",
		"missing", "",
		"parent", "name: parent\n",
		"global", "name: global\n",
		"dotted", "name: a.b\n",
		"Values", "name: Values\n",
	)...)
	d = append(d, custom(SC, "version", true,
		"mismatch", "version: 9.9.9\n",
		"bad", "version: banana\n",
		"missing", "",
		"null", "version: null\n",
	)...)
	d = append(d, custom(SC, "apiVersion", false, "v1", "apiVersion: v1\n", "missing", "")...)
	d = append(d, custom(SC, "type", true, "library", "type: library\n", "bad", "type: 1\n")...)
	d = append(d, custom(SC, "tail", true,
		"own-deps-missing", "dependencies:\n- name: ghost\n  version: 1.0.0\n  repository: https://example.com\n",
		"own-deps-null", "dependencies:\n- null\n",
		"own-deps-importvalues-bad", "dependencies:\n- name: ghost\n  version: 1.0.0\n  import-values: [{child: 1}]\n",
	)...)
	d = append(d, wholeDevs(SC, true,
		"empty", "",
		"null", "null\n",
		"list", "- a\n",
		"badyaml", "a: [\n",
		"nonutf8", "name: \xff\n",
	)...)
	d = append(d, Dev{ID: SC + ":absent", File: SC, Absent: true, Core: true})
	const SV = "charts/sub/values.yaml"
	d = append(d, custom(SV, "enabled", true,
		"str", "enabled: \"yes\"\n",
		"map", "enabled: {a: b}\n",
		"null", "enabled: null\n",
		"false", "enabled: false\n",
		"missing", "",
	)...)
	d = append(d, custom(SV, "data", true,
		"scalar", "data: 1\n",
		"null", "data: null\n",
		"list", "data: [1, 2]\n",
		"missing", "",
		"nested-null", "data:\n  k: null\n  k2: {a: null}\n",
	)...)
	d = append(d, custom(SV, "exports", true,
		"null", "exports: null\n",
		"scalar", "exports: 1\n",
		"list", "exports: [exp]\n",
		"exp-scalar", "exports:\n  exp: 1\n",
		"exp-null", "exports:\n  exp: null\n",
		"exp-list", "exports:\n  exp: [1]\n",
		"missing", "",
		"exp-clobbers", "exports:\n  exp:\n    x: {deep: 1}\n    sub: 1\n    global: 2\n    imported: 3\n    tags: 4\n",
	)...)
	d = append(d, custom(SV, "global", true,
		"scalar", "global: 1\n",
		"null", "global: null\n",
		"list", "global: [1]\n",
		"g-map", "global:\n  g: {a: b}\n",
		"missing", "",
	)...)
	d = append(d, custom(SV, "tail", false,
		"own-name-key", "sub: {enabled: false}\n",
	)...)
	d = append(d, wholeDevs(SV, true,
		"empty", "",
		"null", "null\n",
		"list", "- a\n",
		"scalar", "x\n",
		"badyaml", "a: [\n",
		"multi-doc", "a: 1\n---\nenabled: x\n",
	)...)
	d = append(d, Dev{ID: SV + ":absent", File: SV, Absent: true})
	d = append(d, wholeDevs("charts/sub/values.schema.json", false,
		"false", "false",
		"bad", "{",
		"type-string", "{\"type\":\"string\"}",
		"ref-self", "{\"$ref\":\"#\"}",
	)...)
	d = append(d, wholeDevs("charts/sub/templates/svc.yaml", false,
		"nil-deref", "a: {{ .Values.nope.x.y }}\n",
		"global-walk", "a: {{ .Values.global.g.a.b }}\n",
		"unclosed", "{{",
		"parent-helper", "a: {{ include \"p.name\" . }}\n",
	)...)

	// ---- user supplied values ----
	const U = "@uservalues"
	d = append(d, wholeDevs(U, true,
		"empty", "",
		"null", "null\n",
		"list", "- a\n",
		"scalar", "x\n",
		"badyaml", "a: [\n",
		"sub-int", "sub: 1\n",
		"sub-null", "sub: null\n",
		"sub-list", "sub: []\n",
		"sub-enabled-str", "sub: {enabled: \"false\"}\n",
		"sub-enabled-false", "sub: {enabled: false}\n",
		"sub-enabled-null", "sub: {enabled: null}\n",
		"sub-global-int", "sub: {global: 1}\n",
		"sub-data-int", "sub: {data: 1}\n",
		"sub-exports-int", "sub: {exports: 1}\n",
		"sub-exports-exp-int", "sub: {exports: {exp: 1}}\n",
		"global-int", "global: 1\n",
		"global-null", "global: null\n",
		"global-list", "global: [a]\n",
		"global-g-map", "global: {g: {a: b}}\n",
		"tags-int", "tags: 1\n",
		"tags-null", "tags: null\n",
		"tags-t1-str", "tags: {t1: \"false\"}\n",
		"tags-t1-false", "tags: {t1: false}\n",
		"x-null", "x: null\n",
		"x-map", "x: {a: b}\n",
		"x-int", "x: 7\n",
		"imported-int", "imported: 1\n",
		"imported-null", "imported: null\n",
		"other-alias-map", "other: {enabled: false}\nsub2: 1\n",
		"tplstr-self", "tplstr: \"{{ tpl .Values.tplstr . }}\"\n",
		"deep", "x: "+deep1k+"\n",
	)...)
	// several shapes of one input class share a finding-key class
	for i := range d {
		switch d[i].ID {
		case "values.yaml#tplstr=self", "@uservalues:tplstr-self", "templates/cm.yaml#x=tpl-self-literal":
			d[i].Class = "tpl-argument-that-calls-tpl-on-itself"
		}
	}
	applyTiers(d, chartPairsQuick, chartTriples, chartPairs)
	return d
}

// includeThenTpl: helper "walk" includes itself depth times, then calls tpl on
// a text that includes "walk" from 0 again. (p.name, used by the baseline
// templates, starts the walk.)
func includeThenTpl(depth int) string {
	return "{{- define \"p.name\" -}}x{{ include \"walk\" (dict \"n\" 0) }}{{- end -}}\n" +
		"{{- define \"walk\" -}}\n" +
		fmt.Sprintf("{{- if lt (int .n) %d -}}\n", depth) +
		"{{- include \"walk\" (dict \"n\" (add1 .n)) -}}\n" +
		"{{- else -}}\n" +
		"{{- tpl \"{{ include \\\"walk\\\" (dict \\\"n\\\" 0) }}\" . -}}\n" +
		"{{- end -}}\n{{- end -}}\n"
}

// tplThenInclude: a text that calls tpl on itself depth times, then includes a
// helper that starts the tpl chain from 0 again.
func tplThenInclude(depth int) string {
	text := fmt.Sprintf("{{ if lt (int .n) %d }}{{ tpl .t (dict \"n\" (add1 .n) \"t\" .t) }}{{ else }}{{ include \"reenter\" . }}{{ end }}", depth)
	return "{{- define \"p.name\" -}}x{{ include \"reenter\" (dict \"t\" " + fmt.Sprintf("%q", text) + ") }}{{- end -}}\n" +
		"{{- define \"reenter\" -}}{{ tpl .t (dict \"n\" 0 \"t\" .t) }}{{- end -}}\n"
}

// chartPairsQuick selects the deviations that are combined pairwise in the
// quick tier: per field the shapes that survive loading and reach dependency
// processing, value computation, rendering or lint.
var chartPairsQuick = map[string]string{
	"Chart.yaml#apiVersion":          "v1",
	"Chart.yaml#name":                "ctrl",
	"Chart.yaml#type":                "library",
	"Chart.yaml#maintainers":         "item-fields-null",
	"Chart.yaml#dependencies":        "toplevel-null",
	"Chart.yaml#tail":                "dep-second-same-name",
	"Chart.yaml#dep.name":            "empty",
	"Chart.yaml#dep.version":         "missing",
	"Chart.yaml#dep.repository":      "missing",
	"Chart.yaml#dep.condition":       "missing into-scalar nonbool",
	"Chart.yaml#dep.tags":            "missing-tag missing",
	"Chart.yaml#dep.alias":           "alias alias-parent alias-global",
	"Chart.yaml#dep.enabled":         "enabled-false",
	"Chart.yaml#dep.import-values":   "missing null child-int child-scalar-path parent-under-scalar many",
	"values.yaml#sub":                "null missing enabled-null enabled-false data-scalar exports-scalar",
	"values.yaml#tags":               "null scalar t1-false",
	"values.yaml#global":             "null scalar g-map",
	"values.yaml#x":                  "null map",
	"values.yaml#tplstr":             "unclosed self nil-deref",
	"values.yaml#imported":           "scalar missing",
	"values.yaml#tail":               "exports",
	"values.yaml:":                   "empty null",
	"values.schema.json:":            "false ref-self",
	"values.schema.json#x":           "type-null not-self",
	"values.schema.json#sub":         "sub-string",
	"values.schema.json#required":    "missingprop",
	"templates/cm.yaml#x":            "unclosed nil-deref include-loop tpl-loop",
	"templates/cm.yaml#t":            "tpl-of-map",
	"templates/cm.yaml#head":         "kind-null kind-list",
	"templates/cm.yaml#metadata":     "null",
	"templates/cm.yaml#annotations":  "hook-unknown",
	"templates/cm.yaml#data":         "doc-sep-inside",
	"templates/cm.yaml#extra":        "second-doc-null second-doc-hook",
	"templates/cm.yaml:":             "empty",
	"templates/_helpers.tpl:":        "self-include define-tpl-self",
	"files/data.txt:":                "empty absent",
	"charts/sub/Chart.yaml#name":     "mismatch global",
	"charts/sub/Chart.yaml#version":  "mismatch",
	"charts/sub/Chart.yaml#type":     "library",
	"charts/sub/Chart.yaml#tail":     "own-deps-importvalues-bad",
	"charts/sub/Chart.yaml:":         "absent",
	"charts/sub/values.yaml#enabled": "null false",
	"charts/sub/values.yaml#data":    "scalar null",
	"charts/sub/values.yaml#exports": "null exp-scalar",
	"charts/sub/values.yaml#global":  "scalar g-map",
	"charts/sub/values.yaml:":        "null absent",
	"@uservalues:":                   "null sub-int sub-enabled-false sub-global-int global-int tags-t1-false tplstr-self",
}

// chartPairs selects the (larger) set of deviations combined pairwise in the
// thorough tier.
// key: "file#slot" (slot deviations) or "file:" (whole-file deviations);
// value: variant names, "*" = all.
var chartPairs = map[string]string{
	"Chart.yaml#apiVersion":          "missing empty v1 v3",
	"Chart.yaml#name":                "ctrl subname template",
	"Chart.yaml#version":             "prerelease",
	"Chart.yaml#type":                "missing library Library",
	"Chart.yaml#kubeVersion":         "unsat",
	"Chart.yaml#keywords":            "null",
	"Chart.yaml#maintainers":         "null item-fields-null",
	"Chart.yaml#annotations":         "null",
	"Chart.yaml#dependencies":        "toplevel-null",
	"Chart.yaml#tail":                "dep-second-missing-chart dep-second-same-name unknown-field dup-dependencies",
	"Chart.yaml#dep.name":            "empty",
	"Chart.yaml#dep.version":         "missing str empty badrange star unsat caret",
	"Chart.yaml#dep.repository":      "missing",
	"Chart.yaml#dep.condition":       "*",
	"Chart.yaml#dep.tags":            "null listnull emptylist nonstring missing-tag missing",
	"Chart.yaml#dep.alias":           "alias alias-same alias-parent alias-global",
	"Chart.yaml#dep.enabled":         "enabled-false",
	"Chart.yaml#dep.import-values":   "*",
	"values.yaml#sub":                "*",
	"values.yaml#tags":               "*",
	"values.yaml#global":             "*",
	"values.yaml#x":                  "null map missing",
	"values.yaml#tplstr":             "unclosed self nil-deref null map include-loop",
	"values.yaml#imported":           "*",
	"values.yaml#tail":               "*",
	"values.yaml:":                   "empty null list emptymap multi-doc nonstring-keys merge-key",
	"values.schema.json:":            "empty null false emptyobj ref-self ref-recursive ref-missing bad-regex absent deep",
	"values.schema.json#x":           "type-null null false ref-self not-self type-object",
	"values.schema.json#sub":         "*",
	"values.schema.json#required":    "null missingprop additional-false",
	"templates/cm.yaml#x":            "unclosed nil-deref fail required toyaml-root include-undefined include-loop template-loop tpl-loop tpl-nil files-lines-missing files-glob-bad lookup novalue index-nil subcharts-walk",
	"templates/cm.yaml#t":            "*",
	"templates/cm.yaml#l":            "lines-dir",
	"templates/cm.yaml#head":         "kind-null kind-list apiversion-missing deprecated-api leading-doc-sep toplevel-list empty",
	"templates/cm.yaml#metadata":     "null list missing name-null",
	"templates/cm.yaml#annotations":  "null list hook-null hook-unknown hook-commas weight-bad delete-policy-bad",
	"templates/cm.yaml#data":         "doc-sep-inside",
	"templates/cm.yaml#extra":        "second-doc-null second-doc-empty second-doc-nometadata second-doc-hook sep-no-newline",
	"templates/cm.yaml:":             "empty only-define redefine-helper absent",
	"templates/_helpers.tpl:":        "*",
	"files/data.txt:":                "empty only-newline absent",
	"charts/sub/Chart.yaml#name":     "*",
	"charts/sub/Chart.yaml#version":  "mismatch missing",
	"charts/sub/Chart.yaml#type":     "*",
	"charts/sub/Chart.yaml#tail":     "*",
	"charts/sub/Chart.yaml:":         "null absent",
	"charts/sub/values.yaml#enabled": "*",
	"charts/sub/values.yaml#data":    "*",
	"charts/sub/values.yaml#exports": "*",
	"charts/sub/values.yaml#global":  "*",
	"charts/sub/values.yaml:":        "empty null list multi-doc absent",
	"@uservalues:":                   "*",
}

// chartTriples selects the deviations combined three at a time in the
// thorough tier: the ones that meet in dependency processing and value
// computation (parent values x subchart values x user values x dependency
// declaration).
var chartTriples = map[string]string{
	"Chart.yaml#dep.condition":       "str empty missing dots trailing-dot into-scalar nonbool table",
	"Chart.yaml#dep.tags":            "null listnull missing-tag missing",
	"Chart.yaml#dep.alias":           "alias alias-parent alias-global",
	"Chart.yaml#dep.import-values":   "missing null emptylist item-null item-list child-int dots child-scalar-path child-into-scalar parent-scalar-path parent-under-scalar parent-is-sub str-missing-export empty-strings many",
	"Chart.yaml#tail":                "dep-second-same-name",
	"values.yaml#sub":                "null int missing enabled-null enabled-str enabled-map enabled-false data-scalar data-null global-scalar exports-scalar exports-exp-scalar exports-null",
	"values.yaml#tags":               "null scalar t1-str t1-false missing",
	"values.yaml#global":             "null scalar g-map missing",
	"values.yaml#imported":           "*",
	"values.yaml:":                   "null",
	"charts/sub/Chart.yaml#type":     "library",
	"charts/sub/values.yaml#enabled": "str null false missing",
	"charts/sub/values.yaml#data":    "scalar null missing",
	"charts/sub/values.yaml#exports": "null scalar exp-scalar exp-null missing",
	"charts/sub/values.yaml#global":  "scalar null g-map",
	"charts/sub/values.yaml:":        "null absent",
	"@uservalues:":                   "null sub-int sub-null sub-enabled-str sub-enabled-false sub-global-int sub-data-int sub-exports-int global-int global-null global-g-map tags-null tags-t1-str tags-t1-false imported-int",
}

// ---------------------------------------------------------------------------
// execution

func writeTree(dir string, fs fileset) error {
	for _, name := range fs.order {
		if strings.HasPrefix(name, "@") {
			continue
		}
		p := filepath.Join(dir, filepath.FromSlash(name))
		if err := os.MkdirAll(filepath.Dir(p), 0o755); err != nil {
			return err
		}
		if err := os.WriteFile(p, fs.data[name], 0o644); err != nil {
			return err
		}
	}
	return nil
}

// treeCache keeps a chart directory on disk in step with the case at hand by
// rewriting only the files that differ from what the previous case left there
// (a case deviates one to three files out of fifteen).
type treeCache struct {
	dir   string
	state map[string]string // file name -> content currently on disk
}

func (t *treeCache) sync(fs fileset) error {
	if t.state == nil {
		os.RemoveAll(t.dir)
		if err := writeTree(t.dir, fs); err != nil {
			return err
		}
		t.state = map[string]string{}
		for _, n := range fs.order {
			if !strings.HasPrefix(n, "@") {
				t.state[n] = string(fs.data[n])
			}
		}
		return nil
	}
	want := map[string]bool{}
	for _, n := range fs.order {
		if strings.HasPrefix(n, "@") {
			continue
		}
		want[n] = true
		if cur, ok := t.state[n]; ok && cur == string(fs.data[n]) {
			continue
		}
		p := filepath.Join(t.dir, filepath.FromSlash(n))
		if err := os.MkdirAll(filepath.Dir(p), 0o755); err != nil {
			return err
		}
		if err := os.WriteFile(p, fs.data[n], 0o644); err != nil {
			return err
		}
		t.state[n] = string(fs.data[n])
	}
	for n := range t.state {
		if !want[n] {
			p := filepath.Join(t.dir, filepath.FromSlash(n))
			if err := os.Remove(p); err != nil {
				return err
			}
			delete(t.state, n)
			// a directory left empty disappears too (as in a freshly written tree)
			for d := filepath.Dir(p); d != t.dir && os.Remove(d) == nil; d = filepath.Dir(d) {
			}
		}
	}
	return nil
}

var chartTree *treeCache

func tgz(prefix string, fs fileset) []byte {
	var buf bytes.Buffer
	zw := gzip.NewWriter(&buf)
	tw := tar.NewWriter(zw)
	for _, name := range fs.order {
		if strings.HasPrefix(name, "@") {
			continue
		}
		b := fs.data[name]
		tw.WriteHeader(&tar.Header{Name: prefix + "/" + name, Mode: 0o644, Size: int64(len(b)), Typeflag: tar.TypeReg})
		tw.Write(b)
	}
	tw.Close()
	zw.Close()
	return buf.Bytes()
}

func lintOutcome(l support.Linter) error {
	if l.HighestSeverity >= support.ErrorSev {
		for _, m := range l.Messages {
			if m.Severity >= support.ErrorSev {
				return fmt.Errorf("lint: %s", firstLine(m.Error(), 120))
			}
		}
		return fmt.Errorf("lint: error severity")
	}
	return nil
}

// pipeline runs the post-load stages on a loaded chart.
func pipeline(e *env, prefix string, ch *chart.Chart, vals map[string]interface{}) []res {
	var out []res
	step := func(name string, fn func() error) bool {
		r := e.g.run(prefix+name, fn)
		out = append(out, r)
		return r.Kind == "ok"
	}
	// what `helm install/template` do with a loaded chart
	step("CheckDependencies", func() error {
		if req := ch.Metadata.Dependencies; req != nil {
			return action.CheckDependencies(ch, req)
		}
		return nil
	}) // a missing dependency is an error for install; continue like `helm template --dependency-update` would not: stop
	if out[len(out)-1].Kind != "ok" {
		return out
	}
	if !step("ProcessDependencies", func() error { return chartutil.ProcessDependencies(ch, vals) }) {
		return out
	}
	var rv chartutil.Values
	if !step("ToRenderValues", func() error {
		var err error
		rv, err = chartutil.ToRenderValues(ch, vals, chartutil.ReleaseOptions{Name: "rel", Namespace: "ns", Revision: 1, IsInstall: true}, nil)
		return err
	}) {
		return out
	}
	var rendered map[string]string
	if !step("Render", func() error {
		var err error
		rendered, err = engine.Render(ch, rv)
		return err
	}) {
		return out
	}
	step("SortManifests", func() error {
		files := map[string]string{}
		for k, v := range rendered {
			if strings.HasSuffix(k, "NOTES.txt") {
				continue
			}
			files[k] = v
		}
		hooks, manifests, err := releaseutil.SortManifests(files, nil, releaseutil.InstallOrder)
		if err != nil {
			return err
		}
		// what the action does with the result
		for _, h := range hooks {
			_ = h.Name + h.Kind + h.Path
		}
		for _, m := range manifests {
			_ = m.Name + m.Head.Kind
			if m.Head.Metadata != nil {
				_ = m.Head.Metadata.Name
			}
		}
		return nil
	})
	return out
}

func chartExec(e *env, fs fileset) []res {
	var out []res
	// user values
	vals := map[string]interface{}{}
	valsOK := true
	if raw, ok := fs.get("@uservalues"); ok {
		r := e.g.run("ReadValues", func() error {
			v, err := chartutil.ReadValues(raw)
			if err == nil {
				vals = v
			}
			return err
		})
		out = append(out, r)
		valsOK = r.Kind == "ok"
	}

	// 1. in-memory load + pipeline
	var bufs []*loader.BufferedFile
	for _, n := range fs.order {
		if strings.HasPrefix(n, "@") {
			continue
		}
		bufs = append(bufs, &loader.BufferedFile{Name: n, Data: append([]byte{}, fs.data[n]...)})
	}
	var ch *chart.Chart
	r := e.g.run("LoadFiles", func() error {
		var err error
		ch, err = loader.LoadFiles(bufs)
		return err
	})
	out = append(out, r)
	if r.Kind == "ok" && valsOK {
		out = append(out, pipeline(e, "", ch, vals)...)
	}

	// 2. archive load
	arch := tgz("parent", fs)
	var ach *chart.Chart
	r = e.g.run("LoadArchive", func() error {
		var err error
		ach, err = loader.LoadArchive(bytes.NewReader(arch))
		return err
	})
	out = append(out, r)
	if r.Kind == "ok" {
		out = append(out, e.g.run("ArchiveChartAccessors", func() error {
			_ = ach.ChartFullPath() + ach.ChartPath() + ach.AppVersion()
			_ = ach.CRDObjects()
			for _, d := range ach.Dependencies() {
				_ = d.ChartFullPath()
			}
			_, err := chartutil.CoalesceValues(ach, map[string]interface{}{})
			return err
		}))
	}

	// 3. directory: loader.Load + lint
	if chartTree == nil {
		chartTree = &treeCache{dir: filepath.Join(e.scratch, "chart", "parent")}
	}
	cdir := chartTree.dir
	if err := chartTree.sync(fs); err != nil {
		chartTree.state = nil // start over with the next case
		out = append(out, res{Stage: "write-tree", Kind: "harness", Detail: err.Error()})
		return out
	}
	out = append(out, e.g.run("LoadDir", func() error {
		_, err := loader.Load(cdir)
		return err
	}))
	if valsOK {
		out = append(out, e.g.run("Lint", func() error {
			return lintOutcome(lint.RunAll(cdir, vals, "ns"))
		}))
	}
	return out
}

func newChartEntry() *docEntry {
	return &docEntry{
		name:      "chart",
		widePairs: true,
		files:     chartFiles(),
		devs:      chartDevs(),
		trunc:     []string{"Chart.yaml", "values.yaml", "values.schema.json", "templates/cm.yaml", "charts/sub/values.yaml"},
		exec:      chartExec,
		floors: []string{"chart:baseline-ok", "chart:all-ok", "chart:error:LoadFiles", "chart:error:CheckDependencies", "chart:error:ProcessDependencies",
			"chart:error:ToRenderValues", "chart:error:Render", "chart:error:SortManifests", "chart:error:Lint", "chart:error:LoadArchive", "chart:error:LoadDir", "chart:error:ReadValues"},
	}
}
