package c20

import (
	"fmt"
	"os"
	"path/filepath"
	"strings"
	"syscall"

	"helm.sh/helm/v4/pkg/action"
	"helm.sh/helm/v4/pkg/chart/v2/loader"
	chartutil "helm.sh/helm/v4/pkg/chart/v2/util"
	"helm.sh/helm/v4/pkg/lint"
)

// ---------------------------------------------------------------------------
// entry point "chartdir": a chart DIRECTORY whose tree contains an entry the
// walk cannot handle like a regular file (cannot be lstat'ed, cannot be
// resolved, cannot be read, is not a regular file), crossed with the contents
// of .helmignore and with the place of the entry, through IsChartDir, LoadDir,
// Load, lint and package. The walk callback is called with a nil FileInfo when
// lstat of an entry fails; nothing may dereference it.

func chartdirFiles() []fileSpec {
	return []fileSpec{
		{Name: "@ignore", Slots: []slot{kv("all", "*.bak\n*.swp\n")}},
		{Name: "@hazard", Slots: []slot{kv("all", "none")}},
		{Name: "@where", Slots: []slot{kv("all", "files")}},
	}
}

const helmCreateIgnore = `# Patterns to ignore when building packages.
# This supports shell glob matching, relative path matching, and
# negation (prefixed with !). Only one pattern per line.
.DS_Store
# Common VCS dirs
.git/
.gitignore
.bzr/
.bzrignore
.hg/
.hgignore
.svn/
# Common backup files
*.swp
*.bak
*.tmp
*.orig
*~
# Various IDEs
.project
.idea/
*.tmproj
.vscode/
`

var chartdirHazards = []string{
	"overlong-path", "overlong-dirs-only", "deep-but-ok", "long-name", "empty-dir",
	"dangling-symlink", "self-symlink", "symlink-pair-loop", "symlink-to-chart-root", "symlink-to-parent", "symlink-to-outside-file", "symlink-to-outside-dir", "symlink-to-overlong",
	"unreadable-dir", "unreadable-file", "fifo", "odd-names",
}

func chartdirDevs() []Dev {
	var d []Dev
	d = append(d, wholeDevs("@ignore", true,
		"empty", "",
		"comment-only", "# nothing\n",
		"dir-rule", ".git/\n",
		"dir-rule-after-file-rule", "*.bak\n.idea/\n",
		"helm-create", helmCreateIgnore,
		"negated-dir-rule", "!keep/\n",
		"negated-file-rule", "!*.yaml\n",
		"ignores-hazard-by-name", "hz*\n",
		"ignores-hazard-dirs", "hz*/\n",
		"ignores-parent-dirs", "files/\ntemplates/\ncrds/\ncharts/\n",
		"all-dirs", "*/\n",
		"everything", "*\n",
		"rooted", "/files\n/hz*\n",
		"structural", "files/hz*\n*/hz*/\n",
		"bad-pattern", "[\n",
		"double-star", "**/hz\n",
		"bom-crlf", "\xef\xbb\xbf.git/\r\n*.bak\r\n",
	)...)
	d = append(d, Dev{ID: "@ignore:absent", File: "@ignore", Absent: true, Core: true})
	for _, h := range chartdirHazards {
		d = append(d, Dev{ID: "@hazard:" + h, Class: "@hazard:" + h, File: "@hazard", Text: h, Core: true})
	}
	d = append(d, wholeDevs("@where", true,
		"top", ".",
		"templates", "templates",
		"crds", "crds",
		"subchart", "charts/sub",
		"subchart-templates", "charts/sub/templates",
		"new-dir", "extra/nested",
	)...)
	for i := range d {
		d[i].Triple = true
	}
	return d
}

// mkDeep creates depth nested directories named seg below base (and a leaf
// file in the innermost one). The absolute path may exceed PATH_MAX, so the
// directories are entered one by one.
func mkDeep(base, seg string, depth int, leaf bool) error {
	cwd, err := os.Getwd()
	if err != nil {
		return err
	}
	defer os.Chdir(cwd)
	if err := os.Chdir(base); err != nil {
		return err
	}
	for i := 0; i < depth; i++ {
		if err := os.Mkdir(seg, 0o755); err != nil {
			return err
		}
		if err := os.Chdir(seg); err != nil {
			return err
		}
	}
	if leaf {
		return os.WriteFile("leaf.txt", []byte("x\n"), 0o644)
	}
	return nil
}

func plantHazard(root, outside, where, hazard string) error {
	dir := filepath.Join(root, filepath.FromSlash(where))
	if err := os.MkdirAll(dir, 0o755); err != nil {
		return err
	}
	p := func(n string) string { return filepath.Join(dir, n) }
	seg := "hz" + strings.Repeat("d", 198)
	switch hazard {
	case "none":
		return nil
	case "overlong-path":
		return mkDeep(dir, seg, 24, true)
	case "overlong-dirs-only":
		return mkDeep(dir, seg, 24, false)
	case "deep-but-ok":
		return mkDeep(dir, seg, 12, true)
	case "long-name":
		return os.WriteFile(p("hz"+strings.Repeat("n", 253)), []byte("x\n"), 0o644)
	case "empty-dir":
		return os.Mkdir(p("hzempty"), 0o755)
	case "dangling-symlink":
		return os.Symlink("nonexistent-target", p("hzlink"))
	case "self-symlink":
		return os.Symlink("hzlink", p("hzlink"))
	case "symlink-pair-loop":
		if err := os.Symlink("hzb", p("hza")); err != nil {
			return err
		}
		return os.Symlink("hza", p("hzb"))
	case "symlink-to-chart-root":
		return os.Symlink(root, p("hzlink"))
	case "symlink-to-parent":
		return os.Symlink("..", p("hzlink"))
	case "symlink-to-outside-file":
		return os.Symlink(filepath.Join(outside, "secret.txt"), p("hzlink.txt"))
	case "symlink-to-outside-dir":
		return os.Symlink(filepath.Join(outside, "dir"), p("hzlinkdir"))
	case "symlink-to-overlong":
		if err := mkDeep(outside, seg, 24, true); err != nil {
			return err
		}
		return os.Symlink(filepath.Join(outside, seg), p("hzlinkdeep"))
	case "unreadable-dir":
		if err := os.Mkdir(p("hzdir"), 0o755); err != nil {
			return err
		}
		if err := os.WriteFile(filepath.Join(p("hzdir"), "f.txt"), []byte("x\n"), 0o644); err != nil {
			return err
		}
		lockedDir = p("hzdir")
		return os.Chmod(p("hzdir"), 0)
	case "unreadable-file":
		if err := os.WriteFile(p("hzfile.txt"), []byte("x\n"), 0o644); err != nil {
			return err
		}
		return os.Chmod(p("hzfile.txt"), 0)
	case "fifo":
		return syscall.Mkfifo(p("hzfifo"), 0o644)
	case "odd-names":
		for _, n := range []string{"hz\nnewline", "hz\xff\xfe", "hz ", "hz*[", "-hz", "hz\\back"} {
			if err := os.WriteFile(p(n), []byte("x\n"), 0o644); err != nil {
				return err
			}
		}
		return nil
	}
	return fmt.Errorf("unknown hazard %q", hazard)
}

// lockedDir is the mode-0 directory planted by the last case (made removable
// again before the tree is deleted).
var lockedDir string

func unlock(string) {
	if lockedDir != "" {
		os.Chmod(lockedDir, 0o755)
		lockedDir = ""
	}
}

func chartdirExec(e *env, fs fileset) []res {
	var out []res
	base := filepath.Join(e.scratch, "chartdir")
	unlock(base)
	os.RemoveAll(base)
	root := filepath.Join(base, "mychart")
	outside := filepath.Join(base, "outside")
	setup := func() error {
		for _, d := range []string{root, filepath.Join(root, "templates"), filepath.Join(root, "files"), filepath.Join(root, "charts", "sub", "templates"), filepath.Join(outside, "dir"), filepath.Join(base, "dest")} {
			if err := os.MkdirAll(d, 0o755); err != nil {
				return err
			}
		}
		files := map[string]string{
			"Chart.yaml":                     "apiVersion: v2\nname: mychart\nversion: 0.1.0\ndependencies:\n- name: sub\n  version: 0.1.0\n  repository: https://example.com/charts\n",
			"values.yaml":                    "a: 1\n",
			"templates/cm.yaml":              "apiVersion: v1\nkind: ConfigMap\nmetadata:\n  name: {{ .Release.Name }}\ndata:\n  a: {{ .Values.a | quote }}\n",
			"files/data.txt":                 "d\n",
			"charts/sub/Chart.yaml":          "apiVersion: v2\nname: sub\nversion: 0.1.0\n",
			"charts/sub/templates/note.yaml": "# nothing\n",
		}
		for n, c := range files {
			if err := os.WriteFile(filepath.Join(root, filepath.FromSlash(n)), []byte(c), 0o644); err != nil {
				return err
			}
		}
		os.WriteFile(filepath.Join(outside, "secret.txt"), []byte("outside\n"), 0o644)
		os.WriteFile(filepath.Join(outside, "dir", "o.yaml"), []byte("o: 1\n"), 0o644)
		if ig, ok := fs.get("@ignore"); ok {
			if err := os.WriteFile(filepath.Join(root, ".helmignore"), ig, 0o644); err != nil {
				return err
			}
		}
		hz, _ := fs.get("@hazard")
		wh, _ := fs.get("@where")
		return plantHazard(root, outside, string(wh), string(hz))
	}
	if err := setup(); err != nil {
		out = append(out, res{Stage: "setup", Kind: "harness", Detail: err.Error()})
		unlock(base)
		os.RemoveAll(base)
		return out
	}
	out = append(out, e.g.run("IsChartDir", func() error { _, err := chartutil.IsChartDir(root); return err }))
	out = append(out, e.g.run("LoadDir", func() error { _, err := loader.LoadDir(root); return err }))
	out = append(out, e.g.run("Load", func() error { _, err := loader.Load(root); return err }))
	out = append(out, e.g.run("Lint", func() error { return lintOutcome(lint.RunAll(root, map[string]interface{}{}, "ns")) }))
	out = append(out, e.g.run("Package", func() error {
		p := action.NewPackage()
		p.Destination = filepath.Join(base, "dest")
		_, err := p.Run(root, nil)
		return err
	}))
	unlock(base)
	os.RemoveAll(base)
	return out
}

func newChartdirEntry() *docEntry {
	return &docEntry{
		name:        "chartdir",
		files:       chartdirFiles(),
		devs:        chartdirDevs(),
		exec:        chartdirExec,
		pairAll:     true,
		tripleQuick: true,
		floors:      []string{"chartdir:baseline-ok", "chartdir:all-ok", "chartdir:error:LoadDir", "chartdir:error:Load", "chartdir:error:Lint", "chartdir:error:Package"},
	}
}
