package c20

import (
	"bufio"
	"bytes"
	"encoding/json"
	"fmt"
	"io"
	"os"
	"os/exec"
	"path/filepath"
	"sort"
	"strings"
	"sync"
	"time"

	"verif/harness/internal/core"
)

// remote drives the case server: an expendable child process (this binary in
// `replay` mode on a special file) that executes Helm code, so that a fatal
// runtime error or a hang costs one child, is attributed to the exact stage,
// and the exploration goes on.
type remote struct {
	e       *env
	cmd     *exec.Cmd
	stdin   io.WriteCloser
	lines   chan string
	stderr  *headTail
	starts  int
	maxMB   int           // stack limit of the child in MB (0 = runtime default, 1 GB)
	cpuMax  time.Duration // per-stage watchdog on the CPU time consumed by the child (robust against a loaded machine)
	wallMax time.Duration // per-stage watchdog on wall time (a child that is blocked burns no CPU)
	srvFile string
	deadCPU time.Duration // CPU time of children already reaped
}

// procCPU reads the CPU time (user+system) consumed so far by a live process.
func procCPU(pid int) time.Duration {
	b, err := os.ReadFile(fmt.Sprintf("/proc/%d/stat", pid))
	if err != nil {
		return 0
	}
	s := string(b)
	i := strings.LastIndexByte(s, ')')
	if i < 0 {
		return 0
	}
	f := strings.Fields(s[i+1:])
	if len(f) < 13 {
		return 0
	}
	var ut, st int64
	fmt.Sscan(f[11], &ut)
	fmt.Sscan(f[12], &st)
	return time.Duration(ut+st) * (time.Second / 100) // USER_HZ = 100
}

// cpu is the CPU time consumed by all children so far.
func (r *remote) cpu() time.Duration {
	t := r.deadCPU
	if r.cmd != nil && r.cmd.Process != nil {
		t += procCPU(r.cmd.Process.Pid)
	}
	return t
}

func (r *remote) reaped() {
	if r.cmd != nil && r.cmd.ProcessState != nil {
		r.deadCPU += r.cmd.ProcessState.UserTime() + r.cmd.ProcessState.SystemTime()
	}
	r.cmd = nil
}

func newRemote(e *env) *remote {
	r := &remote{e: e, maxMB: 128, cpuMax: 6 * time.Second, wallMax: 300 * time.Second}
	r.srvFile = filepath.Join(e.scratch, "server.json")
	v := core.Violation{Property: prop, Key: "server", Replay: []byte(`{"entry":"@server"}`)}
	b, _ := json.Marshal(v)
	os.WriteFile(r.srvFile, b, 0o644)
	return r
}

func (r *remote) start() error {
	self, err := os.Executable()
	if err != nil {
		return err
	}
	cmd := exec.Command(self, "replay", r.srvFile, "--quiet")
	cmd.Env = append(os.Environ(), "GOTRACEBACK=single", fmt.Sprintf("C20_MAXSTACK_MB=%d", r.maxMB),
		"C20_TIER="+r.e.c.Tier, "C20_SCRATCH="+filepath.Join(r.e.scratch, fmt.Sprintf("srv%d", r.starts)), "GOMAXPROCS=2")
	stdin, err := cmd.StdinPipe()
	if err != nil {
		return err
	}
	stdout, err := cmd.StdoutPipe()
	if err != nil {
		return err
	}
	r.stderr = &headTail{max: 4096}
	cmd.Stderr = r.stderr
	if err := cmd.Start(); err != nil {
		return err
	}
	r.starts++
	r.cmd, r.stdin = cmd, stdin
	lines := make(chan string, 256)
	r.lines = lines
	go func() {
		rd := bufio.NewReaderSize(stdout, 1<<16)
		for {
			l, err := rd.ReadString('\n')
			if len(l) > 0 {
				lines <- strings.TrimRight(l, "\n")
			}
			if err != nil {
				break
			}
		}
		close(lines)
	}()
	return nil
}

func (r *remote) stop() {
	if r.cmd == nil {
		return
	}
	r.stdin.Close()
	done := make(chan struct{})
	go func() { r.cmd.Wait(); close(done) }()
	select {
	case <-done:
	case <-time.After(3 * time.Second):
		r.cmd.Process.Kill()
		<-done
	}
	r.reaped()
}

func (r *remote) kill() {
	if r.cmd == nil {
		return
	}
	r.cmd.Process.Kill()
	for range r.lines { // drain until the reader goroutine sees EOF
	}
	r.cmd.Wait()
	r.reaped()
}

// reply is everything the server said about one request.
type reply struct {
	results []res             // R lines (+ one synthetic fatal/hang result)
	extra   []json.RawMessage // X lines (entry specific)
	died    bool
}

// do sends one request and collects the reply. A child that dies or stalls is
// reported as a result of kind fatal / hang on the stage in flight.
func (r *remote) do(req request) reply {
	var rep reply
	if r.cmd == nil {
		if err := r.start(); err != nil {
			r.e.c.NotExhaustive("cannot start case server: %v", err)
			return rep
		}
	}
	b, _ := json.Marshal(req)
	b = append(b, '\n')
	if _, err := r.stdin.Write(b); err != nil {
		// the child is gone (should not happen between requests): restart once
		r.kill()
		if err := r.start(); err != nil {
			r.e.c.NotExhaustive("cannot restart case server: %v", err)
			return rep
		}
		r.stdin.Write(b)
	}
	inflight := "startup"
	stageStart := time.Now()
	stageCPU := procCPU(r.cmd.Process.Pid)
	tick := time.NewTicker(200 * time.Millisecond)
	defer tick.Stop()
	for {
		select {
		case l, ok := <-r.lines:
			if !ok {
				// EOF: the child died
				r.cmd.Wait()
				state := ""
				if r.cmd.ProcessState != nil {
					state = r.cmd.ProcessState.String()
				}
				r.reaped()
				errText := r.stderr.String()
				kind := fatalKind(errText + "\n" + state)
				rep.died = true
				rep.results = append(rep.results, res{Stage: inflight, Kind: "fatal", Site: kind,
					Detail: "the process died: " + firstLine(strings.TrimSpace(strings.ReplaceAll(r.stderr.Head(300), "\n", " | ")), 300) + " (" + state + ")"})
				return rep
			}
			if len(l) < 1 {
				continue
			}
			switch l[0] {
			case 'S':
				inflight = strings.TrimPrefix(l, "S ")
				stageStart = time.Now()
				stageCPU = procCPU(r.cmd.Process.Pid)
			case 'R':
				var x res
				if json.Unmarshal([]byte(l[2:]), &x) == nil {
					rep.results = append(rep.results, x)
				}
			case 'X':
				rep.extra = append(rep.extra, json.RawMessage(l[2:]))
			case 'E':
				r.e.c.NotExhaustive("case server: %s (request %s)", l, string(b))
			case 'D':
				return rep
			}
		case <-tick.C:
			used := procCPU(r.cmd.Process.Pid) - stageCPU
			wall := time.Since(stageStart)
			if used < r.cpuMax && wall < r.wallMax {
				continue
			}
			r.kill()
			rep.died = true
			rep.results = append(rep.results, res{Stage: inflight, Kind: "hang",
				Detail: fmt.Sprintf("no return after %.0f s of CPU time (%.0f s wall); process killed", used.Seconds(), wall.Seconds())})
			return rep
		}
	}
}

func (r *remote) doLiteral(entry, in string) reply {
	return r.do(request{Entry: entry, Literal: &in})
}

// headTail keeps the first and last max bytes written to it.
type headTail struct {
	mu   sync.Mutex
	max  int
	head bytes.Buffer
	tail []byte
}

func (h *headTail) Write(p []byte) (int, error) {
	h.mu.Lock()
	defer h.mu.Unlock()
	n := len(p)
	if h.head.Len() < h.max {
		k := h.max - h.head.Len()
		if k > len(p) {
			k = len(p)
		}
		h.head.Write(p[:k])
		p = p[k:]
	}
	h.tail = append(h.tail, p...)
	if len(h.tail) > 2*h.max {
		h.tail = append([]byte{}, h.tail[len(h.tail)-h.max:]...)
	}
	return n, nil
}

func (h *headTail) String() string {
	h.mu.Lock()
	defer h.mu.Unlock()
	return h.head.String() + "\n" + string(h.tail)
}

func (h *headTail) Head(n int) string {
	h.mu.Lock()
	defer h.mu.Unlock()
	s := h.head.String()
	if len(s) > n {
		s = s[:n]
	}
	return s
}

// ---------------------------------------------------------------------------
// deviation sets known to kill / hang the process: found once, then shared
// between the workers of a run through the run's temp directory, so that each
// of their supersets is not paid for with another dead child.

func (e *env) addKnown(b badSet) {
	for _, k := range e.known[b.Entry] {
		if sameIDs(k.IDs, b.IDs) {
			return
		}
	}
	e.known[b.Entry] = append(e.known[b.Entry], b)
	if e.shared != "" {
		js, _ := json.Marshal(b)
		name := filepath.Join(e.shared, "c20-known-"+core.ShortHash(js)+".json")
		tmp := name + fmt.Sprintf(".tmp%d", os.Getpid())
		if os.WriteFile(tmp, js, 0o644) == nil {
			os.Rename(tmp, name)
		}
	}
}

func (e *env) refreshKnown() {
	if e.shared == "" || time.Since(e.lastRefresh) < 300*time.Millisecond {
		return
	}
	e.lastRefresh = time.Now()
	ms, _ := filepath.Glob(filepath.Join(e.shared, "c20-known-*.json"))
	sort.Strings(ms)
	for _, m := range ms {
		b, err := os.ReadFile(m)
		if err != nil {
			continue
		}
		var bs badSet
		if json.Unmarshal(b, &bs) != nil {
			continue
		}
		dup := false
		for _, k := range e.known[bs.Entry] {
			if sameIDs(k.IDs, bs.IDs) {
				dup = true
			}
		}
		if !dup {
			e.known[bs.Entry] = append(e.known[bs.Entry], bs)
		}
	}
}

// knownSubset returns a known process-killing set that is a proper subset of
// (or equal to) ids.
func (e *env) knownSubset(entry string, ids []string) *badSet {
	e.refreshKnown()
	for i := range e.known[entry] {
		k := &e.known[entry][i]
		if subset(k.IDs, ids) {
			return k
		}
	}
	return nil
}

func sameIDs(a, b []string) bool {
	return len(a) == len(b) && subset(a, b)
}

func subset(a, b []string) bool {
	for _, x := range a {
		found := false
		for _, y := range b {
			if x == y {
				found = true
				break
			}
		}
		if !found {
			return false
		}
	}
	return true
}
