// Package c20: malformed external input produces an error, never a crash.
//
// Bounded-exhaustive enumeration on the real Helm code. Two kinds of spaces:
//
//   - document entry points (chart directory/archive, values files, repository
//     index, manifest stream, stored release records, provenance files,
//     plugin.yaml): a valid baseline document set plus a table of atomic
//     deviations; every combination of <=2 (quick) / <=3 (thorough, core
//     deviations) non-conflicting deviations is materialised and pushed through
//     the whole public pipeline of that entry point;
//   - string entry points (all strvals parsers, .helmignore rules): every
//     string up to a length bound over a small alphabet.
//
// Oracle: every stage returns normally with a result or an error. A panic, a
// stage that does not return within the watchdog, a worker killed by a fatal
// runtime error (stack overflow), or a good stored record missing from
// List/Query next to a corrupted one is a violation.
package c20

import (
	"bufio"
	"encoding/json"
	"fmt"
	"os"
	"path/filepath"
	"runtime"
	"runtime/debug"
	"sort"
	"strconv"
	"strings"
	"sync"
	"time"

	"verif/harness/internal/core"
)

const prop = "C20"

func init() {
	core.Register(&core.Check{
		ID:    prop,
		Level: "exploration",
		Rule: "document entry points: baseline + every non-conflicting combination of <=2 (quick) / <=3 (thorough; triples over the 'core' deviations) atomic deviations " +
			"(null, wrong scalar type, list<->map, empty, missing, duplicate key, null list element, long, deep nesting, non-UTF-8, field-specific shapes), plus truncation at every byte of every small document; " +
			"string entry points: every string up to length 5 (quick) / 6 (thorough) over {a . = , [ ] { } \\ 0 -} for all strvals parsers x 7 pre-populated destinations, and up to length 4/5 over a glob alphabet for .helmignore. " +
			"distinct = (entry point, deviation id set) or (entry point, input string); every case differs from every other in its input bytes; non-trivial = differs from the baseline by at least one deviation or is a non-empty string",
		Run:            run,
		Replay:         replay,
		CrashViolation: crashViolation,
		Assumptions: []string{
			"panics are observed in-process under recover (the first helm frame of the panicking stack is recorded); fatal runtime errors (stack overflow, concurrent map write) kill the worker and are attributed through the case mark",
			"a stage that does not return within 10 s is a hang; cases normally take < 10 ms",
			"resource exhaustion by legitimately huge inputs (memory bombs such as `repeat 1e9`) is not generated: the statement names panic, unbounded recursion and hang",
			"Kubernetes storage backends run over client-go's fake clientset; the SQL backend needs a database and is not covered; the Memory backend stores objects, not encoded records, so it has no corruptible body",
			"network getters are not reachable offline: value files and indexes are read from local paths",
			"provenance verification uses Helm's own test keypair (copied to checks/c20/testdata)",
			"caller-supplied callbacks (the filter passed to driver.List) are trivial; pkg/storage.Storage's own filters are part of Helm and are exercised",
		},
		RequiredFloors: requiredFloors(),
	})
}

// ---------------------------------------------------------------------------
// outcome of one guarded stage

type res struct {
	Stage  string `json:"stage"`
	Kind   string `json:"kind"` // ok | error | panic | hang | lost
	Detail string `json:"detail,omitempty"`
	Site   string `json:"site,omitempty"` // first helm function on the panicking stack
}

func (r res) bad() bool { return r.Kind != "ok" && r.Kind != "error" }

// call runs fn under recover and classifies its outcome.
func call(stage string, fn func() error) (r res) {
	r.Stage = stage
	defer func() {
		if p := recover(); p != nil {
			site, loc := panicSite()
			r.Kind = "panic"
			r.Site = site
			r.Detail = fmt.Sprintf("panic: %v at %s", p, loc)
			if len(r.Detail) > 400 {
				r.Detail = r.Detail[:400] + "..."
			}
		}
	}()
	if err := fn(); err != nil {
		r.Kind = "error"
		r.Detail = firstLine(err.Error(), 160)
		return r
	}
	r.Kind = "ok"
	return r
}

func firstLine(s string, n int) string {
	if i := strings.IndexByte(s, '\n'); i >= 0 {
		s = s[:i]
	}
	if len(s) > n {
		s = s[:n] + "..."
	}
	return s
}

const helmMod = "helm.sh/helm/v4/"

// panicSite walks the panicking stack (we are inside a deferred function) and
// names the innermost Helm function on it.
func panicSite() (site, loc string) {
	pcs := make([]uintptr, 96)
	n := runtime.Callers(3, pcs)
	frames := runtime.CallersFrames(pcs[:n])
	firstOther, firstLoc := "", ""
	for {
		f, more := frames.Next()
		if strings.HasPrefix(f.Function, helmMod) {
			fn := strings.TrimPrefix(f.Function, helmMod)
			return fn, fmt.Sprintf("%s:%d", trimRepo(f.File), f.Line)
		}
		if firstOther == "" && f.Function != "" && !strings.HasPrefix(f.Function, "runtime.") && !strings.HasPrefix(f.Function, "verif/") {
			firstOther, firstLoc = f.Function, fmt.Sprintf("%s:%d", f.File, f.Line)
		}
		if !more {
			break
		}
	}
	return firstOther, firstLoc
}

func trimRepo(p string) string {
	if i := strings.Index(p, "/pkg/"); i >= 0 {
		return p[i+1:]
	}
	return p
}

// guard executes stages. In-process mode (replay): closures run on a helper
// goroutine so that a stage that never returns can be abandoned and reported.
// Emit mode (case server child process): the stage is announced on the
// protocol stream before it runs, so that the driver can attribute a fatal
// runtime error or a hang (it kills the child) to the exact stage.
type guard struct {
	req     chan func() res
	resp    chan res
	timeout time.Duration
	timer   *time.Timer
	hung    int
	emit    *bufio.Writer
}

func newGuard(timeout time.Duration) *guard {
	g := &guard{timeout: timeout}
	g.spawn()
	return g
}

func (g *guard) spawn() {
	req, resp := make(chan func() res), make(chan res, 1)
	g.req, g.resp = req, resp
	go func() {
		for fn := range req {
			resp <- fn()
		}
	}()
}

// do runs fn (which must do its own recover via call) with the hang watchdog.
func (g *guard) do(stage string, fn func() res) res {
	if g.emit != nil {
		g.emit.WriteString("S " + stage + "\n")
		g.emit.Flush()
		r := fn()
		b, _ := json.Marshal(r)
		g.emit.WriteString("R ")
		g.emit.Write(b)
		g.emit.WriteString("\n")
		return r
	}
	g.req <- fn
	if g.timer == nil {
		g.timer = time.NewTimer(g.timeout)
	} else {
		g.timer.Reset(g.timeout)
	}
	select {
	case r := <-g.resp:
		g.timer.Stop()
		return r
	case <-g.timer.C:
		g.hung++
		g.spawn() // the old goroutine is abandoned
		return res{Stage: stage, Kind: "hang", Detail: fmt.Sprintf("no return within %v", g.timeout)}
	}
}

// run = call under the watchdog.
func (g *guard) run(stage string, fn func() error) res {
	return g.do(stage, func() res { return call(stage, fn) })
}

// ---------------------------------------------------------------------------
// per-process environment

const stageTimeout = 15 * time.Second

type env struct {
	c       *core.Ctx
	g       *guard
	scratch string
	shared  string  // directory shared by all workers of one run ("" outside a run)
	remote  *remote // case server (exploration); nil = execute in-process
	seq     int
	known   map[string][]badSet // entry -> deviation sets known to kill or hang the process
	lastRefresh time.Time
	start       time.Time
	capped      bool
}

// overBudget turns an exploration that would run into the worker watchdog into
// an honest "not exhaustive" (never into a violation).
func (e *env) overBudget() bool {
	if e.capped {
		return true
	}
	budget := 700 * time.Second
	if e.c.Thorough() {
		budget = 150 * time.Minute
	}
	if time.Since(e.start) > budget {
		e.capped = true
		e.c.NotExhaustive("time budget of %v exhausted; remaining cases of this shard were not run", budget)
	}
	return e.capped
}

// badSet is a minimal deviation set whose execution kills or hangs the process.
type badSet struct {
	Entry string   `json:"entry"`
	IDs   []string `json:"ids"`
	Res   res      `json:"res"`
}

func newEnv(c *core.Ctx) *env {
	e := &env{c: c, g: newGuard(stageTimeout), known: map[string][]badSet{}, start: time.Now()}
	if d := os.Getenv("C20_SCRATCH"); d != "" {
		if os.MkdirAll(d, 0o755) == nil {
			e.scratch = d
		}
	}
	// inside a worker the parent's temp dir (removed by the parent) is the
	// directory of --out; otherwise make our own.
	for i, a := range os.Args {
		if e.scratch == "" && a == "--out" && i+1 < len(os.Args) {
			e.shared = filepath.Dir(os.Args[i+1])
			d := filepath.Join(e.shared, fmt.Sprintf("c20-%d-%d", c.Shard, os.Getpid()))
			if os.MkdirAll(d, 0o755) == nil {
				e.scratch = d
			}
		}
	}
	if e.scratch == "" {
		d, err := os.MkdirTemp("/var/tmp", "verif-c20-")
		if err != nil {
			panic(err)
		}
		e.scratch = d
	}
	return e
}

func (e *env) close() {
	if e.remote != nil {
		e.remote.stop()
	}
	os.RemoveAll(e.scratch)
}

// freshDir returns an empty directory for one case.
func (e *env) freshDir(name string) string {
	d := filepath.Join(e.scratch, name)
	os.RemoveAll(d)
	os.MkdirAll(d, 0o755)
	return d
}

// ---------------------------------------------------------------------------
// replay data and registry of entry points

type replayData struct {
	Entry string   `json:"entry"`
	Devs  []string `json:"devs,omitempty"`  // deviation ids (document entry points)
	Input *string  `json:"input,omitempty"` // string entry points (Go-quoted in What; raw here)
	Key   string   `json:"key,omitempty"`   // key computed before the case ran (crash attribution)
}

// request is one unit of work sent to the case server.
type request struct {
	Entry string   `json:"entry"`
	Devs  []string `json:"devs,omitempty"`
	From  int64    `json:"from,omitempty"` // string entry points: index range [From,To)
	To    int64    `json:"to,omitempty"`
}

type entryPoint interface {
	Name() string
	Floors() []string
	// Explore enumerates this entry point's whole space (sharded through e.c);
	// cases are executed by the case server.
	Explore(e *env)
	// Serve executes one request in this process, reporting through e.g.
	Serve(e *env, req request)
	// RunOne re-runs one recorded case in this process and returns its violations.
	RunOne(e *env, rd replayData) []core.Violation
}

var (
	entriesOnce sync.Once
	entriesList []entryPoint
)

func allEntries() []entryPoint {
	entriesOnce.Do(func() { entriesList = buildEntries() })
	return entriesList
}

func findEntry(name string) entryPoint {
	for _, ep := range allEntries() {
		if ep.Name() == name {
			return ep
		}
	}
	return nil
}

func requiredFloors() []string {
	var out []string
	for _, ep := range allEntries() {
		out = append(out, ep.Floors()...)
	}
	sort.Strings(out)
	return out
}

func run(c *core.Ctx) {
	e := newEnv(c)
	defer e.close()
	e.remote = newRemote(e)
	for _, ep := range allEntries() {
		if c.Only != "" && c.Only != ep.Name() {
			continue
		}
		t0 := time.Now()
		ep.Explore(e)
		c.Count("ms_"+ep.Name(), time.Since(t0).Milliseconds())
	}
	c.Count("case_server_starts", int64(e.remote.starts))
}

func replay(c *core.Ctx, data json.RawMessage) []core.Violation {
	var rd replayData
	if err := json.Unmarshal(data, &rd); err != nil {
		return nil
	}
	if rd.Entry == "@server" {
		serve(c) // never returns
	}
	e := newEnv(c)
	defer e.close()
	if ep := findEntry(rd.Entry); ep != nil {
		c.Mark(mustJSON(rd))
		return ep.RunOne(e, rd)
	}
	return nil
}

// serve is the case server: it executes requests read from stdin in this
// (expendable) process and reports every stage on stdout.
func serve(c *core.Ctx) {
	proto := bufio.NewWriterSize(os.Stdout, 1<<16)
	if null, err := os.OpenFile(os.DevNull, os.O_WRONLY, 0); err == nil {
		os.Stdout = null // nothing but the protocol may reach the pipe
	}
	if mb, _ := strconv.Atoi(os.Getenv("C20_MAXSTACK_MB")); mb > 0 {
		debug.SetMaxStack(mb << 20)
	}
	e := newEnv(c)
	e.g.emit = proto
	in := bufio.NewReaderSize(os.Stdin, 1<<20)
	for {
		line, err := in.ReadString('\n')
		if err != nil {
			break
		}
		var req request
		if json.Unmarshal([]byte(line), &req) != nil {
			proto.WriteString("E bad request\n")
			proto.Flush()
			continue
		}
		if ep := findEntry(req.Entry); ep != nil {
			ep.Serve(e, req)
		} else {
			proto.WriteString("E unknown entry\n")
		}
		proto.WriteString("D\n")
		proto.Flush()
	}
	e.close()
	os.Exit(0)
}

// crashViolation attributes a dead *driver* worker to the last marked case
// (cases themselves run in the case server; this is the safety net).
func crashViolation(mark string, stderr string) *core.Violation {
	var rd replayData
	if err := json.Unmarshal([]byte(mark), &rd); err != nil || rd.Entry == "" {
		return nil
	}
	kind := fatalKind(stderr)
	key := rd.Key
	if key == "" {
		key = rd.Entry + "/worker"
	}
	b, _ := json.Marshal(rd)
	return &core.Violation{Property: prop, Key: core.SanitizeKey(key + "/fatal:" + kind),
		What:   fmt.Sprintf("worker process died (%s) while running %s", kind, describe(rd)),
		Replay: b}
}

func fatalKind(stderr string) string {
	for _, l := range strings.Split(stderr, "\n") {
		l = strings.TrimSpace(l)
		if strings.HasPrefix(l, "fatal error: ") {
			return core.SanitizeKey(strings.ReplaceAll(strings.TrimPrefix(l, "fatal error: "), " ", "-"))
		}
		if strings.Contains(l, "goroutine stack exceeds") {
			return "stack-overflow"
		}
	}
	if strings.Contains(stderr, "signal: killed") {
		return "killed"
	}
	return "process-died"
}

func describe(rd replayData) string {
	if rd.Input != nil {
		return fmt.Sprintf("%s on input %q", rd.Entry, *rd.Input)
	}
	return fmt.Sprintf("%s with deviations %v", rd.Entry, rd.Devs)
}

func mustJSON(v any) string {
	b, _ := json.Marshal(v)
	return string(b)
}
