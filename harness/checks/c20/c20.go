// Package c20: malformed external input produces an error, never a crash.
//
// Bounded-exhaustive enumeration on the real Helm code. Two kinds of spaces:
//
//   - document entry points (chart directory/archive, values files, repository
//     index, manifest stream, stored release records, provenance files,
//     plugin.yaml): a valid baseline document set plus a table of atomic
//     deviations; every combination of <=2 (quick) / <=3 (thorough, core
//     deviations) non-conflicting deviations is materialised and pushed through
//     the whole public pipeline of that entry point;
//   - string entry points (all strvals parsers, .helmignore rules): every
//     string up to a length bound over a small alphabet.
//
// Oracle: every stage returns normally with a result or an error. A panic, a
// stage that does not return within the watchdog, a worker killed by a fatal
// runtime error (stack overflow), or a good stored record missing from
// List/Query next to a corrupted one is a violation.
package c20

import (
	"bufio"
	"encoding/json"
	"fmt"
	"os"
	"path/filepath"
	"runtime"
	"runtime/debug"
	"sort"
	"strconv"
	"strings"
	"sync"
	"syscall"
	"time"

	"verif/harness/internal/core"
)

const prop = "C20"

func init() {
	core.Register(&core.Check{
		ID:    prop,
		Level: "exploration",
		Rule: "document entry points (chart dir/archive/memory -> CheckDependencies -> ProcessDependencies -> ToRenderValues -> Render -> SortManifests, and lint; chart archive bytes; values file + --set flags; repository index + Get/Merge/search; " +
			"manifest stream; Secrets/ConfigMaps records + pkg/storage; whole release histories of 1..3 records, each record good / absent / one of 13 unreadable or 10 decodable-but-incomplete classes - so every history in which ALL records are unreadable is included - through Storage.Last/History/Deployed/Get/List and the actions status, get, get values, history, list, rollback, upgrade, uninstall; " +
			"chart directories containing an entry the walk cannot treat as a regular file (17 kinds: path beyond PATH_MAX, dangling/looping/escaping symlinks, unreadable directory or file, fifo, odd names ...) x 18 .helmignore contents (absent, file rules, directory-only rules, negations, bad patterns) x 7 places, all triples, through IsChartDir/LoadDir/Load/lint/package; " +
			"provenance file + keyring; plugin.yaml): a valid baseline, every single atomic deviation of the table " +
			"(per field: null, wrong scalar type, list<->map, empty, missing, duplicate key, null list element, 10^4 characters, nesting 10^3, non-UTF-8, control characters, plus field-specific shapes), " +
			"truncation of every small document at every byte, and every non-conflicting pair of the tier's pair set (quick: a core of the deviations that survive loading - 92 for the chart; thorough: a larger set - 318 for the chart - and all deviations for the small tables) " +
			"and every triple of the release-history classes (quick: 9 classes per record, thorough: all 24) and, thorough only, of the 91 chart deviations that meet in dependency processing and value computation; " +
			"string entry points: every string up to length 5 (quick) / 6 (thorough) over {a . = , [ ] { } \\ 0 -} plus index/nesting-limit variants for 43 strvals call variants (all parsers x 7 pre-populated destinations x 3 file readers), " +
			"and up to length 4/5 over {a * ? / ! [ ] \\ - # LF SP .} for .helmignore parsing + matching. " +
			"distinct = (entry point, deviation id set) or (entry point, input string): two distinct cases differ in their input bytes; non-trivial = every case but the empty string " +
			"(the baselines are required to pass every stage, so any other outcome is caused by the deviations). Supersets of a case that already kills the process are counted as pruned, not run",
		Run:            run,
		Replay:         replay,
		CrashViolation: crashViolation,
		// generous worker watchdogs: on an idle machine the quick tier needs about
		// a minute; on a heavily shared one it must still finish rather than be cut
		WorkerTimeoutS: func(tier string) int {
			if tier == "thorough" {
				return 4 * 3600
			}
			return 3600
		},
		Assumptions: []string{
			"every case runs in an expendable child process (case server); each stage is announced before it runs, so a fatal runtime error or a kill is attributed to the exact stage and the exploration continues",
			"panic = recovered in the child (the innermost Helm function of the panicking stack names the class); no-return = the child died of a fatal runtime error (stack overflow) or burned 6 s of CPU time in one stage (normal stages take < 0.1 s, the slowest designed case about 1 s) and was killed",
			"exploration children run with a 128 MB stack limit so that unbounded recursion is reached in seconds; every new violation is confirmed 5x by the runner in children with the Go default of 1 GB (40 s CPU / 90 s wall watchdog), so a recursion that is merely deep does not count",
			"resource exhaustion by legitimately huge results (e.g. `repeat 1000000000`, chained `quote`) is not generated: the statement names panic, unbounded recursion and hang",
			"Kubernetes storage backends run over client-go's fake clientset; the SQL backend needs a database and is not covered; the Memory backend stores objects, not encoded records, so it has no corruptible body",
			"network getters are not reachable offline: value files and indexes are read from local paths",
			"provenance cases are signed with Helm's own test keypair (copied to checks/c20/testdata) with a fixed signature time, so that deviated message blocks carry a valid signature",
			"the filter passed to driver.List is the trivial one; pkg/storage.Storage's own filters and sorters are part of Helm and are exercised",
			"IndexFile.Merge is exercised in the direction Helm uses it (a generated index merges the loaded one)",
			"the actions are driven over histories whose records are good, absent or unreadable; a record that decodes but lacks info/chart is given to pkg/storage only (C20_ODD_RECORD_ACTIONS=1 also gives it to the actions, which dereference Info/Chart of such a record in several places - reported to the maintainers, not part of the registered claim)",
		},
		RequiredFloors: requiredFloors(),
	})
}

// ---------------------------------------------------------------------------
// outcome of one guarded stage

type res struct {
	Stage  string `json:"stage"`
	Kind   string `json:"kind"` // ok | error | panic | hang | lost
	Detail string `json:"detail,omitempty"`
	Site   string `json:"site,omitempty"`   // first helm function on the panicking stack (panic) / fatal error kind (fatal)
	PClass string `json:"pclass,omitempty"` // class of the panic value (nil-deref, type-assertion, ...)
}

// bad: neither a result nor an error. ("harness" = the case could not be set
// up, e.g. a scratch file could not be written: reported as not exhaustive.)
func (r res) bad() bool { return r.Kind != "ok" && r.Kind != "error" && r.Kind != "harness" }

// call runs fn under recover and classifies its outcome.
func call(stage string, fn func() error) (r res) {
	r.Stage = stage
	defer func() {
		if p := recover(); p != nil {
			site, loc := panicSite()
			r.Kind = "panic"
			r.Site = site
			r.PClass = panicClass(fmt.Sprint(p))
			r.Detail = fmt.Sprintf("panic: %v at %s", p, loc)
			if len(r.Detail) > 400 {
				r.Detail = r.Detail[:400] + "..."
			}
		}
	}()
	if err := fn(); err != nil {
		r.Kind = "error"
		r.Detail = firstLine(err.Error(), 160)
		return r
	}
	r.Kind = "ok"
	return r
}

func panicClass(msg string) string {
	switch {
	case strings.Contains(msg, "nil pointer dereference"):
		return "nil-deref"
	case strings.Contains(msg, "interface conversion"):
		return "type-assertion"
	case strings.Contains(msg, "index out of range"), strings.Contains(msg, "slice bounds out of range"):
		return "index-out-of-range"
	case strings.Contains(msg, "assignment to entry in nil map"):
		return "nil-map-write"
	case strings.Contains(msg, "divide by zero"):
		return "divide-by-zero"
	case strings.Contains(msg, "makeslice"), strings.Contains(msg, "out of memory"):
		return "allocation"
	}
	return "other"
}

func firstLine(s string, n int) string {
	if i := strings.IndexByte(s, '\n'); i >= 0 {
		s = s[:i]
	}
	if len(s) > n {
		s = s[:n] + "..."
	}
	return s
}

const helmMod = "helm.sh/helm/v4/"

// panicSite walks the panicking stack (we are inside a deferred function) and
// names the innermost Helm function on it.
func panicSite() (site, loc string) {
	pcs := make([]uintptr, 96)
	n := runtime.Callers(3, pcs)
	frames := runtime.CallersFrames(pcs[:n])
	firstOther, firstLoc := "", ""
	for {
		f, more := frames.Next()
		if strings.HasPrefix(f.Function, helmMod) {
			return trimRepo(f.File) + ":" + plainFunc(f.Function), fmt.Sprintf("%s:%d", trimRepo(f.File), f.Line)
		}
		if firstOther == "" && f.Function != "" && !strings.HasPrefix(f.Function, "runtime.") && !strings.HasPrefix(f.Function, "verif/") {
			firstOther, firstLoc = f.Function, fmt.Sprintf("%s:%d", f.File, f.Line)
		}
		if !more {
			break
		}
	}
	return firstOther, firstLoc
}

// plainFunc reduces a runtime function name to the innermost named function:
// closure counters, inlining decorations and receivers are dropped, so that
// the name does not depend on compiler decisions
// ("storage.(*Storage).ListDeployed.func1.StatusFilter.1" -> "StatusFilter").
func plainFunc(fn string) string {
	if i := strings.LastIndexByte(fn, '/'); i >= 0 {
		fn = fn[i+1:]
	}
	parts := strings.Split(fn, ".")
	last := ""
	for i, p := range parts {
		if i == 0 { // package name
			continue
		}
		if p == "" || strings.HasPrefix(p, "func") || strings.HasPrefix(p, "(") || strings.HasPrefix(p, "gowrap") || (p[0] >= '0' && p[0] <= '9') {
			continue
		}
		last = p
	}
	if last == "" {
		return fn
	}
	return last
}

func trimRepo(p string) string {
	if i := strings.Index(p, "/pkg/"); i >= 0 {
		return p[i+1:]
	}
	return p
}

// guard executes stages. In the case server (emit mode) every stage is
// announced on the protocol stream before it runs, so that the driver can
// attribute a fatal runtime error or a hang (it kills the child) to the exact
// stage. Without emit (unit tests) stages are simply called.
type guard struct {
	emit *bufio.Writer
}

func newGuard() *guard { return &guard{} }

func (g *guard) do(stage string, fn func() res) res {
	if g.emit == nil {
		return fn()
	}
	g.emit.WriteString("S " + stage + "\n")
	g.emit.Flush()
	r := fn()
	b, _ := json.Marshal(r)
	g.emit.WriteString("R ")
	g.emit.Write(b)
	g.emit.WriteString("\n")
	return r
}

// run = call, announced.
func (g *guard) run(stage string, fn func() error) res {
	return g.do(stage, func() res { return call(stage, fn) })
}

// ---------------------------------------------------------------------------
// per-process environment

type env struct {
	c           *core.Ctx
	g           *guard
	scratch     string
	shared      string  // directory shared by all workers of one run ("" outside a run)
	remote      *remote // case server (exploration); nil = execute in-process
	seq         int
	known       map[string][]badSet // entry -> deviation sets known to kill or hang the process
	lastRefresh time.Time
	start       time.Time
	capped      bool
}

// overBudget turns an exploration that would run into the worker watchdog into
// an honest "not exhaustive" (never into a violation).
func (e *env) overBudget() bool {
	if e.capped {
		return true
	}
	budget := 50 * time.Minute
	if e.c.Thorough() {
		budget = 220 * time.Minute
	}
	if time.Since(e.start) > budget {
		e.capped = true
		e.c.NotExhaustive("time budget of %v exhausted; remaining cases of this shard were not run", budget)
	}
	return e.capped
}

// badSet is a minimal deviation set whose execution kills or hangs the process.
type badSet struct {
	Entry string   `json:"entry"`
	IDs   []string `json:"ids"`
	Res   res      `json:"res"`
}

func newEnv(c *core.Ctx) *env {
	e := &env{c: c, g: newGuard(), known: map[string][]badSet{}, start: time.Now()}
	if d := os.Getenv("C20_SCRATCH"); d != "" {
		if os.MkdirAll(d, 0o755) == nil {
			e.scratch = d
		}
	}
	// inside a worker the parent's temp dir (removed by the parent) is the
	// directory of --out; otherwise make our own.
	for i, a := range os.Args {
		if e.scratch == "" && a == "--out" && i+1 < len(os.Args) {
			e.shared = filepath.Dir(os.Args[i+1])
			d := filepath.Join(e.shared, fmt.Sprintf("c20-%d-%d", c.Shard, os.Getpid()))
			if os.MkdirAll(d, 0o755) == nil {
				e.scratch = d
			}
		}
	}
	if e.scratch == "" {
		d, err := os.MkdirTemp("/var/tmp", "verif-c20-")
		if err != nil {
			panic(err)
		}
		e.scratch = d
	}
	return e
}

func (e *env) close() {
	if e.remote != nil {
		e.remote.stop()
	}
	os.RemoveAll(e.scratch)
}

// freshDir returns an empty directory for one case.
func (e *env) freshDir(name string) string {
	d := filepath.Join(e.scratch, name)
	os.RemoveAll(d)
	os.MkdirAll(d, 0o755)
	return d
}

// ---------------------------------------------------------------------------
// replay data and registry of entry points

type replayData struct {
	Entry string   `json:"entry"`
	Devs  []string `json:"devs,omitempty"`  // deviation ids (document entry points)
	Input *string  `json:"input,omitempty"` // string entry points (Go-quoted in What; raw here)
	Key   string   `json:"key,omitempty"`   // key computed before the case ran (crash attribution)
}

// request is one unit of work sent to the case server.
type request struct {
	Entry string   `json:"entry"`
	Devs  []string `json:"devs,omitempty"`
	From  int64    `json:"from,omitempty"` // string entry points: index range [From,To)
	To    int64    `json:"to,omitempty"`
	// Literal: string entry points, one literal input (replay)
	Literal *string `json:"literal,omitempty"`
}

type entryPoint interface {
	Name() string
	Floors() []string
	// Explore enumerates this entry point's whole space (sharded through e.c);
	// cases are executed by the case server.
	Explore(e *env)
	// Serve executes one request in this process, reporting through e.g.
	Serve(e *env, req request)
	// RunOne re-runs one recorded case in this process and returns its violations.
	RunOne(e *env, rd replayData) []core.Violation
}

var (
	entriesOnce sync.Once
	entriesList []entryPoint
)

func allEntries() []entryPoint {
	entriesOnce.Do(func() { entriesList = buildEntries() })
	return entriesList
}

func findEntry(name string) entryPoint {
	for _, ep := range allEntries() {
		if ep.Name() == name {
			return ep
		}
	}
	return nil
}

func requiredFloors() []string {
	var out []string
	for _, ep := range allEntries() {
		out = append(out, ep.Floors()...)
	}
	sort.Strings(out)
	return out
}

func run(c *core.Ctx) {
	e := newEnv(c)
	defer e.close()
	e.remote = newRemote(e)
	for _, ep := range allEntries() {
		if c.Only != "" && c.Only != ep.Name() {
			continue
		}
		t0, c0, s0 := time.Now(), e.remote.cpu(), selfCPU()
		ep.Explore(e)
		c.Count("wall_ms_"+ep.Name(), time.Since(t0).Milliseconds())
		c.Count("cpu_ms_"+ep.Name(), (e.remote.cpu() - c0 + selfCPU() - s0).Milliseconds())
	}
	c.Count("case_server_starts", int64(e.remote.starts))
}

func selfCPU() time.Duration {
	var ru syscall.Rusage
	if syscall.Getrusage(syscall.RUSAGE_SELF, &ru) != nil {
		return 0
	}
	return time.Duration(ru.Utime.Nano() + ru.Stime.Nano())
}

func replay(c *core.Ctx, data json.RawMessage) []core.Violation {
	var rd replayData
	if err := json.Unmarshal(data, &rd); err != nil {
		return nil
	}
	if rd.Entry == "@server" {
		serve(c) // never returns
	}
	e := newEnv(c)
	defer e.close()
	// confirmation runs use the runtime's default stack limit (1 GB) and a
	// long watchdog: only a child that really dies / never returns counts.
	e.remote = newRemote(e)
	e.remote.maxMB = 0
	e.remote.cpuMax = 40 * time.Second
	e.remote.wallMax = 90 * time.Second
	if ep := findEntry(rd.Entry); ep != nil {
		c.Mark(mustJSON(rd))
		return ep.RunOne(e, rd)
	}
	return nil
}

// serve is the case server: it executes requests read from stdin in this
// (expendable) process and reports every stage on stdout.
func serve(c *core.Ctx) {
	proto := bufio.NewWriterSize(os.Stdout, 1<<16)
	if null, err := os.OpenFile(os.DevNull, os.O_WRONLY, 0); err == nil {
		os.Stdout = null // nothing but the protocol may reach the pipe
	}
	if mb, _ := strconv.Atoi(os.Getenv("C20_MAXSTACK_MB")); mb > 0 {
		debug.SetMaxStack(mb << 20)
	}
	e := newEnv(c)
	e.g.emit = proto
	in := bufio.NewReaderSize(os.Stdin, 1<<20)
	for {
		line, err := in.ReadString('\n')
		if err != nil {
			break
		}
		var req request
		if json.Unmarshal([]byte(line), &req) != nil {
			proto.WriteString("E bad request\n")
			proto.Flush()
			continue
		}
		if ep := findEntry(req.Entry); ep != nil {
			if se, ok := ep.(*strEntry); ok && req.Literal != nil {
				se.ServeLiteral(e, *req.Literal)
			} else {
				ep.Serve(e, req)
			}
		} else {
			proto.WriteString("E unknown entry\n")
		}
		proto.WriteString("D\n")
		proto.Flush()
	}
	e.close()
	os.Exit(0)
}

// crashViolation attributes a dead *driver* worker to the last marked case
// (cases themselves run in the case server; this is the safety net).
func crashViolation(mark string, stderr string) *core.Violation {
	var rd replayData
	if err := json.Unmarshal([]byte(mark), &rd); err != nil || rd.Entry == "" {
		return nil
	}
	kind := fatalKind(stderr)
	key := rd.Key
	if key == "" {
		key = rd.Entry + "/worker"
	}
	b, _ := json.Marshal(rd)
	return &core.Violation{Property: prop, Key: core.SanitizeKey(key + "/fatal:" + kind),
		What:   fmt.Sprintf("worker process died (%s) while running %s", kind, describe(rd)),
		Replay: b}
}

func fatalKind(stderr string) string {
	for _, l := range strings.Split(stderr, "\n") {
		l = strings.TrimSpace(l)
		if strings.HasPrefix(l, "fatal error: ") {
			return core.SanitizeKey(strings.ReplaceAll(strings.TrimPrefix(l, "fatal error: "), " ", "-"))
		}
		if strings.Contains(l, "goroutine stack exceeds") {
			return "stack-overflow"
		}
	}
	if strings.Contains(stderr, "signal: killed") {
		return "killed"
	}
	return "process-died"
}

func describe(rd replayData) string {
	if rd.Input != nil {
		return fmt.Sprintf("%s on input %q", rd.Entry, *rd.Input)
	}
	return fmt.Sprintf("%s with deviations %v", rd.Entry, rd.Devs)
}

func mustJSON(v any) string {
	b, _ := json.Marshal(v)
	return string(b)
}
