package c20

import (
	"archive/tar"
	"bytes"
	"compress/gzip"
	"crypto"
	_ "embed"
	"fmt"
	"io"
	"os"
	"path/filepath"
	"strings"
	"time"

	"golang.org/x/crypto/openpgp"           //nolint
	"golang.org/x/crypto/openpgp/clearsign" //nolint
	"golang.org/x/crypto/openpgp/packet"    //nolint

	chart "helm.sh/helm/v4/pkg/chart/v2"
	"helm.sh/helm/v4/pkg/chart/v2/loader"
	chartutil "helm.sh/helm/v4/pkg/chart/v2/util"
	"helm.sh/helm/v4/pkg/cli/values"
	"helm.sh/helm/v4/pkg/cmd/search"
	"helm.sh/helm/v4/pkg/getter"
	"helm.sh/helm/v4/pkg/plugin"
	"helm.sh/helm/v4/pkg/provenance"
	releaseutil "helm.sh/helm/v4/pkg/release/util"
	"helm.sh/helm/v4/pkg/repo"
)

// ===========================================================================
// entry point "values": a values file read from disk and combined with --set
// style flags

func valuesFiles() []fileSpec {
	return []fileSpec{{Name: "vals.yaml", Slots: []slot{
		kv("a", "a:\n  b: 1\n  c: [x, y]\n"),
		kv("list", "list: [1, 2]\n"),
		kv("str", "str: hello\n"),
		kv("nested", "nested:\n  deeper:\n    leaf: true\n"),
		kv("tail", ""),
	}}}
}

func valuesDevs() []Dev {
	const F = "vals.yaml"
	var d []Dev
	d = append(d, custom(F, "a", true,
		"null", "a: null\n",
		"scalar", "a: s\n",
		"int", "a: 1\n",
		"list", "a: [1, {b: 2}, [3], null]\n",
		"emptymap", "a: {}\n",
		"emptylist", "a: []\n",
		"b-map", "a:\n  b: {x: 1}\n  c: s\n",
		"b-list", "a:\n  b: [1]\n  c: {k: v}\n",
		"b-null", "a:\n  b: null\n  c: null\n",
		"c-listnull", "a:\n  c: [null, null]\n",
		"c-listoflists", "a:\n  c: [[1], [[2]]]\n",
		"c-listofmaps", "a:\n  c: [{x: 1}, {y: [2]}]\n",
		"nonstring-keys", "a:\n  1: x\n  true: y\n  null: z\n",
		"missing", "",
	)...)
	d = append(d, custom(F, "list", true,
		"null", "list: null\n",
		"scalar", "list: s\n",
		"map", "list: {0: a}\n",
		"nested", "list: [[a], {b: c}, null]\n",
		"long", "list: ["+strings.TrimSuffix(strings.Repeat("1, ", 3000), ", ")+"]\n",
	)...)
	d = append(d, custom(F, "str", true,
		"null", "str: null\n",
		"map", "str: {x: {y: z}}\n",
		"list", "str: [a]\n",
		"bigint", "str: 123456789012345678901234567890\n",
		"float", "str: 1.5e300\n",
		"inf", "str: .inf\n",
		"nan", "str: .nan\n",
		"date", "str: 2001-12-14t21:59:43.10-05:00\n",
		"binary", "str: !!binary aGVsbG8=\n",
		"octal", "str: 0o14\n",
		"bool-ish", "str: yes\n",
	)...)
	d = append(d, custom(F, "nested", false,
		"dotted-key", "\"nested.deeper\": 1\nnested: 2\n",
		"deep-scalar", "nested:\n  deeper: s\n",
	)...)
	d = append(d, custom(F, "tail", true,
		"empty-key", "\"\": 1\n",
		"dup-a", "a: again\n",
		"global", "global: 1\n",
	)...)
	d = append(d, genericYAMLDocs(F)...)
	applyTiers(d, map[string]string{F + "#a": "*", F + "#list": "null scalar map nested", F + "#str": "null map list", F + "#tail": "*",
		F + ":": "empty null scalar list listnull emptymap multi-doc nonstring-keys merge-key alias-self dup-key absent"}, nil)
	return d
}

var setFlags = []struct {
	kind, v string
}{
	{"set", "a.b=2"}, {"set", "a.b.x=2"}, {"set", "a[0]=2"}, {"set", "a.c[5]=z"}, {"set", "a.c[0].k=z"}, {"set", "a.c[0][0]=z"},
	{"set", "list[0]=9"}, {"set", "list[1].x=9"}, {"set", "list.x=9"}, {"set", "str.x=1"}, {"set", "str[0]=1"}, {"set", "a=null"},
	{"set", "nested.deeper.leaf.more=1"}, {"set", "=1"}, {"set", "a.b=1,a.b.c=2"},
	{"string", "a.c[1]=7"}, {"string", "list[3]=x"},
	{"json", `a={"j":[1,null]}`}, {"json", `{"a":{"b":{"deep":1}},"list":{"x":1},"str":[1]}`}, {"json", `list[0]={"x":1}`}, {"json", `a.c[0]=[1]`}, {"json", `{`},
	{"literal", "a.b=x,y"}, {"literal", "list[0]=lit"}, {"literal", "a[1]=lit"},
	{"file", "a.c[0]=@FILE"}, {"file", "str.f=@FILE"},
}

func valuesExec(e *env, fs fileset) []res {
	var out []res
	dir := e.freshDir("values")
	path := filepath.Join(dir, "vals.yaml")
	raw, present := fs.get("vals.yaml")
	if present {
		os.WriteFile(path, raw, 0o644)
	}
	base := filepath.Join(dir, "base.yaml")
	os.WriteFile(base, []byte("a:\n  b: base\n  z: 1\nlist: [b]\nbaseonly: {k: v}\n"), 0o644)
	other := filepath.Join(dir, "other.txt")
	os.WriteFile(other, []byte("file content\n"), 0o644)

	use := func(v chartutil.Values) {
		v.Table("a")
		v.Table("a.b")
		v.Table("a.c.0")
		v.Table("")
		v.Table(".")
		v.PathValue("a.b")
		v.PathValue("a.c.0")
		v.PathValue("str.x.y")
		v.PathValue("")
		v.PathValue("..")
		v.YAML()
		v.Encode(io.Discard)
		v.AsMap()
	}
	out = append(out, e.g.run("ReadValuesFile", func() error {
		v, err := chartutil.ReadValuesFile(path)
		use(v)
		return err
	}))
	out = append(out, e.g.run("ReadValues", func() error {
		v, err := chartutil.ReadValues(raw)
		use(v)
		return err
	}))
	out = append(out, e.g.run("LoadValues", func() error {
		v, err := loader.LoadValues(bytes.NewReader(raw))
		if err == nil {
			use(v)
			loader.MergeMaps(v, map[string]interface{}{"a": map[string]interface{}{"b": "m"}, "list": "s", "str": map[string]interface{}{"k": 1}})
			loader.MergeMaps(map[string]interface{}{"a": map[string]interface{}{"b": "m"}, "list": "s", "str": map[string]interface{}{"k": 1}}, v)
		}
		return err
	}))
	out = append(out, e.g.run("MergeValues-files", func() error {
		o := values.Options{ValueFiles: []string{base, path, base}}
		v, err := o.MergeValues(getter.Providers{})
		if err == nil {
			use(v)
		}
		return err
	}))
	// each --set style flag on top of the file
	okFlags, errFlags := 0, 0
	out = append(out, e.g.do("MergeValues-flags", func() res {
		for _, f := range setFlags {
			f := f
			r := call("MergeValues-flags", func() error {
				o := values.Options{ValueFiles: []string{path}}
				val := strings.ReplaceAll(f.v, "@FILE", other)
				switch f.kind {
				case "set":
					o.Values = []string{val}
				case "string":
					o.StringValues = []string{val}
				case "json":
					o.JSONValues = []string{val}
				case "literal":
					o.LiteralValues = []string{val}
				case "file":
					o.FileValues = []string{val}
				}
				v, err := o.MergeValues(getter.Providers{})
				if err == nil {
					use(v)
				}
				return err
			})
			if r.bad() {
				r.Detail = fmt.Sprintf("--set-%s %q on top of the file: %s", f.kind, f.v, r.Detail)
				return r
			}
			if r.Kind == "ok" {
				okFlags++
			} else {
				errFlags++
			}
		}
		if okFlags == 0 {
			return res{Stage: "MergeValues-flags", Kind: "error", Detail: "every flag rejected"}
		}
		return res{Stage: "MergeValues-flags", Kind: "ok"}
	}))
	// coalescing the file's values into a chart (what install does next)
	out = append(out, e.g.run("CoalesceValues", func() error {
		v, err := chartutil.ReadValues(raw)
		if err != nil {
			return err
		}
		ch := &chart.Chart{Metadata: &chart.Metadata{Name: "c", Version: "0.1.0", APIVersion: "v2"},
			Values: map[string]interface{}{"a": map[string]interface{}{"b": "chart", "d": nil}, "list": []interface{}{"c"}, "str": map[string]interface{}{"k": "v"}, "global": map[string]interface{}{"g": 1}}}
		sub := &chart.Chart{Metadata: &chart.Metadata{Name: "a", Version: "0.1.0", APIVersion: "v2"}, Values: map[string]interface{}{"b": "sub", "global": map[string]interface{}{"s": 1}}}
		ch.AddDependency(sub)
		if _, err := chartutil.CoalesceValues(ch, v); err != nil {
			return err
		}
		_, err = chartutil.MergeValues(ch, v)
		return err
	}))
	return out
}

func newValuesEntry() *docEntry {
	return &docEntry{name: "values", files: valuesFiles(), devs: valuesDevs(), trunc: []string{"vals.yaml"}, exec: valuesExec,
		floors: []string{"values:baseline-ok", "values:all-ok", "values:error:ReadValuesFile", "values:error:LoadValues", "values:error:MergeValues-files", "values:error:CoalesceValues"}}
}

// ===========================================================================
// entry point "index": repository index file

func indexFiles() []fileSpec {
	return []fileSpec{{Name: "index.yaml", Slots: []slot{
		kv("apiVersion", "apiVersion: v1\n"),
		kv("entries", "entries:\n"),
		kv("alpine", "  alpine:\n"),
		kv("a1.name", "  - name: alpine\n"),
		kv("a1.version", "    version: 1.0.0\n"),
		kv("a1.apiVersion", "    apiVersion: v2\n"),
		kv("a1.urls", "    urls: [\"https://example.com/alpine-1.0.0.tgz\"]\n"),
		kv("a1.created", "    created: \"2024-01-01T00:00:00Z\"\n"),
		kv("a1.digest", "    digest: sha256:aa\n"),
		kv("a1.keywords", "    keywords: [k1]\n"),
		kv("a1.maintainers", "    maintainers: [{name: m}]\n"),
		kv("a1.dependencies", "    dependencies: [{name: dep, version: 1.0.0, repository: \"https://example.com\"}]\n"),
		kv("a1.extra", ""),
		kv("a2", "  - name: alpine\n    version: 0.9.0\n    urls: [alpine-0.9.0.tgz]\n"),
		kv("nginx", "  nginx:\n  - name: nginx\n    version: 2.0.0-beta.1\n    urls: [\"https://example.com/nginx.tgz\"]\n"),
		kv("generated", "generated: \"2024-01-01T00:00:00Z\"\n"),
		kv("serverInfo", "serverInfo: {contextPath: /x}\n"),
		kv("tail", ""),
	}}}
}

func indexDevs() []Dev {
	const F = "index.yaml"
	base := map[string]string{}
	for _, s := range indexFiles()[0].Slots {
		base[s.Name] = s.Text
	}
	var d []Dev
	d = append(d, fieldDevs(F, "apiVersion", "", "apiVersion", base["apiVersion"])...)
	d = append(d, fieldDevs(F, "generated", "", "generated", base["generated"])...)
	d = append(d, fieldDevs(F, "serverInfo", "", "serverInfo", base["serverInfo"])...)
	for _, f := range []string{"version", "apiVersion", "urls", "created", "digest", "keywords", "maintainers", "dependencies"} {
		d = append(d, fieldDevs(F, "a1."+f, "    ", f, base["a1."+f])...)
	}
	nameDevs := fieldDevs(F, "a1.name", "    ", "name", base["a1.name"])
	for i := range nameDevs {
		t := nameDevs[i].Text
		switch {
		case t == "":
			t = "  - x-nothing: 1\n"
		case strings.HasPrefix(t, "    "):
			t = "  - " + t[4:]
		}
		nameDevs[i].Text = t
	}
	d = append(d, nameDevs...)
	d = append(d, custom(F, "entries", true,
		"null", "entries: null\nx-ignored:\n",
		"list", "entries: []\nx-ignored:\n",
		"scalar", "entries: s\nx-ignored:\n",
		"missing", "x-ignored:\n",
	)...)
	d = append(d, custom(F, "alpine", true,
		"null-entry-first", "  alpine:\n  - null\n",
		"only-null", "  alpine:\n  - null\n  other:\n",
		"null-list", "  alpine: null\n  other:\n",
		"scalar", "  alpine: s\n  other:\n",
		"map", "  alpine: {a: b}\n  other:\n",
		"empty-name-key", "  \"\":\n",
		"nonstring-key", "  1:\n",
		"slash-key", "  \"a/b\":\n",
	)...)
	d = append(d, custom(F, "a1.extra", true,
		"unknown-field", "    unknownField: 1\n",
		"removed", "    removed: true\n",
		"legacy-fields", "    checksum: x\n    engine: gotpl\n    tillerVersion: x\n    url: x\n",
		"type-bad", "    type: nope\n",
		"dup-version", "    version: 3.0.0\n",
	)...)
	d = append(d, custom(F, "a2", true,
		"null", "  - null\n",
		"null-twice", "  - null\n  - null\n",
		"scalar", "  - s\n",
		"list", "  - [a]\n",
		"emptymap", "  - {}\n",
		"same-version", "  - name: alpine\n    version: 1.0.0\n    urls: [dup.tgz]\n",
		"bad-version", "  - name: alpine\n    version: banana\n    urls: [x.tgz]\n",
		"no-version", "  - name: alpine\n    urls: [x.tgz]\n",
		"no-name", "  - version: 0.9.0\n    urls: [x.tgz]\n",
		"other-name", "  - name: other\n    version: 0.9.0\n",
		"no-urls", "  - name: alpine\n    version: 0.9.0\n",
		"prerelease", "  - name: alpine\n    version: 1.0.1-rc.1\n    urls: [x.tgz]\n",
		"missing", "",
		"many-nulls", "  - null\n  - name: alpine\n    version: 0.8.0\n  - null\n  - name: alpine\n    version: 0.7.0\n  - null\n",
	)...)
	d = append(d, custom(F, "a1.version", true,
		"banana", "    version: banana\n",
		"vprefix", "    version: v1.0.0\n",
		"partial", "    version: \"1\"\n",
		"huge", "    version: 99999999999999999999.0.0\n",
		"prerelease", "    version: 1.0.0-alpha+b\n",
	)...)
	d = append(d, custom(F, "a1.urls", true, "relative", "    urls: [\"../x.tgz\"]\n", "badurl", "    urls: [\"://\"]\n")...)
	d = append(d, custom(F, "nginx", true,
		"null-only", "  nginx:\n  - null\n",
		"empty", "  nginx: []\n",
		"missing", "",
		"dup-alpine", "  alpine:\n  - name: alpine\n    version: 5.0.0\n",
	)...)
	d = append(d, custom(F, "tail", false, "unknown-top", "unknownTop: 1\n", "entries-again", "entries: {}\n")...)
	d = append(d, genericYAMLDocs(F)...)
	d = append(d, wholeDevs(F, true,
		"json-valid", `{"apiVersion":"v1","entries":{"alpine":[{"name":"alpine","version":"1.0.0","urls":["a.tgz"]}]},"generated":"2024-01-01T00:00:00Z"}`,
		"json-null-entry", `{"apiVersion":"v1","entries":{"alpine":[null,{"name":"alpine","version":"1.0.0"}]}}`,
		"json-entries-null", `{"apiVersion":"v1","entries":null}`,
		"json-no-apiversion", `{"entries":{}}`,
		"json-unknown-field", `{"apiVersion":"v1","entries":{},"x":1}`,
		"json-wrong-types", `{"apiVersion":1,"entries":[1]}`,
		"json-deep", `{"apiVersion":"v1","entries":`+strings.Repeat("[", 20000)+`}`,
		"json-dup", `{"apiVersion":"v1","apiVersion":"v2","entries":{},"entries":null}`,
		"json-null", `null`,
		"json-list", `[]`,
		"json-string", `"s"`,
	)...)
	applyTiers(d, map[string]string{
		F + "#apiVersion": "missing null empty", F + "#entries": "*", F + "#alpine": "*", F + "#a1.name": "null missing empty str", F + "#a1.version": "null missing empty banana prerelease",
		F + "#a1.apiVersion": "missing null", F + "#a1.urls": "null missing emptylist listnull", F + "#a1.created": "null missing", F + "#a1.maintainers": "listnull null",
		F + "#a1.dependencies": "listnull null", F + "#a1.extra": "*", F + "#a2": "*", F + "#nginx": "*", F + "#generated": "missing null",
	}, nil)
	return d
}

func indexExec(e *env, fs fileset) []res {
	var out []res
	dir := e.freshDir("index")
	path := filepath.Join(dir, "index.yaml")
	if raw, ok := fs.get("index.yaml"); ok {
		os.WriteFile(path, raw, 0o644)
	}
	var idx *repo.IndexFile
	r := e.g.run("LoadIndexFile", func() error {
		var err error
		idx, err = repo.LoadIndexFile(path)
		return err
	})
	out = append(out, r)
	if r.Kind != "ok" || idx == nil {
		return out
	}
	out = append(out, e.g.run("Get", func() error {
		found := 0
		var last error
		for _, name := range []string{"alpine", "nginx", "other", "", "missing"} {
			for _, ver := range []string{"", "1.0.0", "0.9.0", ">0.0.0-0", "^1", "*", "~~bad", ">=0.9.0 <1.0.0", "1", "banana"} {
				cv, err := idx.Get(name, ver)
				if err == nil {
					found++
					_ = cv.Name + cv.Version + strings.Join(cv.URLs, ",") + cv.Digest
				} else {
					last = err
				}
				idx.Has(name, ver)
			}
		}
		if found == 0 {
			return last
		}
		return nil
	}))
	out = append(out, e.g.run("SortEntries+Merge", func() error {
		idx.SortEntries()
		other := repo.NewIndexFile()
		other.MustAdd(&chart.Metadata{Name: "alpine", Version: "3.0.0", APIVersion: "v2"}, "alpine-3.0.0.tgz", "https://example.com", "sha256:x")
		other.MustAdd(&chart.Metadata{Name: "new", Version: "1.0.0", APIVersion: "v2"}, "new-1.0.0.tgz", "https://example.com", "sha256:y")
		// `helm repo index --merge`: a freshly generated index merges the loaded one
		other.Merge(idx)
		other.SortEntries()
		return other.WriteFile(filepath.Join(dir, "out.yaml"), 0o644)
	}))
	out = append(out, e.g.run("SearchIndex", func() error {
		for _, all := range []bool{false, true} {
			si := search.NewIndex()
			si.AddRepo("r", idx, all)
			rs := si.All()
			search.SortScore(rs)
			si.SearchLiteral("alp", 25)
			if _, err := si.Search("a.*e", 25, true); err != nil {
				return err
			}
		}
		return nil
	}))
	return out
}

func newIndexEntry() *docEntry {
	return &docEntry{name: "index", files: indexFiles(), devs: indexDevs(), trunc: []string{"index.yaml"}, exec: indexExec,
		floors: []string{"index:baseline-ok", "index:all-ok", "index:error:LoadIndexFile", "index:error:Get"}}
}

// ===========================================================================
// entry point "manifests": rendered manifest stream

func manifestFiles() []fileSpec {
	return []fileSpec{{Name: "@manifest", Slots: []slot{
		kv("lead", "---\n# Source: c/templates/cm.yaml\n"),
		kv("d1.head", "apiVersion: v1\nkind: ConfigMap\n"),
		kv("d1.meta", "metadata:\n  name: cm\n"),
		kv("d1.body", "data:\n  k: v\n"),
		kv("sep1", "---\n"),
		kv("d2.head", "apiVersion: batch/v1\nkind: Job\n"),
		kv("d2.meta", "metadata:\n  name: hook\n"),
		kv("d2.ann", "  annotations:\n    \"helm.sh/hook\": pre-install,post-upgrade\n    \"helm.sh/hook-weight\": \"-5\"\n    \"helm.sh/hook-delete-policy\": hook-succeeded\n"),
		kv("d2.body", "spec: {}\n"),
		kv("sep2", "---\n"),
		kv("d3", "apiVersion: v1\nkind: Service\nmetadata:\n  name: svc\n"),
		kv("tail", ""),
	}}}
}

func manifestDevs() []Dev {
	const F = "@manifest"
	var d []Dev
	d = append(d, custom(F, "lead", true,
		"none", "",
		"many", "---\n---\n\n---\n",
		"no-newline-after", "---",
		"dots", "...\n",
		"bom", "\xef\xbb\xbf---\n",
		"spaces", "   \n\t\n---   \n",
		"crlf", "---\r\n",
		"comment-only-doc", "# only\n---\n",
	)...)
	d = append(d, custom(F, "d1.head", true,
		"kind-int", "apiVersion: v1\nkind: 1\n",
		"kind-null", "apiVersion: v1\nkind: null\n",
		"kind-list", "apiVersion: v1\nkind: [a]\n",
		"kind-missing", "apiVersion: v1\n",
		"apiversion-map", "apiVersion: {a: b}\nkind: ConfigMap\n",
		"toplevel-list", "- a\n- b\n",
		"toplevel-scalar", "text\n",
		"toplevel-null", "null\n",
		"indented", "  apiVersion: v1\n  kind: ConfigMap\n",
		"tabs", "\tapiVersion: v1\n",
		"nonutf8", "apiVersion: \xff\nkind: ConfigMap\n",
		"dup-kind", "apiVersion: v1\nkind: ConfigMap\nkind: Secret\n",
		"kind-List", "apiVersion: v1\nkind: List\nitems: [null]\n",
		"kind-unknown", "apiVersion: example.com/v9\nkind: Whatever\n",
		"kind-long", "apiVersion: v1\nkind: "+longStr+"\n",
	)...)
	for _, slotName := range []string{"d1.meta", "d2.meta"} {
		d = append(d, custom(F, slotName, true,
			"null", "metadata: null\n",
			"list", "metadata: [a]\n",
			"scalar", "metadata: s\n",
			"missing", "",
			"empty", "metadata: {}\n",
			"name-int", "metadata:\n  name: 1\n",
			"name-null", "metadata:\n  name: null\n",
			"name-map", "metadata:\n  name: {a: b}\n",
		)...)
	}
	d = append(d, custom(F, "d2.ann", true,
		"null", "  annotations: null\n",
		"list", "  annotations: [a]\n",
		"scalar", "  annotations: s\n",
		"empty", "  annotations: {}\n",
		"missing", "",
		"hook-int", "  annotations:\n    \"helm.sh/hook\": 1\n",
		"hook-null", "  annotations:\n    \"helm.sh/hook\": null\n",
		"hook-bool", "  annotations:\n    \"helm.sh/hook\": true\n",
		"hook-list", "  annotations:\n    \"helm.sh/hook\": [pre-install]\n",
		"hook-empty", "  annotations:\n    \"helm.sh/hook\": \"\"\n",
		"hook-unknown", "  annotations:\n    \"helm.sh/hook\": nope\n",
		"hook-mixed", "  annotations:\n    \"helm.sh/hook\": \"pre-install, nope ,,\"\n",
		"hook-commas", "  annotations:\n    \"helm.sh/hook\": \",,,\"\n",
		"hook-case", "  annotations:\n    \"helm.sh/hook\": \" PRE-INSTALL ,Test-Success\"\n",
		"weight-nan", "  annotations:\n    \"helm.sh/hook\": test\n    \"helm.sh/hook-weight\": abc\n",
		"weight-huge", "  annotations:\n    \"helm.sh/hook\": test\n    \"helm.sh/hook-weight\": \"99999999999999999999\"\n",
		"weight-int", "  annotations:\n    \"helm.sh/hook\": test\n    \"helm.sh/hook-weight\": 3\n",
		"weight-null", "  annotations:\n    \"helm.sh/hook\": test\n    \"helm.sh/hook-weight\": null\n",
		"policy-garbage", "  annotations:\n    \"helm.sh/hook\": test\n    \"helm.sh/hook-delete-policy\": \",nope, ,\"\n    \"helm.sh/hook-output-log-policy\": \"x,,\"\n",
		"other-annotation-only", "  annotations:\n    other: x\n",
		"value-map", "  annotations:\n    \"helm.sh/hook\": {a: b}\n",
		"resource-policy", "  annotations:\n    \"helm.sh/resource-policy\": keep\n",
	)...)
	for _, slotName := range []string{"sep1", "sep2"} {
		d = append(d, custom(F, slotName, true,
			"none", "",
			"no-newline", "---",
			"with-text", "--- text\n",
			"with-comment", "--- # c\n",
			"four-dashes", "----\n",
			"indented", "  ---\n",
			"doc-end", "...\n",
			"doc-end-sep", "...\n---\n",
			"crlf", "\r\n---\r\n",
			"double", "---\n---\n",
			"in-string", "s: \"\n---\n\"\n",
			"directive", "---\n%YAML 1.1\n---\n",
			"empty-docs", "---\n\n---\n   \n---\n# c\n---\n",
		)...)
	}
	d = append(d, custom(F, "d1.body", true,
		"bad-yaml", "data: [\n",
		"block-with-sep", "data:\n  k: |\n    a\n    ---\n    b\n",
		"anchor", "data: &a {k: *a}\n",
		"huge", "data:\n  k: "+longStr+longStr+"\n",
	)...)
	d = append(d, custom(F, "tail", true,
		"trailing-sep", "---\n",
		"trailing-sep-nonl", "---",
		"trailing-garbage", "---\n}{\n",
		"trailing-null", "---\nnull\n",
		"trailing-scalar", "---\nfoo\n",
		"trailing-ws", "\n\n   \n",
		"trailing-nul", "\x00",
	)...)
	d = append(d, wholeDevs(F, true,
		"empty", "",
		"whitespace", " \n\t \n",
		"only-sep", "---\n",
		"only-seps", "---\n---\n---",
		"only-comment", "# c\n",
		"nonutf8", "\xff\xfe\xfd",
		"no-sep-two-docs", "a: 1\nkind: X\na: 2\n",
		"long-line", strings.Repeat("a", 1<<20),
		"many-docs", strings.Repeat("---\nkind: A\n", 3000),
	)...)
	return d
}

func manifestExec(e *env, fs fileset) []res {
	var out []res
	raw, _ := fs.get("@manifest")
	text := string(raw)
	out = append(out, e.g.run("SplitManifests", func() error {
		m := releaseutil.SplitManifests(text)
		keys := make([]string, 0, len(m))
		for k := range m {
			keys = append(keys, k)
		}
		// the documented way to order the result
		sortSplit(keys)
		return nil
	}))
	for _, ord := range []struct {
		n string
		o releaseutil.KindSortOrder
	}{{"install", releaseutil.InstallOrder}, {"uninstall", releaseutil.UninstallOrder}} {
		ord := ord
		out = append(out, e.g.run("SortManifests-"+ord.n, func() error {
			files := map[string]string{"c/templates/all.yaml": text, "c/templates/_partial.tpl": text, "c/templates/empty.yaml": " \n", "c/charts/s/templates/x.yaml": text}
			hooks, ms, err := releaseutil.SortManifests(files, nil, ord.o)
			for _, h := range hooks {
				_ = h.Name + h.Kind + h.Path + h.Manifest + fmt.Sprint(h.Events, h.Weight, h.DeletePolicies, h.OutputLogPolicies)
			}
			for _, m := range ms {
				_ = m.Name + m.Content + m.Head.Kind + m.Head.Version
				if m.Head.Metadata != nil {
					_ = m.Head.Metadata.Name
					_ = m.Head.Metadata.Annotations["helm.sh/resource-policy"]
				}
			}
			return err
		}))
	}
	return out
}

func sortSplit(keys []string) {
	s := releaseutil.BySplitManifestsOrder(keys)
	// insertion sort through the exported Less/Swap (what sort.Sort would call)
	for i := 1; i < s.Len(); i++ {
		for j := i; j > 0 && s.Less(j, j-1); j-- {
			s.Swap(j, j-1)
		}
	}
}

func newManifestEntry() *docEntry {
	return &docEntry{name: "manifests", files: manifestFiles(), devs: manifestDevs(), trunc: []string{"@manifest"}, exec: manifestExec, pairAll: true,
		floors: []string{"manifests:baseline-ok", "manifests:all-ok", "manifests:error:SortManifests-install"}}
}

// ===========================================================================
// entry point "archive": bytes of a chart archive

func baselineChartFileset() fileset {
	d := newChartEntryFilesOnly()
	return d.materialise(nil)
}

func newChartEntryFilesOnly() *docEntry {
	d := &docEntry{name: "chart-files", files: chartFiles()}
	d.byID = map[string]*Dev{}
	return d
}

type tarEntry struct {
	hdr  tar.Header
	data []byte
}

func buildTgz(entries []tarEntry) string {
	var buf bytes.Buffer
	zw := gzip.NewWriter(&buf)
	tw := tar.NewWriter(zw)
	for _, en := range entries {
		h := en.hdr
		if h.Size == 0 && h.Typeflag == tar.TypeReg {
			h.Size = int64(len(en.data))
		}
		if h.Mode == 0 {
			h.Mode = 0o644
		}
		if tw.WriteHeader(&h) != nil {
			continue
		}
		tw.Write(en.data)
	}
	tw.Close()
	zw.Close()
	return buf.String()
}

func reg(name, data string) tarEntry {
	return tarEntry{hdr: tar.Header{Name: name, Typeflag: tar.TypeReg}, data: []byte(data)}
}

func archiveDevs() []Dev {
	const F = "@archive"
	bfs := baselineChartFileset()
	good := string(tgz("parent", bfs))
	min := []tarEntry{reg("p/Chart.yaml", "apiVersion: v2\nname: p\nversion: 0.1.0\n"), reg("p/templates/a.yaml", "a: {{ .Values.x }}\n"), reg("p/values.yaml", "x: 1\n")}
	with := func(extra ...tarEntry) string { return buildTgz(append(append([]tarEntry{}, min...), extra...)) }
	var rawTar bytes.Buffer
	{
		tw := tar.NewWriter(&rawTar)
		for _, en := range min {
			h := en.hdr
			h.Size = int64(len(en.data))
			h.Mode = 0o644
			tw.WriteHeader(&h)
			tw.Write(en.data)
		}
		tw.Close()
	}
	gzOf := func(b []byte) string {
		var buf bytes.Buffer
		zw := gzip.NewWriter(&buf)
		zw.Write(b)
		zw.Close()
		return buf.String()
	}
	corruptMiddle := func(s string) string {
		b := []byte(s)
		for i := len(b) / 2; i < len(b)/2+8 && i < len(b); i++ {
			b[i] ^= 0xa5
		}
		return string(b)
	}
	d := wholeDevs(F, true,
		"empty", "",
		"garbage", "this is not an archive at all",
		"gzip-magic-only", "\x1f\x8b\x08",
		"raw-tar", rawTar.String(),
		"gzip-of-garbage", gzOf([]byte("not a tar stream")),
		"gzip-of-empty", gzOf(nil),
		"gzip-of-zeros", gzOf(make([]byte, 4096)),
		"gzip-of-gzip", gzOf([]byte(good)),
		"corrupt-middle", corruptMiddle(good),
		"trailing-garbage", good+"trailing garbage",
		"concatenated", good+good,
		"zip", "PK\x03\x04\x14\x00\x00\x00\x08\x00",
		"tar-truncated-header", gzOf(rawTar.Bytes()[:300]),
		"tar-truncated-body", gzOf(rawTar.Bytes()[:600]),
		"tar-bad-checksum", gzOf(func() []byte { b := append([]byte{}, rawTar.Bytes()...); b[150] ^= 0xff; return b }()),
		"tar-size-huge", gzOf(func() []byte {
			b := append([]byte{}, rawTar.Bytes()...)
			copy(b[124:136], []byte("77777777777\x00"))
			return b
		}()),
		"no-entries", buildTgz(nil),
		"only-dirs", buildTgz([]tarEntry{{hdr: tar.Header{Name: "p/", Typeflag: tar.TypeDir, Mode: 0o755}}, {hdr: tar.Header{Name: "p/templates/", Typeflag: tar.TypeDir, Mode: 0o755}}}),
		"no-chartyaml", buildTgz(min[1:]),
		"chartyaml-toplevel", buildTgz([]tarEntry{reg("Chart.yaml", "apiVersion: v2\nname: p\nversion: 0.1.0\n")}),
		"no-topdir", buildTgz([]tarEntry{reg("Chart.yaml", "name: p\n"), reg("values.yaml", "x: 1\n")}),
		"dotdot", with(reg("p/../../evil", "x")),
		"dotdot-inside", with(reg("p/templates/../../x", "x")),
		"absolute", with(reg("/etc/passwd", "x")),
		"absolute-inside", with(reg("p//etc/passwd", "x")),
		"empty-name", with(reg("", "x")),
		"dot-name", with(reg("p/.", "x")),
		"topdir-only-name", with(reg("p", "x")),
		"backslashes", with(reg("p\\templates\\b.yaml", "b: 1\n")),
		"drive-letter", with(reg("p/c:/x", "x")),
		"drive-letter-backslash", with(reg("p\\c:\\x", "x")),
		"nonutf8-name", with(reg("p/\xff\xfe", "x")),
		"long-name", with(reg("p/"+strings.Repeat("d/", 200)+"f", "x")),
		"dup-chartyaml", with(reg("p/Chart.yaml", "apiVersion: v2\nname: q\nversion: 0.2.0\n")),
		"dup-chartyaml-null", with(reg("p/Chart.yaml", "null\n")),
		"second-topdir", with(reg("q/Chart.yaml", "apiVersion: v2\nname: q\nversion: 0.2.0\n")),
		"symlink", with(tarEntry{hdr: tar.Header{Name: "p/link", Typeflag: tar.TypeSymlink, Linkname: "/etc/passwd"}}),
		"hardlink", with(tarEntry{hdr: tar.Header{Name: "p/hl", Typeflag: tar.TypeLink, Linkname: "p/Chart.yaml"}}),
		"fifo", with(tarEntry{hdr: tar.Header{Name: "p/fifo", Typeflag: tar.TypeFifo}}),
		"chardev", with(tarEntry{hdr: tar.Header{Name: "p/dev", Typeflag: tar.TypeChar}}),
		"pax-global", buildTgz(append([]tarEntry{{hdr: tar.Header{Name: "pax_global_header", Typeflag: tar.TypeXGlobalHeader, PAXRecords: map[string]string{"comment": "abc"}}}}, min...)),
		"pax-records", with(tarEntry{hdr: tar.Header{Name: "p/" + strings.Repeat("n", 150), Typeflag: tar.TypeReg, Format: tar.FormatPAX, PAXRecords: map[string]string{"HELM.x": "y"}}, data: []byte("x")}),
		"bom-files", buildTgz([]tarEntry{reg("p/Chart.yaml", "\xef\xbb\xbfapiVersion: v2\nname: p\nversion: 0.1.0\n"), reg("p/values.yaml", "\xef\xbb\xbfx: 1\n")}),
		"subchart-tgz-garbage", with(reg("p/charts/s-0.1.0.tgz", "garbage")),
		"subchart-tgz-empty", with(reg("p/charts/s-0.1.0.tgz", "")),
		"subchart-tgz-self", with(reg("p/charts/p.tgz", buildTgz(min))),
		"subchart-tgz-dir-clash", with(reg("p/charts/x.tgz/Chart.yaml", "apiVersion: v2\nname: x\nversion: 0.1.0\n")),
		"subchart-file-not-dir", with(reg("p/charts/README", "x")),
		"subchart-hidden", with(reg("p/charts/_x/Chart.yaml", "null"), reg("p/charts/.y/Chart.yaml", "null")),
		"subchart-empty-name", with(reg("p/charts//Chart.yaml", "apiVersion: v2\nname: e\nversion: 0.1.0\n")),
		"subchart-no-chartyaml", with(reg("p/charts/s/values.yaml", "x: 1\n")),
		"subchart-prov", with(reg("p/charts/s-0.1.0.tgz.prov", "garbage")),
		"subchart-deep", with(reg("p/charts/a/charts/b/charts/c/Chart.yaml", "apiVersion: v2\nname: c\nversion: 0.1.0\n")),
		"subchart-deep-100", with(reg("p/"+strings.Repeat("charts/a/", 100)+"Chart.yaml", "apiVersion: v2\nname: a\nversion: 0.1.0\n")),
		"requirements-v1", buildTgz([]tarEntry{reg("p/Chart.yaml", "name: p\nversion: 0.1.0\n"), reg("p/requirements.yaml", "dependencies:\n- null\n- name: x\n  import-values: [{child: 1}]\n"), reg("p/requirements.lock", "dependencies: [null]\n")}),
		"requirements-first", buildTgz([]tarEntry{reg("p/requirements.yaml", "dependencies:\n- name: x\n  version: 1.0.0\n"), reg("p/requirements.lock", "null"), reg("p/Chart.yaml", "null\n")}),
		"lock-first-no-chartyaml", buildTgz([]tarEntry{reg("p/requirements.lock", "digest: x\n")}),
		"templates-nul", with(reg("p/templates/\x00.yaml", "a: 1\n")),
		"crds", with(reg("p/crds/a.yaml", "not: [valid\n"), reg("p/crds/b.txt", "x")),
	)
	return d
}

func archiveExec(e *env, fs fileset) []res {
	var out []res
	raw, _ := fs.get("@archive")
	dir := e.freshDir("archive")
	path := filepath.Join(dir, "c-0.1.0.tgz")
	os.WriteFile(path, raw, 0o644)
	out = append(out, e.g.run("LoadArchiveFiles", func() error {
		_, err := loader.LoadArchiveFiles(bytes.NewReader(raw))
		return err
	}))
	out = append(out, e.g.run("LoadFile", func() error {
		_, err := loader.LoadFile(path)
		return err
	}))
	out = append(out, e.g.run("Load", func() error {
		_, err := loader.Load(path)
		return err
	}))
	var ch *chart.Chart
	r := e.g.run("LoadArchive", func() error {
		var err error
		ch, err = loader.LoadArchive(bytes.NewReader(raw))
		return err
	})
	out = append(out, r)
	if r.Kind == "ok" {
		out = append(out, pipeline(e, "", ch, map[string]interface{}{})...)
	}
	return out
}

func newArchiveEntry() *docEntry {
	bfs := baselineChartFileset()
	return &docEntry{name: "archive",
		files:  []fileSpec{{Name: "@archive", Slots: []slot{kv("all", string(tgz("parent", bfs)))}}},
		devs:   archiveDevs(),
		trunc:  []string{"@archive"},
		exec:   archiveExec,
		maxK:   func(bool) int { return 1 },
		floors: []string{"archive:baseline-ok", "archive:all-ok", "archive:error:LoadArchive", "archive:error:LoadFile", "archive:error:LoadArchiveFiles"}}
}

// ===========================================================================
// entry point "provenance"

//go:embed testdata/helm-test-key.pub
var testPub []byte

//go:embed testdata/helm-test-key.secret
var testSecret []byte

var fixedTime = time.Date(2024, 1, 1, 0, 0, 0, 0, time.UTC)

func minimalChartTgz() []byte {
	return []byte(buildTgz([]tarEntry{reg("hashtest/Chart.yaml", "apiVersion: v2\nname: hashtest\nversion: 1.2.3\n"), reg("hashtest/values.yaml", "x: 1\n")}))
}

// clearSign signs a message block with Helm's test key (deterministic: fixed
// signature time, PKCS#1 v1.5).
var signMemo = map[string]string{}

func clearSign(block string) string {
	if s, ok := signMemo[block]; ok {
		return s
	}
	s := clearSignRaw(block)
	if len(signMemo) < 4096 {
		signMemo[block] = s
	}
	return s
}

func clearSignRaw(block string) string {
	ent, err := openpgp.ReadEntity(packet.NewReader(bytes.NewReader(testSecret)))
	if err != nil {
		panic("c20: cannot read embedded test key: " + err.Error())
	}
	var out bytes.Buffer
	w, err := clearsign.Encode(&out, ent.PrivateKey, &packet.Config{DefaultHash: crypto.SHA512, Time: func() time.Time { return fixedTime }})
	if err != nil {
		panic(err)
	}
	io.WriteString(w, block)
	if err := w.Close(); err != nil {
		panic(err)
	}
	return out.String()
}

func provFiles() []fileSpec {
	sum, _ := provenance.Digest(bytes.NewReader(minimalChartTgz()))
	return []fileSpec{
		{Name: "@block", Slots: []slot{
			kv("meta", "apiVersion: v2\nname: hashtest\nversion: 1.2.3\n"),
			kv("sep", "\n...\n"),
			kv("files", "files:\n  hashtest-1.2.3.tgz: sha256:"+sum+"\n"),
		}},
		// "" = sign @block; anything else replaces the provenance file
		{Name: "@prov", Slots: []slot{kv("all", "")}},
		{Name: "@keyring", Slots: []slot{kv("all", string(testPub))}},
	}
}

func provDevs() []Dev {
	sum, _ := provenance.Digest(bytes.NewReader(minimalChartTgz()))
	goodBlock := "apiVersion: v2\nname: hashtest\nversion: 1.2.3\n\n...\nfiles:\n  hashtest-1.2.3.tgz: sha256:" + sum + "\n"
	good := clearSign(goodBlock)
	var d []Dev
	d = append(d, custom("@block", "meta", true,
		"empty", "",
		"null", "null\n",
		"list", "- a\n",
		"scalar", "s\n",
		"bad-yaml", "a: [\n",
		"wrong-types", "name: [a]\nversion: {b: c}\n",
		"nonutf8", "name: \xff\xfe\n",
		"dash-lines", "- a\n-- b\n--- c\n",
		"deep", "a: "+deep1k+"\n",
		"deps-null", "name: hashtest\ndependencies: [null]\nmaintainers: [null]\n",
	)...)
	d = append(d, custom("@block", "sep", true,
		"missing", "\n",
		"yaml-sep", "\n---\n",
		"twice", "\n...\n\n...\n",
		"no-leading-newline", "...\n",
		"crlf", "\r\n...\r\n",
	)...)
	d = append(d, custom("@block", "files", true,
		"empty", "",
		"null", "null\n",
		"files-null", "files: null\n",
		"files-list", "files: [a]\n",
		"files-scalar", "files: s\n",
		"sum-int", "files:\n  hashtest-1.2.3.tgz: 1\n",
		"sum-null", "files:\n  hashtest-1.2.3.tgz: null\n",
		"sum-wrong", "files:\n  hashtest-1.2.3.tgz: sha256:0000\n",
		"other-file", "files:\n  other.tgz: sha256:"+sum+"\n",
		"images", "files:\n  hashtest-1.2.3.tgz: sha256:"+sum+"\nimages: [null]\n",
		"bad-yaml", "files: [\n",
		"scalar", "s\n",
		"list", "- a\n",
	)...)
	hdr := "-----BEGIN PGP SIGNED MESSAGE-----\nHash: SHA512\n\n"
	sigStart := strings.Index(good, "-----BEGIN PGP SIGNATURE-----")
	d = append(d, wholeDevs("@prov", true,
		"garbage", "this is not a provenance file",
		"only-header", hdr,
		"header-and-body", hdr+goodBlock,
		"no-signature-end", strings.Replace(good, "-----END PGP SIGNATURE-----", "", 1),
		"signature-garbage", good[:sigStart]+"-----BEGIN PGP SIGNATURE-----\n\n!!!!notbase64!!!!\n-----END PGP SIGNATURE-----\n",
		"signature-empty", good[:sigStart]+"-----BEGIN PGP SIGNATURE-----\n\n-----END PGP SIGNATURE-----\n",
		"signature-wrong-packet", good[:sigStart]+"-----BEGIN PGP SIGNATURE-----\n\n"+b64(testPub[:200])+"\n-----END PGP SIGNATURE-----\n",
		"signature-bad-crc", func() string { i := strings.LastIndex(good, "\n="); return good[:i+2] + "AAAA" + good[i+6:] }(),
		"body-tampered", strings.Replace(good, "hashtest", "hashtesT", 1),
		"hash-header-unknown", strings.Replace(good, "Hash: SHA512", "Hash: NOPE", 1),
		"hash-header-missing", strings.Replace(good, "Hash: SHA512\n", "", 1),
		"hash-header-many", strings.Replace(good, "Hash: SHA512", "Hash: SHA512,SHA1, MD5\nHash: SHA256\nX: y", 1),
		"crlf", strings.ReplaceAll(good, "\n", "\r\n"),
		"leading-text", "some text\n\n"+good,
		"twice", good+good,
		"public-key-block", "-----BEGIN PGP PUBLIC KEY BLOCK-----\n\n"+b64(testPub)+"\n-----END PGP PUBLIC KEY BLOCK-----\n",
		"dash-escaped-header", "- "+good,
		"nonutf8", "\xff\xfe"+good,
		"nul", good[:40]+"\x00"+good[40:],
		"long-line", hdr+strings.Repeat("a", 1<<20)+"\n"+good[sigStart:],
	)...)
	d = append(d, wholeDevs("@keyring", true,
		"empty", "",
		"garbage", "not a keyring",
		"armored", "-----BEGIN PGP PUBLIC KEY BLOCK-----\n\n"+b64(testPub)+"\n-----END PGP PUBLIC KEY BLOCK-----\n",
		"secret-key", string(testSecret),
		"half", string(testPub[:len(testPub)/2]),
		"twice", string(testPub)+string(testPub),
		"corrupt", func() string {
			b := append([]byte{}, testPub...)
			b[len(b)/3] ^= 0xff
			b[len(b)/2] ^= 0xff
			return string(b)
		}(),
		"zeros", string(make([]byte, 512)),
		"packet-huge-length", "\x99\xff\xff"+string(testPub[3:]),
		"new-format-huge", "\xc6\xff\xff\xff\xff\xff",
	)...)
	d = append(d, Dev{ID: "@keyring:absent", File: "@keyring", Absent: true})
	d = append(d, Dev{ID: "@prov:absent", File: "@prov", Absent: true})
	return d
}

func provExec(e *env, fs fileset) []res {
	var out []res
	dir := e.freshDir("prov")
	chartPath := filepath.Join(dir, "hashtest-1.2.3.tgz")
	os.WriteFile(chartPath, minimalChartTgz(), 0o644)
	provPath := chartPath + ".prov"
	if p, ok := fs.get("@prov"); ok {
		text := string(p)
		if text == "" {
			blk, _ := fs.get("@block")
			text = clearSign(string(blk))
		}
		os.WriteFile(provPath, []byte(text), 0o644)
	}
	ringPath := filepath.Join(dir, "pubring.gpg")
	if k, ok := fs.get("@keyring"); ok {
		os.WriteFile(ringPath, k, 0o644)
	}
	secPath := filepath.Join(dir, "secring.gpg")
	os.WriteFile(secPath, testSecret, 0o644)

	var sig *provenance.Signatory
	r := e.g.run("NewFromKeyring", func() error {
		var err error
		sig, err = provenance.NewFromKeyring(ringPath, "")
		if err != nil {
			return err
		}
		for _, id := range []string{"helm", "nobody@example.com", "(", "Helm Testing (This key should only be used for testing. DO NOT TRUST.) <helm-testing@helm.sh>"} {
			provenance.NewFromKeyring(ringPath, id)
		}
		return nil
	})
	out = append(out, r)
	out = append(out, e.g.run("NewFromFiles", func() error {
		_, err := provenance.NewFromFiles(ringPath, ringPath)
		provenance.NewFromFiles(secPath, ringPath)
		return err
	}))
	if r.Kind == "ok" {
		out = append(out, e.g.run("Verify", func() error {
			v, err := sig.Verify(chartPath, provPath)
			if err == nil {
				_ = v.FileHash + v.FileName
				for id := range v.SignedBy.Identities {
					_ = id
				}
			}
			return err
		}))
	}
	// verification against the good keyring regardless of the keyring deviation
	out = append(out, e.g.run("Verify-good-keyring", func() error {
		goodRing := filepath.Join(dir, "good.gpg")
		os.WriteFile(goodRing, testPub, 0o644)
		s, err := provenance.NewFromKeyring(goodRing, "")
		if err != nil {
			return err
		}
		_, err = s.Verify(chartPath, provPath)
		return err
	}))
	return out
}

func newProvEntry() *docEntry {
	return &docEntry{name: "provenance", files: provFiles(), devs: provDevs(), trunc: []string{"@keyring"}, exec: provExec, pairAll: true,
		truncText: map[string]func() string{"@prov": func() string {
			var sb strings.Builder
			for _, s := range provFiles()[0].Slots {
				sb.WriteString(s.Text)
			}
			return clearSign(sb.String())
		}},
		floors: []string{"provenance:baseline-ok", "provenance:all-ok", "provenance:error:Verify", "provenance:error:NewFromKeyring", "provenance:error:Verify-good-keyring"}}
}

// ===========================================================================
// entry point "plugin": plugin.yaml

func pluginFiles() []fileSpec {
	return []fileSpec{{Name: "plugin.yaml", Slots: []slot{
		kv("name", "name: myplug\n"),
		kv("version", "version: 0.1.0\n"),
		kv("usage", "usage: does things\n"),
		kv("description", "description: a plugin\n"),
		kv("command", "command: \"$HELM_PLUGIN_DIR/bin/x --flag\"\n"),
		kv("platformCommand", ""),
		kv("ignoreFlags", "ignoreFlags: false\n"),
		kv("hooks", "hooks:\n  install: \"echo hi\"\n"),
		kv("platformHooks", ""),
		kv("downloaders", "downloaders:\n- command: bin/dl\n  protocols: [myproto]\n"),
		kv("useTunnel", ""),
		kv("tail", ""),
	}}}
}

func pluginDevs() []Dev {
	const F = "plugin.yaml"
	base := map[string]string{}
	for _, s := range pluginFiles()[0].Slots {
		base[s.Name] = s.Text
	}
	var d []Dev
	for _, f := range []string{"name", "version", "usage", "description", "command", "ignoreFlags", "hooks", "downloaders"} {
		d = append(d, fieldDevs(F, f, "", f, base[f])...)
	}
	d = append(d, fieldDevs(F, "platformCommand", "", "platformCommand", "")...)
	d = append(d, fieldDevs(F, "platformHooks", "", "platformHooks", "")...)
	d = append(d, fieldDevs(F, "useTunnel", "", "useTunnel", "")...)
	d = append(d, custom(F, "name", true,
		"slash", "name: a/b\n", "dotdot", "name: ..\n", "space", "name: \"a b\"\n", "unicode", "name: plüg\n", "dash", "name: -\n",
	)...)
	d = append(d, custom(F, "command", true,
		"only-spaces", "command: \"   \"\n",
		"env-unset", "command: \"$NOPE_UNSET/x ${ALSO_UNSET} $\"\n",
		"env-weird", "command: \"${ $(x) `y` $$ ${}\"\n",
		"removed", "",
	)...)
	d = append(d, custom(F, "platformCommand", true,
		"match", "platformCommand:\n- os: linux\n  arch: amd64\n  command: bin/x\n  args: [a, \"$HOME\"]\n",
		"os-only", "platformCommand:\n- os: linux\n  command: \"bin/x y\"\n",
		"no-match", "platformCommand:\n- os: plan9\n  arch: mips\n  command: bin/x\n",
		"null-item", "platformCommand:\n- null\n",
		"empty-item", "platformCommand:\n- {}\n",
		"scalar-item", "platformCommand:\n- s\n",
		"args-null", "platformCommand:\n- command: bin/x\n  args: null\n",
		"args-listnull", "platformCommand:\n- command: bin/x\n  args: [null]\n",
		"args-scalar", "platformCommand:\n- command: bin/x\n  args: s\n",
		"command-empty", "platformCommand:\n- os: linux\n  arch: amd64\n  command: \"\"\n",
		"command-null", "platformCommand:\n- command: null\n",
		"arch-only", "platformCommand:\n- arch: amd64\n  command: bin/x\n",
		"case", "platformCommand:\n- os: LINUX\n  arch: AMD64\n  command: bin/x\n",
	)...)
	d = append(d, custom(F, "hooks", true,
		"install-null", "hooks:\n  install: null\n",
		"install-list", "hooks:\n  install: [a]\n",
		"unknown-event", "hooks:\n  nope: x\n",
		"nonstring-key", "hooks:\n  1: x\n",
	)...)
	d = append(d, custom(F, "platformHooks", true,
		"install", "platformHooks:\n  install:\n  - os: linux\n    arch: amd64\n    command: echo\n    args: [hi]\n",
		"install-null", "platformHooks:\n  install: null\n",
		"install-nullitem", "platformHooks:\n  install: [null]\n",
		"install-scalar", "platformHooks:\n  install: s\n",
		"install-empty", "platformHooks:\n  install: []\n",
		"install-nomatch", "platformHooks:\n  install:\n  - os: plan9\n    command: echo\n",
	)...)
	d = append(d, custom(F, "downloaders", true,
		"null-item", "downloaders:\n- null\n",
		"protocols-null", "downloaders:\n- command: x\n  protocols: null\n",
		"protocols-listnull", "downloaders:\n- command: x\n  protocols: [null]\n",
		"protocols-scalar", "downloaders:\n- command: x\n  protocols: s\n",
		"command-null", "downloaders:\n- command: null\n  protocols: [p]\n",
		"scalar-item", "downloaders:\n- s\n",
	)...)
	d = append(d, custom(F, "tail", true, "unknown-field", "unknownField: 1\n", "dup-name", "name: other\n")...)
	d = append(d, genericYAMLDocs(F)...)
	applyTiers(d, map[string]string{
		F + "#name": "null missing empty", F + "#command": "null missing empty only-spaces env-unset removed", F + "#platformCommand": "*", F + "#hooks": "null listnull install-null unknown-event",
		F + "#platformHooks": "*", F + "#downloaders": "null listnull null-item protocols-null", F + "#ignoreFlags": "bool null", F + "#usage": "ctrl null", F + "#tail": "*",
	}, nil)
	return d
}

func pluginExec(e *env, fs fileset) []res {
	var out []res
	base := e.freshDir("plugins")
	dir := filepath.Join(base, "myplug")
	os.MkdirAll(dir, 0o755)
	if raw, ok := fs.get("plugin.yaml"); ok {
		os.WriteFile(filepath.Join(dir, "plugin.yaml"), raw, 0o644)
	}
	// a second, always valid plugin next to it
	os.MkdirAll(filepath.Join(base, "other"), 0o755)
	os.WriteFile(filepath.Join(base, "other", "plugin.yaml"), []byte("name: other\nversion: 0.1.0\ncommand: x\n"), 0o644)
	var p *plugin.Plugin
	r := e.g.run("LoadDir", func() error {
		var err error
		p, err = plugin.LoadDir(dir)
		return err
	})
	out = append(out, r)
	if r.Kind == "ok" && p != nil {
		out = append(out, e.g.run("PrepareCommand", func() error {
			_, _, err := p.PrepareCommand([]string{"--extra", "$HOME"})
			p.PrepareCommand(nil)
			return err
		}))
		out = append(out, e.g.run("PrepareHooks", func() error {
			var last error
			for _, ev := range []string{"install", "update", "delete", "nope"} {
				if cmds := p.Metadata.PlatformHooks[ev]; len(cmds) > 0 {
					if _, _, err := plugin.PrepareCommands(cmds, true, []string{}); err != nil {
						last = err
					}
				}
				if h := p.Metadata.Hooks[ev]; h != "" {
					if _, _, err := plugin.PrepareCommands([]plugin.PlatformCommand{{Command: "sh", Args: []string{"-c", h}}}, true, []string{}); err != nil {
						last = err
					}
				}
			}
			for _, dl := range p.Metadata.Downloaders {
				_ = dl.Command + strings.Join(dl.Protocols, ",")
			}
			return last
		}))
	}
	out = append(out, e.g.run("LoadAll", func() error {
		ps, err := plugin.LoadAll(base)
		for _, x := range ps {
			_ = x.Metadata.Name + x.Dir
		}
		return err
	}))
	out = append(out, e.g.run("FindPlugins", func() error {
		_, err := plugin.FindPlugins(base + string(os.PathListSeparator) + filepath.Join(base, "nonexistent") + string(os.PathListSeparator))
		return err
	}))
	return out
}

func newPluginEntry() *docEntry {
	return &docEntry{name: "plugin", files: pluginFiles(), devs: pluginDevs(), trunc: []string{"plugin.yaml"}, exec: pluginExec,
		floors: []string{"plugin:baseline-ok", "plugin:all-ok", "plugin:error:LoadDir", "plugin:error:PrepareCommand", "plugin:error:LoadAll"}}
}
