package c20

import (
	"bytes"
	"compress/gzip"
	"context"
	"encoding/base64"
	"encoding/json"
	"fmt"
	"strings"

	v1 "k8s.io/api/core/v1"
	metav1 "k8s.io/apimachinery/pkg/apis/meta/v1"
	"k8s.io/client-go/kubernetes/fake"

	chart "helm.sh/helm/v4/pkg/chart/v2"
	rspb "helm.sh/helm/v4/pkg/release/v1"
	"helm.sh/helm/v4/pkg/storage"
	"helm.sh/helm/v4/pkg/storage/driver"
	helmtime "helm.sh/helm/v4/pkg/time"
)

// ---------------------------------------------------------------------------
// entry point "storage": Secrets and ConfigMaps drivers (and pkg/storage on top
// of them) over a store holding two good records and one deviated record of
// the same release.

func goodRelease(rev int, status rspb.Status) *rspb.Release {
	return &rspb.Release{
		Name: "app", Namespace: "default", Version: rev,
		Info: &rspb.Info{FirstDeployed: helmtime.Unix(1700000000, 0).UTC(), LastDeployed: helmtime.Unix(1700000000+int64(rev), 0).UTC(),
			Status: status, Description: "d"},
		Chart:    &chart.Chart{Metadata: &chart.Metadata{Name: "ch", Version: "0.1.0", APIVersion: "v2"}},
		Config:   map[string]interface{}{"k": "v"},
		Manifest: "apiVersion: v1\nkind: ConfigMap\nmetadata:\n  name: cm\n",
	}
}

func gz(b []byte) []byte {
	var buf bytes.Buffer
	w, _ := gzip.NewWriterLevel(&buf, gzip.BestCompression)
	w.Write(b)
	w.Close()
	return buf.Bytes()
}

func b64(b []byte) string { return base64.StdEncoding.EncodeToString(b) }

func encodeBody(jsonText string) string { return b64(gz([]byte(jsonText))) }

func storageFiles() []fileSpec {
	js, _ := json.Marshal(goodRelease(2, rspb.StatusSuperseded))
	return []fileSpec{
		{Name: "@body", Slots: []slot{kv("all", encodeBody(string(js)))}},
		{Name: "@datakey", Slots: []slot{kv("all", "release")}},
		{Name: "@labels", Slots: []slot{kv("all", `{"name":"app","owner":"helm","status":"superseded","version":"2"}`)}},
	}
}

func storageDevs() []Dev {
	js, _ := json.Marshal(goodRelease(2, rspb.StatusSuperseded))
	good := string(js)
	var d []Dev
	d = append(d, wholeDevs("@body", true,
		"empty", "",
		"not-base64", "!!!not base64!!!",
		"base64-bad-padding", "QUJD=",
		"base64url", strings.NewReplacer("+", "-", "/", "_").Replace(encodeBody(good)),
		"base64-whitespace", " "+encodeBody(good)+"\n",
		"not-gzip", b64([]byte("plain garbage, neither gzip nor json")),
		"gzip-magic-only", b64([]byte{0x1f, 0x8b, 0x08}),
		"gzip-magic-4", b64([]byte{0x1f, 0x8b, 0x08, 0x00}),
		"gzip-magic-garbage", b64(append([]byte{0x1f, 0x8b, 0x08}, []byte("garbage after the magic number")...)),
		"gzip-truncated-half", b64(gz([]byte(good))[:len(gz([]byte(good)))/2]),
		"gzip-truncated-trailer", b64(gz([]byte(good))[:len(gz([]byte(good)))-4]),
		"gzip-bad-crc", b64(flipLast(gz([]byte(good)))),
		"gzip-trailing-garbage", b64(append(gz([]byte(good)), []byte("trailing")...)),
		"gzip-of-empty", b64(gz(nil)),
		"gzip-of-gzip", b64(gz(gz([]byte(good)))),
		"double-base64", b64([]byte(encodeBody(good))),
		"uncompressed-json", b64([]byte(good)),
		"not-json", encodeBody("this is not json"),
		"json-truncated", encodeBody(good[:len(good)/2]),
		"json-trailing", encodeBody(good+" trailing"),
		"json-nonutf8", encodeBody(`{"name":"`+"\xff\xfe"+`","version":2}`),
		"json-dup-keys", encodeBody(`{"name":"app","name":"other","version":2,"version":"x"}`),
		"json-deep", encodeBody(`{"config":`+strings.Repeat("[", 20000)+`}`),
		"json-deep-valid", encodeBody(`{"config":{"a":`+strings.Repeat("[", 5000)+strings.Repeat("]", 5000)+`}}`),
	)...)
	shapes := []struct{ n, js string }{
		{"null", `null`},
		{"list", `[]`},
		{"string", `"s"`},
		{"number", `1`},
		{"emptyobj", `{}`},
		{"name-int", `{"name":1}`},
		{"only-name", `{"name":"app","version":2,"namespace":"default"}`},
		{"info-null", `{"name":"app","version":2,"info":null}`},
		{"info-list", `{"name":"app","version":2,"info":[]}`},
		{"info-empty", `{"name":"app","version":2,"info":{}}`},
		{"status-int", `{"name":"app","version":2,"info":{"status":1}}`},
		{"status-unknown", `{"name":"app","version":2,"info":{"status":"banana"}}`},
		{"time-bad", `{"name":"app","version":2,"info":{"status":"deployed","first_deployed":"notadate"}}`},
		{"time-int", `{"name":"app","version":2,"info":{"status":"deployed","last_deployed":1}}`},
		{"chart-list", `{"name":"app","version":2,"info":{"status":"deployed"},"chart":[]}`},
		{"chart-null", `{"name":"app","version":2,"info":{"status":"deployed"},"chart":null}`},
		{"chart-metadata-null", `{"name":"app","version":2,"info":{"status":"deployed"},"chart":{"metadata":null,"templates":[null],"files":[null],"values":null}}`},
		{"chart-values-list", `{"name":"app","version":2,"info":{"status":"deployed"},"chart":{"metadata":{"name":"c"},"values":[]}}`},
		{"config-list", `{"name":"app","version":2,"info":{"status":"deployed"},"config":[]}`},
		{"config-null", `{"name":"app","version":2,"info":{"status":"deployed"},"config":null}`},
		{"hooks-null-item", `{"name":"app","version":2,"info":{"status":"deployed"},"hooks":[null]}`},
		{"hooks-bad-events", `{"name":"app","version":2,"info":{"status":"deployed"},"hooks":[{"name":"h","events":[1,null],"last_run":null,"weight":"x"}]}`},
		{"hooks-map", `{"name":"app","version":2,"info":{"status":"deployed"},"hooks":{"a":1}}`},
		{"version-string", `{"name":"app","version":"two","info":{"status":"deployed"}}`},
		{"version-huge", `{"name":"app","version":99999999999999999999,"info":{"status":"deployed"}}`},
		{"version-negative", `{"name":"app","version":-1,"info":{"status":"deployed"}}`},
		{"version-float", `{"name":"app","version":2.5,"info":{"status":"deployed"}}`},
		{"manifest-int", `{"name":"app","version":2,"info":{"status":"deployed"},"manifest":1}`},
		{"deployed-no-chart", `{"name":"app","version":2,"info":{"status":"deployed"}}`},
		{"uninstalled-no-times", `{"name":"app","version":2,"info":{"status":"uninstalled"}}`},
		{"other-release", `{"name":"zzz","version":7,"namespace":"elsewhere","info":{"status":"deployed"}}`},
	}
	for _, s := range shapes {
		quickPair := map[string]bool{"null": true, "emptyobj": true, "only-name": true, "info-null": true, "chart-null": true, "hooks-null-item": true, "version-string": true, "other-release": true}[s.n]
		d = append(d, Dev{ID: "@body:json=" + s.n, File: "@body", Text: encodeBody(s.js), Core: quickPair})
		d = append(d, Dev{ID: "@body:rawjson=" + s.n, File: "@body", Text: b64([]byte(s.js)), Core: false})
	}
	d = append(d, wholeDevs("@datakey", true,
		"missing", "other",
		"uppercase", "Release",
		"no-data", "",
	)...)
	d = append(d, wholeDevs("@labels", true,
		"nil", `null`,
		"owner-only", `{"owner":"helm"}`,
		"no-owner", `{"name":"app","status":"superseded","version":"2"}`,
		"version-nonint", `{"name":"app","owner":"helm","status":"superseded","version":"x"}`,
		"version-missing", `{"name":"app","owner":"helm","status":"superseded"}`,
		"status-deployed", `{"name":"app","owner":"helm","status":"deployed","version":"2"}`,
		"status-weird", `{"name":"app","owner":"helm","status":"banana","version":"2"}`,
		"status-uninstalled", `{"name":"app","owner":"helm","status":"uninstalled","version":"2"}`,
		"name-other", `{"name":"other","owner":"helm","status":"superseded","version":"2"}`,
		"version-dup", `{"name":"app","owner":"helm","status":"deployed","version":"3"}`,
		"user-labels", `{"name":"app","owner":"helm","status":"superseded","version":"2","team":"x","createdAt":"notanumber","modifiedAt":""}`,
	)...)
	return d
}

func flipLast(b []byte) []byte {
	c := append([]byte{}, b...)
	c[len(c)-5] ^= 0xff
	return c
}

const (
	keyGood1 = "sh.helm.release.v1.app.v1"
	keyBad   = "sh.helm.release.v1.app.v2"
	keyGood3 = "sh.helm.release.v1.app.v3"
)

// hasGood checks that both good revisions (1 and 3 of "app") are present.
func hasGood(rs []*rspb.Release) error {
	seen := map[int]bool{}
	for _, r := range rs {
		if r != nil && r.Name == "app" && r.Info != nil && r.Chart != nil && r.Chart.Metadata != nil && r.Chart.Metadata.Name == "ch" {
			seen[r.Version] = true
		}
	}
	var missing []string
	for _, v := range []int{1, 3} {
		if !seen[v] {
			missing = append(missing, fmt.Sprint(v))
		}
	}
	if len(missing) > 0 {
		return fmt.Errorf("good record(s) app.v%s not returned (%d records returned)", strings.Join(missing, ",v"), len(rs))
	}
	return nil
}

// lostCall wraps a call whose result must contain the good records: an error
// or a missing good record is the "lost" outcome, not a plain error.
func lostCall(stage string, fn func() ([]*rspb.Release, error)) res {
	var rs []*rspb.Release
	r := call(stage, func() error {
		var err error
		rs, err = fn()
		return err
	})
	if r.Kind == "panic" {
		return r
	}
	if r.Kind == "error" {
		r.Kind = "lost"
		r.Detail = "readable records are not returned because one record is unreadable: " + r.Detail
		return r
	}
	if err := hasGood(rs); err != nil {
		r.Kind = "lost"
		r.Detail = err.Error()
	}
	return r
}

func storageExec(e *env, fs fileset) []res {
	body, _ := fs.get("@body")
	dk, _ := fs.get("@datakey")
	lb, _ := fs.get("@labels")
	var labels map[string]string
	json.Unmarshal(lb, &labels)
	var out []res
	for _, drv := range []string{"secrets", "configmaps"} {
		drv := drv
		mk := func() driver.Driver {
			cs := fake.NewSimpleClientset()
			var d driver.Driver
			if drv == "secrets" {
				d = driver.NewSecrets(cs.CoreV1().Secrets("default"))
			} else {
				d = driver.NewConfigMaps(cs.CoreV1().ConfigMaps("default"))
			}
			if err := d.Create(keyGood1, goodRelease(1, rspb.StatusSuperseded)); err != nil {
				out = append(out, res{Stage: "setup", Kind: "harness", Detail: err.Error()})
				return nil
			}
			if err := d.Create(keyGood3, goodRelease(3, rspb.StatusDeployed)); err != nil {
				out = append(out, res{Stage: "setup", Kind: "harness", Detail: err.Error()})
				return nil
			}
			meta := metav1.ObjectMeta{Name: keyBad, Namespace: "default", Labels: labels}
			var err error
			if drv == "secrets" {
				obj := &v1.Secret{ObjectMeta: meta, Type: "helm.sh/release.v1"}
				if len(dk) > 0 {
					obj.Data = map[string][]byte{string(dk): body}
				}
				_, err = cs.CoreV1().Secrets("default").Create(context.Background(), obj, metav1.CreateOptions{})
			} else {
				obj := &v1.ConfigMap{ObjectMeta: meta}
				if len(dk) > 0 {
					obj.Data = map[string]string{string(dk): string(body)}
				}
				_, err = cs.CoreV1().ConfigMaps("default").Create(context.Background(), obj, metav1.CreateOptions{})
			}
			if err != nil {
				out = append(out, res{Stage: "setup", Kind: "harness", Detail: "deviated record: " + err.Error()})
				return nil
			}
			return d
		}
		d := mk()
		if d == nil {
			return out
		}
		p := drv + "/"
		all := func(*rspb.Release) bool { return true }
		out = append(out, e.g.run(p+"Get-deviated", func() error {
			r, err := d.Get(keyBad)
			if err == nil {
				_ = r.Name + fmt.Sprint(r.Version, r.Labels)
			}
			return err
		}))
		out = append(out, e.g.do(p+"Get-good", func() res {
			return lostCall(p+"Get-good", func() ([]*rspb.Release, error) {
				r1, err := d.Get(keyGood1)
				if err != nil {
					return nil, err
				}
				r3, err := d.Get(keyGood3)
				return []*rspb.Release{r1, r3}, err
			})
		}))
		out = append(out, e.g.do(p+"List", func() res {
			return lostCall(p+"List", func() ([]*rspb.Release, error) { return d.List(all) })
		}))
		out = append(out, e.g.do(p+"Query-owner", func() res {
			return lostCall(p+"Query-owner", func() ([]*rspb.Release, error) { return d.Query(map[string]string{"owner": "helm"}) })
		}))
		out = append(out, e.g.do(p+"Query-name", func() res {
			return lostCall(p+"Query-name", func() ([]*rspb.Release, error) {
				return d.Query(map[string]string{"name": "app", "owner": "helm"})
			})
		}))
		out = append(out, e.g.run(p+"Query-status", func() error {
			_, err := d.Query(map[string]string{"name": "app", "owner": "helm", "status": "superseded"})
			return err
		}))
		// pkg/storage on top of the driver: its own filters and sorters
		st := storage.Init(d)
		out = append(out, e.g.run(p+"Storage.Get", func() error { _, err := st.Get("app", 2); return err }))
		out = append(out, e.g.do(p+"Storage.ListReleases", func() res {
			return lostCall(p+"Storage.ListReleases", func() ([]*rspb.Release, error) { return st.ListReleases() })
		}))
		out = append(out, e.g.run(p+"Storage.ListDeployed", func() error { _, err := st.ListDeployed(); return err }))
		out = append(out, e.g.run(p+"Storage.ListUninstalled", func() error { _, err := st.ListUninstalled(); return err }))
		out = append(out, e.g.run(p+"Storage.Deployed", func() error { _, err := st.Deployed("app"); return err }))
		out = append(out, e.g.run(p+"Storage.DeployedAll", func() error { _, err := st.DeployedAll("app"); return err }))
		out = append(out, e.g.do(p+"Storage.History", func() res {
			return lostCall(p+"Storage.History", func() ([]*rspb.Release, error) { return st.History("app") })
		}))
		out = append(out, e.g.run(p+"Storage.Last", func() error { _, err := st.Last("app"); return err }))
		// mutating calls last
		out = append(out, e.g.run(p+"Storage.Create-with-history-limit", func() error {
			st.MaxHistory = 2
			return st.Create(goodRelease(4, rspb.StatusPendingUpgrade))
		}))
		d2 := mk() // a fresh store: the history limit above may have pruned the record
		if d2 == nil {
			return out
		}
		out = append(out, e.g.run(p+"Delete-deviated", func() error { _, err := d2.Delete(keyBad); return err }))
	}
	return out
}

func newStorageEntry() *docEntry {
	return &docEntry{
		name:  "storage",
		files: storageFiles(),
		devs:  storageDevs(),
		trunc: []string{"@body"},
		exec:  storageExec,
		// quick: pairs over the Core deviations; thorough: all pairs
		maxK:   func(bool) int { return 2 },
		floors: []string{"storage:baseline-ok", "storage:all-ok", "storage:error:Get-deviated", "storage:error:Storage.Get", "storage:error:Delete-deviated"},
	}
}
