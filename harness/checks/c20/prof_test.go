package c20

import (
	"fmt"
	"testing"
)

func TestCount(t *testing.T) {
	d := newChartEntry()
	d.prepare()
	core, tr := 0, 0
	perFile := map[string][2]int{}
	for i := range d.devs {
		x := perFile[d.devs[i].File]
		if isTrunc(&d.devs[i]) {
			tr++
			continue
		}
		x[0]++
		if d.devs[i].Core {
			core++
			x[1]++
		}
		perFile[d.devs[i].File] = x
	}
	fmt.Println("devs", len(d.devs), "trunc", tr, "core", core)
	for f, x := range perFile {
		fmt.Println(f, x)
	}
}
