package c20

import (
	"fmt"
	"sort"
	"strings"

	"verif/harness/internal/core"
)

// ---------------------------------------------------------------------------
// documents built from slots, atomic deviations, combinations

// slot is one replaceable piece of a baseline document.
type slot struct {
	Name string
	Text string
}

// fileSpec is a baseline document: the concatenation of its slots.
type fileSpec struct {
	Name  string // names starting with '@' are pseudo files (not part of a directory)
	Slots []slot
}

func (f fileSpec) text() string {
	var sb strings.Builder
	for _, s := range f.Slots {
		sb.WriteString(s.Text)
	}
	return sb.String()
}

// Dev is one atomic deviation from the baseline.
type Dev struct {
	ID     string // unique inside the entry point
	Class  string // coarser name used in finding keys ("" = ID)
	File   string
	Slot   string // "" = the whole file is replaced
	Text   string
	Absent bool // whole-file only: the file does not exist
	Core   bool // combined pairwise in the quick tier
	Wide   bool // combined pairwise in the thorough tier when the entry restricts its pairs (else thorough pairs everything)
	Triple bool // takes part in 3-combinations (thorough)
}

// class is the name of the deviation inside finding keys: the explicit Class
// when the table gives one, else the place deviated (file#slot, or the file
// as a whole) - the variant that happened to be the first to fail is left to
// the message, so that one defect reached through twenty variants of the same
// field is one key.
func (d Dev) class() string {
	if d.Class != "" {
		return d.Class
	}
	if d.Slot != "" {
		return d.File + "#" + d.Slot
	}
	return d.File + ":whole"
}

// variant is the part of the id after "file#slot=" or "file:".
func (d Dev) variant() string {
	if d.Slot != "" {
		return strings.TrimPrefix(d.ID, d.File+"#"+d.Slot+"=")
	}
	return strings.TrimPrefix(d.ID, d.File+":")
}

// applyTiers sets Core / Triple from selection tables.
func applyTiers(devs []Dev, pairs, triples map[string]string, wide ...map[string]string) {
	sel := func(m map[string]string, dv *Dev) bool {
		k := dv.File + ":"
		if dv.Slot != "" {
			k = dv.File + "#" + dv.Slot
		}
		v, ok := m[k]
		if !ok {
			return false
		}
		if v == "*" {
			return true
		}
		for _, n := range strings.Fields(v) {
			if n == dv.variant() {
				return true
			}
		}
		return false
	}
	used := map[string]bool{}
	for i := range devs {
		devs[i].Core = sel(pairs, &devs[i])
		devs[i].Triple = sel(triples, &devs[i])
		for _, w := range wide {
			if sel(w, &devs[i]) {
				devs[i].Wide = true
			}
		}
		if devs[i].Core || devs[i].Triple || devs[i].Wide {
			k := devs[i].File + ":"
			if devs[i].Slot != "" {
				k = devs[i].File + "#" + devs[i].Slot
			}
			used[k+"="+devs[i].variant()] = true
			used[k] = true
		}
	}
	// a selection that names nothing is a typo in the table
	for _, m := range append([]map[string]string{pairs, triples}, wide...) {
		for k, v := range m {
			if !used[k] {
				panic("c20: tier table names unknown slot " + k)
			}
			if v == "*" {
				continue
			}
			for _, n := range strings.Fields(v) {
				if !used[k+"="+n] {
					panic("c20: tier table names unknown variant " + k + "=" + n)
				}
			}
		}
	}
}

func conflict(a, b *Dev) bool {
	if a.File != b.File {
		return false
	}
	return a.Slot == "" || b.Slot == "" || a.Slot == b.Slot
}

// fileset is a materialised case.
type fileset struct {
	order []string
	data  map[string][]byte
}

func (fs fileset) get(name string) ([]byte, bool) { b, ok := fs.data[name]; return b, ok }

// docEntry is an entry point explored by "baseline + deviations".
type docEntry struct {
	name   string
	files  []fileSpec
	devs   []Dev
	trunc  []string // files truncated at every byte (1-deviation cases, and 2-combinations with truncOther)
	floors []string
	// exec pushes one materialised case through every stage of the entry
	// point; it stops a pipeline at the first stage that does not return ok.
	exec func(e *env, fs fileset) []res
	// maxK overrides the combination depth (0 = 2 quick / 3 thorough)
	maxK func(thorough bool) int
	// pairAll: the table is small; combine every deviation in every tier
	pairAll bool
	// tripleQuick: 3-combinations over the deviations marked Triple already in
	// the quick tier (thorough: over all deviations when pairAll)
	tripleQuick bool
	// widePairs: in the thorough tier combine pairwise only the deviations
	// marked Wide (the full table squared would not fit the time budget)
	widePairs bool
	// truncText: additional documents truncated at every byte whose text is
	// computed (a file whose baseline slot is a placeholder)
	truncText map[string]func() string

	byID map[string]*Dev
	memo map[string][]res
}

func (d *docEntry) Name() string     { return d.name }
func (d *docEntry) Floors() []string { return d.floors }

func (d *docEntry) prepare() {
	if d.byID != nil {
		return
	}
	d.byID = map[string]*Dev{}
	files := map[string]fileSpec{}
	for _, f := range d.files {
		files[f.Name] = f
	}
	// truncations: one deviation per proper prefix
	for _, fn := range d.trunc {
		txt := files[fn].text()
		for n := 0; n < len(txt); n++ {
			d.devs = append(d.devs, Dev{ID: fmt.Sprintf("%s:trunc@%d", fn, n), Class: fn + ":truncated", File: fn, Text: txt[:n]})
		}
	}
	var tnames []string
	for fn := range d.truncText {
		tnames = append(tnames, fn)
	}
	sort.Strings(tnames)
	for _, fn := range tnames {
		txt := d.truncText[fn]()
		for n := 1; n < len(txt); n++ {
			d.devs = append(d.devs, Dev{ID: fmt.Sprintf("%s:trunc@%d", fn, n), Class: fn + ":truncated", File: fn, Text: txt[:n]})
		}
	}
	for i := range d.devs {
		dv := &d.devs[i]
		if _, dup := d.byID[dv.ID]; dup {
			panic("c20: duplicate deviation id " + d.name + " " + dv.ID)
		}
		f, ok := files[dv.File]
		if !ok {
			panic("c20: deviation for unknown file " + dv.File + " in " + d.name)
		}
		if dv.Slot != "" {
			found := false
			for _, s := range f.Slots {
				if s.Name == dv.Slot {
					found = true
				}
			}
			if !found {
				panic("c20: deviation for unknown slot " + dv.File + "#" + dv.Slot + " in " + d.name)
			}
		}
		d.byID[dv.ID] = dv
	}
	d.memo = map[string][]res{}
}

func isTrunc(dv *Dev) bool { return strings.Contains(dv.ID, ":trunc@") }

// materialise applies the deviations to the baseline.
func (d *docEntry) materialise(ids []string) fileset {
	fs := fileset{data: map[string][]byte{}}
	whole := map[string]*Dev{}
	slots := map[string]*Dev{}
	for _, id := range ids {
		dv := d.byID[id]
		if dv == nil {
			continue
		}
		if dv.Slot == "" {
			whole[dv.File] = dv
		} else {
			slots[dv.File+"#"+dv.Slot] = dv
		}
	}
	for _, f := range d.files {
		if w, ok := whole[f.Name]; ok {
			if w.Absent {
				continue
			}
			fs.order = append(fs.order, f.Name)
			fs.data[f.Name] = []byte(w.Text)
			continue
		}
		var sb strings.Builder
		for _, s := range f.Slots {
			if dv, ok := slots[f.Name+"#"+s.Name]; ok {
				sb.WriteString(dv.Text)
			} else {
				sb.WriteString(s.Text)
			}
		}
		fs.order = append(fs.order, f.Name)
		fs.data[f.Name] = []byte(sb.String())
	}
	return fs
}

func (d *docEntry) runIDs(e *env, ids []string) []res {
	if e.remote != nil {
		return e.remote.do(request{Entry: d.name, Devs: ids}).results
	}
	return d.exec(e, d.materialise(ids))
}

// Serve executes one case in this process (case server side).
func (d *docEntry) Serve(e *env, req request) {
	d.prepare()
	d.exec(e, d.materialise(req.Devs))
}

// runMemo is runIDs with a per-worker memo (used by minimisation only).
func (d *docEntry) runMemo(e *env, ids []string) []res {
	k := strings.Join(ids, "\x00")
	if r, ok := d.memo[k]; ok {
		return r
	}
	if kb := e.knownSubset(d.name, ids); kb != nil {
		// already known to kill the process: do not pay for another child
		return []res{kb.Res}
	}
	r := d.runIDs(e, ids)
	if len(d.memo) < 200000 {
		d.memo[k] = r
	}
	return r
}

func firstBad(rs []res) *res {
	for i := range rs {
		if rs[i].bad() {
			return &rs[i]
		}
	}
	return nil
}

// where names the place of a bad result for keys and for matching during
// minimisation: the panicking Helm function when there is one (so that the
// same defect reached through two stages is one class), else the stage.
func (r res) where() string {
	if r.Kind == "panic" && r.Site != "" {
		return "in:" + r.Site
	}
	return "stage:" + stageClass(r.Stage)
}

func (r res) kindKey() string {
	if r.Kind == "fatal" || r.Kind == "hang" {
		// "dies of a fatal runtime error" and "never returns" are one class:
		// unbounded recursion shows as either, depending on how fast the
		// stack limit is reached
		return "no-return"
	}
	if r.Kind == "panic" && r.PClass != "" {
		return "panic:" + r.PClass
	}
	return r.Kind
}

func hasBad(rs []res, like res) *res {
	for i := range rs {
		if rs[i].bad() && rs[i].kindKey() == like.kindKey() && rs[i].where() == like.where() {
			return &rs[i]
		}
	}
	return nil
}

// minimise finds the smallest (then first in enumeration order) subset of ids
// that still shows the same bad stage/kind/site.
func (d *docEntry) minimise(e *env, ids []string, b res) []string {
	n := len(ids)
	if n == 0 {
		return ids
	}
	var subsets [][]string
	for mask := 0; mask < (1<<n)-1; mask++ {
		var s []string
		for i := 0; i < n; i++ {
			if mask&(1<<i) != 0 {
				s = append(s, ids[i])
			}
		}
		subsets = append(subsets, s)
	}
	sort.SliceStable(subsets, func(i, j int) bool { return len(subsets[i]) < len(subsets[j]) })
	for _, s := range subsets {
		if hasBad(d.runMemo(e, s), b) != nil {
			return s
		}
	}
	return ids
}

func (d *docEntry) keyFor(ids []string, b res) string {

	var cls []string
	for _, id := range ids {
		if dv := d.byID[id]; dv != nil {
			if b.Kind == "panic" && b.Site != "" {
				// the panicking function and the panic class already name the
				// defect; the shape only says which document carried it
				cls = append(cls, dv.File)
			} else {
				cls = append(cls, dv.class())
			}
		} else {
			cls = append(cls, id)
		}
	}
	sort.Strings(cls)
	cls = uniq(cls)
	shape := strings.Join(cls, "+")
	if shape == "" {
		shape = "baseline"
	}
	return core.SanitizeKey(fmt.Sprintf("%s/%s/%s/%s", d.name, b.kindKey(), b.where(), shape))
}

func uniq(xs []string) []string {
	var out []string
	for i, x := range xs {
		if i == 0 || x != xs[i-1] {
			out = append(out, x)
		}
	}
	return out
}

// violations turns the bad stages of one case into violations (minimised).
func (d *docEntry) violations(e *env, ids []string, rs []res) []core.Violation {
	var out []core.Violation
	seen := map[string]bool{}
	for _, b := range rs {
		if !b.bad() {
			continue
		}
		min := d.minimise(e, ids, b)
		bb := b
		if len(min) != len(ids) {
			if x := hasBad(d.runMemo(e, min), b); x != nil {
				bb = *x
			}
		}
		if bb.Kind == "fatal" || bb.Kind == "hang" {
			e.addKnown(badSet{Entry: d.name, IDs: min, Res: bb})
		}
		key := d.keyFor(min, bb)
		if seen[key] {
			continue
		}
		seen[key] = true
		fs := d.materialise(min)
		what := fmt.Sprintf("%s: stage %s %s", d.name, bb.Stage, bb.Detail)
		if bb.Site != "" {
			what += " in " + bb.Site
		}
		what += "; input = baseline with " + d.describeDevs(min, fs)
		rd := replayData{Entry: d.name, Devs: min}
		out = append(out, core.Violation{Property: prop, Key: key, What: firstLine(what, 900), Replay: []byte(mustJSON(rd))})
	}
	return out
}

func (d *docEntry) describeDevs(ids []string, fs fileset) string {
	var parts []string
	for _, id := range ids {
		dv := d.byID[id]
		if dv == nil {
			continue
		}
		t := dv.Text
		if dv.Absent {
			t = "<file absent>"
		}
		if len(t) > 120 {
			t = t[:120] + "..."
		}
		where := dv.File
		if dv.Slot != "" {
			where += "#" + dv.Slot
		}
		parts = append(parts, fmt.Sprintf("[%s := %q]", where, t))
	}
	if len(parts) == 0 {
		return "no deviation"
	}
	return strings.Join(parts, " ")
}

func (d *docEntry) RunOne(e *env, rd replayData) []core.Violation {
	d.prepare()
	ids := append([]string{}, rd.Devs...)
	e.c.Mark(mustJSON(rd))
	rs := d.runIDs(e, ids)
	return d.violations(e, ids, rs)
}

// Explore enumerates baseline, all 1-, 2- (and core 3-) combinations.
func (d *docEntry) Explore(e *env) {
	d.prepare()
	c := e.c
	k := 2
	if c.Thorough() {
		k = 3
	}
	if d.maxK != nil {
		k = d.maxK(c.Thorough())
	}
	if d.tripleQuick {
		k = 3
	}
	c.Bound(d.name+"_deviations", fmt.Sprint(len(d.devs)))
	c.Bound(d.name+"_max_combined", fmt.Sprint(k))

	one := func(ids []string) {
		if !c.NextMine() {
			return
		}
		if e.overBudget() {
			return
		}
		if len(ids) >= 2 {
			if kb := e.knownSubset(d.name, ids); kb != nil {
				// a sub-combination already kills the process (reported on its own)
				c.Count("pruned_supersets_of_process_killing_cases", 1)
				c.Outcome(d.name + ":pruned:superset-of-" + kb.Res.Kind)
				return
			}
		}
		rd := replayData{Entry: d.name, Devs: ids}
		rd.Key = d.keyFor(ids, res{Stage: "driver", Kind: "crash"})
		c.Mark(mustJSON(rd))
		c.Eval(1)
		c.Distinct(d.name + "|" + strings.Join(ids, "|"))
		rs := d.runIDs(e, ids)
		last := "none"
		allok := true
		for _, r := range rs {
			c.Outcome(d.name + ":" + stageClass(r.Stage) + ":" + r.Kind)
			if r.Kind != "ok" {
				allok = false
			}
			if r.Kind == "harness" {
				c.NotExhaustive("%s case %v could not be set up: %s %s", d.name, ids, r.Stage, r.Detail)
			}
			if r.Kind == "error" {
				c.Floor(d.name + ":error:" + stageClass(r.Stage))
			}
			last = r.Stage
		}
		_ = last
		if allok {
			c.Floor(d.name + ":all-ok")
			if len(ids) == 0 {
				c.Floor(d.name + ":baseline-ok")
			}
		} else if len(ids) == 0 {
			c.Note("baseline of %s is not all-ok: %s", d.name, mustJSON(rs))
		}
		if firstBad(rs) != nil {
			for _, v := range d.violations(e, ids, rs) {
				c.Violate(v.Property, v.Key, v.What, jsonRaw(v.Replay))
			}
		} else if len(ids) > 0 && (e.seq%97 == 0) {
			c.Sample(map[string]any{"entry": d.name, "deviations": ids, "stages": compact(rs)})
		}
		e.seq++
	}

	one(nil)
	n := len(d.devs)
	for i := 0; i < n; i++ {
		one([]string{d.devs[i].ID})
	}
	if k >= 2 {
		// quick: pairs over the Core deviations; thorough: pairs over all
		// (truncations stay single deviations)
		inPairs := func(x *Dev) bool {
			switch {
			case d.pairAll, x.Core:
				return true
			case c.Thorough():
				return !d.widePairs || x.Wide
			}
			return false
		}
		np := 0
		for i := 0; i < n; i++ {
			a := &d.devs[i]
			if isTrunc(a) || !inPairs(a) {
				continue
			}
			np++
			for j := i + 1; j < n; j++ {
				b := &d.devs[j]
				if isTrunc(b) || !inPairs(b) || conflict(a, b) {
					continue
				}
				one([]string{a.ID, b.ID})
			}
		}
		c.Bound(d.name+"_pairwise_deviations", fmt.Sprint(np))
	}
	if k >= 3 {
		var core []int
		for i := range d.devs {
			if (d.devs[i].Triple || (d.pairAll && c.Thorough())) && !isTrunc(&d.devs[i]) {
				core = append(core, i)
			}
		}
		c.Bound(d.name+"_triple_deviations", fmt.Sprint(len(core)))
		for x := 0; x < len(core); x++ {
			a := &d.devs[core[x]]
			for y := x + 1; y < len(core); y++ {
				b := &d.devs[core[y]]
				if conflict(a, b) {
					continue
				}
				for z := y + 1; z < len(core); z++ {
					cc := &d.devs[core[z]]
					if conflict(a, cc) || conflict(b, cc) {
						continue
					}
					one([]string{a.ID, b.ID, cc.ID})
				}
			}
		}
	}
}

// stageClass strips per-instance suffixes ("secrets/pos0/Get" -> "Get").
func stageClass(s string) string {
	if i := strings.LastIndexByte(s, '/'); i >= 0 {
		return s[i+1:]
	}
	return s
}

type jsonRaw []byte

func (j jsonRaw) MarshalJSON() ([]byte, error) { return j, nil }

func compact(rs []res) []string {
	var out []string
	for _, r := range rs {
		s := r.Stage + "=" + r.Kind
		if r.Kind == "error" {
			s += "(" + firstLine(r.Detail, 60) + ")"
		}
		out = append(out, s)
	}
	return out
}

// ---------------------------------------------------------------------------
// generators for YAML field deviations

var (
	longStr = strings.Repeat("a", 10000)
	deep1k  = strings.Repeat("[", 1000) + strings.Repeat("]", 1000)
	deepMap = func() string {
		var sb strings.Builder
		for i := 0; i < 1000; i++ {
			sb.WriteString("{a: ")
		}
		sb.WriteString("1")
		sb.WriteString(strings.Repeat("}", 1000))
		return sb.String()
	}()
)

// fieldDevs produces the generic deviation set for a "key: value" YAML slot.
// base is the baseline text of the slot (needed for the duplicate-key shape);
// indent is the indentation of the key. core lists the variant names that take
// part in 3-combinations.
func fieldDevs(file, slotName, indent, key, base string, core ...string) []Dev {
	variants := []struct{ n, v string }{
		{"null", "null"},
		{"int", "1"},
		{"bool", "true"},
		{"str", `"s"`},
		{"list", "[x]"},
		{"listnull", "[null]"},
		{"map", "{x: y}"},
		{"empty", `""`},
		{"emptylist", "[]"},
		{"emptymap", "{}"},
		{"long", `"` + longStr + `"`},
		{"nonutf8", "\"\xff\xfe\""},
		{"ctrl", `"a\u0000b\u001b\n"`},
		{"deep", deep1k},
		{"bignum", "99999999999999999999999999"},
		{"float", "1e400"},
	}
	isCore := func(n string) bool {
		for _, c := range core {
			if c == n || c == "*" {
				return true
			}
		}
		return false
	}
	var out []Dev
	for _, v := range variants {
		out = append(out, Dev{ID: file + "#" + slotName + "=" + v.n, File: file, Slot: slotName, Text: indent + key + ": " + v.v + "\n", Core: isCore(v.n)})
	}
	out = append(out,
		Dev{ID: file + "#" + slotName + "=missing", File: file, Slot: slotName, Text: "", Core: isCore("missing")},
		Dev{ID: file + "#" + slotName + "=dup", File: file, Slot: slotName, Text: base + indent + key + ": dup\n", Core: isCore("dup")},
	)
	return out
}

// custom builds field-specific deviations: pairs of (variant name, slot text).
func custom(file, slotName string, core bool, pairs ...string) []Dev {
	var out []Dev
	for i := 0; i+1 < len(pairs); i += 2 {
		out = append(out, Dev{ID: file + "#" + slotName + "=" + pairs[i], File: file, Slot: slotName, Text: pairs[i+1], Core: core})
	}
	return out
}

// wholeDevs builds whole-file deviations: pairs of (variant name, content).
func wholeDevs(file string, core bool, pairs ...string) []Dev {
	var out []Dev
	for i := 0; i+1 < len(pairs); i += 2 {
		out = append(out, Dev{ID: file + ":" + pairs[i], File: file, Text: pairs[i+1], Core: core})
	}
	return out
}

// genericYAMLDocs are whole-document shapes tried for every YAML document.
func genericYAMLDocs(file string) []Dev {
	d := wholeDevs(file, false,
		"empty", "",
		"null", "null\n",
		"scalar", "just a string\n",
		"int", "1\n",
		"list", "- a\n- b\n",
		"listnull", "- null\n",
		"emptymap", "{}\n",
		"tab", "a:\n\tb: 1\n",
		"unclosed", "a: [1, 2\n",
		"badindent", "a: 1\n  b: 2\n c: 3\n",
		"nonutf8", "a: \xff\xfe\xfd\n",
		"nul", "a: \x00\n",
		"bom", "\xef\xbb\xbfa: 1\n",
		"utf16", "\xff\xfea\x00:\x00 \x001\x00\n\x00",
		"deep-list", "a: "+deep1k+"\n",
		"deep-map", "a: "+deepMap+"\n",
		"deep-100k", "a: "+strings.Repeat("[", 100000)+"\n",
		"deep-indent", deepIndent(300),
		"alias-self", "a: &x [*x]\n",
		"alias-undefined", "a: *nope\n",
		"alias-bomb", aliasBomb(),
		"merge-key", "base: &b {k: v}\nd:\n  <<: *b\n  <<: 1\n",
		"merge-scalar", "a:\n  <<: x\n",
		"multi-doc", "a: 1\n---\nb: 2\n---\n- x\n",
		"only-separators", "---\n---\n...\n",
		"dup-key", "a: 1\na: 2\n",
		"nonstring-keys", "1: a\ntrue: b\nnull: c\n[x]: d\n{y: z}: e\n? complex\n: v\n",
		"tags", "a: !!binary notbase64!\nb: !!int x\nc: !!python/object:os.system {}\nd: !!map [1]\ne: !!timestamp nope\n",
		"binary", "a: !!binary aGVsbG8=\n",
		"long-key", longStr+": 1\n",
		"long-line", "a: "+longStr+longStr+"\n",
		"json", `{"a": {"b": [1, null, {"c": "d"}]}}`+"\n",
		"json-trailing", `{"a": 1} x`+"\n",
		"crlf", "a: 1\r\nb:\r\n  c: 2\r\n",
		"directive", "%YAML 9.9\n---\na: 1\n",
		"block-scalar", "a: |\n  x\n y\n",
	)
	d = append(d, Dev{ID: file + ":absent", File: file, Absent: true})
	return d
}

func deepIndent(n int) string {
	var sb strings.Builder
	for i := 0; i < n; i++ {
		sb.WriteString(strings.Repeat(" ", i))
		sb.WriteString("a:\n")
	}
	return sb.String()
}

func aliasBomb() string {
	var sb strings.Builder
	sb.WriteString("a0: &a0 [x, x, x, x, x, x, x, x, x]\n")
	for i := 1; i <= 9; i++ {
		fmt.Fprintf(&sb, "a%d: &a%d [*a%d, *a%d, *a%d, *a%d, *a%d, *a%d, *a%d, *a%d, *a%d]\n", i, i, i-1, i-1, i-1, i-1, i-1, i-1, i-1, i-1, i-1)
	}
	return sb.String()
}
