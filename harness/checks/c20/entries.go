package c20

// buildEntries lists every entry point in exploration order.
func buildEntries() []entryPoint {
	return []entryPoint{
		newChartEntry(),
	}
}
