package c20

// buildEntries lists every entry point in exploration order (cheap ones
// first, so that a time cap would cut the most expensive space last).
func buildEntries() []entryPoint {
	return []entryPoint{
		newStorageEntry(),
		newHistoryEntry(),
		newManifestEntry(),
		newIndexEntry(),
		newValuesEntry(),
		newPluginEntry(),
		newProvEntry(),
		newArchiveEntry(),
		newChartdirEntry(),
		newIgnoreEntry(),
		newStrvalsEntry(),
		newChartEntry(),
	}
}
