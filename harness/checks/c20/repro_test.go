package c20

// Stand-alone reproductions (no explorer, no case server) of the defects the
// C20 check reports on the unchanged tree. Each test only logs what it sees
// ("DEFECT PRESENT" / "fixed"), so the file stays green before and after the
// repository owner's fix commits:
//
//	go test ./checks/c20 -run Repro -v

import (
	"context"
	"fmt"
	"os"
	"os/exec"
	"path/filepath"
	"runtime/debug"
	"strings"
	"testing"
	"time"

	v1 "k8s.io/api/core/v1"
	metav1 "k8s.io/apimachinery/pkg/apis/meta/v1"
	"k8s.io/client-go/kubernetes/fake"

	"helm.sh/helm/v4/pkg/chart/v2/loader"
	chartutil "helm.sh/helm/v4/pkg/chart/v2/util"
	"helm.sh/helm/v4/pkg/engine"
	"helm.sh/helm/v4/pkg/lint"
	"helm.sh/helm/v4/pkg/storage"
	"helm.sh/helm/v4/pkg/storage/driver"
)

func observe(t *testing.T, what string, fn func() error) {
	t.Helper()
	defer func() {
		if p := recover(); p != nil {
			t.Logf("DEFECT PRESENT: %s panics: %v", what, p)
		}
	}()
	err := fn()
	t.Logf("fixed / not present: %s returned normally (err=%v)", what, err)
}

func TestReproSecretsGetUndecodable(t *testing.T) {
	cs := fake.NewSimpleClientset()
	cs.CoreV1().Secrets("default").Create(context.Background(), &v1.Secret{
		ObjectMeta: metav1.ObjectMeta{Name: "sh.helm.release.v1.app.v1", Labels: map[string]string{"owner": "helm", "name": "app"}},
		Data:       map[string][]byte{"release": []byte("!!!not base64!!!")}}, metav1.CreateOptions{})
	d := driver.NewSecrets(cs.CoreV1().Secrets("default"))
	observe(t, "Secrets.Get on a record that is not base64", func() error { _, err := d.Get("sh.helm.release.v1.app.v1"); return err })
	observe(t, "Secrets.Delete on a record that is not base64", func() error { _, err := d.Delete("sh.helm.release.v1.app.v1"); return err })
}

func TestReproListDeployedRecordWithoutInfo(t *testing.T) {
	cs := fake.NewSimpleClientset()
	// a well-formed, decodable record whose JSON has no "info"
	cs.CoreV1().ConfigMaps("default").Create(context.Background(), &v1.ConfigMap{
		ObjectMeta: metav1.ObjectMeta{Name: "sh.helm.release.v1.app.v1", Labels: map[string]string{"owner": "helm", "name": "app", "status": "deployed", "version": "1"}},
		Data:       map[string]string{"release": b64([]byte(`{"name":"app","version":1}`))}}, metav1.CreateOptions{})
	st := storage.Init(driver.NewConfigMaps(cs.CoreV1().ConfigMaps("default")))
	observe(t, "Storage.ListDeployed over a record without info", func() error { _, err := st.ListDeployed(); return err })
	observe(t, "Storage.ListUninstalled over a record without info", func() error { _, err := st.ListUninstalled(); return err })
}

func reproChart(chartYAML string, extra ...*loader.BufferedFile) []*loader.BufferedFile {
	return append([]*loader.BufferedFile{
		{Name: "Chart.yaml", Data: []byte(chartYAML)},
		{Name: "charts/sub/Chart.yaml", Data: []byte("apiVersion: v2\nname: sub\nversion: 0.1.0\n")},
		{Name: "charts/sub/values.yaml", Data: []byte("data:\n  k: v\n")},
	}, extra...)
}

func TestReproImportValuesNonStringChild(t *testing.T) {
	ch, err := loader.LoadFiles(reproChart("apiVersion: v2\nname: p\nversion: 0.1.0\ndependencies:\n- name: sub\n  version: 0.1.0\n  import-values: [{child: 1, parent: x}]\n"))
	if err != nil {
		t.Fatal(err)
	}
	observe(t, "ProcessDependencies with import-values [{child: 1, parent: x}]", func() error { return chartutil.ProcessDependencies(ch, map[string]interface{}{}) })
}

func TestReproImportValuesSelfReference(t *testing.T) {
	ch, err := loader.LoadFiles(reproChart("apiVersion: v2\nname: p\nversion: 0.1.0\ndependencies:\n- name: sub\n  version: 0.1.0\n  import-values:\n  - child: data\n    parent: imported\n  - child: data\n    parent: imported.own\n"))
	if err != nil {
		t.Fatal(err)
	}
	done := make(chan error, 1)
	go func() {
		defer func() {
			if p := recover(); p != nil {
				done <- fmt.Errorf("panic: %v", p)
			}
		}()
		done <- chartutil.ProcessDependencies(ch, map[string]interface{}{})
	}()
	select {
	case err := <-done:
		t.Logf("fixed / not present: ProcessDependencies returned (err=%v)", err)
	case <-time.After(5 * time.Second):
		t.Logf("DEFECT PRESENT: ProcessDependencies has not returned after 5 s (the child table is merged into itself; copystructure walks the cycle forever)")
	}
}

func TestReproLintNullMaintainer(t *testing.T) {
	dir := t.TempDir()
	os.WriteFile(filepath.Join(dir, "Chart.yaml"), []byte("apiVersion: v2\nname: p\nversion: 0.1.0\nmaintainers: [null]\n"), 0o644)
	observe(t, "lint.RunAll on maintainers: [null]", func() error { _ = lint.RunAll(dir, nil, "ns"); return nil })
}

// tpl has no recursion limit: the stack overflow is a fatal error that no
// recover can catch, so the render runs in a child process.
func TestReproTplSelfRecursion(t *testing.T) {
	if os.Getenv("C20_REPRO_TPL") == "1" {
		debug.SetMaxStack(64 << 20) // the default limit of 1 GB is reached after ~25 s and 4.5 GB of memory
		ch, err := loader.LoadFiles([]*loader.BufferedFile{
			{Name: "Chart.yaml", Data: []byte("apiVersion: v2\nname: p\nversion: 0.1.0\n")},
			{Name: "values.yaml", Data: []byte("s: \"{{ tpl .Values.s . }}\"\n")},
			{Name: "templates/a.yaml", Data: []byte("a: {{ tpl .Values.s . }}\n")},
		})
		if err != nil {
			fmt.Println("load:", err)
			os.Exit(3)
		}
		rv, _ := chartutil.ToRenderValues(ch, nil, chartutil.ReleaseOptions{Name: "r"}, nil)
		_, err = engine.Render(ch, rv)
		fmt.Println("RETURNED:", err != nil)
		os.Exit(0)
	}
	cmd := exec.Command(os.Args[0], "-test.run", "TestReproTplSelfRecursion")
	cmd.Env = append(os.Environ(), "C20_REPRO_TPL=1", "GOTRACEBACK=single")
	out, err := cmd.CombinedOutput()
	switch {
	case strings.Contains(string(out), "stack overflow"):
		t.Logf("DEFECT PRESENT: engine.Render died with a fatal stack overflow (%v)", err)
	case strings.Contains(string(out), "RETURNED:"):
		t.Logf("fixed / not present: engine.Render returned")
	default:
		t.Logf("unexpected child outcome: %v\n%s", err, firstLine(string(out), 300))
	}
}
