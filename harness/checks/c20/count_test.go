package c20

import (
	"fmt"
	"testing"
)

func TestCounts(t *testing.T) {
	for _, ep := range allEntries() {
		d, ok := ep.(*docEntry)
		if !ok {
			se := ep.(*strEntry)
			fmt.Printf("%-12s strings quick=%d thorough=%d extra=%d/%d funcs=%d\n", se.name, se.total(se.maxLen(false)), se.total(se.maxLen(true)), len(se.extra(false)), len(se.extra(true)), len(se.funcs))
			continue
		}
		d.prepare()
		n, tr, core, tri, wide := 0, 0, 0, 0, 0
		for i := range d.devs {
			if isTrunc(&d.devs[i]) {
				tr++
				continue
			}
			n++
			if d.devs[i].Core || d.pairAll {
				core++
			}
			if d.devs[i].Wide || d.devs[i].Core || !d.widePairs {
				wide++
			}
			if d.devs[i].Triple {
				tri++
			}
		}
		fmt.Printf("%-12s devs=%d trunc=%d pair-quick=%d (~%d pairs) pairs-thorough~%d triple=%d (~%d)\n", d.name, n, tr, core, core*core/2, wide*wide/2, tri, tri*tri*tri/6)
	}
}
