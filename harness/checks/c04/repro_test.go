package c04

import (
	"reflect"
	"testing"

	"helm.sh/helm/v4/pkg/strvals"
)

// Standalone reproduction (no harness code involved) of finding
// set/*/wrong-result/list-for-list/path=k-i0-k/val=empty: an empty value at the
// end of the input, below a new list element, is dropped together with the element.
// The test documents the behaviour; it fails only if Helm does something third.
func TestReproEmptyValueBelowNewListElement(t *testing.T) {
	right := map[string]interface{}{"a": []interface{}{map[string]interface{}{"b": ""}}}
	defective := map[string]interface{}{"a": []interface{}{}}
	for name, f := range map[string]func(string) (map[string]interface{}, error){"Parse": strvals.Parse, "ParseString": strvals.ParseString} {
		got, err := f("a[0].b=")
		if err != nil {
			t.Fatalf("%s: %v", name, err)
		}
		switch {
		case reflect.DeepEqual(got, right):
			t.Logf("%s(\"a[0].b=\") = %v (repaired)", name, got)
		case reflect.DeepEqual(got, defective):
			t.Logf("%s(\"a[0].b=\") = %v, but \"a.b=\" gives a.b=\"\" and \"a[0]=\" gives [\"\"]: DEFECT PRESENT", name, got)
		default:
			t.Fatalf("%s(\"a[0].b=\") = %v", name, got)
		}
		// the same expression works as soon as anything follows it
		got, _ = f("a[0].b=,c=d")
		if !reflect.DeepEqual(got["a"], right["a"]) {
			t.Fatalf("%s(\"a[0].b=,c=d\") = %v", name, got)
		}
	}
}
