package c04

// Part 2: the --set grammar. (path, value) ASTs are printed to the syntax of
// each strvals entry point and applied to a family of base maps; the result is
// compared with setAt/typed of ref.go (which also says "everything else is
// unchanged", because whole maps are compared).

import (
	"encoding/json"
	"fmt"
	"strconv"
	"strings"

	"helm.sh/helm/v4/pkg/strvals"

	"verif/harness/internal/core"
)

var parsers = []string{"set", "string", "literal", "json"}

// sval is a value AST: a text, a brace list of texts, or (JSON only) an object.
type sval struct {
	Name   string   `json:"name"`
	Text   string   `json:"text,omitempty"`
	List   []string `json:"list,omitempty"`
	IsList bool     `json:"is_list,omitempty"`
	IsMap  bool     `json:"is_map,omitempty"`
}

func setValues(thorough bool) []sval {
	v := []sval{
		{Name: "str", Text: "x"},
		{Name: "int", Text: "1"},
		{Name: "leading-zero", Text: "007"},
		{Name: "bool", Text: "true"},
		{Name: "null", Text: "null"},
		{Name: "empty", Text: ""},
		{Name: "zero", Text: "0"},
		{Name: "list", IsList: true, List: []string{"x", "y"}},
		{Name: "escaped-comma", Text: "x,y"},
		{Name: "typed-list", IsList: true, List: []string{"1", "true", "x,y"}},
		{Name: "json-object", IsMap: true},
		{Name: "braces-text", Text: "{x,y}"},
		// every spelling class around the booleans: "true"/"false" in any letter case are booleans,
		// the one-letter spellings t, T, f, F (strconv.ParseBool accepts them) stay strings, 0 and 1 are integers
		{Name: "false", Text: "false"},
		{Name: "true-upper", Text: "TRUE"},
		{Name: "true-title", Text: "True"},
		{Name: "true-mixed", Text: "tRuE"},
		{Name: "false-upper", Text: "FALSE"},
		{Name: "false-title", Text: "False"},
		{Name: "false-mixed", Text: "fAlSe"},
		{Name: "letter-t", Text: "t"},
		{Name: "letter-T", Text: "T"},
		{Name: "letter-f", Text: "f"},
		{Name: "letter-F", Text: "F"},
		{Name: "one-letter-list", IsList: true, List: []string{"s", "t", "f"}},
		{Name: "bool-spellings-list", IsList: true, List: []string{"TRUE", "tRuE", "False", "T", "F", "0", "1"}},
	}
	if thorough {
		v = append(v,
			sval{Name: "null-mixed", Text: "Null"},
			sval{Name: "negative", Text: "-5"},
			sval{Name: "float", Text: "1.5"},
			sval{Name: "backslash", Text: `p\q`},
			sval{Name: "equals", Text: "k=v"},
			sval{Name: "dots", Text: "1.2.3"},
			sval{Name: "big", Text: "9223372036854775808"},
			sval{Name: "one-list", IsList: true, List: []string{"x"}},
			sval{Name: "null-list", IsList: true, List: []string{"null", "007"}},
		)
	}
	return v
}

var setKeys = []string{"a", "b", "a.b", "c,d", "e=f"}

// setPaths: a key followed by keys and indexes, up to maxLen segments,
// shortest first.
func setPaths(maxLen int, maxIdx int) [][]seg {
	var segs []seg
	for _, k := range setKeys {
		segs = append(segs, seg{Key: k})
	}
	for i := 0; i <= maxIdx; i++ {
		segs = append(segs, seg{Idx: i, IsIdx: true})
	}
	var out [][]seg
	level := [][]seg{}
	for _, k := range setKeys {
		level = append(level, []seg{{Key: k}})
	}
	for n := 1; n <= maxLen; n++ {
		out = append(out, level...)
		var next [][]seg
		for _, p := range level {
			for _, s := range segs {
				next = append(next, append(append([]seg{}, p...), s))
			}
		}
		level = next
	}
	return out
}

func escapeWith(s, special string) string {
	var sb strings.Builder
	for _, r := range s {
		if strings.ContainsRune(special, r) {
			sb.WriteByte('\\')
		}
		sb.WriteRune(r)
	}
	return sb.String()
}

// printPath prints a path in the syntax of a parser; false = not expressible.
func printPath(parser string, path []seg) (string, bool) {
	var sb strings.Builder
	for i, s := range path {
		if s.IsIdx {
			fmt.Fprintf(&sb, "[%d]", s.Idx)
			continue
		}
		if i > 0 {
			sb.WriteByte('.')
		}
		if parser == "literal" {
			if strings.ContainsAny(s.Key, ".=[") {
				return "", false // the literal syntax has no escapes
			}
			sb.WriteString(s.Key)
		} else {
			sb.WriteString(escapeWith(s.Key, `\.,=[`))
		}
	}
	return sb.String(), true
}

// printValue prints a value AST and gives the value the documentation says
// the parser stores for it.
func printValue(parser string, v sval) (string, any, bool) {
	switch parser {
	case "set", "string":
		conv := func(t string) any {
			if parser == "string" {
				return t
			}
			return typed(t)
		}
		if v.IsMap {
			return "", nil, false
		}
		if v.IsList {
			var el []string
			var want []any
			for _, e := range v.List {
				el = append(el, escapeWith(e, `\,}`))
				want = append(want, conv(e))
			}
			return "{" + strings.Join(el, ",") + "}", want, true
		}
		t := escapeWith(v.Text, `\,`)
		if strings.HasPrefix(t, "{") {
			t = `\` + t
		}
		return t, conv(v.Text), true
	case "literal":
		if v.IsMap || v.IsList {
			return "", nil, false
		}
		return v.Text, v.Text, true
	case "json":
		if v.IsMap {
			return `{"k":"v"}`, mp{"k": "v"}, true
		}
		enc := func(t string) (string, any) {
			tv := typed(t)
			b, _ := json.Marshal(tv)
			return string(b), tv
		}
		if v.IsList {
			var el []string
			var want []any
			for _, e := range v.List {
				s, w := enc(e)
				el = append(el, s)
				want = append(want, w)
			}
			return "[" + strings.Join(el, ",") + "]", want, true
		}
		if v.Text == "" {
			return "", nil, true // "An empty val is treated as null"
		}
		s, w := enc(v.Text)
		return s, w, true
	}
	return "", nil, false
}

// ---------- base maps ----------

type baseMap struct {
	Name string `json:"name"`
	M    mp     `json:"m"`
}

// decorate adds a sibling to every map and fills unset list slots on the way
// down path, so that "everything else unchanged" has something to look at.
func decorate(v any, path []seg) {
	switch x := v.(type) {
	case mp:
		x["sib"] = "keep"
		if len(path) > 0 && !path[0].IsIdx {
			decorate(x[path[0].Key], path[1:])
		}
	case []any:
		for i := range x {
			if x[i] == nil {
				x[i] = "pad" + strconv.Itoa(i)
			}
		}
		if len(path) > 0 && path[0].IsIdx && path[0].Idx < len(x) {
			decorate(x[path[0].Idx], path[1:])
		}
	}
}

func buildBase(path []seg, leaf any, siblings bool) mp {
	v, _ := setAt(mp{}, false, path, leaf)
	if siblings {
		decorate(v, path)
	}
	return v.(mp)
}

func basesFor(path []seg) []baseMap {
	kinds := func(prefix string, p []seg) []baseMap {
		return []baseMap{
			{prefix + "=scalar", buildBase(p, "old", true)},
			{prefix + "=map", buildBase(p, mp{"k": "old"}, true)},
			{prefix + "=list", buildBase(p, []any{"o1", "o2", "o3"}, true)},
			{prefix + "=null", buildBase(p, nil, false)},
		}
	}
	out := []baseMap{{"empty", mp{}}, {"sibling", mp{"zz0": "keep"}}}
	out = append(out, kinds("leaf", path)...)
	for j := len(path) - 1; j >= 1; j-- {
		out = append(out, kinds("prefix"+strconv.Itoa(j), path[:j])...)
	}
	return out
}

// ---------- one case ----------

type setCase struct {
	Parser string  `json:"parser"`
	Path   []seg   `json:"path"`
	Val    sval    `json:"val"`
	Base   baseMap `json:"base"`
	Ctx    int     `json:"ctx"` // 0: alone, 1: followed by ",zz=w", 2: preceded by "zz=w,"
}

func (sc setCase) expr() (string, any, bool) {
	p, ok := printPath(sc.Parser, sc.Path)
	if !ok {
		return "", nil, false
	}
	v, want, ok := printValue(sc.Parser, sc.Val)
	if !ok {
		return "", nil, false
	}
	e := p + "=" + v
	other := "zz=w"
	if sc.Parser == "json" {
		other = `zz="w"`
	}
	switch sc.Ctx {
	case 1:
		e = e + "," + other
	case 2:
		e = other + "," + e
	}
	if sc.Ctx != 0 && sc.Parser == "literal" {
		return "", nil, false // a literal expression is a single key=value
	}
	return e, want, true
}

func applySet(parser, expr string, dest mp) (err error) {
	defer func() {
		if r := recover(); r != nil {
			err = fmt.Errorf("PANIC: %v", r)
		}
	}()
	switch parser {
	case "set":
		return strvals.ParseInto(expr, dest)
	case "string":
		return strvals.ParseIntoString(expr, dest)
	case "literal":
		return strvals.ParseLiteralInto(expr, dest)
	case "json":
		return strvals.ParseJSON(expr, dest)
	}
	panic(parser)
}

var parserFunc = map[string]string{"set": "ParseInto", "string": "ParseIntoString", "literal": "ParseLiteralInto", "json": "ParseJSON"}

// execSet runs one case; outcome is "" when the case is not expressible.
func execSet(sc setCase) (*lfail, string) {
	expr, val, ok := sc.expr()
	if !ok {
		return nil, ""
	}
	want, conflict := setAt(deepCopy(sc.Base.M), true, sc.Path, val)
	if sc.Ctx != 0 {
		want.(mp)["zz"] = "w"
	}
	dest := deepCopy(sc.Base.M).(mp)
	err := applySet(sc.Parser, expr, dest)
	if err != nil {
		if strings.HasPrefix(err.Error(), "PANIC") {
			return &lfail{"panic", fmt.Sprintf("strvals.%s(%q) onto %s: %v", parserFunc[sc.Parser], expr, show(sc.Base.M), err)}, "panic"
		}
		if conflict {
			return nil, "error:path-through-value-of-other-kind"
		}
		return &lfail{"unexpected-error", fmt.Sprintf("strvals.%s(%q) onto %s fails: %s", parserFunc[sc.Parser], expr, show(sc.Base.M), firstLine(err.Error()))}, "error"
	}
	g, w := norm(dest, true), norm(want, true)
	if canon(g) != canon(w) {
		p, gk, wk, _ := firstDiff(g, w, "")
		return &lfail{"wrong-result/" + gk + "-for-" + wk, fmt.Sprintf("strvals.%s(%q) onto %s gives %s, documented semantics give %s (first difference at %q)",
			parserFunc[sc.Parser], expr, show(sc.Base.M), show(dest), show(want), p)}, "wrong"
	}
	if conflict {
		return nil, "ok:replaced-value-of-other-kind"
	}
	return nil, "ok"
}

func pathShape(path []seg) string {
	var parts []string
	for _, s := range path {
		switch {
		case s.IsIdx && s.Idx == 0:
			parts = append(parts, "i0")
		case s.IsIdx:
			parts = append(parts, "iN")
		case strings.Contains(s.Key, "."):
			parts = append(parts, "kdot")
		case strings.Contains(s.Key, ","):
			parts = append(parts, "kcomma")
		case strings.Contains(s.Key, "="):
			parts = append(parts, "keq")
		default:
			parts = append(parts, "k")
		}
	}
	return strings.Join(parts, "-")
}

func setKey(sc setCase, f *lfail) string {
	return core.SanitizeKey(fmt.Sprintf("set/%s/%s/path=%s/val=%s/base=%s/ctx=%d", sc.Parser, f.Class, pathShape(sc.Path), sc.Val.Name, sc.Base.Name, sc.Ctx))
}

func baseNamed(path []seg, name string) (baseMap, bool) {
	for _, b := range basesFor(path) {
		if b.Name == name {
			return b, true
		}
	}
	return baseMap{}, false
}

// minimiseSet simplifies a failing case greedily (context, value, path, base).
func minimiseSet(sc setCase, vals []sval) setCase {
	cur := sc
	try := func(x setCase) bool { f, _ := execSet(x); return f != nil }
	for round := 0; round < 3; round++ {
		before := fmt.Sprintf("%v", cur)
		minimiseSetRound(&cur, try, vals)
		if fmt.Sprintf("%v", cur) == before {
			break
		}
	}
	return cur
}

func minimiseSetRound(curp *setCase, try func(setCase) bool, vals []sval) {
	cur := *curp
	defer func() { *curp = cur }()
	tryc := func(x setCase) bool {
		if try(x) {
			cur = x
			return true
		}
		return false
	}
	if cur.Ctx != 0 {
		x := cur
		x.Ctx = 0
		tryc(x)
	}
	for _, v := range vals {
		if v.Name == cur.Val.Name {
			break
		}
		x := cur
		x.Val = v
		if tryc(x) {
			break
		}
	}
	withPath := func(p []seg) (setCase, bool) {
		x := cur
		x.Path = p
		name := cur.Base.Name
		// a base that names a prefix longer than the new path falls back to "empty"
		b, ok := baseNamed(p, name)
		if !ok {
			b, _ = baseNamed(p, "empty")
		}
		x.Base = b
		return x, true
	}
	for changed := true; changed; {
		changed = false
		for i := len(cur.Path) - 1; i >= 0; i-- { // drop a segment
			if i == 0 && (len(cur.Path) < 2 || cur.Path[1].IsIdx) {
				continue // a path starts with a key
			}
			p := append(append([]seg{}, cur.Path[:i]...), cur.Path[i+1:]...)
			if x, ok := withPath(p); ok && tryc(x) {
				changed = true
				break
			}
		}
	}
	for i := range cur.Path { // plainest segment of the same sort
		p := append([]seg{}, cur.Path...)
		if p[i].IsIdx && p[i].Idx != 0 {
			p[i].Idx = 0
		} else if !p[i].IsIdx && p[i].Key != "a" {
			p[i].Key = "a"
		} else {
			continue
		}
		if x, ok := withPath(p); ok {
			tryc(x)
		}
	}
	for _, b := range basesFor(cur.Path) {
		if b.Name == cur.Base.Name {
			break
		}
		x := cur
		x.Base = b
		if tryc(x) {
			break
		}
	}
}
