package c04

// The exported table primitives chartutil.CoalesceTables (dst wins, maps merge,
// a null in dst removes the key) and chartutil.MergeTables (same, nulls are
// preserved), on every pair of trees.

import (
	"fmt"
	"sort"
	"strings"

	chartutil "helm.sh/helm/v4/pkg/chart/v2/util"

	"verif/harness/internal/core"
)

type tablesCase struct {
	Fn  string `json:"fn"` // CoalesceTables | MergeTables
	Dst mp     `json:"dst"`
	Src mp     `json:"src"`
}

func (tc tablesCase) String() string {
	return fmt.Sprintf("%s(dst=%s, src=%s)", tc.Fn, canon(tc.Dst), canon(tc.Src))
}

// nullPaths lists the paths of explicit nulls reachable through maps.
func nullPaths(m mp, prefix []string, out *[][]string) {
	for _, k := range sortedKeys(m) {
		p := append(append([]string{}, prefix...), k)
		switch x := m[k].(type) {
		case nil:
			*out = append(*out, p)
		case mp:
			nullPaths(x, p, out)
		}
	}
}

func sortedKeys(m mp) []string {
	keys := make([]string, 0, len(m))
	for k := range m {
		keys = append(keys, k)
	}
	sort.Strings(keys)
	return keys
}

func execTables(tc tablesCase) (*lfail, []string) {
	dst := inst(tc.Dst, srcF1, 0).(mp) // the authoritative side: user values
	src := inst(tc.Src, srcDef, 0).(mp)
	want := norm(fill(dst, src), true)
	var gone [][]string
	var over []string
	gonePaths(dst, src, nil, &gone, &over)
	var nulls [][]string
	nullPaths(dst, nil, &nulls)
	var got mp
	if p := guard(func() {
		if tc.Fn == "CoalesceTables" {
			got = chartutil.CoalesceTables(deepCopy(dst).(mp), deepCopy(src).(mp))
		} else {
			got = chartutil.MergeTables(deepCopy(dst).(mp), deepCopy(src).(mp))
		}
	}); p != nil {
		return &lfail{"panic", fmt.Sprintf("%s panics: %v", tc, p)}, nil
	}
	var floors []string
	g := norm(got, true)
	if canon(g) != canon(want) {
		p, gk, wk, _ := firstDiff(g, want, "")
		return &lfail{gk + "-for-" + wk, fmt.Sprintf("%s gives %s, 'dst is authoritative, tables merge' gives %s (first difference at %q)", tc, show(got), canon(want), p)}, nil
	}
	if tc.Fn == "CoalesceTables" {
		for i, gp := range gone {
			floors = append(floors, "tables:null-over-"+over[i])
			if hasKeyAt(got, gp) {
				return &lfail{"key-kept-as-null-over-" + over[i] + "/depth=" + fmt.Sprint(len(gp)),
					fmt.Sprintf("%s gives %s: the null in dst at %q sits on a %s of src and must remove the key", tc, show(got), strings.Join(gp, "."), over[i])}, floors
			}
		}
	} else {
		for _, np := range nulls {
			floors = append(floors, "tables:merge-keeps-null")
			if !hasKeyAt(got, np) {
				return &lfail{"null-not-preserved/depth=" + fmt.Sprint(len(np)), fmt.Sprintf("%s gives %s: merging preserves nulls, the null at %q is gone", tc, show(got), strings.Join(np, "."))}, floors
			}
		}
	}
	return nil, floors
}

func tablesKey(tc tablesCase, f *lfail) string {
	return core.SanitizeKey("tables/" + tc.Fn + "/" + f.Class)
}

func runTables(c *core.Ctx) {
	fam := baseFamily("thorough") // 35 trees, both tiers
	fam = append([]mp{{}}, fam...)
	c.Bound("table_primitive_pairs", fmt.Sprintf("%d x %d trees x {CoalesceTables, MergeTables}", len(fam), len(fam)))
	seen := map[string]int{}
	sampled := false
	for _, fn := range []string{"CoalesceTables", "MergeTables"} {
		for _, d := range fam {
			for _, s := range fam {
				if !c.NextMine() {
					continue
				}
				tc := tablesCase{Fn: fn, Dst: d, Src: s}
				c.Eval(1)
				c.Distinct("tables|" + tc.String())
				f, floors := execTables(tc)
				for _, fl := range floors {
					c.Floor(fl)
				}
				if f == nil {
					c.Outcome("tables-" + fn + ":agrees")
					if !sampled && len(floors) > 0 && len(d) > 0 && treeSize(d) > 2 {
						sampled = true
						c.Sample(map[string]any{"part": "table-primitives", "case": tc.String(), "helm_agrees": true})
					}
					continue
				}
				c.Outcome("tables-" + fn + ":differs")
				k := tablesKey(tc, f)
				seen[k]++
				if seen[k] > 1 {
					c.Count("violations_raw", 1)
					c.Count("failing_cases_not_minimised_same_class", 1)
					continue // trees come simplest first: the first case of a class is the smallest
				}
				c.Violate(prop, k, f.What, replayData{Mode: "tables", Class: f.Class, Tables: &tc})
			}
		}
	}
}
