// Package c04: every value comes from the highest-precedence source that
// defines it. Bounded-exhaustive enumeration of value-source tuples and --set
// expressions on the real pkg/cli/values, pkg/chart/v2/util and pkg/strvals
// code, compared with a small reference written from the documentation.
package c04

import (
	"encoding/json"
	"fmt"
	"runtime/debug"
	"strings"
	"time"

	"verif/harness/internal/core"
)

const prop = "C04"

func init() {
	core.Register(&core.Check{
		ID:    prop,
		Level: "exploration",
		Rule: "layering: every choice of <=3 present sources out of {chart defaults, parent section, -f file1, -f file2, --set-json (object and key=json syntax), --set, --set-string, " +
			"--set-file, --set-literal} x every tree of the family each source can express. quick family (21 trees over keys {a,b}): a in {string, number, list, null, every sub-map over {absent,string,null}^2, " +
			"two sub-maps holding a list, one sub-map holding a table}, plus 5 trees in which b is a bystander or competes; thorough family (35 trees): every sub-map over {absent,string,list,null}^2, depth-3 chains, b-side shapes; " +
			"thorough adds every choice of 4 sources over a 12-tree core family. Chart trees: root / root>sub / root>sub>subsub for tuples of <=2 sources, 1 and 3 levels (2 and 3 with a parent section) for larger tuples; " +
			"user sources repeat their tree under sub. and sub.subsub.; every value is tagged with its source and scope. A case is distinct by (sources, trees) and non-trivial when two sources speak about the same top-level key. " +
			"--set grammar: every path (key in {a,b,'a.b','c,d','e=f'} followed by <=2 (thorough <=3) keys or indexes [0..2]) x 25 (34) value ASTs (incl. true/false in lower, upper, title and mixed case, the one-letter spellings t/T/f/F, 0/1, alone and as brace-list elements) x 4 entry points x (6+4*(len-1)) base maps x 3 contexts (alone, before, after another pair); distinct by the full tuple. " +
			"repeated flags (root chart): every sequence of length 3 over {file1,file2} (same path given again) x every pair of quick-family trees x defaults absent or any tree; " +
			"--set / --set-json / --set-string with expressions A,B of the same flag in the orders (A,B), (A,B,A), (A,A,B) x every pair of trees; reference applies occurrences in the order given. " +
			"one values file holding the two trees as YAML documents (orders (A,B), (A,B,A)). table primitives: CoalesceTables and MergeTables on every ordered pair of the 35+1 thorough-family trees. " +
			"a winning null that sits on a key of the observed chart's own values.yaml must leave no key behind (checked on the raw values in every scope). " +
			"indexed paths through Options.MergeValues: a list of 2 scalars or 2 maps at a or b.a defined by {nobody, chart defaults, -f, --set-json object, --set-json key=json, --set, --set-string} x an indexed expression " +
			"(a[0]=, a[1]=, a[2]=, a[3]=, a[1].k=, a[0].n=, a[2].k=) of --set-json / --set / --set-string / --set-file / --set-literal of the same or higher precedence; reference = setAt in place on the lower layers. " +
			"no-mutation: deep snapshots of all chart Values and of the caller's map around ToRenderValues (every layering case) and CoalesceValues / chartutil.MergeValues (cases of <=2 sources), and again after overwriting every node of each result",
		Run:    run,
		Replay: replay,
		Assumptions: []string{
			"user sources are folded among themselves first (Options.MergeValues) and the result is laid over parent section and chart defaults; where a null sits below a map of a higher source the statement does not say whether the null still hides lower sources, both answers are accepted and counted (outcome null-under-higher-map:*)",
			"a map key whose value is null and an absent key are the same observation (a template cannot tell them apart with `default`/`if`) EXCEPT where the null was laid over a key that the observed chart's own values.yaml defines: there 'removes a default' is taken literally and the key must be absent (Helm keeps a null-valued key when there is no own default to remove, e.g. a null over a key only the parent section defines; that is accepted)",
			"numbers are compared by value, not by Go type (json.Number, int64, float64)",
			"a command line whose dotted --set/--set-*/--set-json path runs through a scalar, list or null left by a lower user source is rejected by Helm with an error; no template sees any value, so this is counted as an outcome, not as a violation",
			"--set-json key={...} replaces the value at key (documented on ParseJSON: 'the new value overwrites the dest version'); layering therefore prints key=json pairs leaf by leaf and merging of objects is checked through the object syntax",
			"globals, import-values/ProcessDependencies and --reuse-values mutate by design and are outside this property",
		},
		RequiredFloors: []string{
			"saw-null-removes-lower-value", "saw-null-removes-value-in-subchart-scope", "saw-map-merged-from-several-sources", "saw-scalar-replaces", "saw-list-replaces",
			"saw-reject-type-conflict", "saw-null-under-higher-map", "nomut-probed",
			"saw-null-over-default-map", "saw-null-over-default-scalar", "saw-null-over-default-list", "saw-nested-null-over-default-map", "saw-nested-null-over-subchart-default-map",
			"mapmerge:earlier-map-later-scalar", "mapmerge:earlier-map-later-list", "mapmerge:earlier-map-later-null",
			"mapmerge:earlier-scalar-later-map", "mapmerge:earlier-list-later-map", "mapmerge:earlier-null-later-map",
			"mapmerge:nested-earlier-map-later-scalar", "mapmerge:nested-earlier-map-later-list", "mapmerge:nested-earlier-map-later-null", "mapmerge:nested-earlier-scalar-later-map",
			"saw-multi-document-values-file", "tables:null-over-map", "tables:null-over-scalar", "tables:merge-keeps-null",
			"saw-repeated-file-path-decides", "saw-repeated-flag-expression-decides", "saw-same-flag-twice-later-wins",
			"indexed:replace-element-in-lower-layer-list", "indexed:key-inside-element-in-lower-layer-list", "indexed:append-at-len-in-lower-layer-list", "indexed:beyond-len-in-lower-layer-list",
			"indexed:set-file-into-lower-layer-list", "set:mixed-case-bool", "set:one-letter-stays-string", "set:escaped-key", "set:index-extends-list", "set:typed-int", "set:typed-null", "set:leading-zero-string", "set:error-on-other-kind", "set:siblings-kept",
		},
	})
}

type replayData struct {
	Mode    string      `json:"mode"` // layer | set
	Class   string      `json:"class"`
	Layer   *layerCase  `json:"layer,omitempty"`
	Set     *setCase    `json:"set,omitempty"`
	Tables  *tablesCase `json:"tables,omitempty"`
	Indexed *idxCase    `json:"indexed,omitempty"`
}

func replay(_ *core.Ctx, data json.RawMessage) []core.Violation {
	var rd replayData
	if err := json.Unmarshal(data, &rd); err != nil {
		return nil
	}
	var out []core.Violation
	switch rd.Mode {
	case "layer":
		w, err := newWork()
		if err != nil {
			return nil
		}
		defer w.close()
		fails, _ := execLayer(w, *rd.Layer)
		for _, f := range fails {
			out = append(out, core.Violation{Property: prop, Key: layerKey(*rd.Layer, f), What: f.What, Replay: data})
		}
	case "indexed":
		w, err := newWork()
		if err != nil {
			return nil
		}
		defer w.close()
		if f, _ := execIndexed(w, *rd.Indexed); f != nil {
			out = append(out, core.Violation{Property: prop, Key: indexedKey(*rd.Indexed, f), What: f.What, Replay: data})
		}
	case "tables":
		if f, _ := execTables(*rd.Tables); f != nil {
			out = append(out, core.Violation{Property: prop, Key: tablesKey(*rd.Tables, f), What: f.What, Replay: data})
		}
	case "set":
		if f, _ := execSet(*rd.Set); f != nil {
			out = append(out, core.Violation{Property: prop, Key: setKey(*rd.Set, f), What: f.What, Replay: data})
		}
	}
	return out
}

func run(c *core.Ctx) {
	defer debug.SetGCPercent(debug.SetGCPercent(400)) // short-lived small maps only: collect less often
	t0 := time.Now()
	if c.Only == "" || c.Only == "layer" {
		w, err := newWork()
		if err != nil {
			c.NotExhaustive("cannot create scratch directory: %v", err)
			return
		}
		defer w.close()
		runLayer(c, w)
		c.Count("phase_ms_layer", time.Since(t0).Milliseconds())
	}
	if c.Only == "repeat" {
		w, err := newWork()
		if err != nil {
			c.NotExhaustive("cannot create scratch directory: %v", err)
			return
		}
		defer w.close()
		runRepeat(c, w, families("quick"), map[string]int{})
		c.Count("phase_ms_repeat", time.Since(t0).Milliseconds())
	}
	if c.Only == "" || c.Only == "tables" {
		runTables(c)
	}
	if c.Only == "" || c.Only == "indexed" {
		w, err := newWork()
		if err != nil {
			c.NotExhaustive("cannot create scratch directory: %v", err)
			return
		}
		defer w.close()
		runIndexed(c, w)
	}
	t1 := time.Now()
	if c.Only == "" || c.Only == "set" {
		runSet(c)
		c.Count("phase_ms_set", time.Since(t1).Milliseconds())
	}
}

func category(class string) string {
	if strings.HasPrefix(class, "nomut/") {
		return class
	}
	if i := strings.IndexByte(class, '/'); i > 0 {
		return class[:i]
	}
	return class
}

// ---------- layering exploration ----------

func subsets(n, k int) [][]int {
	var out [][]int
	var rec func(start int, cur []int)
	rec = func(start int, cur []int) {
		if len(cur) == k {
			out = append(out, append([]int{}, cur...))
			return
		}
		for i := start; i < n; i++ {
			rec(i+1, append(cur, i))
		}
	}
	rec(0, nil)
	return out
}

func runLayer(c *core.Ctx, w *work) {
	type pass struct {
		fam        [nSrc][]srcOpt
		kmin, kmax int
		name       string
	}
	passes := []pass{{families("quick"), 0, 3, "quick-family"}}
	if c.Thorough() {
		passes = []pass{{families("thorough"), 0, 3, "thorough-family"}, {families("core"), 4, 4, "core-family"}}
	}
	seenPre := map[string]int{}
	samples := 0
	for _, ps := range passes {
		for s := 0; s < nSrc; s++ {
			c.Bound(fmt.Sprintf("trees_%s_%s", ps.name, srcNames[s]), fmt.Sprint(len(ps.fam[s])))
		}
		c.Bound("present_sources_"+ps.name, fmt.Sprintf("%d..%d", ps.kmin, ps.kmax))
		for k := ps.kmin; k <= ps.kmax; k++ {
			for _, sub := range subsets(nSrc, k) {
				idx := make([]int, k)
				for {
					if c.NextMine() {
						var lc layerCase
						for j, s := range sub {
							o := ps.fam[s][idx[j]]
							lc.Srcs[s] = &o
						}
						runLayerTuple(c, w, lc, ps.fam, seenPre, k <= 3, &samples)
					}
					j := k - 1
					for j >= 0 {
						idx[j]++
						if idx[j] < len(ps.fam[sub[j]]) {
							break
						}
						idx[j] = 0
						j--
					}
					if j < 0 {
						break
					}
				}
			}
		}
	}
	c.Bound("chart_levels", "1,2,3")
	runRepeat(c, w, families("quick"), seenPre)
}

// runRepeat: the same -f path or the same flag expression given more than once.
//
//	files: every sequence of length 3 over {file1, file2} x every pair of trees x chart defaults absent or any tree
//	--set, --set-json, --set-string: two expressions A, B of the same flag in the orders (A,B), (A,B,A), (A,A,B) x every pair of trees
//
// Reference: occurrences are applied in the order given; a repeated one is applied again.
func runRepeat(c *core.Ctx, w *work, fam [nSrc][]srcOpt, seenPre map[string]int) {
	var fileSeqs [][]int
	for a := 0; a < 2; a++ {
		for b := 0; b < 2; b++ {
			for d := 0; d < 2; d++ {
				fileSeqs = append(fileSeqs, []int{a, b, d})
			}
		}
	}
	flagSeqs := [][]int{{0, 1}, {0, 1, 0}, {0, 0, 1}}
	samples := 0
	n := int64(0)
	one := func(lc layerCase) {
		if !c.NextMine() {
			return
		}
		n++
		c.Eval(1)
		c.Distinct("repeat|" + lc.String())
		fails, obs := execLayer(w, lc)
		for _, cl := range obs.classes {
			c.Outcome(cl)
		}
		for _, f := range obs.floors {
			c.Floor(f)
		}
		if len(fails) == 0 {
			if samples < 3 && len(obs.floors) > 0 && !obs.rejected && c.Distinct("sampled-rep|"+obs.classes[0]) {
				samples++
				c.Sample(map[string]any{"part": "repeated-flags", "case": lc.String(), "helm_agrees": true})
			}
			return
		}
		done := map[string]bool{}
		for _, f := range fails {
			cat := category(f.Class)
			if done[cat] {
				continue
			}
			done[cat] = true
			pre := cat + "|" + layerKey(lc, lfail{})
			seenPre[pre]++
			if seenPre[pre] > 2 {
				c.Count("violations_raw", 1)
				c.Count("failing_cases_not_minimised_same_class", 1)
				continue
			}
			m := minimiseLayerFor(w, lc, fam, cat)
			mf, _ := execLayer(w, m)
			for _, x := range mf {
				if category(x.Class) == cat {
					c.Violate(prop, layerKey(m, x), x.What, replayData{Mode: "layer", Class: x.Class, Layer: &m})
				}
			}
		}
	}
	defs := append([]*srcOpt{nil}, func() []*srcOpt {
		var o []*srcOpt
		for i := range fam[srcDef] {
			o = append(o, &fam[srcDef][i])
		}
		return o
	}()...)
	for _, def := range defs {
		for _, seq := range fileSeqs {
			for _, t1 := range fam[srcF1] {
				for _, t2 := range fam[srcF2] {
					lc := layerCase{Shape: 1, AllEntries: false, Rep: &repSpec{Family: srcF1, Items: []srcOpt{t1, t2}, Seq: seq}}
					lc.Srcs[srcDef] = def
					one(lc)
				}
			}
		}
	}
	for _, seq := range [][]int{{0, 1}, {0, 1, 0}} { // the documents of one multi-document values file merge in order
		for _, t1 := range fam[srcF1] {
			for _, t2 := range fam[srcF2] {
				one(layerCase{Shape: 1, Rep: &repSpec{Family: srcF1, Items: []srcOpt{t1, t2}, Seq: seq, MultiDoc: true}})
			}
		}
	}
	for _, f := range []int{srcJSON, srcSet, srcStr} {
		for _, seq := range flagSeqs {
			for _, t1 := range fam[f] {
				for _, t2 := range fam[f] {
					one(layerCase{Shape: 1, Rep: &repSpec{Family: f, Items: []srcOpt{t1, t2}, Seq: seq}})
				}
			}
		}
	}
	c.Bound("repeated_file_sequences", "all 8 of length 3 over {file1,file2} x tree pairs x (no defaults | each defaults tree)")
	c.Bound("repeated_flag_orders", "--set/--set-json/--set-string: (A,B),(A,B,A),(A,A,B) x tree pairs")
	c.Count("repeat_cases", n)
}

// nonTrivial: two sources speak about the same top-level key.
func nonTrivial(lc layerCase) bool {
	n := map[string]int{}
	for _, o := range lc.Srcs {
		if o != nil {
			for k := range o.Tree {
				n[k]++
			}
		}
	}
	return n["a"] > 1 || n["b"] > 1
}

func runLayerTuple(c *core.Ctx, w *work, tuple layerCase, fam [nSrc][]srcOpt, seenPre map[string]int, countDistinct bool, samples *int) {
	if nonTrivial(tuple) {
		if countDistinct {
			c.Distinct("layer|" + tuple.String())
		} else {
			c.Count("tuples_of_4_sources_not_hashed", 1)
		}
	}
	nsrc := 0
	for _, o := range tuple.Srcs {
		if o != nil {
			nsrc++
		}
	}
	for shape := 1; shape <= 3; shape++ {
		if shape == 1 && tuple.Srcs[srcPar] != nil {
			continue // a parent section needs a subchart
		}
		if shape == 2 && nsrc >= 3 && tuple.Srcs[srcPar] == nil {
			continue // tuples of 3+ sources: 1 and 3 chart levels (2 and 3 when a parent section is present)
		}
		lc := tuple
		lc.Shape = shape
		lc.AllEntries = nsrc <= 2
		c.Eval(1)
		fails, obs := execLayer(w, lc)
		for _, cl := range obs.classes {
			c.Outcome(cl)
		}
		for _, f := range obs.floors {
			c.Floor(f)
		}
		if !obs.rejected {
			c.Floor("nomut-probed")
		}
		if len(fails) == 0 {
			if shape == 3 && nonTrivial(lc) && *samples < 12 && c.Distinct("sampled|"+fmt.Sprint(lc.Srcs[srcDef] != nil, lc.Srcs[srcPar] != nil, len(obs.classes))+obs.classes[0]) {
				*samples++
				c.Sample(map[string]any{"part": "layering", "case": lc.String(), "reference_says_per_scope": obs.classes, "helm_agrees": true})
			}
			continue
		}
		done := map[string]bool{}
		for _, f := range fails {
			cat := category(f.Class)
			if done[cat] {
				continue
			}
			done[cat] = true
			pre := cat + "|" + layerKey(lc, lfail{})
			seenPre[pre]++
			if seenPre[pre] > 2 {
				c.Count("violations_raw", 1)
				c.Count("failing_cases_not_minimised_same_class", 1)
				continue
			}
			m := minimiseLayerFor(w, lc, fam, cat)
			mf, _ := execLayer(w, m)
			for _, x := range mf {
				if category(x.Class) == cat {
					c.Violate(prop, layerKey(m, x), x.What, replayData{Mode: "layer", Class: x.Class, Layer: &m})
				}
			}
		}
	}
}

// minimiseLayerFor minimises with respect to failures of one category.
func minimiseLayerFor(w *work, lc layerCase, fam [nSrc][]srcOpt, cat string) layerCase {
	return minimiseLayer(w, lc, fam, func(x layerCase) bool {
		f, _ := execLayer(w, x)
		for _, y := range f {
			if category(y.Class) == cat {
				return true
			}
		}
		return false
	})
}

// ---------- --set exploration ----------

func runSet(c *core.Ctx) {
	maxLen, maxIdx := 3, 2
	if c.Thorough() {
		maxLen = 4
	}
	vals := setValues(c.Thorough())
	paths := setPaths(maxLen, maxIdx)
	c.Bound("set_path_segments", fmt.Sprint(maxLen))
	c.Bound("set_paths", fmt.Sprint(len(paths)))
	c.Bound("set_value_asts", fmt.Sprint(len(vals)))
	c.Depth(maxLen)
	seenPre := map[string]int{}
	samples := 0
	for _, path := range paths {
		bases := basesFor(path)
		for _, parser := range parsers {
			if _, ok := printPath(parser, path); !ok {
				continue
			}
			for _, v := range vals {
				if _, _, ok := printValue(parser, v); !ok {
					continue
				}
				for _, b := range bases {
					for ctx := 0; ctx < 3; ctx++ {
						if ctx != 0 && parser == "literal" {
							continue
						}
						if !c.NextMine() {
							continue
						}
						sc := setCase{Parser: parser, Path: path, Val: v, Base: b, Ctx: ctx}
						f, outcome := execSet(sc)
						c.Eval(1)
						c.Distinct(fmt.Sprintf("set|%s|%v|%s|%s|%d", parser, path, v.Name, b.Name, ctx))
						c.Outcome("set-" + parser + ":" + outcome)
						setFloors(c, sc, outcome)
						if f == nil {
							if samples < 6 && len(path) == 3 && path[1].IsIdx && b.Name == "leaf=scalar" && ctx == 1 && c.Distinct("sampled-set|"+parser+v.Name) {
								samples++
								e, want, _ := sc.expr()
								c.Sample(map[string]any{"part": "set-grammar", "entry": parserFunc[parser], "expression": e, "base": show(b.M), "value_stored": show(want), "outcome": outcome})
							}
							continue
						}
						pre := setKey(setCase{Parser: parser, Path: path, Val: v, Base: baseMap{Name: b.Name}, Ctx: ctx}, f)
						seenPre[pre]++
						if seenPre[pre] > 2 {
							c.Count("violations_raw", 1)
							c.Count("failing_cases_not_minimised_same_class", 1)
							continue
						}
						m := minimiseSet(sc, vals)
						if mf, _ := execSet(m); mf != nil {
							c.Violate(prop, setKey(m, mf), mf.What, replayData{Mode: "set", Class: mf.Class, Set: &m})
						}
					}
				}
			}
		}
	}
}

func setFloors(c *core.Ctx, sc setCase, outcome string) {
	if !strings.HasPrefix(outcome, "ok") {
		if strings.HasPrefix(outcome, "error:") {
			c.Floor("set:error-on-other-kind")
		}
		return
	}
	for _, s := range sc.Path {
		if !s.IsIdx && strings.ContainsAny(s.Key, ".,=") {
			c.Floor("set:escaped-key")
		}
		if s.IsIdx && s.Idx > 0 && sc.Base.Name == "empty" {
			c.Floor("set:index-extends-list")
		}
	}
	if sc.Parser == "set" {
		switch sc.Val.Name {
		case "true-mixed", "false-mixed":
			c.Floor("set:mixed-case-bool")
		case "letter-t", "letter-F":
			c.Floor("set:one-letter-stays-string")
		case "int":
			c.Floor("set:typed-int")
		case "null":
			c.Floor("set:typed-null")
		case "leading-zero":
			c.Floor("set:leading-zero-string")
		}
	}
	if strings.HasPrefix(sc.Base.Name, "leaf=") || strings.HasPrefix(sc.Base.Name, "prefix") {
		c.Floor("set:siblings-kept")
	}
}
