package c04

// Reference semantics, written from the documentation of Helm's value handling
// (doc comments of CoalesceValues, Options.MergeValues, strvals.Parse*, typedVal and
// the "values files" chapter of the user guide), not from the code paths.
// Nothing in this file calls Helm.

import (
	"encoding/json"
	"fmt"
	"sort"
	"strconv"
	"strings"
)

type mp = map[string]any

func isMap(v any) bool { _, ok := v.(mp); return ok }

// deepCopy copies maps and lists; scalars are shared (immutable).
func deepCopy(v any) any {
	switch x := v.(type) {
	case mp:
		if x == nil {
			return mp(nil)
		}
		o := make(mp, len(x))
		for k, e := range x {
			o[k] = deepCopy(e)
		}
		return o
	case []any:
		if x == nil {
			return []any(nil)
		}
		o := make([]any, len(x))
		for i, e := range x {
			o[i] = deepCopy(e)
		}
		return o
	}
	return v
}

// over returns lo overlaid with hi: maps merge key by key, everything else
// (scalars, lists, null) replaces. Inputs are not modified.
func over(lo, hi mp) mp {
	out := mp{}
	for k, v := range lo {
		out[k] = deepCopy(v)
	}
	for k, v := range hi {
		if hm, ok := v.(mp); ok {
			if lm, ok := out[k].(mp); ok {
				out[k] = over(lm, hm)
				continue
			}
		}
		out[k] = deepCopy(v)
	}
	return out
}

// fill returns hi completed from lo ("hi wins"): a key that hi defines - even as
// null - is not taken from lo; two maps are completed recursively.
func fill(hi, lo mp) mp {
	out := mp{}
	for k, v := range hi {
		out[k] = deepCopy(v)
	}
	for k, v := range lo {
		hv, ok := out[k]
		if !ok {
			out[k] = deepCopy(v)
			continue
		}
		if hm, ok := hv.(mp); ok {
			if lm, ok := v.(mp); ok {
				out[k] = fill(hm, lm)
			}
		}
	}
	return out
}

// norm brings a value tree to a comparable form: numbers of any Go type become
// "n:<decimal>", strings "s:<text>", map keys holding null are dropped when
// dropNil is set (a nil-valued key and an absent key are the same for a
// template). Null list elements are kept.
func norm(v any, dropNil bool) any {
	switch x := v.(type) {
	case nil:
		return nil
	case mp:
		o := mp{}
		for k, e := range x {
			if e == nil && dropNil {
				continue
			}
			o[k] = norm(e, dropNil)
		}
		return o
	case []any:
		o := make([]any, len(x))
		for i, e := range x {
			o[i] = norm(e, dropNil)
		}
		return o
	case string:
		return "s:" + x
	case bool:
		return x
	case json.Number:
		if f, err := x.Float64(); err == nil {
			return "n:" + strconv.FormatFloat(f, 'g', -1, 64)
		}
		return "n:" + x.String()
	case int:
		return "n:" + strconv.FormatFloat(float64(x), 'g', -1, 64)
	case int64:
		return "n:" + strconv.FormatFloat(float64(x), 'g', -1, 64)
	case float64:
		return "n:" + strconv.FormatFloat(x, 'g', -1, 64)
	}
	// any other Go type (typed maps, Values ...) is made visible as such
	return fmt.Sprintf("?%T:%v", v, v)
}

// canon renders a normalised tree as a string with sorted keys.
func canon(v any) string {
	var sb strings.Builder
	writeCanon(&sb, v)
	return sb.String()
}

func writeCanon(sb *strings.Builder, v any) {
	switch x := v.(type) {
	case nil:
		sb.WriteString("null")
	case mp:
		keys := make([]string, 0, len(x))
		for k := range x {
			keys = append(keys, k)
		}
		sort.Strings(keys)
		sb.WriteByte('{')
		for i, k := range keys {
			if i > 0 {
				sb.WriteByte(',')
			}
			sb.WriteString(strconv.Quote(k))
			sb.WriteByte(':')
			writeCanon(sb, x[k])
		}
		sb.WriteByte('}')
	case []any:
		sb.WriteByte('[')
		for i, e := range x {
			if i > 0 {
				sb.WriteByte(',')
			}
			writeCanon(sb, e)
		}
		sb.WriteByte(']')
	case string:
		sb.WriteString(strconv.Quote(x))
	case bool:
		if x {
			sb.WriteString("true")
		} else {
			sb.WriteString("false")
		}
	default:
		fmt.Fprintf(sb, "%v", x)
	}
}

// show renders a raw (un-normalised) tree for messages.
func show(v any) string { return canon(norm(v, false)) }

// firstDiff finds the first path (sorted order) at which two normalised trees
// differ and names the kinds on both sides.
func firstDiff(got, want any, path string) (string, string, string, bool) {
	gm, gok := got.(mp)
	wm, wok := want.(mp)
	if gok && wok {
		keys := map[string]bool{}
		for k := range gm {
			keys[k] = true
		}
		for k := range wm {
			keys[k] = true
		}
		ks := make([]string, 0, len(keys))
		for k := range keys {
			ks = append(ks, k)
		}
		sort.Strings(ks)
		for _, k := range ks {
			gv, gp := gm[k]
			wv, wp := wm[k]
			p := k
			if path != "" {
				p = path + "." + k
			}
			if gp != wp {
				return p, nkind(gv, gp), nkind(wv, wp), true
			}
			if p2, a, b, d := firstDiff(gv, wv, p); d {
				return p2, a, b, true
			}
		}
		return "", "", "", false
	}
	if canon(got) != canon(want) {
		return path, nkind(got, true), nkind(want, true), true
	}
	return "", "", "", false
}

func nkind(v any, present bool) string {
	if !present {
		return "absent"
	}
	switch v.(type) {
	case nil:
		return "null"
	case mp:
		return "map"
	case []any:
		return "list"
	}
	return "scalar"
}

// ---------- --set reference ----------

// seg is one path segment of a --set expression: a key or a list index.
type seg struct {
	Key   string `json:"k,omitempty"`
	Idx   int    `json:"i,omitempty"`
	IsIdx bool   `json:"x,omitempty"`
}

// setAt returns cur with val stored at path. A container of the wrong kind on
// the way is replaced (the expression names the path, so it wins); conflict
// reports that this happened for a value that was present.
func setAt(cur any, present bool, path []seg, val any) (any, bool) {
	if len(path) == 0 {
		return val, false
	}
	s := path[0]
	if s.IsIdx {
		l, ok := cur.([]any)
		conflict := false
		if !ok {
			conflict = present
			l = nil
		}
		n := make([]any, len(l))
		copy(n, l)
		for len(n) <= s.Idx {
			n = append(n, nil)
		}
		// an unset (null) list slot is not a conflict
		v, c := setAt(n[s.Idx], n[s.Idx] != nil, path[1:], val)
		n[s.Idx] = v
		return n, conflict || c
	}
	m, ok := cur.(mp)
	conflict := false
	if !ok {
		conflict = present
		m = mp{}
	}
	n := make(mp, len(m)+1)
	for k, v := range m {
		n[k] = v
	}
	old, had := n[s.Key]
	v, c := setAt(old, had, path[1:], val)
	n[s.Key] = v
	return n, conflict || c
}

// typed implements the documented typing of --set values: true/false and null
// in any letter case, integers without a leading zero (and "0" itself) become
// int64, everything else stays a string.
func typed(text string) any {
	switch strings.ToLower(text) {
	case "true":
		return true
	case "false":
		return false
	case "null":
		return nil
	}
	if text == "0" {
		return int64(0)
	}
	if text != "" && text[0] != '0' {
		if n, err := strconv.ParseInt(text, 10, 64); err == nil {
			return n
		}
	}
	return text
}
