package c04

// Part 1 (layering) and part 3 (no mutation): every tuple of value sources is
// pushed through the real Options.MergeValues and chartutil.ToRenderValues /
// CoalesceValues / MergeValues and compared with the reference fold of ref.go.

import (
	"encoding/json"
	"fmt"
	"os"
	"path/filepath"
	"reflect"
	"sort"
	"strconv"
	"strings"

	"sigs.k8s.io/yaml"

	chart "helm.sh/helm/v4/pkg/chart/v2"
	chartutil "helm.sh/helm/v4/pkg/chart/v2/util"
	"helm.sh/helm/v4/pkg/cli/values"
	"helm.sh/helm/v4/pkg/getter"

	"verif/harness/internal/core"
)

// source indexes, lowest precedence first (the order of the property statement)
const (
	srcDef = iota
	srcPar
	srcF1
	srcF2
	srcJSON
	srcSet
	srcStr
	srcFile
	srcLit
	nSrc
)

var srcNames = []string{"defaults", "parent", "file1", "file2", "set-json", "set", "set-string", "set-file", "set-literal"}
var srcTags = []string{"def", "par", "f1", "f2", "js", "set", "str", "sf", "lit"}
var scopeTags = []string{"r", "s", "ss"}

func famName(src int) string {
	if src == srcF1 {
		return "files"
	}
	return srcNames[src]
}

var chartNames = []string{"root", "sub", "subsub"}

// abstract leaves of a source tree
const (
	lS1 = "S1" // a string
	lS2 = "S2" // a number (a numeric string for the string-only flags)
	lL  = "L"  // a list
	lN  = "N"  // explicit null
)

// srcOpt is what one source contributes to a case: an abstract tree over the
// keys {a,b} (leaves are the l* constants, inner nodes maps) and, for
// --set-json, the syntax variant (0: one JSON object, 1: key=jsonvalue pairs).
type srcOpt struct {
	Tree    mp  `json:"tree"`
	Variant int `json:"variant,omitempty"`
}

// layerCase is one executable case: a chart shape (1..3 levels) and at most
// one option per source; nil = source absent.
type layerCase struct {
	Shape int           `json:"shape"`
	Srcs  [nSrc]*srcOpt `json:"srcs"`
	// AllEntries: also run chartutil.CoalesceValues and chartutil.MergeValues (no-mutation oracle), not only ToRenderValues
	AllEntries bool `json:"all_entries"`
	// Rep, when set, is a repeated flag family (root-only chart): the same -f path or the
	// same --set/--set-json/--set-string expression given more than once.
	Rep *repSpec `json:"rep,omitempty"`
}

// repSpec: Items are the two distinct things of one flag family (for Family ==
// srcF1 the files file1 and file2, otherwise two different expressions of the
// same flag whose values carry the tags r and s); Seq is the order in which
// they are given on the command line, with repetition.
type repSpec struct {
	Family int      `json:"family"`
	Items  []srcOpt `json:"items"`
	Seq    []int    `json:"seq"`
	// MultiDoc (files only): the occurrences are the YAML documents of ONE values file
	MultiDoc bool `json:"multi_doc,omitempty"`
}

func (r *repSpec) String() string {
	var parts []string
	for _, i := range r.Seq {
		n := srcNames[r.Family] + "#" + strconv.Itoa(i)
		if r.Family == srcF1 {
			n = srcNames[srcF1+i]
		}
		parts = append(parts, n)
	}
	var items []string
	for i, it := range r.Items {
		n := srcNames[r.Family] + "#" + strconv.Itoa(i)
		if r.Family == srcF1 {
			n = srcNames[srcF1+i]
		} else if r.Family == srcJSON {
			n += [...]string{"(obj)", "(kv)"}[it.Variant]
		}
		items = append(items, n+"="+canon(it.Tree))
	}
	how := "given in the order ["
	if r.MultiDoc {
		how = "one values file with the YAML documents ["
	}
	return how + strings.Join(parts, ", ") + "] with " + strings.Join(items, "; ")
}

// occ is one occurrence of a user source on the command line, in the order
// Options.MergeValues is documented to apply them. tag < 0: a regular source
// (its tree is repeated per chart scope); tag >= 0: an item of a repeated
// family (root scope only, values tagged with scopeTags[tag]).
type occ struct {
	src int
	o   *srcOpt
	tag int
}

func occurrences(lc layerCase) []occ {
	var out []occ
	for src := srcF1; src < nSrc; src++ {
		if o := lc.Srcs[src]; o != nil {
			out = append(out, occ{src, o, -1})
		}
		if lc.Rep != nil && lc.Rep.Family == src {
			for _, i := range lc.Rep.Seq {
				s := src
				if src == srcF1 {
					s = srcF1 + i
				}
				out = append(out, occ{s, &lc.Rep.Items[i], i})
			}
		}
	}
	return out
}

// doc is everything an occurrence says (all chart scopes).
func (oc occ) doc(shape int) mp {
	if oc.tag >= 0 {
		return inst(oc.o.Tree, oc.src, oc.tag).(mp)
	}
	return wrapped(oc.o, oc.src, shape)
}

// at is what an occurrence says for one chart scope.
func (oc occ) at(scope int) mp {
	if oc.tag >= 0 {
		if scope != 0 {
			return mp{}
		}
		return inst(oc.o.Tree, oc.src, oc.tag).(mp)
	}
	return instMap(oc.o, oc.src, scope)
}

func (lc layerCase) String() string {
	var parts []string
	for i, o := range lc.Srcs {
		if o == nil {
			continue
		}
		v := ""
		if i == srcJSON {
			v = [...]string{"(obj)", "(kv)"}[o.Variant]
		}
		parts = append(parts, srcNames[i]+v+"="+canon(o.Tree))
	}
	if lc.Rep != nil {
		parts = append(parts, lc.Rep.String())
	}
	return fmt.Sprintf("charts=%s; %s", strings.Join(chartNames[:lc.Shape], ">"), strings.Join(parts, "; "))
}

// ---------- tree families ----------

func treeSize(v any) int {
	m, ok := v.(mp)
	if !ok {
		return 1
	}
	n := 1
	for _, e := range m {
		n += treeSize(e)
	}
	return n
}

// subMaps: all maps over keys {a,b} whose values are absent or one of leaves.
func subMaps(leaves []any) []any {
	opts := append([]any{nil}, leaves...) // nil = key absent
	var out []any
	for _, a := range opts {
		for _, b := range opts {
			m := mp{}
			if a != nil {
				m["a"] = a
			}
			if b != nil {
				m["b"] = b
			}
			out = append(out, m)
		}
	}
	return out
}

// baseFamily lists the abstract trees a source may hold, simplest first.
//
//	core (12 trees):    the kinds of override one level deep, used for tuples of 4 sources (thorough)
//	quick (21 trees):   key a carries the 4 leaves, every sub-map over {absent,S1,null}^2, two sub-maps with a list and one
//	                    sub-map holding a table (depth 3);
//	                    key b absent; plus 5 trees in which b is a bystander or competes
//	thorough (35 trees): every sub-map over {absent,S1,L,null}^2, depth-3 chains, b-side shapes
func baseFamily(level string) []mp {
	var out []mp
	switch level {
	case "core":
		out = []mp{
			{"a": lS1}, {"a": lL}, {"a": lN}, {"a": mp{}}, {"a": mp{"a": lS1}}, {"a": mp{"a": lN}}, {"a": mp{"a": lL}}, {"a": mp{"b": lS1}},
			{"a": mp{"a": lS1, "b": lS1}}, {"b": lS1}, {"a": lS1, "b": lS1}, {"a": lN, "b": lS1},
		}
	default:
		var shapes []any
		shapes = append(shapes, lS1, lS2, lL, lN)
		if level == "thorough" {
			shapes = append(shapes, subMaps([]any{lS1, lL, lN})...)
		} else {
			shapes = append(shapes, subMaps([]any{lS1, lN})...)
			// one table below a table: shape disagreements (table vs scalar/list/null) one level down
			shapes = append(shapes, mp{"a": lL}, mp{"a": lL, "b": lS1}, mp{"a": mp{"a": lS1}})
		}
		for _, s := range shapes {
			out = append(out, mp{"a": s})
		}
		out = append(out,
			mp{"b": lS1},
			mp{"a": lS1, "b": lS1},
			mp{"a": lN, "b": lS1},
			mp{"a": mp{"a": lS1}, "b": lS1},
			mp{"a": mp{"a": lN}, "b": lL},
		)
		if level == "thorough" {
			out = append(out,
				mp{"a": mp{"a": mp{"a": lS1}}},
				mp{"a": mp{"a": mp{"a": lN}}},
				mp{"a": mp{"a": mp{"b": lS1}}},
				mp{"a": mp{"a": mp{"a": lS1, "b": lL}}},
				mp{"a": mp{"a": mp{}}},
				mp{"a": mp{"a": mp{"a": lL}, "b": lS1}},
				mp{"b": lN},
				mp{"b": mp{"a": lS1}},
				mp{"a": lL, "b": lN},
				mp{"a": mp{"b": lS1}, "b": mp{"a": lS1}},
			)
		}
	}
	sort.SliceStable(out, func(i, j int) bool {
		si, sj := treeSize(out[i]), treeSize(out[j])
		if si != sj {
			return si < sj
		}
		return canon(out[i]) < canon(out[j])
	})
	return out
}

func hasLeaf(v any, kind string) bool {
	switch x := v.(type) {
	case string:
		return x == kind
	case mp:
		for _, e := range x {
			if hasLeaf(e, kind) {
				return true
			}
		}
	}
	return false
}

func hasEmptyMap(v any) bool {
	m, ok := v.(mp)
	if !ok {
		return false
	}
	if len(m) == 0 {
		return true
	}
	for _, e := range m {
		if hasEmptyMap(e) {
			return true
		}
	}
	return false
}

// expressible says whether a flag syntax can state the tree at all.
func expressible(src, variant int, t mp) bool {
	switch src {
	case srcDef, srcPar, srcF1, srcF2:
		return true
	case srcJSON:
		if variant == 0 {
			return true
		}
		return !hasEmptyMap(t) // key=json pairs are printed leaf by leaf
	case srcSet:
		return !hasEmptyMap(t)
	case srcStr, srcFile:
		return !hasEmptyMap(t) && !hasLeaf(t, lN)
	case srcLit:
		return !hasEmptyMap(t) && !hasLeaf(t, lN) && !hasLeaf(t, lL)
	}
	return false
}

func families(level string) [nSrc][]srcOpt {
	base := baseFamily(level)
	var f [nSrc][]srcOpt
	for s := 0; s < nSrc; s++ {
		nv := 1
		if s == srcJSON {
			nv = 2
		}
		for v := 0; v < nv; v++ {
			for _, t := range base {
				if len(t) == 0 {
					continue
				}
				if expressible(s, v, t) {
					f[s] = append(f[s], srcOpt{Tree: t, Variant: v})
				}
			}
		}
	}
	return f
}

// ---------- instantiation: abstract tree -> the values a source means ----------

func s1Text(src, scope int) string { return srcTags[src] + "_" + scopeTags[scope] + "_x" }
func s2Num(src, scope int) int     { return 100 + 10*src + scope }
func s2FileText(scope int) string  { return srcTags[srcFile] + "_" + scopeTags[scope] + "_y" }
func listTexts(src, scope int) []string {
	l := []string{srcTags[src] + "_" + scopeTags[scope] + "_p", srcTags[src] + "_" + scopeTags[scope] + "_q"}
	return l[:2-src%2] // even sources hold 2 elements, odd ones 1: a replaced list must shrink
}

// inst gives the concrete value tree source src means by abstract tree t in
// chart scope `scope` (every value names its source and scope).
func inst(t any, src, scope int) any {
	switch x := t.(type) {
	case mp:
		o := mp{}
		for k, e := range x {
			o[k] = inst(e, src, scope)
		}
		return o
	case string:
		switch x {
		case lS1:
			return s1Text(src, scope)
		case lS2:
			switch src {
			case srcStr, srcLit:
				return strconv.Itoa(s2Num(src, scope))
			case srcFile:
				return s2FileText(scope)
			case srcDef, srcPar:
				return json.Number(strconv.Itoa(s2Num(src, scope))) // what the chart loader produces
			}
			return float64(s2Num(src, scope))
		case lL:
			var l []any
			for _, e := range listTexts(src, scope) {
				l = append(l, e)
			}
			return l
		case lN:
			return nil
		}
	}
	panic(fmt.Sprintf("bad abstract tree node %#v", t))
}

func instMap(o *srcOpt, src, scope int) mp {
	if o == nil {
		return mp{}
	}
	return inst(o.Tree, src, scope).(mp)
}

// wrapped is the whole document a user source supplies for a chart shape: its
// tree for the root, under "sub" the one for the subchart, and so on.
func wrapped(o *srcOpt, src, shape int) mp {
	var w mp
	for s := shape - 1; s >= 0; s-- {
		m := instMap(o, src, s)
		if w != nil {
			m[chartNames[s+1]] = w
		}
		w = m
	}
	return w
}

// ---------- worker scratch files ----------

type work struct {
	dir   string
	files map[string]string
}

func newWork() (*work, error) {
	base := os.Getenv("C04_TMP")
	if base == "" {
		base = "/var/tmp/vc04"
	}
	if err := os.MkdirAll(base, 0o755); err != nil {
		base = os.TempDir()
	}
	d, err := os.MkdirTemp(base, "w-")
	if err != nil {
		return nil, err
	}
	return &work{dir: d, files: map[string]string{}}, nil
}

func (w *work) close() { os.RemoveAll(w.dir) }

// file returns the path of a scratch file with the given content (written once).
func (w *work) file(key string, content func() []byte) string {
	if p, ok := w.files[key]; ok {
		return p
	}
	p := filepath.Join(w.dir, fmt.Sprintf("f%d", len(w.files)))
	if err := os.WriteFile(p, content(), 0o644); err != nil {
		panic(err)
	}
	w.files[key] = p
	return p
}

// ---------- printing sources to flags ----------

type leafAt struct {
	path []string
	kind string
}

func leaves(t mp, prefix []string, out *[]leafAt) {
	keys := make([]string, 0, len(t))
	for k := range t {
		keys = append(keys, k)
	}
	sort.Strings(keys)
	for _, k := range keys {
		p := append(append([]string{}, prefix...), k)
		switch x := t[k].(type) {
		case mp:
			leaves(x, p, out)
		case string:
			*out = append(*out, leafAt{p, x})
		}
	}
}

func scopePrefix(scope int) string {
	return strings.Join(chartNames[1:scope+1], ".") + map[bool]string{true: ".", false: ""}[scope > 0]
}

// flagValue prints one leaf in the syntax of a strvals-style flag.
func (w *work) flagValue(src, scope int, kind string) string {
	contentFile := func(text string) string {
		return w.file("content|"+text, func() []byte { return []byte(text) })
	}
	switch kind {
	case lN:
		return "null"
	case lS1:
		if src == srcFile {
			return contentFile(s1Text(src, scope))
		}
		if src == srcJSON {
			return strconv.Quote(s1Text(src, scope))
		}
		return s1Text(src, scope)
	case lS2:
		if src == srcFile {
			return contentFile(s2FileText(scope))
		}
		return strconv.Itoa(s2Num(src, scope))
	case lL:
		var el []string
		for _, e := range listTexts(src, scope) {
			switch src {
			case srcFile:
				el = append(el, contentFile(e))
			case srcJSON:
				el = append(el, strconv.Quote(e))
			default:
				el = append(el, e)
			}
		}
		if src == srcJSON {
			return "[" + strings.Join(el, ",") + "]"
		}
		return "{" + strings.Join(el, ",") + "}"
	}
	panic(kind)
}

// options builds the real values.Options for the user sources of a case.
func (w *work) options(lc layerCase) (o values.Options) {
	var multi []byte
	defer func() {
		if multi != nil {
			o.ValueFiles = append(o.ValueFiles, w.file("multi|"+string(multi), func() []byte { return multi }))
		}
	}()
	for _, oc := range occurrences(lc) {
		oc := oc
		switch {
		case (oc.src == srcF1 || oc.src == srcF2) && oc.tag >= 0 && lc.Rep.MultiDoc:
			b, err := yaml.Marshal(oc.doc(lc.Shape))
			if err != nil {
				panic(err)
			}
			if multi != nil {
				multi = append(multi, "---\n"...)
			}
			multi = append(multi, b...)
		case oc.src == srcF1 || oc.src == srcF2:
			key := fmt.Sprintf("vf|%d|%d|%d|%s", oc.src, lc.Shape, oc.tag, canon(oc.o.Tree))
			o.ValueFiles = append(o.ValueFiles, w.file(key, func() []byte {
				b, err := yaml.Marshal(oc.doc(lc.Shape))
				if err != nil {
					panic(err)
				}
				return b
			}))
		case oc.src == srcJSON && oc.o.Variant == 0:
			b, err := json.Marshal(oc.doc(lc.Shape))
			if err != nil {
				panic(err)
			}
			o.JSONValues = append(o.JSONValues, string(b))
		default:
			var ls []leafAt
			leaves(oc.o.Tree, nil, &ls)
			lo, hi := 0, lc.Shape-1 // one flag per chart scope
			if oc.tag >= 0 {
				lo, hi = oc.tag, oc.tag // a repeated flag: root scope only, tag used for the values
			}
			for scope := lo; scope <= hi; scope++ {
				prefix := scopePrefix(scope)
				if oc.tag >= 0 {
					prefix = ""
				}
				var exprs []string
				for _, l := range ls {
					exprs = append(exprs, prefix+strings.Join(l.path, ".")+"="+w.flagValue(oc.src, scope, l.kind))
				}
				switch oc.src {
				case srcJSON:
					o.JSONValues = append(o.JSONValues, strings.Join(exprs, ","))
				case srcSet:
					o.Values = append(o.Values, strings.Join(exprs, ","))
				case srcStr:
					o.StringValues = append(o.StringValues, strings.Join(exprs, ","))
				case srcFile:
					o.FileValues = append(o.FileValues, strings.Join(exprs, ","))
				case srcLit:
					o.LiteralValues = append(o.LiteralValues, exprs...) // one expression per flag: no separator exists
				}
			}
		}
	}
	return o
}

// buildCharts builds the chart tree of a case; chart s holds the defaults tree
// and, when it has a child, the parent section for that child.
func buildCharts(lc layerCase) []*chart.Chart {
	cs := make([]*chart.Chart, lc.Shape)
	for s := 0; s < lc.Shape; s++ {
		c := &chart.Chart{Metadata: &chart.Metadata{Name: chartNames[s], Version: "0.1.0", APIVersion: "v2"}}
		if lc.Srcs[srcDef] != nil {
			c.Values = instMap(lc.Srcs[srcDef], srcDef, s)
		}
		if s+1 < lc.Shape && lc.Srcs[srcPar] != nil {
			if c.Values == nil {
				c.Values = mp{}
			}
			c.Values[chartNames[s+1]] = instMap(lc.Srcs[srcPar], srcPar, s+1)
		}
		cs[s] = c
	}
	for s := lc.Shape - 2; s >= 0; s-- {
		cs[s].AddDependency(cs[s+1])
	}
	return cs
}

// ---------- reference ----------

func isStrvals(src int, o *srcOpt) bool {
	return src >= srcSet || (src == srcJSON && o.Variant == 1)
}

// descendsThroughNonMap: a dotted --set path needs a map where the lower user
// sources left something else. Helm rejects such a command line; the property
// speaks about the values a template sees, so a rejection is not counted
// against it (it is counted as an outcome).
func descendsThroughNonMap(acc, t mp) bool {
	for k, v := range t {
		tm, ok := v.(mp)
		if !ok {
			continue
		}
		cur, present := acc[k]
		if !present {
			continue
		}
		cm, ok := cur.(mp)
		if !ok {
			return true
		}
		if descendsThroughNonMap(cm, tm) {
			return true
		}
	}
	return false
}

type scopeRef struct {
	user     mp         // fold of the user sources (nulls kept)
	grouped  string     // canonical expected values: user sources folded first, then completed from parent section and defaults
	chained  string     // canonical expected values of the strict chain (a null cuts off everything below it, also under a later map)
	groupedT mp         // normalised tree of grouped
	gone     [][]string // paths at which a winning null sits on a key the chart's own values.yaml defines: the key must be absent, not null
	goneOver []string   // kind of the default under each of them
	conflict bool
}

func refScope(lc layerCase, scope int) scopeRef {
	var r scopeRef
	def := instMap(lc.Srcs[srcDef], srcDef, scope)
	par := mp{}
	if scope > 0 {
		par = instMap(lc.Srcs[srcPar], srcPar, scope)
	}
	chain := over(def, par)
	user := mp{}
	for _, oc := range occurrences(lc) { // in command-line order; a repeated file or flag is simply applied again
		t := oc.at(scope)
		if isStrvals(oc.src, oc.o) && descendsThroughNonMap(user, t) {
			r.conflict = true
		}
		user = over(user, t)
		chain = over(chain, t)
	}
	r.user = user
	r.groupedT = norm(fill(fill(user, par), def), true).(mp)
	gonePaths(fill(user, par), def, nil, &r.gone, &r.goneOver)
	r.grouped = canon(r.groupedT)
	r.chained = canon(norm(chain, true))
	return r
}

// gonePaths lists the paths where hi holds an explicit null and the chart's own
// defaults define the same key ("an explicit null removes a default"): there
// the key itself has to disappear. A null on a key that no default defines may
// stay as a null-valued key (Helm keeps it; a template cannot use it either way).
func gonePaths(hi, def mp, prefix []string, out *[][]string, over *[]string) {
	keys := make([]string, 0, len(hi))
	for k := range hi {
		keys = append(keys, k)
	}
	sort.Strings(keys)
	for _, k := range keys {
		dv, ok := def[k]
		if !ok {
			continue
		}
		p := append(append([]string{}, prefix...), k)
		if hi[k] == nil {
			*out = append(*out, p)
			*over = append(*over, nkind(dv, true))
			continue
		}
		if hm, ok := hi[k].(mp); ok {
			if dm, ok := dv.(mp); ok {
				gonePaths(hm, dm, p, out, over)
			}
		}
	}
}

// hasKeyAt reports whether the raw value tree has the key named by path.
func hasKeyAt(m mp, path []string) bool {
	for i, k := range path {
		v, ok := m[k]
		if !ok {
			return false
		}
		if i == len(path)-1 {
			return true
		}
		m, ok = asMap(v)
		if !ok {
			return false
		}
	}
	return false
}

// shapeFloors names the shape disagreements between adjacent layers that Helm
// merges map-wise (values files, documents of one file, --set-json objects):
// what the earlier layers left at a key vs. what the next layer says there,
// one level ("a") and two levels ("a.a") deep. Vacuity guards only.
func shapeFloors(lc layerCase) []string {
	var out []string
	acc := mp{}
	first := true
	var walk func(prev, next mp, depth int)
	walk = func(prev, next mp, depth int) {
		for k, nv := range next {
			pv, ok := prev[k]
			if !ok {
				continue
			}
			pk, nk := nkind(pv, true), nkind(nv, true)
			if (pk == "map") != (nk == "map") {
				d := ""
				if depth > 1 {
					d = "nested-"
				}
				out = append(out, "mapmerge:"+d+"earlier-"+pk+"-later-"+nk)
			}
			if pm, ok := pv.(mp); ok {
				if nm, ok := nv.(mp); ok && depth < 2 {
					walk(pm, nm, depth+1)
				}
			}
		}
	}
	for _, oc := range occurrences(lc) {
		mapwise := oc.src == srcF1 || oc.src == srcF2 || (oc.src == srcJSON && oc.o.Variant == 0)
		t := oc.at(0)
		if mapwise && !first {
			walk(acc, t, 1)
		}
		first = false
		acc = over(acc, t)
	}
	return out
}

// ---------- execution ----------

type lfail struct {
	Class string // finding-key class
	What  string
}

type layerObs struct {
	rejected bool
	classes  []string // outcome classes (one per scope)
	floors   []string
}

func pick(m mp, keys ...string) mp {
	o := mp{}
	for _, k := range keys {
		if v, ok := m[k]; ok {
			o[k] = v
		}
	}
	return o
}

func asMap(v any) (mp, bool) {
	switch x := v.(type) {
	case mp:
		return x, true
	case chartutil.Values:
		return mp(x), true
	}
	return nil, false
}

// probe overwrites everything reachable in a result.
func probe(v any) {
	switch x := v.(type) {
	case mp:
		if x == nil {
			return
		}
		for k, e := range x {
			switch e.(type) {
			case mp, []any:
				probe(e)
			default:
				x[k] = "__mutated"
			}
		}
		x["__probe"] = "__mutated"
	case chartutil.Values:
		probe(mp(x))
	case []any:
		for i, e := range x {
			switch e.(type) {
			case mp, []any:
				probe(e)
			default:
				x[i] = "__mutated"
			}
		}
	}
}

func guard(f func()) (p any) {
	defer func() { p = recover() }()
	f()
	return nil
}

// execLayer runs one case on the real code and returns what contradicts the
// reference.
func execLayer(w *work, lc layerCase) ([]lfail, layerObs) {
	var fails []lfail
	var obs layerObs
	refs := make([]scopeRef, lc.Shape)
	conflict := false
	for s := range refs {
		refs[s] = refScope(lc, s)
		conflict = conflict || refs[s].conflict
	}
	obs.floors = append(obs.floors, shapeFloors(lc)...)
	opts := w.options(lc)
	var user mp
	var err error
	if p := guard(func() { user, err = opts.MergeValues(getter.Providers{}) }); p != nil {
		return []lfail{{"merge/panic", fmt.Sprintf("Options.MergeValues panics (%v) for %s", p, lc)}}, obs
	}
	if err != nil {
		if conflict {
			obs.rejected = true
			obs.classes = append(obs.classes, "rejected:set-path-through-non-map")
			obs.floors = append(obs.floors, "saw-reject-type-conflict")
			return nil, obs
		}
		return []lfail{{"merge/unexpected-error", fmt.Sprintf("Options.MergeValues fails (%v) for %s", firstLine(err.Error()), lc)}}, obs
	}
	// (a) the merged user values are the fold of the user sources
	{
		want := mp{}
		for _, oc := range occurrences(lc) {
			want = over(want, oc.doc(lc.Shape))
		}
		g, wn := norm(user, true), norm(want, true)
		if canon(g) != canon(wn) {
			p, gk, wk, _ := firstDiff(g, wn, "")
			fails = append(fails, lfail{"merge/" + gk + "-for-" + wk, fmt.Sprintf("Options.MergeValues gives %s, precedence order gives %s (first difference at %q) for %s", show(user), show(want), p, lc)})
		}
	}
	// (b) rendering values in every chart scope; (c) nothing handed in is modified
	charts := buildCharts(lc)
	userSnap := deepCopy(user)
	snaps := make([]any, len(charts))
	for i, c := range charts {
		snaps[i] = deepCopy(c.Values)
	}
	intact := func() bool {
		if !reflect.DeepEqual(user, userSnap) {
			return false
		}
		for i, c := range charts {
			if !reflect.DeepEqual(c.Values, snaps[i]) {
				return false
			}
		}
		return true
	}
	var top chartutil.Values
	if p := guard(func() {
		top, err = chartutil.ToRenderValues(charts[0], user, chartutil.ReleaseOptions{Name: "r", Namespace: "ns", Revision: 1, IsInstall: true}, nil)
	}); p != nil {
		return append(fails, lfail{"render/panic", fmt.Sprintf("ToRenderValues panics (%v) for %s", p, lc)}), obs
	}
	if err != nil {
		return append(fails, lfail{"render/unexpected-error", fmt.Sprintf("ToRenderValues fails (%v) for %s", firstLine(err.Error()), lc)}), obs
	}
	cur, ok := asMap(top["Values"])
	if !ok {
		return append(fails, lfail{"render/no-values", fmt.Sprintf("ToRenderValues returns Values of type %T for %s", top["Values"], lc)}), obs
	}
	for s := 0; s < lc.Shape; s++ {
		if s > 0 {
			cur, ok = asMap(cur[chartNames[s]])
			if !ok {
				fails = append(fails, lfail{"render/" + scopeTags[s] + "/no-scope", fmt.Sprintf("no table for subchart %q in the render values for %s", chartNames[s], lc)})
				break
			}
		}
		for k := range cur {
			if k == "a" || k == "b" || (s > 0 && k == "global") || (s+1 < lc.Shape && k == chartNames[s+1]) {
				continue
			}
			fails = append(fails, lfail{"render/" + scopeTags[s] + "/unexpected-key", fmt.Sprintf("scope %s sees key %q that no source defines; %s", chartNames[s], k, lc)})
		}
		got := norm(pick(cur, "a", "b"), true)
		gs := canon(got)
		r := refs[s]
		cls, fl := classify(lc, s, r)
		if lc.Rep != nil {
			cls, fl = classifyRep(lc)
		}
		obs.classes = append(obs.classes, cls)
		obs.floors = append(obs.floors, fl...)
		// "removes a default": where a winning null sits on a key of the chart's own defaults the
		// key is gone from the values, not left behind as key: null (range / toYaml / hasKey see the difference)
		stillThere := func() {
			for i, gp := range r.gone {
				obs.floors = append(obs.floors, "saw-null-over-default-"+r.goneOver[i])
				if len(gp) > 1 {
					obs.floors = append(obs.floors, "saw-nested-null-over-default-"+r.goneOver[i])
					if s > 0 {
						obs.floors = append(obs.floors, "saw-nested-null-over-subchart-default-"+r.goneOver[i])
					}
				}
				if hasKeyAt(cur, gp) {
					fails = append(fails, lfail{"render/" + scopeTags[s] + "/key-kept-as-null-over-default-" + r.goneOver[i] + "/depth=" + strconv.Itoa(len(gp)),
						fmt.Sprintf("chart scope %s: an explicit null was laid over the chart's default %s at %q but the key is still present (as %s) instead of removed; %s",
							chartNames[s], r.goneOver[i], strings.Join(gp, "."), show(pick(cur, "a", "b")), lc)})
					return
				}
			}
		}
		if r.grouped != r.chained {
			// A null below a map of a higher source: the statement does not say whether the
			// null still cuts off the sources below it. Both readings are accepted.
			obs.floors = append(obs.floors, "saw-null-under-higher-map")
			switch gs {
			case r.grouped:
				obs.classes = append(obs.classes, "null-under-higher-map:lower-sources-shine-through")
				stillThere()
				continue
			case r.chained:
				obs.classes = append(obs.classes, "null-under-higher-map:null-cuts-off")
				continue
			}
		} else if gs == r.grouped {
			stillThere()
			continue
		}
		p, gk, wk, _ := firstDiff(got, r.groupedT, "")
		fails = append(fails, lfail{"render/" + scopeTags[s] + "/" + gk + "-for-" + wk,
			fmt.Sprintf("chart scope %s sees %s, precedence order gives %s (first difference at %q: %s instead of %s); %s", chartNames[s], gs, r.grouped, p, gk, wk, lc)})
	}
	// the two other coalescing entry points, then overwrite every node of every result
	var cv, mv chartutil.Values
	if lc.AllEntries {
		if p := guard(func() { cv, err = chartutil.CoalesceValues(charts[0], user) }); p != nil || err != nil {
			fails = append(fails, lfail{"coalesce/unexpected-error", fmt.Sprintf("CoalesceValues fails (%v %v) for %s", p, err, lc)})
		}
		if p := guard(func() { mv, err = chartutil.MergeValues(charts[0], user) }); p != nil || err != nil {
			fails = append(fails, lfail{"mergevalues/unexpected-error", fmt.Sprintf("chartutil.MergeValues fails (%v %v) for %s", p, err, lc)})
		}
	}
	probe(top["Values"])
	probe(cv)
	probe(mv)
	if !intact() {
		fails = append(fails, attributeMutation(lc, userSnap.(mp))...)
	}
	return fails, obs
}

// attributeMutation re-runs the coalescing entry points one at a time on fresh
// copies and says after which step an input was found modified.
func attributeMutation(lc layerCase, userSnap mp) []lfail {
	var fails []lfail
	charts := buildCharts(lc)
	user := deepCopy(userSnap).(mp)
	snaps := make([]any, len(charts))
	for i, c := range charts {
		snaps[i] = deepCopy(c.Values)
	}
	unchanged := func(stage string) {
		if !reflect.DeepEqual(user, userSnap) {
			fails = append(fails, lfail{"nomut/" + stage + "/caller-values", fmt.Sprintf("%s: the value map handed in was %s and is now %s; %s", stage, show(userSnap), show(user), lc)})
			user = deepCopy(userSnap).(mp)
		}
		for i, c := range charts {
			if !reflect.DeepEqual(c.Values, snaps[i]) {
				fails = append(fails, lfail{"nomut/" + stage + "/chart-values", fmt.Sprintf("%s: stored values of chart %q were %s and are now %s; %s", stage, c.Name(), show(snaps[i]), show(c.Values), lc)})
				if snaps[i].(mp) == nil {
					c.Values = nil
				} else {
					c.Values = deepCopy(snaps[i]).(mp)
				}
			}
		}
	}
	var top, cv, mv chartutil.Values
	guard(func() {
		top, _ = chartutil.ToRenderValues(charts[0], user, chartutil.ReleaseOptions{Name: "r", Namespace: "ns", Revision: 1, IsInstall: true}, nil)
	})
	unchanged("ToRenderValues")
	if lc.AllEntries {
		guard(func() { cv, _ = chartutil.CoalesceValues(charts[0], user) })
		unchanged("CoalesceValues")
		guard(func() { mv, _ = chartutil.MergeValues(charts[0], user) })
		unchanged("MergeValues")
	}
	probe(top["Values"])
	unchanged("write-to-ToRenderValues-result")
	probe(cv)
	unchanged("write-to-CoalesceValues-result")
	probe(mv)
	unchanged("write-to-MergeValues-result")
	return fails
}

func firstLine(s string) string {
	if i := strings.IndexByte(s, '\n'); i >= 0 {
		s = s[:i]
	}
	if len(s) > 200 {
		s = s[:200]
	}
	return s
}

// classify names what the reference says happens to key "a" in a scope (the
// outcome classes of the evidence) and which diversity floors the case reaches.
func classify(lc layerCase, scope int, r scopeRef) (string, []string) {
	var definers []int // sources that say anything about key a in this scope
	nullBy := -1
	for src := 0; src < nSrc; src++ {
		o := lc.Srcs[src]
		if o == nil || (src == srcPar && scope == 0) {
			continue
		}
		v, ok := o.Tree["a"]
		if !ok {
			continue
		}
		definers = append(definers, src)
		if v == lN {
			nullBy = src
		}
	}
	v, present := r.groupedT["a"]
	var floors []string
	if !present {
		if len(definers) == 0 {
			return "a:undefined", nil
		}
		if len(definers) > 1 && nullBy == definers[len(definers)-1] {
			floors = append(floors, "saw-null-removes-lower-value")
			if scope > 0 {
				floors = append(floors, "saw-null-removes-value-in-subchart-scope")
			}
		}
		return "a:removed-by-null", floors
	}
	owners := map[string]bool{}
	collectOwners(v, owners)
	switch v.(type) {
	case mp:
		if len(owners) > 1 {
			floors = append(floors, "saw-map-merged-from-several-sources")
			return "a:map-merged-from-" + strconv.Itoa(len(owners)) + "-sources", floors
		}
		return "a:map-from-one-source", nil
	case []any:
		if len(definers) > 1 {
			floors = append(floors, "saw-list-replaces")
		}
		return "a:list-from-" + ownerName(owners), floors
	}
	if len(definers) > 1 {
		floors = append(floors, "saw-scalar-replaces")
	}
	return "a:scalar-from-" + ownerName(owners), floors
}

// classifyRep names a repeated-family case by family and order, and says
// whether the repetition matters (the last occurrence repeats an earlier one
// and something else that speaks about the same top-level key came in between).
func classifyRep(lc layerCase) (string, []string) {
	r := lc.Rep
	seq := ""
	for _, i := range r.Seq {
		seq += strconv.Itoa(i)
	}
	var floors []string
	n := len(r.Seq)
	last := r.Seq[n-1]
	seenLast, otherBetween := false, false
	for _, i := range r.Seq[:n-1] {
		if i == last {
			seenLast = true
		} else if seenLast {
			otherBetween = true
		}
	}
	overlap := false
	if len(r.Items) == 2 {
		for k := range r.Items[0].Tree {
			if _, ok := r.Items[1].Tree[k]; ok {
				overlap = true
			}
		}
	}
	if seenLast && otherBetween && overlap {
		if r.Family == srcF1 {
			floors = append(floors, "saw-repeated-file-path-decides")
		} else {
			floors = append(floors, "saw-repeated-flag-expression-decides")
		}
	}
	if r.Family != srcF1 && overlap && n >= 2 && r.Seq[n-1] != r.Seq[n-2] {
		floors = append(floors, "saw-same-flag-twice-later-wins")
	}
	if r.MultiDoc {
		return "multi-document-file:order=" + seq, []string{"saw-multi-document-values-file"}
	}
	return "repeat-" + famName(r.Family) + ":order=" + seq, floors
}

func ownerName(o map[string]bool) string {
	for k := range o {
		return k
	}
	return "none"
}

// collectOwners reads the source tag out of normalised values.
func collectOwners(v any, out map[string]bool) {
	switch x := v.(type) {
	case mp:
		for _, e := range x {
			collectOwners(e, out)
		}
	case []any:
		for _, e := range x {
			collectOwners(e, out)
		}
	case string:
		if strings.HasPrefix(x, "s:") {
			t := strings.TrimPrefix(x, "s:")
			if i := strings.IndexByte(t, '_'); i > 0 {
				out[t[:i]] = true
			} else if n, err := strconv.Atoi(t); err == nil {
				out[srcTags[(n-100)/10]] = true
			}
		} else if strings.HasPrefix(x, "n:") {
			if n, err := strconv.Atoi(strings.TrimPrefix(x, "n:")); err == nil && n >= 100 {
				out[srcTags[(n-100)/10]] = true
			}
		}
	}
}

// ---------- minimisation and keys ----------

// minimiseLayer makes a failing case as simple as it can greedily: fewer
// chart levels, fewer sources, lower-numbered user sources, simpler trees.
func minimiseLayer(w *work, lc layerCase, fam [nSrc][]srcOpt, stillFails func(layerCase) bool) layerCase {
	cur := lc
	cur.AllEntries = true
	if !stillFails(cur) {
		cur = lc
	}
	try := func(x layerCase) bool {
		if x.Srcs[srcPar] != nil && x.Shape == 1 {
			return false
		}
		if stillFails(x) {
			cur = x
			return true
		}
		return false
	}
	for s := 0; s < nSrc; s++ {
		if cur.Srcs[s] != nil {
			x := cur
			x.Srcs[s] = nil
			try(x)
		}
	}
	for sh := 1; sh < cur.Shape; sh++ {
		x := cur
		x.Shape = sh
		if try(x) {
			break
		}
	}
	// move user sources down to the simplest free slot of the same family (file / flag)
	for s := srcF1 + 1; s < nSrc; s++ {
		if cur.Srcs[s] == nil {
			continue
		}
		for t := srcF1; t < s; t++ {
			if cur.Srcs[t] != nil || !expressible(t, 0, cur.Srcs[s].Tree) {
				continue
			}
			x := cur
			x.Srcs[t] = &srcOpt{Tree: cur.Srcs[s].Tree}
			x.Srcs[s] = nil
			if try(x) {
				break
			}
		}
	}
	if cur.Rep != nil {
		for changed := true; changed && len(cur.Rep.Seq) > 1; { // drop occurrences
			changed = false
			for i := range cur.Rep.Seq {
				x := cur
				r := *cur.Rep
				r.Seq = append(append([]int{}, cur.Rep.Seq[:i]...), cur.Rep.Seq[i+1:]...)
				x.Rep = &r
				if try(x) {
					changed = true
					break
				}
			}
		}
		for it := range cur.Rep.Items { // simpler item trees
			src := cur.Rep.Family
			if src == srcF1 {
				src += it
			}
			for _, o := range fam[src] {
				if canon(o.Tree) == canon(cur.Rep.Items[it].Tree) && o.Variant == cur.Rep.Items[it].Variant {
					break
				}
				if o.Variant != cur.Rep.Items[it].Variant {
					continue
				}
				x := cur
				r := *cur.Rep
				r.Items = append([]srcOpt{}, cur.Rep.Items...)
				r.Items[it] = o
				x.Rep = &r
				if try(x) {
					break
				}
			}
		}
	}
	for round := 0; round < 2; round++ {
		for s := 0; s < nSrc; s++ {
			if cur.Srcs[s] == nil {
				continue
			}
			for _, o := range fam[s] {
				if canon(o.Tree) == canon(cur.Srcs[s].Tree) && o.Variant == cur.Srcs[s].Variant {
					break
				}
				if o.Variant != cur.Srcs[s].Variant {
					continue
				}
				x := cur
				oc := o
				x.Srcs[s] = &oc
				if try(x) {
					break
				}
			}
		}
	}
	return cur
}

// layerKey: failure class + the sources of the (minimised) case + chart levels.
func layerKey(lc layerCase, f lfail) string {
	var parts []string
	for i, o := range lc.Srcs {
		if o != nil {
			n := srcNames[i]
			if i == srcJSON && o.Variant == 1 {
				n += "-kv"
			}
			parts = append(parts, n)
		}
	}
	if lc.Rep != nil {
		seq := ""
		for _, i := range lc.Rep.Seq {
			seq += strconv.Itoa(i)
		}
		if lc.Rep.MultiDoc {
			parts = append(parts, "multi-document-file-order-"+seq)
		} else {
			parts = append(parts, "repeated-"+famName(lc.Rep.Family)+"-order-"+seq)
		}
	}
	return core.SanitizeKey(fmt.Sprintf("layer/%s/%s/levels=%d", f.Class, strings.Join(parts, "+"), lc.Shape))
}
