package c04

import "testing"

// BenchmarkLayer measures one layering case (three sources, three chart levels).
func BenchmarkLayer(b *testing.B) {
	w, err := newWork()
	if err != nil {
		b.Fatal(err)
	}
	defer w.close()
	fam := families("quick")
	var lc layerCase
	lc.Shape = 3
	lc.Srcs[srcDef] = &fam[srcDef][12]
	lc.Srcs[srcF1] = &fam[srcF1][14]
	lc.Srcs[srcSet] = &fam[srcSet][10]
	b.ResetTimer()
	for i := 0; i < b.N; i++ {
		if f, _ := execLayer(w, lc); len(f) > 0 {
			b.Fatal(f)
		}
	}
}

// TestSpaceSize prints the size of the layering space per tier (go test -v -run SpaceSize).
func TestSpaceSize(t *testing.T) {
	count := func(fam [nSrc][]srcOpt, kmin, kmax int) (tuples, evals int64) {
		for k := kmin; k <= kmax; k++ {
			for _, sub := range subsets(nSrc, k) {
				n := int64(1)
				hasPar := false
				for _, s := range sub {
					n *= int64(len(fam[s]))
					hasPar = hasPar || s == srcPar
				}
				shapes := int64(3)
				if hasPar || k >= 3 {
					shapes = 2
				}
				tuples += n
				evals += n * shapes
			}
		}
		return
	}
	for _, lv := range []string{"core", "quick", "thorough"} {
		t.Logf("family %s: %d trees", lv, len(baseFamily(lv)))
	}
	a, b := count(families("quick"), 0, 3)
	t.Logf("quick: tuples=%d evals=%d", a, b)
	a, b = count(families("thorough"), 0, 3)
	t.Logf("thorough <=3 sources: tuples=%d evals=%d", a, b)
	a, b = count(families("core"), 4, 4)
	t.Logf("thorough 4 sources (core family): tuples=%d evals=%d", a, b)
}
