package c04

// Indexed paths (list[i]=..., list[i].key=...) of the --set family applied
// through Options.MergeValues onto a list that a LOWER layer defined: the
// expression changes that one element in place; the other elements stay.
// Reference: setAt of ref.go applied to the fold of the lower layers.

import (
	"encoding/json"
	"fmt"
	"strconv"
	"strings"

	"sigs.k8s.io/yaml"

	chart "helm.sh/helm/v4/pkg/chart/v2"
	chartutil "helm.sh/helm/v4/pkg/chart/v2/util"
	"helm.sh/helm/v4/pkg/cli/values"
	"helm.sh/helm/v4/pkg/getter"

	"verif/harness/internal/core"
)

// idxCase: Lower defines the list (srcDef, srcF1, srcJSON, srcSet, srcStr, or -1: nobody),
// Higher (srcJSON key=json, srcSet, srcStr, srcFile, srcLit) addresses it with an indexed path.
// When Lower == Higher the same flag is given twice, in that order.
type idxCase struct {
	Lower        int    `json:"lower"`
	LowerVariant int    `json:"lower_variant,omitempty"` // srcJSON: 0 object, 1 key=json
	ListKind     string `json:"list"`                    // scalars | maps
	Nested       bool   `json:"nested,omitempty"`        // the list lives at b.a instead of a
	Higher       int    `json:"higher"`
	Op           string `json:"op"`
}

type idxOp struct {
	name, class string
	suffix      []seg
}

var idxOps = []idxOp{
	{"a[0]=", "replace-element", []seg{{Idx: 0, IsIdx: true}}},
	{"a[1]=", "replace-element", []seg{{Idx: 1, IsIdx: true}}},
	{"a[2]=", "append-at-len", []seg{{Idx: 2, IsIdx: true}}},
	{"a[3]=", "beyond-len", []seg{{Idx: 3, IsIdx: true}}},
	{"a[1].k=", "key-inside-element", []seg{{Idx: 1, IsIdx: true}, {Key: "k"}}},
	{"a[0].n=", "key-inside-element", []seg{{Idx: 0, IsIdx: true}, {Key: "n"}}},
	{"a[2].k=", "append-at-len", []seg{{Idx: 2, IsIdx: true}, {Key: "k"}}},
}

func (ic idxCase) lowerName() string {
	switch {
	case ic.Lower < 0:
		return "none"
	case ic.Lower == srcJSON && ic.LowerVariant == 1:
		return "set-json-kv"
	}
	return srcNames[ic.Lower]
}

func (ic idxCase) String() string {
	at := "a"
	if ic.Nested {
		at = "b.a"
	}
	return fmt.Sprintf("list of %s at %s defined by %s, then --%s %s%s<value>", ic.ListKind, at, ic.lowerName(), srcNames[ic.Higher], map[bool]string{true: "b.", false: ""}[ic.Nested], ic.Op)
}

func (ic idxCase) op() idxOp {
	for _, o := range idxOps {
		if o.name == ic.Op {
			return o
		}
	}
	panic(ic.Op)
}

func (ic idxCase) lowerDoc() mp {
	var l []any
	if ic.ListKind == "scalars" {
		l = []any{"l_p", "l_q"}
	} else {
		l = []any{mp{"k": "l_k0", "m": "l_m0"}, mp{"k": "l_k1"}}
	}
	if ic.Nested {
		return mp{"b": mp{"a": l}, "z": "keep"}
	}
	return mp{"a": l, "z": "keep"}
}

// build gives the real Options, the chart defaults and the expected user values.
func (ic idxCase) build(w *work) (values.Options, mp, mp, bool) {
	var o values.Options
	var def mp
	user := mp{}
	prefix := ""
	if ic.Nested {
		prefix = "b."
	}
	doc := ic.lowerDoc()
	switch ic.Lower {
	case -1:
	case srcDef:
		def = doc
	case srcF1:
		b, _ := yaml.Marshal(doc)
		o.ValueFiles = append(o.ValueFiles, w.file("idx|"+string(b), func() []byte { return b }))
		user = doc
	case srcJSON:
		if ic.LowerVariant == 0 {
			b, _ := json.Marshal(doc)
			o.JSONValues = append(o.JSONValues, string(b))
		} else {
			var lst any = doc["a"]
			if ic.Nested {
				lst = doc["b"].(mp)["a"]
			}
			b, _ := json.Marshal(lst)
			o.JSONValues = append(o.JSONValues, prefix+"a="+string(b)+`,z="keep"`)
		}
		user = doc
	case srcSet, srcStr:
		e := prefix + "a={l_p,l_q}"
		if ic.ListKind == "maps" {
			e = prefix + "a[0].k=l_k0," + prefix + "a[0].m=l_m0," + prefix + "a[1].k=l_k1"
		}
		e += ",z=keep"
		if ic.Lower == srcSet {
			o.Values = append(o.Values, e)
		} else {
			o.StringValues = append(o.StringValues, e)
		}
		user = doc
	}
	text := "h_" + srcTags[ic.Higher]
	val := text
	switch ic.Higher {
	case srcJSON:
		val = strconv.Quote(text)
	case srcFile:
		val = w.file("content|"+text, func() []byte { return []byte(text) })
	}
	e := prefix + ic.Op + val
	switch ic.Higher {
	case srcJSON:
		o.JSONValues = append(o.JSONValues, e)
	case srcSet:
		o.Values = append(o.Values, e)
	case srcStr:
		o.StringValues = append(o.StringValues, e)
	case srcFile:
		o.FileValues = append(o.FileValues, e)
	case srcLit:
		o.LiteralValues = append(o.LiteralValues, e)
	}
	var path []seg
	if ic.Nested {
		path = append(path, seg{Key: "b"})
	}
	path = append(append(path, seg{Key: "a"}), ic.op().suffix...)
	want, conflict := setAt(deepCopy(user), true, path, text)
	return o, def, want.(mp), conflict
}

func execIndexed(w *work, ic idxCase) (*lfail, string) {
	opts, def, want, conflict := ic.build(w)
	var user mp
	var err error
	if p := guard(func() { user, err = opts.MergeValues(getter.Providers{}) }); p != nil {
		return &lfail{"panic", fmt.Sprintf("Options.MergeValues panics (%v): %s", p, ic)}, "panic"
	}
	if err != nil {
		if conflict {
			return nil, "rejected:path-through-value-of-other-kind"
		}
		return &lfail{"unexpected-error", fmt.Sprintf("Options.MergeValues fails (%s): %s", firstLine(err.Error()), ic)}, "error"
	}
	g, wn := norm(user, true), norm(want, true)
	if canon(g) != canon(wn) {
		p, gk, wk, _ := firstDiff(g, wn, "")
		return &lfail{"merge/" + gk + "-for-" + wk, fmt.Sprintf("%s: Options.MergeValues gives %s, changing exactly the named element gives %s (first difference at %q)", ic, show(user), show(want), p)}, "wrong"
	}
	// through rendering: the user's list replaces the chart's list as a whole
	ch := &chart.Chart{Metadata: &chart.Metadata{Name: "root", Version: "0.1.0", APIVersion: "v2"}, Values: def}
	var top chartutil.Values
	if p := guard(func() {
		top, err = chartutil.ToRenderValues(ch, user, chartutil.ReleaseOptions{Name: "r", Namespace: "ns", Revision: 1, IsInstall: true}, nil)
	}); p != nil || err != nil {
		return &lfail{"render/unexpected-error", fmt.Sprintf("ToRenderValues fails (%v %v): %s", p, err, ic)}, "error"
	}
	vals, _ := asMap(top["Values"])
	wantR := norm(fill(want, def), true)
	if gr := norm(vals, true); canon(gr) != canon(wantR) {
		p, gk, wk, _ := firstDiff(gr, wantR, "")
		return &lfail{"render/" + gk + "-for-" + wk, fmt.Sprintf("%s: templates see %s, expected %s (first difference at %q)", ic, canon(gr), canon(wantR), p)}, "wrong"
	}
	if conflict {
		return nil, "ok:replaced-element-of-other-kind"
	}
	return nil, "ok"
}

// indexedKey names the failure class, the flag and the kind of indexed access;
// which lower layer defined the list is in the message, not in the key.
func indexedKey(ic idxCase, f *lfail) string {
	return core.SanitizeKey("indexed/" + f.Class + "/higher=" + srcNames[ic.Higher] + "/op=" + ic.op().class)
}

func runIndexed(c *core.Ctx, w *work) {
	type low struct{ src, variant int }
	lowers := []low{{-1, 0}, {srcDef, 0}, {srcF1, 0}, {srcJSON, 0}, {srcJSON, 1}, {srcSet, 0}, {srcStr, 0}}
	highers := []int{srcJSON, srcSet, srcStr, srcFile, srcLit}
	seen := map[string]int{}
	n, samples := 0, 0
	for _, lo := range lowers {
		for _, hi := range highers {
			if lo.src > hi {
				continue // the list must come from a layer of lower (or the same) precedence
			}
			for _, kind := range []string{"scalars", "maps"} {
				for _, nested := range []bool{false, true} {
					for _, op := range idxOps {
						if !c.NextMine() {
							continue
						}
						ic := idxCase{Lower: lo.src, LowerVariant: lo.variant, ListKind: kind, Nested: nested, Higher: hi, Op: op.name}
						n++
						c.Eval(1)
						c.Distinct("indexed|" + ic.String())
						f, outcome := execIndexed(w, ic)
						c.Outcome("indexed-" + srcNames[hi] + ":" + outcome)
						if f == nil {
							if strings.HasPrefix(outcome, "ok") && lo.src >= 0 {
								c.Floor("indexed:" + op.class + "-in-lower-layer-list")
								if hi == srcFile {
									c.Floor("indexed:set-file-into-lower-layer-list")
								}
							}
							if samples < 2 && outcome == "ok" && lo.src == srcF1 && hi == srcFile && kind == "maps" && op.class == "key-inside-element" {
								samples++
								c.Sample(map[string]any{"part": "indexed-paths", "case": ic.String(), "helm_agrees": true})
							}
							continue
						}
						k := indexedKey(ic, f)
						seen[k]++
						if seen[k] > 1 {
							c.Count("violations_raw", 1)
							c.Count("failing_cases_not_minimised_same_class", 1)
							continue // enumeration is simplest first
						}
						c.Violate(prop, k, f.What, replayData{Mode: "indexed", Class: f.Class, Indexed: &ic})
					}
				}
			}
		}
	}
	c.Bound("indexed_paths", "7 lower layers (none, defaults, -f, --set-json object / key=json, --set, --set-string) x 5 flags x {scalars, maps} x {a, b.a} x 7 indexed expressions, lower precedence <= higher")
	c.Count("indexed_cases", int64(n))
}
