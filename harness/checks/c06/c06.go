// Package c06: dry-run and template never change the cluster or the release
// history. Exhaustive product of operation x dry-run spelling x every subset
// of the operation's boolean flags x chart x pre-existing history x storage
// driver, each run through the real action code against the simulated API
// server; the oracle reads the request log and compares the world before and
// after.
package c06

import (
	"encoding/json"
	"fmt"
	"math/bits"
	"sort"
	"strings"

	rspb "helm.sh/helm/v4/pkg/release/v1"

	"verif/harness/internal/core"
	"verif/harness/internal/hx"
	"verif/harness/internal/sim"
)

const prop = "C06"

// relName is the release every operation works on; it is the name `helm
// template` uses, so that template runs meet the pre-existing history too.
const relName = "release-name"

func init() {
	core.Register(&core.Check{
		ID:    prop,
		Level: "exploration",
		Rule: "full product {install, upgrade, rollback, uninstall, template} x dry-run spelling (install/upgrade: DryRun | dry-run=client | server | true; rollback/uninstall: DryRun; " +
			"template: ClientOnly yes/no x DryRun + dry-run in {unset,true,client,server,none,false}) x every subset of the operation's boolean flags (2^11 install/upgrade/template, 2^6 rollback, 2^3 uninstall) " +
			"x 11 charts (incl. hooks-only = empty manifest, renders-nothing, unknown kind = Build fails) x 6 pre-existing histories (built by real operations, failed/pending by an injected reject / process death) x storage driver; thorough = full product with the driver assigned per (chart, history) by a Latin pattern (rollback/uninstall: all 3 drivers), " +
			"quick = full flag-subset product on a covering array (verified at run time: all value pairs of (operation+spelling, chart, history, driver) and all (operation, chart, history) triples); every case runs the real action on a clone of the world. " +
			"distinct = case tuples whose operation reached the point where a non-dry run would start writing (returned without error)",
		Run:    run,
		Replay: replay,
		Assumptions: []string{
			"simulated API server (no admission / defaulting); Capabilities are preset so cluster dry runs do not perform API discovery (discovery is read-only)",
			"the only persistent effects observable are HTTP requests to the simulated server and calls to the storage driver; files written by --output-dir are out of scope (OutputDir is never set)",
			"the `lookup` chart's API discovery request (GET /api/v1) is answered by a wrapper in this check and logged as a cluster read",
			"flags WaitStrategy / Timeout / Description / Labels / values are held constant",
			"ClientOnly with dry-run=server|none|false is Helm's documented way to let `lookup` reach the cluster: classified as not client-only (reads allowed, writes not)",
			"memory driver: the pending-upgrade history is the crashed upgrade with the record's status put back to pending-upgrade (driver.Memory stores the caller's object, so the in-process failure marking reaches the record although the process died)",
		},
		RequiredFloors: requiredFloors,
	})
}

var requiredFloors = []string{
	"install-dryrun-rendered-manifest", "upgrade-dryrun-ok-on-deployed", "rollback-dryrun-ok", "uninstall-dryrun-ok",
	"template-client-only-ok-empty-log", "template-server-lookup-read-ok", "cluster-dryrun-issued-reads", "hooks-rendered", "crds-included",
	"secret-hidden", "postrenderer-invoked", "subchart-rendered", "notes-rendered",
	"err:pending", "err:no-deployed", "err:not-found",
	"hooks-only-dryrun-ok-empty-manifest", "renders-nothing-dryrun-ok", "unknown-kind-build-rejected:install", "unknown-kind-build-rejected:template", "unknown-kind-build-rejected:upgrade",
	"empty-manifest-revision-in-history",
	"control-wrote:install", "control-wrote:upgrade", "control-wrote:rollback", "control-wrote:uninstall", "control-wrote:record", "control-wrote:store",
	"control-cluster-write:install", "control-cluster-write:upgrade", "control-cluster-write:rollback", "control-cluster-write:uninstall",
	"hist:deployed", "hist:deployed+failed", "hist:pending-upgrade", "hist:uninstalled-kept", "hist:superseded+deployed",
}

// ---------- the dimensions ----------

type spelling struct {
	Name       string
	DryRun     bool
	Option     string
	ClientOnly bool
}

// clientOnlyRender reports whether the spelling is client-only rendering in
// the sense of the property's second sentence: ClientOnly and no request for
// cluster access (dry-run=server / none / false ask Helm to reach the cluster
// for `lookup`).
func (s spelling) clientOnlyRender() bool {
	return s.ClientOnly && (s.Option == "" || s.Option == "client" || s.Option == "true")
}

var (
	spellInstall = []spelling{{Name: "DryRun", DryRun: true}, {Name: "dry-run=client", Option: "client"}, {Name: "dry-run=server", Option: "server"}, {Name: "dry-run=true", Option: "true"}}
	spellSimple  = []spelling{{Name: "DryRun", DryRun: true}}
	spellTmpl    = func() []spelling {
		var out []spelling
		for _, co := range []bool{true, false} {
			for _, o := range []string{"", "true", "client", "server", "none", "false"} {
				n := "validate,DryRun"
				if co {
					n = "client-only,DryRun"
				}
				if o != "" {
					n += ",dry-run=" + o
				}
				out = append(out, spelling{Name: n, DryRun: true, Option: o, ClientOnly: co})
			}
		}
		return out
	}()
)

type kindDef struct {
	Kind   string
	Spells []spelling
	Flags  []string
}

var kinds = []kindDef{
	{"uninstall", spellSimple, []string{"KeepHistory", "DisableHooks", "IgnoreNotFound"}},
	{"rollback", spellSimple, []string{"Force", "Recreate", "CleanupOnFail", "DisableHooks", "MaxHistory", "ToRev1"}},
	{"install", spellInstall, []string{"Atomic", "CreateNamespace", "Replace", "DisableHooks", "SkipCRDs", "IncludeCRDs", "TakeOwnership", "Force", "WaitForJobs", "SubNotes", "HideSecret"}},
	{"upgrade", spellInstall, []string{"Atomic", "CleanupOnFail", "Force", "ResetValues", "ReuseValues", "Recreate", "MaxHistory", "DisableHooks", "SubNotes", "HideSecret", "TakeOwnership"}},
	// template = install with DryRun, Replace, ReleaseName "release-name" and ClientOnly = !--validate (pkg/cmd/template.go)
	{"template", spellTmpl, []string{"Atomic", "CreateNamespace", "DisableHooks", "SkipCRDs", "IncludeCRDs", "TakeOwnership", "Force", "WaitForJobs", "SubNotes", "HideSecret", "IsUpgrade"}},
}

func kindOf(k string) *kindDef {
	for i := range kinds {
		if kinds[i].Kind == k {
			return &kinds[i]
		}
	}
	return nil
}

var setFlag = map[string]func(o *hx.Op){
	"Atomic":          func(o *hx.Op) { o.Atomic = true },
	"CreateNamespace": func(o *hx.Op) { o.CreateNamespace = true },
	"Replace":         func(o *hx.Op) { o.Replace = true },
	"DisableHooks":    func(o *hx.Op) { o.DisableHooks = true },
	"SkipCRDs":        func(o *hx.Op) { o.SkipCRDs = true },
	"IncludeCRDs":     func(o *hx.Op) { o.IncludeCRDs = true },
	"TakeOwnership":   func(o *hx.Op) { o.TakeOwnership = true },
	"Force":           func(o *hx.Op) { o.Force = true },
	"WaitForJobs":     func(o *hx.Op) { o.WaitForJobs = true },
	"SubNotes":        func(o *hx.Op) { o.SubNotes = true },
	"HideSecret":      func(o *hx.Op) { o.HideSecret = true },
	"IsUpgrade":       func(o *hx.Op) { o.IsUpgrade = true },
	"CleanupOnFail":   func(o *hx.Op) { o.CleanupOnFail = true },
	"ResetValues":     func(o *hx.Op) { o.ResetValues = true },
	"ReuseValues":     func(o *hx.Op) { o.ReuseValues = true },
	"Recreate":        func(o *hx.Op) { o.Recreate = true },
	"MaxHistory":      func(o *hx.Op) { o.MaxHistory = 1 },
	"ToRev1":          func(o *hx.Op) { o.Version = 1 },
	"KeepHistory":     func(o *hx.Op) { o.KeepHistory = true },
	"IgnoreNotFound":  func(o *hx.Op) { o.IgnoreNotFound = true },
}

// chartDef: V1 is what the history was built from, V2 what the operation
// under test is given (so that a real upgrade would have something to do).
type chartDef struct {
	Name   string
	V1, V2 *hx.ChartSpec
	PR     bool
	// HistUp / HistFail: the charts of the successful / faulted upgrade that
	// build the histories (nil = V2).
	HistUp, HistFail *hx.ChartSpec
}

func (cd *chartDef) histUp() *hx.ChartSpec {
	if cd.HistUp != nil {
		return cd.HistUp
	}
	return cd.V2
}

func (cd *chartDef) histFail() *hx.ChartSpec {
	if cd.HistFail != nil {
		return cd.HistFail
	}
	return cd.V2
}

var allHooks = []hx.HookSpec{
	{Name: "hpre", Kind: "ConfigMap", Events: []string{"pre-install", "pre-upgrade", "pre-rollback", "pre-delete"}, Weight: 0},
	{Name: "hpost", Kind: "Job", Events: []string{"post-install", "post-upgrade", "post-rollback", "post-delete"}, Weight: 1, Policies: []string{"hook-succeeded"}},
	{Name: "htest", Kind: "ConfigMap", Events: []string{"test"}, Weight: 0},
}

const lookupTpl = "apiVersion: v1\nkind: ConfigMap\nmetadata:\n  name: lk\ndata:\n  found: {{ (lookup \"v1\" \"ConfigMap\" \"default\" \"a\") | len | quote }}\n"

const nothingTpl = "{{- if .Values.never }}\napiVersion: v1\nkind: ConfigMap\nmetadata:\n  name: never\n{{- end }}\n"

const unknownKindTpl = "apiVersion: nope.example.verif/v1\nkind: Nope\nmetadata:\n  name: nope\nspec:\n  x: 1\n"

func mkChart(version string, variant int, mod func(*hx.ChartSpec)) *hx.ChartSpec {
	c := &hx.ChartSpec{Name: "c", Version: version, Resources: []hx.ResSpec{
		{Kind: "ConfigMap", Name: "a", Variant: variant}, {Kind: "Service", Name: "s", Variant: variant}, {Kind: "Secret", Name: "x", Variant: variant}}}
	if mod != nil {
		mod(c)
	}
	return c
}

func mkDef(name string, pr bool, mod func(*hx.ChartSpec)) chartDef {
	return chartDef{Name: name, V1: mkChart("1", 1, mod), V2: mkChart("2", 2, mod), PR: pr}
}

func withSub(c *hx.ChartSpec) {
	c.Subcharts = []*hx.ChartSpec{{Name: "sub", Version: "1", Resources: []hx.ResSpec{{Kind: "ConfigMap", Name: "b", Variant: 1}}, Notes: "sub notes of {{ .Release.Name }}\n"}}
}

var charts = []chartDef{
	mkDef("plain", false, nil),
	mkDef("hooks", false, func(c *hx.ChartSpec) { c.Hooks = allHooks }),
	mkDef("crds", false, func(c *hx.ChartSpec) { c.CRDs = true }),
	mkDef("notes", false, func(c *hx.ChartSpec) { c.Notes = "notes of {{ .Release.Name }} rev {{ .Release.Revision }}\n" }),
	mkDef("subchart", false, withSub),
	mkDef("postrender", true, nil),
	mkDef("lookup", false, func(c *hx.ChartSpec) { c.Extra = map[string]string{"templates/lookup.yaml": lookupTpl} }),
	// hooks-only: every template is a hook (plus NOTES.txt), so the rendered
	// manifest is EMPTY; the history is built from the same shape.
	{Name: "hooks-only",
		V1: &hx.ChartSpec{Name: "c", Version: "1", Hooks: allHooks, Notes: "notes of {{ .Release.Name }}\n"},
		V2: &hx.ChartSpec{Name: "c", Version: "2", Hooks: allHooks, Notes: "notes of {{ .Release.Name }} v2\n"}},
	// renders-nothing: the only template renders to the empty string; the
	// history starts from the plain chart, so revisions with an empty manifest
	// appear through the real upgrade (superseded+deployed).
	{Name: "renders-nothing", V1: mkChart("1", 1, nil), HistFail: mkChart("2", 2, nil),
		V2: &hx.ChartSpec{Name: "c", Version: "2", Extra: map[string]string{"templates/none.yaml": nothingTpl}}},
	// unknown-kind: renders an object of a kind the cluster does not know, so
	// KubeClient.Build fails; the history holds the plain chart.
	{Name: "unknown-kind", V1: mkChart("1", 1, nil), HistUp: mkChart("2", 2, nil), HistFail: mkChart("2", 2, nil),
		V2: &hx.ChartSpec{Name: "c", Version: "2", Resources: []hx.ResSpec{{Kind: "ConfigMap", Name: "a", Variant: 2}}, Extra: map[string]string{"templates/nope.yaml": unknownKindTpl}}},
	mkDef("all", true, func(c *hx.ChartSpec) {
		c.Hooks = allHooks
		c.CRDs = true
		c.Notes = "notes of {{ .Release.Name }}\n"
		withSub(c)
		c.Extra = map[string]string{"templates/lookup.yaml": lookupTpl}
	}),
}

func chartOf(name string) *chartDef {
	for i := range charts {
		if charts[i].Name == name {
			return &charts[i]
		}
	}
	return nil
}

// histories, simplest first; want is the status vector the real operations must have produced.
type histDef struct {
	Name string
	Want string
}

var histories = []histDef{
	{"empty", ""},
	{"deployed", "1:deployed"},
	{"superseded+deployed", "1:superseded 2:deployed"},
	{"deployed+failed", "1:deployed 2:failed"},
	{"pending-upgrade", "1:deployed 2:pending-upgrade"},
	{"uninstalled-kept", "1:uninstalled"},
}

func indexOf(xs []string, s string) int {
	for i, x := range xs {
		if x == s {
			return i
		}
	}
	return -1
}

// ---------- a case ----------

// Case is one member of the product (JSON = replay data).
type Case struct {
	Driver   string   `json:"driver"`
	Chart    string   `json:"chart"`
	History  string   `json:"history"`
	Kind     string   `json:"kind"`
	Spelling string   `json:"spelling"`
	Flags    []string `json:"flags"`
}

func (cs Case) String() string {
	return fmt.Sprintf("%s [%s] flags=%s chart=%s history=%s driver=%s", cs.Kind, cs.Spelling, strings.Join(cs.Flags, "+"), cs.Chart, cs.History, cs.Driver)
}

func (cs Case) spell() (spelling, bool) {
	k := kindOf(cs.Kind)
	if k == nil {
		return spelling{}, false
	}
	for _, s := range k.Spells {
		if s.Name == cs.Spelling {
			return s, true
		}
	}
	return spelling{}, false
}

// op builds the operation of a case.
func (cs Case) op() (hx.Op, error) {
	cd := chartOf(cs.Chart)
	sp, ok := cs.spell()
	if cd == nil || !ok {
		return hx.Op{}, fmt.Errorf("bad case %v", cs)
	}
	o := hx.Op{Kind: cs.Kind, Release: relName, DryRun: sp.DryRun, DryRunOption: sp.Option, ClientOnly: sp.ClientOnly}
	switch cs.Kind {
	case "install", "upgrade":
		o.Chart, o.PostRender = cd.V2, cd.PR
	case "template":
		o.Kind = "install"
		o.Chart, o.PostRender = cd.V2, cd.PR
		o.Replace = true
	}
	for _, f := range cs.Flags {
		fn := setFlag[f]
		if fn == nil || indexOf(kindOf(cs.Kind).Flags, f) < 0 {
			return hx.Op{}, fmt.Errorf("flag %q does not belong to %s", f, cs.Kind)
		}
		fn(&o)
	}
	return o, nil
}

// ---------- worlds ----------

type base struct {
	w  *hx.World
	fp string
}

var (
	worldCache = map[string]*base{}
	worldErr   = map[string]error{}
)

// baseWorld builds (once per process) the world with the given history by
// running real operations; failed / pending revisions come from a rejected /
// crashed upgrade, as in checks/c01.
func baseWorld(driver, chart, history string) (*base, error) {
	key := driver + "|" + chart + "|" + history
	if b, ok := worldCache[key]; ok {
		return b, nil
	}
	if e, ok := worldErr[key]; ok {
		return nil, e
	}
	b, err := buildWorld(driver, chart, history)
	if err != nil {
		worldErr[key] = err
		return nil, err
	}
	worldCache[key] = b
	return b, nil
}

func buildWorld(driver, chart, history string) (*base, error) {
	cd := chartOf(chart)
	if cd == nil {
		return nil, fmt.Errorf("unknown chart %q", chart)
	}
	w := hx.NewWorld(driver)
	must := func(op hx.Op, f *sim.Fault, wantFail bool) error {
		op.Release, op.PostRender = relName, cd.PR
		r := w.Exec(op, f)
		if r.Failed != wantFail && f == nil || (f != nil && !r.FaultHit) {
			return fmt.Errorf("history %s/%s/%s: %s fault=%v: failed=%v err=%q hit=%v", driver, chart, history, op.Kind, f, r.Failed, r.Err, r.FaultHit)
		}
		return nil
	}
	firstMutating := func(op hx.Op) (*sim.Call, error) {
		op.Release, op.PostRender = relName, cd.PR
		probe := w.Clone()
		r := probe.Exec(op, nil)
		for _, c := range r.Calls {
			if c.Class == "cluster" && c.Mutating {
				cc := c
				return &cc, nil
			}
		}
		return nil, fmt.Errorf("history %s/%s/%s: no mutating cluster call in %s", driver, chart, history, op.Kind)
	}
	var err error
	want := ""
	for _, h := range histories {
		if h.Name == history {
			want = h.Want
		}
	}
	if history != "empty" {
		err = must(hx.Op{Kind: "install", Chart: cd.V1}, nil, false)
	}
	if err == nil {
		switch history {
		case "empty", "deployed":
		case "superseded+deployed":
			err = must(hx.Op{Kind: "upgrade", Chart: cd.histUp()}, nil, false)
		case "deployed+failed", "pending-upgrade":
			up := hx.Op{Kind: "upgrade", Chart: cd.histFail()}
			var call *sim.Call
			if call, err = firstMutating(up); err == nil {
				kind := "reject"
				if history == "pending-upgrade" {
					kind = "crash"
				}
				err = must(up, &sim.Fault{Label: call.Label, Occurrence: call.Occurrence, Kind: kind}, true)
			}
		case "uninstalled-kept":
			err = must(hx.Op{Kind: "uninstall", KeepHistory: true}, nil, false)
		default:
			err = fmt.Errorf("unknown history %q", history)
		}
	}
	if err != nil {
		return nil, err
	}
	if history == "pending-upgrade" && driver == "memory" {
		// driver.Memory stores the caller's *Release, so the crashed upgrade's
		// in-process "mark as failed" reached the record although its storage
		// write was lost with the process; put back what a process death leaves.
		for _, r := range w.Mem {
			if r.Version == 2 && r.Info.Status == rspb.StatusFailed {
				r.Info.Status, r.Info.Description = rspb.StatusPendingUpgrade, "Preparing upgrade"
			}
		}
	}
	if got := hx.StatusVector(w.History(relName)); got != want {
		return nil, fmt.Errorf("history %s/%s/%s: ledger is %q, wanted %q", driver, chart, history, got, want)
	}
	return &base{w: w, fp: fingerprint(w)}, nil
}

// fingerprint is the complete persistent state: every object of the sim byte
// for byte (release records of the Secret/ConfigMap drivers included) plus the
// records of the memory driver. Equal fingerprints imply equal World.Canon()
// (Canon is a function of exactly these); the converse is not needed.
func fingerprint(w *hx.World) string {
	var sb strings.Builder
	for _, p := range w.Sim.Paths() {
		b, _ := w.Sim.Get(p)
		fmt.Fprintf(&sb, "%s %d %x\n", p, len(b), core.Hash64(string(b)))
	}
	for _, r := range w.Mem {
		s, _ := json.Marshal(hx.Summarise(r))
		desc, notes := "", ""
		if r.Info != nil {
			desc, notes = r.Info.Description, r.Info.Notes
		}
		lb, _ := json.Marshal(r.Labels)
		fmt.Fprintf(&sb, "mem %s %s %q %x %s\n", r.Name, s, desc, core.Hash64(notes), lb)
	}
	return sb.String()
}

// ---------- oracle ----------

type finding struct {
	Clause string // mutating-request | storage-write | state-changed | client-only-request
	Label  string // normalised label of the first offending request ("" for state-changed)
	Detail string
}

// normLabel reduces a request label to verb + resource (names, revisions and
// the storage backend do not distinguish defects).
func normLabel(e sim.Entry) string {
	l := e.Label
	if e.Class == "record-write" {
		return "record:" + map[string]string{"POST": "Create", "PUT": "Update", "DELETE": "Delete", "PATCH": "Patch"}[e.Verb]
	}
	if e.Class == "store-write" {
		return "record:" + strings.TrimPrefix(strings.Fields(l)[0], "store:")
	}
	verb, rest, ok := strings.Cut(l, " ")
	if !ok || strings.HasPrefix(rest, "/") || strings.HasPrefix(l, "wait:") {
		return l // "GET /version", "GET /api/v1", waiter calls
	}
	if i := strings.IndexAny(rest, "/@"); i > 0 {
		rest = rest[:i]
	}
	return verb + " " + rest
}

// judge is the whole oracle: it looks only at the request log of the
// operation and at the persistent state before and after it.
func judge(sp spelling, log []sim.Entry, preFP, postFP string, canonDiff func() string) []finding {
	var out []finding
	var mut, store *sim.Entry
	for i := range log {
		e := &log[i]
		if store == nil && (e.Class == "store-write" || e.Class == "record-write") {
			store = e
			continue
		}
		if mut == nil && e.Mutating() && e.Class != "record-write" {
			mut = e
		}
	}
	if mut != nil {
		out = append(out, finding{"mutating-request", normLabel(*mut), fmt.Sprintf("request %q (HTTP %d, applied=%v) was sent to the cluster", mut.Label, mut.Code, mut.Applied)})
	}
	if store != nil {
		out = append(out, finding{"storage-write", normLabel(*store), fmt.Sprintf("release storage write %q (applied=%v)", store.Label, store.Applied)})
	}
	if preFP != postFP {
		out = append(out, finding{"state-changed", "", "cluster / release storage content differs after the operation: " + canonDiff()})
	}
	if sp.clientOnlyRender() && len(log) > 0 {
		out = append(out, finding{"client-only-request", normLabel(log[0]), fmt.Sprintf("client-only rendering sent %d request(s), first %q", len(log), log[0].Label)})
	}
	return out
}

func firstDiff(a, b string) string {
	la, lb := strings.Split(a, "\n"), strings.Split(b, "\n")
	inA := map[string]bool{}
	for _, l := range la {
		inA[l] = true
	}
	inB := map[string]bool{}
	for _, l := range lb {
		inB[l] = true
	}
	var d []string
	for _, l := range la {
		if !inB[l] {
			d = append(d, "-"+trunc(l, 90))
		}
	}
	for _, l := range lb {
		if !inA[l] {
			d = append(d, "+"+trunc(l, 90))
		}
	}
	if len(d) > 4 {
		d = append(d[:4], fmt.Sprintf("… %d more", len(d)-4))
	}
	return strings.Join(d, " ; ")
}

func trunc(s string, n int) string {
	if len(s) > n {
		return s[:n] + "…"
	}
	return s
}

type outcome struct {
	res      hx.Result
	prCalls  int
	findings []finding
}

// runCase executes one case on a clone of its base world and judges it.
func runCase(cs Case) (*outcome, error) {
	b, err := baseWorld(cs.Driver, cs.Chart, cs.History)
	if err != nil {
		return nil, err
	}
	op, err := cs.op()
	if err != nil {
		return nil, err
	}
	sp, _ := cs.spell()
	w := b.w.Clone()
	res, pr := execOp(w, op)
	post := fingerprint(w)
	return &outcome{res: res, prCalls: pr, findings: judge(sp, res.Log, b.fp, post, func() string { return firstDiff(b.w.Canon(), w.Canon()) })}, nil
}

func keyOf(cs Case, f finding) string {
	fl := strings.Join(cs.Flags, "+")
	if fl == "" {
		fl = "none"
	}
	return core.SanitizeKey(fmt.Sprintf("%s|%s|%s|flags=%s|chart=%s|history=%s|driver=%s|%s", f.Clause, cs.Kind, cs.Spelling, fl, cs.Chart, cs.History, cs.Driver, strings.ReplaceAll(f.Label, " ", ":")))
}

func has(fs []finding, f finding) bool {
	for _, x := range fs {
		if x.Clause == f.Clause && x.Label == f.Label {
			return true
		}
	}
	return false
}

// minimise moves every dimension of a failing case to the simplest value that
// still shows the same finding (same clause, same kind of request).
func minimise(cs Case, f finding) Case {
	still := func(c Case) bool {
		o, err := runCase(c)
		return err == nil && has(o.findings, f)
	}
	for _, d := range hx.Drivers {
		if d == cs.Driver {
			break
		}
		if c := cs; true {
			c.Driver = d
			if still(c) {
				cs = c
				break
			}
		}
	}
	for _, h := range histories {
		if h.Name == cs.History {
			break
		}
		c := cs
		c.History = h.Name
		if still(c) {
			cs = c
			break
		}
	}
	for _, ch := range charts {
		if ch.Name == cs.Chart {
			break
		}
		c := cs
		c.Chart = ch.Name
		if still(c) {
			cs = c
			break
		}
	}
	for _, s := range kindOf(cs.Kind).Spells {
		if s.Name == cs.Spelling {
			break
		}
		c := cs
		c.Spelling = s.Name
		if still(c) {
			cs = c
			break
		}
	}
	for i := 0; i < len(cs.Flags); {
		c := cs
		c.Flags = append(append([]string{}, cs.Flags[:i]...), cs.Flags[i+1:]...)
		if still(c) {
			cs = c
		} else {
			i++
		}
	}
	return cs
}

// dominated: an already reported minimal case explains this one (same
// finding, every dimension of the minimal case is equal or simpler, its flags
// are a subset).
type minimal struct {
	cs Case
	f  finding
}

func dimIdx(cs Case) [4]int {
	var hi, ci, si int
	for i, h := range histories {
		if h.Name == cs.History {
			hi = i
		}
	}
	for i, c := range charts {
		if c.Name == cs.Chart {
			ci = i
		}
	}
	for i, s := range kindOf(cs.Kind).Spells {
		if s.Name == cs.Spelling {
			si = i
		}
	}
	return [4]int{indexOf(hx.Drivers, cs.Driver), hi, ci, si}
}

func dominated(ms []minimal, cs Case, f finding) bool {
	x := dimIdx(cs)
	for _, m := range ms {
		if m.cs.Kind != cs.Kind || m.f.Clause != f.Clause || m.f.Label != f.Label {
			continue
		}
		y := dimIdx(m.cs)
		ok := true
		for i := range x {
			if y[i] > x[i] {
				ok = false
			}
		}
		for _, fl := range m.cs.Flags {
			if indexOf(cs.Flags, fl) < 0 {
				ok = false
			}
		}
		if ok {
			return true
		}
	}
	return false
}

type replayData struct {
	Case Case   `json:"case"`
	Key  string `json:"key"`
}

func what(cs Case, f finding, o *outcome) string {
	return fmt.Sprintf("%s during %s — %s [result: %s err=%q]", f.Clause, cs, f.Detail, o.res.ErrClass(), trunc(o.res.Err, 120))
}

func replay(c *core.Ctx, data json.RawMessage) []core.Violation {
	var rd replayData
	if err := json.Unmarshal(data, &rd); err != nil {
		return nil
	}
	o, err := runCase(rd.Case)
	if err != nil {
		return nil
	}
	for _, f := range o.findings {
		c.Violate(prop, keyOf(rd.Case, f), what(rd.Case, f, o), rd)
	}
	return core.FilterKey(c.TakeViolations(), rd.Key)
}

// ---------- enumeration ----------

// row is one (operation+spelling, chart, history, driver) tuple; each row
// carries the full flag-subset product.
type row struct {
	k  *kindDef
	sp spelling
	ch string
	hi string
	dr string
}

type opsp struct {
	k  *kindDef
	sp spelling
}

func opSpellings() []opsp {
	var out []opsp
	for i := range kinds {
		for _, s := range kinds[i].Spells {
			out = append(out, opsp{&kinds[i], s})
		}
	}
	return out
}

// rows returns the tuples of a tier, simplest first.
//
// Both tiers: rollback and uninstall (tiny flag sets) run the full product
// including all three drivers. install / upgrade / template:
//   - thorough: the full product operation+spelling x chart x history, the
//     storage driver assigned per (chart, history) by a Latin pattern so that
//     every driver meets every chart, every history and every
//     operation+spelling;
//   - quick: a covering array: every (operation+spelling, chart) pair is
//     present with two histories / drivers that follow a Latin pattern, so
//     that every pair of values of (operation+spelling, chart, history,
//     driver) and every (operation kind, chart, history) triple occurs.
//
// The coverage claims are verified at run time (verifyPairwise, verifyTriples).
func rows(thorough bool) ([]row, string) {
	var out []row
	os := opSpellings()
	nh, nd := len(histories), len(hx.Drivers)
	for _, o := range os {
		if len(o.k.Flags) > 6 {
			continue
		}
		for _, dr := range hx.Drivers {
			for _, h := range histories {
				for _, ch := range charts {
					out = append(out, row{o.k, o.sp, ch.Name, h.Name, dr})
				}
			}
		}
	}
	if thorough {
		for hi, h := range histories {
			for ci, ch := range charts {
				for _, o := range os {
					if len(o.k.Flags) > 6 {
						out = append(out, row{o.k, o.sp, ch.Name, h.Name, hx.Drivers[(ci+hi)%nd]})
					}
				}
			}
		}
		return out, verifyPairwise(out)
	}
	big := 0
	for _, o := range os {
		if len(o.k.Flags) <= 6 {
			continue
		}
		for ci, ch := range charts {
			out = append(out, row{o.k, o.sp, ch.Name, histories[(big+ci)%nh].Name, hx.Drivers[(big+2*ci)%nd]})
			if o.sp.ClientOnly {
				// client-only rendering swaps in a printing client and a private
				// store before it looks at history or driver: one row suffices
				continue
			}
			out = append(out, row{o.k, o.sp, ch.Name, histories[(big+ci+nh/2)%nh].Name, hx.Drivers[(big+2*ci+1)%nd]})
		}
		big++
	}
	if m := verifyTriples(out); m != "" {
		return out, m
	}
	return out, verifyPairwise(out)
}

// verifyTriples checks that every (operation kind, chart, history) triple
// occurs in some row (under at least one spelling).
func verifyTriples(rs []row) string {
	seen := map[string]bool{}
	for _, r := range rs {
		seen[r.k.Kind+"|"+r.ch+"|"+r.hi] = true
	}
	for _, k := range kinds {
		for _, ch := range charts {
			for _, h := range histories {
				if t := k.Kind + "|" + ch.Name + "|" + h.Name; !seen[t] {
					return "triple uncovered: " + t
				}
			}
		}
	}
	return ""
}

// verifyPairwise checks that every pair of values of two different factors
// occurs in some row; returns "" or what is missing.
func verifyPairwise(rs []row) string {
	seen := map[string]bool{}
	for _, r := range rs {
		v := []string{"op:" + r.k.Kind + "/" + r.sp.Name, "chart:" + r.ch, "hist:" + r.hi, "drv:" + r.dr}
		for i := range v {
			for j := i + 1; j < len(v); j++ {
				seen[v[i]+"|"+v[j]] = true
			}
		}
	}
	var f [4][]string
	for _, o := range opSpellings() {
		f[0] = append(f[0], "op:"+o.k.Kind+"/"+o.sp.Name)
	}
	for _, c := range charts {
		f[1] = append(f[1], "chart:"+c.Name)
	}
	for _, h := range histories {
		f[2] = append(f[2], "hist:"+h.Name)
	}
	for _, d := range hx.Drivers {
		f[3] = append(f[3], "drv:"+d)
	}
	var missing []string
	for i := range f {
		for j := i + 1; j < len(f); j++ {
			for _, a := range f[i] {
				for _, b := range f[j] {
					if !seen[a+"|"+b] {
						missing = append(missing, a+"|"+b)
					}
				}
			}
		}
	}
	if len(missing) > 0 {
		return fmt.Sprintf("%d pairs uncovered, e.g. %s", len(missing), missing[0])
	}
	return ""
}

// masks of n bits ordered by number of set flags, then numerically.
func masks(n int) []int {
	out := make([]int, 0, 1<<n)
	for m := 0; m < 1<<n; m++ {
		out = append(out, m)
	}
	sort.SliceStable(out, func(i, j int) bool {
		a, b := bits.OnesCount(uint(out[i])), bits.OnesCount(uint(out[j]))
		if a != b {
			return a < b
		}
		return out[i] < out[j]
	})
	return out
}

func flagsOf(k *kindDef, m int) []string {
	fl := []string{}
	for i, f := range k.Flags {
		if m&(1<<i) != 0 {
			fl = append(fl, f)
		}
	}
	return fl
}

func run(c *core.Ctx) {
	thorough := c.Thorough()
	rs, miss := rows(thorough)
	if miss != "" {
		c.NotExhaustive("pairwise covering array incomplete: %s", miss)
	}
	maskCache := map[int][]int{}
	for _, k := range kinds {
		maskCache[len(k.Flags)] = masks(len(k.Flags))
	}
	c.Bound("operations", "install, upgrade, rollback, uninstall, template")
	c.Bound("spellings", fmt.Sprintf("install/upgrade %d, rollback/uninstall 1, template %d (ClientOnly x dry-run option)", len(spellInstall), len(spellTmpl)))
	c.Bound("flag_subsets", "all: 2^11 install, 2^11 upgrade, 2^11 template, 2^6 rollback (5 flags + target revision), 2^3 uninstall")
	c.Bound("charts", fmt.Sprint(len(charts)))
	c.Bound("histories", fmt.Sprint(len(histories)))
	c.Bound("drivers", fmt.Sprint(len(hx.Drivers)))
	if thorough {
		c.Bound("product", "full: operation+spelling x flag subsets x chart x history; driver per (chart,history) by Latin pattern (all pairs with driver covered); rollback/uninstall full product incl. driver")
	} else {
		c.Bound("product", "full flag subsets on a covering array: all pairs over (operation+spelling, chart, history, driver) + all (operation, chart, history) triples; rollback/uninstall full product incl. driver")
	}
	c.Bound("rows", fmt.Sprint(len(rs)))

	// controls: the same operation without dry run must be seen writing,
	// otherwise the observation channel is blind and the run means nothing.
	controls(c)

	var mins []minimal
	reported := map[string]bool{}
	sampled := map[string]bool{}
	for _, r := range rs {
		if c.Only != "" && c.Only != r.k.Kind {
			continue
		}
		for _, m := range maskCache[len(r.k.Flags)] {
			if !c.NextMine() {
				continue
			}
			cs := Case{Driver: r.dr, Chart: r.ch, History: r.hi, Kind: r.k.Kind, Spelling: r.sp.Name, Flags: flagsOf(r.k, m)}
			o, err := runCase(cs)
			if err != nil {
				if !reported[err.Error()] {
					reported[err.Error()] = true
					c.NotExhaustive("cannot build case %s: %v", cs, err)
				}
				continue
			}
			c.Eval(1)
			cls := o.res.ErrClass()
			if strings.HasPrefix(o.res.Err, "PANIC") {
				cls = "panic"
			}
			c.Outcome(cs.Kind + ":" + cls)
			c.Count("spelling:"+cs.Kind+"/"+cs.Spelling, 1)
			c.Count("driver:"+cs.Driver, 1)
			if !o.res.Failed {
				c.Distinct(cs.String())
			}
			floors(c, cs, r.sp, o)
			if sk := cs.Kind + "/" + r.sp.Name; !o.res.Failed && !sampled[sk] && bits.OnesCount(uint(m)) >= 2 {
				sampled[sk] = true
				c.Sample(map[string]any{"case": cs.String(), "result": cls, "requests": labels(o.res.Log)})
			}
			for _, f := range o.findings {
				if dominated(mins, cs, f) {
					c.Count("violations_explained_by_minimal_case", 1)
					continue
				}
				mc := minimise(cs, f)
				mo, err := runCase(mc)
				if err != nil || !has(mo.findings, f) {
					mc, mo = cs, o
				}
				mf := f
				for _, x := range mo.findings {
					if x.Clause == f.Clause && x.Label == f.Label {
						mf = x // the detail text of the minimised run
					}
				}
				mins = append(mins, minimal{mc, mf})
				key := keyOf(mc, mf)
				c.Violate(prop, key, what(mc, mf, mo), replayData{Case: mc, Key: key})
			}
		}
	}
}

func labels(log []sim.Entry) []string {
	out := []string{}
	for _, e := range log {
		out = append(out, e.Label)
	}
	return out
}

func floors(c *core.Ctx, cs Case, sp spelling, o *outcome) {
	res := o.res
	if res.Failed {
		c.Floor("err:" + res.ErrClass())
		if cs.Chart == "unknown-kind" && strings.Contains(res.Err, "no matches for kind") {
			c.Floor("unknown-kind-build-rejected:" + cs.Kind)
		}
		return
	}
	if res.Release != nil && strings.TrimSpace(res.Release.Manifest) == "" && (cs.Kind == "install" || cs.Kind == "upgrade" || cs.Kind == "template") {
		if cs.Chart == "hooks-only" && len(res.Release.Hooks) >= 3 {
			c.Floor("hooks-only-dryrun-ok-empty-manifest")
		}
		if cs.Chart == "renders-nothing" {
			c.Floor("renders-nothing-dryrun-ok")
		}
	}
	if (cs.Kind == "rollback" || cs.Kind == "uninstall") && (cs.Chart == "hooks-only" || cs.Chart == "renders-nothing" && cs.History == "superseded+deployed") {
		c.Floor("empty-manifest-revision-in-history")
	}
	man := ""
	if res.Release != nil {
		man = res.Release.Manifest
	}
	flag := func(f string) bool { return indexOf(cs.Flags, f) >= 0 }
	switch cs.Kind {
	case "install":
		if strings.Contains(man, "kind: ConfigMap") && strings.Contains(man, "kind: Service") {
			c.Floor("install-dryrun-rendered-manifest")
		}
	case "upgrade":
		if cs.History == "deployed" && strings.Contains(man, "kind: ConfigMap") {
			c.Floor("upgrade-dryrun-ok-on-deployed")
		}
	case "rollback":
		c.Floor("rollback-dryrun-ok")
	case "uninstall":
		if res.Release != nil {
			c.Floor("uninstall-dryrun-ok")
		}
	case "template":
		if sp.clientOnlyRender() && len(res.Log) == 0 && strings.Contains(man, "kind: ConfigMap") {
			c.Floor("template-client-only-ok-empty-log")
		}
		if sp.ClientOnly && sp.Option == "server" && (cs.Chart == "lookup" || cs.Chart == "all") {
			for _, e := range res.Log {
				if e.Verb == "GET" && strings.Contains(e.Path, "/configmaps/a") && strings.Contains(man, `found: "`) {
					c.Floor("template-server-lookup-read-ok")
				}
			}
		}
	}
	if !sp.ClientOnly && len(res.Log) > 1 {
		c.Floor("cluster-dryrun-issued-reads")
	}
	if res.Release != nil && len(res.Release.Hooks) >= 3 {
		c.Floor("hooks-rendered")
	}
	if flag("IncludeCRDs") && strings.Contains(man, "kind: CustomResourceDefinition") {
		c.Floor("crds-included")
	}
	if flag("HideSecret") && strings.Contains(man, "HIDDEN: The Secret output has been suppressed") {
		c.Floor("secret-hidden")
	}
	if o.prCalls > 0 {
		c.Floor("postrenderer-invoked")
	}
	if strings.Contains(man, "name: b\n") {
		c.Floor("subchart-rendered")
	}
	if res.Release != nil && res.Release.Info != nil && strings.Contains(res.Release.Info.Notes, "notes of "+relName) {
		c.Floor("notes-rendered")
	}
}

// controls runs, for every (driver, chart, history), each operation WITHOUT
// dry run and requires that a successful one is seen writing by exactly the
// observations the oracle uses.
func controls(c *core.Ctx) {
	n := int64(0)
	for _, dr := range hx.Drivers {
		for _, h := range histories {
			for _, ch := range charts {
				for _, kind := range []string{"install", "upgrade", "rollback", "uninstall"} {
					n++
					if !c.Mine(n) {
						continue
					}
					b, err := baseWorld(dr, ch.Name, h.Name)
					if err != nil {
						c.NotExhaustive("cannot build world: %v", err)
						continue
					}
					if h.Name != "empty" {
						c.Floor("hist:" + h.Name)
					}
					op := hx.Op{Kind: kind, Release: relName, PostRender: ch.PR}
					if kind == "install" || kind == "upgrade" {
						op.Chart = ch.V2
					}
					if kind == "install" {
						op.Replace = true
					}
					w := b.w.Clone()
					res, _ := execOp(w, op)
					c.Outcome("control:" + kind + ":" + res.ErrClass())
					if res.Failed {
						continue
					}
					fs := judge(spelling{}, res.Log, b.fp, fingerprint(w), func() string { return "" })
					var got []string
					for _, f := range fs {
						got = append(got, f.Clause)
						if f.Clause == "storage-write" {
							if dr == "memory" {
								c.Floor("control-wrote:store")
							} else {
								c.Floor("control-wrote:record")
							}
						}
					}
					sort.Strings(got)
					j := strings.Join(got, ",")
					if strings.Contains(j, "mutating-request") {
						c.Floor("control-cluster-write:" + kind)
					}
					if strings.Contains(j, "state-changed") && strings.Contains(j, "storage-write") {
						c.Floor("control-wrote:" + kind)
					} else {
						c.NotExhaustive("control %s on %s/%s/%s succeeded but the oracle saw only %v: observation channel is blind", kind, dr, ch.Name, h.Name, got)
					}
				}
			}
		}
	}
}
