package c06

import (
	"bytes"
	"fmt"
	"io"
	"net/http"
	"time"

	"k8s.io/client-go/rest"

	"helm.sh/helm/v4/pkg/action"
	chart "helm.sh/helm/v4/pkg/chart/v2"
	chartutil "helm.sh/helm/v4/pkg/chart/v2/util"
	rspb "helm.sh/helm/v4/pkg/release/v1"

	"verif/harness/internal/hx"
	"verif/harness/internal/sim"
)

// countingPR is an identity post-renderer that counts its invocations.
type countingPR struct{ n *int }

func (p countingPR) Run(in *bytes.Buffer) (*bytes.Buffer, error) { *p.n++; return in, nil }

// discoGetter hands Helm's template engine (the `lookup` function) a REST
// config whose transport answers the one discovery request `lookup` needs
// (GET /api/v1, which the sim does not serve) and logs it as a cluster read;
// everything else goes to the sim unchanged.
type discoGetter struct {
	action.RESTClientGetter
	s *sim.Sim
}

func (g discoGetter) ToRESTConfig() (*rest.Config, error) {
	c, err := g.RESTClientGetter.ToRESTConfig()
	if err != nil {
		return nil, err
	}
	c.Transport = discoRT{inner: c.Transport, s: g.s}
	return c, nil
}

type discoRT struct {
	inner http.RoundTripper
	s     *sim.Sim
}

const coreV1Resources = `{"kind":"APIResourceList","apiVersion":"v1","groupVersion":"v1","resources":[` +
	`{"name":"configmaps","singularName":"configmap","namespaced":true,"kind":"ConfigMap","verbs":["create","delete","get","list","patch","update"]},` +
	`{"name":"secrets","singularName":"secret","namespaced":true,"kind":"Secret","verbs":["create","delete","get","list","patch","update"]}]}`

func (t discoRT) RoundTrip(req *http.Request) (*http.Response, error) {
	if req.URL.Path != "/api/v1" {
		return t.inner.RoundTrip(req)
	}
	if req.Body != nil {
		io.Copy(io.Discard, req.Body)
		req.Body.Close()
	}
	code, body := 200, coreV1Resources
	if req.Method != "GET" {
		code, body = 405, `{"kind":"Status","apiVersion":"v1","status":"Failure","code":405}`
	}
	t.s.LogEntry(sim.Entry{Verb: req.Method, Path: req.URL.Path, Label: req.Method + " /api/v1", Class: "cluster", Code: code})
	return &http.Response{StatusCode: code, Status: fmt.Sprintf("%d %s", code, http.StatusText(code)), Proto: "HTTP/1.1", ProtoMajor: 1, ProtoMinor: 1,
		Header: http.Header{"Content-Type": []string{"application/json"}}, Body: io.NopCloser(bytes.NewReader([]byte(body))), ContentLength: int64(len(body)), Request: req}, nil
}

// execOp runs one operation on the world through the real action code. It is
// hx.World.ExecThread (same client, same storage wiring, same field mapping)
// with two additions: the discovery answer above and a counting post-renderer.
func execOp(w *hx.World, op hx.Op) (res hx.Result, prCalls int) {
	w.Sim.BeginOp(nil)
	kc, g := hx.NewKube(w.Sim, 0)
	st, mem := w.NewStorage(0, nil)
	cfg := &action.Configuration{
		RESTClientGetter: discoGetter{RESTClientGetter: g, s: w.Sim},
		KubeClient:       kc,
		Releases:         st,
		Capabilities:     chartutil.DefaultCapabilities.Copy(),
	}
	var ch *chart.Chart
	if op.Chart != nil {
		ch = op.Chart.Build()
	}
	defer func() {
		if p := recover(); p != nil {
			res.Failed = true
			res.Err = fmt.Sprintf("PANIC: %v", p)
		}
		w.FlushMem(mem)
		res.Log = w.Sim.SnapshotLog()
		res.Calls = w.Sim.SnapshotCalls()
	}()
	var err error
	switch op.Kind {
	case "install":
		a := action.NewInstall(cfg)
		a.ReleaseName, a.Namespace = op.Release, hx.Namespace
		a.Atomic, a.Replace, a.DisableHooks, a.Force, a.TakeOwnership = op.Atomic, op.Replace, op.DisableHooks, op.Force, op.TakeOwnership
		a.DryRun, a.DryRunOption, a.ClientOnly = op.DryRun, op.DryRunOption, op.ClientOnly
		a.CreateNamespace, a.SkipCRDs, a.IncludeCRDs = op.CreateNamespace, op.SkipCRDs, op.IncludeCRDs
		a.SubNotes, a.HideSecret, a.IsUpgrade, a.WaitForJobs = op.SubNotes, op.HideSecret, op.IsUpgrade, op.WaitForJobs
		a.Timeout = time.Second
		if op.PostRender {
			a.PostRenderer = countingPR{&prCalls}
		}
		res.Release, err = a.Run(ch, map[string]any{})
	case "upgrade":
		a := action.NewUpgrade(cfg)
		a.Namespace = hx.Namespace
		a.Atomic, a.DisableHooks, a.Force, a.TakeOwnership, a.CleanupOnFail = op.Atomic, op.DisableHooks, op.Force, op.TakeOwnership, op.CleanupOnFail
		a.DryRun, a.DryRunOption = op.DryRun, op.DryRunOption
		a.MaxHistory = op.MaxHistory
		a.ResetValues, a.ReuseValues = op.ResetValues, op.ReuseValues
		a.SubNotes, a.HideSecret, a.WaitForJobs, a.Recreate = op.SubNotes, op.HideSecret, op.WaitForJobs, op.Recreate
		a.Timeout = time.Second
		if op.PostRender {
			a.PostRenderer = countingPR{&prCalls}
		}
		res.Release, err = a.Run(op.Release, ch, map[string]any{})
	case "rollback":
		a := action.NewRollback(cfg)
		a.Version, a.DisableHooks, a.Force, a.CleanupOnFail, a.MaxHistory = op.Version, op.DisableHooks, op.Force, op.CleanupOnFail, op.MaxHistory
		a.DryRun = op.DryRun
		a.Recreate = op.Recreate
		a.Timeout = time.Second
		err = a.Run(op.Release)
	case "uninstall":
		a := action.NewUninstall(cfg)
		a.DisableHooks, a.KeepHistory, a.IgnoreNotFound = op.DisableHooks, op.KeepHistory, op.IgnoreNotFound
		a.DryRun = op.DryRun
		a.Timeout = time.Second
		var r *rspb.UninstallReleaseResponse
		r, err = a.Run(op.Release)
		if r != nil {
			res.Release = r.Release
		}
	default:
		panic("op kind " + op.Kind)
	}
	if err != nil {
		res.Failed = true
		res.Err = err.Error()
	}
	return res, prCalls
}
