package c18

// Stand-alone reproduction of the C18 finding "null entry in an index file",
// against the real API and without the explorer. It fails while the defect is
// present, so it only runs on request:
//
//	C18_REPRO=1 go test ./checks/c18 -run TestReproNullEntry -v
import (
	"os"
	"path/filepath"
	"testing"

	"helm.sh/helm/v4/pkg/repo"
)

func TestReproNullEntry(t *testing.T) {
	if os.Getenv("C18_REPRO") == "" {
		t.Skip("set C18_REPRO=1")
	}
	for _, body := range []string{
		"apiVersion: v1\nentries:\n  x:\n  - name: x\n    version: \"1.0.0\"\n    urls: [http://repo.test/x-1.0.0.tgz]\n  - null\n",
		"apiVersion: v1\nentries:\n  x:\n  - null\n",
	} {
		func() {
			p := filepath.Join(t.TempDir(), "index.yaml")
			if err := os.WriteFile(p, []byte(body), 0o644); err != nil {
				t.Fatal(err)
			}
			defer func() {
				if r := recover(); r != nil {
					t.Errorf("panic on %q: %v", body, r)
				}
			}()
			idx, err := repo.LoadIndexFile(p)
			if err != nil {
				t.Errorf("load error: %v", err)
				return
			}
			for i, cv := range idx.Entries["x"] {
				if cv == nil {
					t.Errorf("loaded index keeps a nil entry at position %d for %q", i, body)
				}
			}
			if _, err := idx.Get("x", ""); err != nil {
				t.Logf("Get: %v", err)
			}
		}()
	}
}
