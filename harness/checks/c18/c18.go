// Package c18: version queries return the best matching chart from a
// well-formed index.
//
// Bounded-exhaustive enumeration of repository index files (one chart, every
// list of entry tokens up to a length bound, in every order, YAML and JSON
// spelling) run through the real repo.LoadIndexFile, IndexFile.Get,
// downloader.ChartDownloader.ResolveChartVersion ("helm pull repo/x"),
// downloader.Manager.Update (the only public route into
// internal/resolver.Resolve) and registry.GetTagMatchingVersionOrConstraint.
// The oracle is an independent semver precedence comparator
// (semver_oracle.go) plus a maximum over the entries of the *file*.
package c18

import (
	"bytes"
	"encoding/json"
	"fmt"
	"io"
	"os"
	"path"
	"path/filepath"
	"sort"
	"strings"
	"time"

	"github.com/Masterminds/semver/v3"
	"sigs.k8s.io/yaml"

	chart "helm.sh/helm/v4/pkg/chart/v2"
	"helm.sh/helm/v4/pkg/downloader"
	"helm.sh/helm/v4/pkg/getter"
	"helm.sh/helm/v4/pkg/registry"
	"helm.sh/helm/v4/pkg/repo"

	"verif/harness/internal/core"
)

const (
	prop      = "C18"
	chartName = "x"
	repoName  = "r"
	repoURL   = "http://repo.test"
)

func init() {
	core.Register(&core.Check{
		ID:    prop,
		Level: "exploration",
		Rule: "every list (with repetition, every order) of entry tokens up to the length bound is written as an index file for one chart and run through the real code; " +
			"phase load+get: main alphabet (13 tokens incl. null / metadata-less / url-less / invalid-version entries) and semver-precedence alphabet (10 tokens), YAML and JSON, " +
			"each loaded index queried with every query of the phase; phase pull: ChartDownloader.ResolveChartVersion; phase resolve: Manager.Update -> internal/resolver.Resolve -> Chart.lock; " +
			"urls alphabet (3 versions x 4 spellings of the urls field: URL, key absent, null, empty list) through load+get, pull and resolve in YAML and JSON; " +
			"phase registry: every descending tag list x every query. distinct = (entry point, alphabet, spelling, entry list); every list is non-trivial (the empty list is the only degenerate one); " +
			"evaluations = oracle evaluations (one per load, one per (list, query))",
		Run:    run,
		Replay: replay,
		Assumptions: []string{
			"'satisfies the constraint' is defined by Masterminds/semver Constraints.Check (trusted, as DESIGN.md says); precedence, stability, validity and the maximum are computed by this check's own comparator",
			"a version is valid if it has 1-3 numeric core parts, optional leading v, optional pre-release and build identifiers (Helm's lenient notion); version values are always quoted in the YAML spelling",
			"ties in precedence (1.2.0 vs 1.2.0+b1 vs 1.2, duplicate versions) may be resolved either way unless the query string is identical to one of them",
			"an entry is downloadable iff its urls list has at least one element: key absent, 'urls: null' and 'urls: []' all mean not downloadable; dependency resolution must lock the highest DOWNLOADABLE satisfying version (error if none), 'helm pull' may refuse when the best match is not downloadable; Get must not filter on urls",
			"an unparsable constraint is satisfied by nothing, so an error is expected",
			"internal/resolver cannot be imported from outside helm's module: Resolve is driven through downloader.Manager.Update with SkipUpdate, an in-memory getter and a cached index file; the observed value is dependencies[0].version of the written Chart.lock",
			"registry.GetTagMatchingVersionOrConstraint is called with tag lists that are valid strict semver in non-increasing precedence, which is what registry.Client.Tags hands it",
		},
		RequiredFloors: []string{
			"load:null-entry", "load:invalid-removed", "load:reordered", "load:all-removed",
			"get:exact", "get:constraint", "get:stable", "get:error", "get:prerelease-by-constraint", "get:urlless-entry",
			"pull:url", "pull:error", "resolve:locked", "resolve:error", "resolve:skipped-urlless",
			"resolve:urlless-top:nokey", "resolve:urlless-top:nullurls", "resolve:urlless-top:emptyurls",
			"resolve:urlless-only:nokey", "resolve:urlless-only:nullurls", "resolve:urlless-only:emptyurls",
			"pull:urlless-refused:nokey", "pull:urlless-refused:nullurls", "pull:urlless-refused:emptyurls",
			"registry:exact", "registry:constraint", "registry:error",
		},
	})
}

// ---------- grammar ----------

var alphabets = map[string][]string{
	// order = simplest first; the four words are entry shapes, everything else is a version string
	"main": {"1.0.0", "1.2.0", "1.10.0", "2.0.0", "2.0.0-rc.1", "v1.5.0", "1.2.0+b1", "1.2", "bad", "empty", "null", "nometa", "nourls"},
	"prec": {"1.0.0", "0.9.0", "1.0.0-rc.1", "1.0.0-beta.11", "1.0.0-beta.2", "1.0.0-beta", "1.0.0-alpha.beta", "1.0.0-alpha.1", "1.0.0-alpha", "1.0.0-1"},
	"tags": {"1.0.0", "1.2.0", "1.10.0", "2.0.0", "2.0.0-rc.1", "1.2.0+b1", "1.5.0", "1.0.0-rc.1", "1.0.0-beta.11", "1.0.0-beta.2", "1.0.0-alpha.1", "1.0.0-alpha"},
	// three versions x four spellings of the urls field: a download URL, key
	// absent (~nokey), "urls: null" (~nullurls), "urls: []" (~emptyurls). The
	// last three all mean "cannot be downloaded".
	"urls": {"1.0.0", "1.2.0", "2.0.0",
		"1.0.0~nokey", "1.2.0~nokey", "2.0.0~nokey",
		"1.0.0~nullurls", "1.2.0~nullurls", "2.0.0~nullurls",
		"1.0.0~emptyurls", "1.2.0~emptyurls", "2.0.0~emptyurls"},
}

var queries = map[string][]string{
	"main": {"*", "", "1.2.0", "v1.5.0", "1.2.0+b1", "1.2", "2.0.0-rc.1", "3.0.0", "1.5.0", "^1.0.0", "~1.2", ">1.0.0 <2.0.0", ">=2.0.0-0", "9.9.9", "bad"},
	"prec": {"*", "", "1.0.0-beta.2", ">=1.0.0-0", ">=1.0.0-beta.2", "<1.0.0", ">=1.0.0-beta <1.0.0-rc.1", "~1.0.0-alpha", ">0.9.0-0 <1.0.0-0"},
	"tags": {"*", "", "1.2.0", "1.2.0+b1", "2.0.0-rc.1", "1.0.0-beta.2", "^1.0.0", "~1.2", ">1.0.0 <2.0.0", ">=2.0.0-0", ">=1.0.0-beta <1.0.0-rc.1", "9.9.9", "bad"},
	// dependency ranges (Chart.yaml): "" is not a range and is left out
	"resolve": {"*", "1.2.0", "v1.5.0", "1.2.0+b1", "1.2", "3.0.0", "^1.0.0", "~1.2", ">1.0.0 <2.0.0", ">=2.0.0-0", "9.9.9", "bad"},
	// urls alphabet: Get / pull queries and dependency ranges
	"urls":         {"*", "", "1.2.0", "^1.0.0", ">1.0.0 <2.0.0", "9.9.9"},
	"resolve-urls": {"*", "1.2.0", "^1.0.0", ">1.0.0 <2.0.0", "~1.2", "9.9.9"},
}

const urllessVersion = "3.0.0"

// fileEntry is one element of entries.x in the generated file.
type fileEntry struct {
	ID      string // digest field, identifies the entry after loading
	Null    bool
	NoMeta  bool
	Version string
	URL     bool   // has a download URL
	Shape   string // how the missing URL is spelled: nokey | nullurls | emptyurls ("" when URL)
}

func mkEntries(list []string) []fileEntry {
	out := make([]fileEntry, len(list))
	for i, t := range list {
		e := fileEntry{ID: fmt.Sprintf("e%d", i), URL: true}
		switch t {
		case "null":
			e.Null = true
		case "nometa":
			e.NoMeta = true
		case "nourls":
			e.Version, e.URL, e.Shape = urllessVersion, false, "nokey"
		case "empty":
			e.Version = ""
		default:
			e.Version = t
			if i := strings.IndexByte(t, '~'); i >= 0 && (t[i+1:] == "nokey" || t[i+1:] == "nullurls" || t[i+1:] == "emptyurls") {
				e.Version, e.URL, e.Shape = t[:i], false, t[i+1:]
			}
		}
		out[i] = e
	}
	return out
}

func entryURL(id string) string { return repoURL + "/" + chartName + "-" + id + ".tgz" }

func render(list []string, spelling string) []byte {
	es := mkEntries(list)
	if spelling == "json" {
		arr := make([]any, 0, len(es))
		for _, e := range es {
			if e.Null {
				arr = append(arr, nil)
				continue
			}
			m := map[string]any{"digest": e.ID}
			if !e.NoMeta {
				m["name"], m["version"] = chartName, e.Version
			}
			switch {
			case e.URL:
				m["urls"] = []string{entryURL(e.ID)}
			case e.Shape == "nullurls":
				m["urls"] = nil
			case e.Shape == "emptyurls":
				m["urls"] = []string{}
			}
			arr = append(arr, m)
		}
		b, _ := json.Marshal(map[string]any{"apiVersion": "v1", "entries": map[string]any{chartName: arr}})
		return b
	}
	var sb strings.Builder
	sb.WriteString("apiVersion: v1\nentries:\n")
	if len(es) == 0 {
		sb.WriteString("  " + chartName + ": []\n")
		return []byte(sb.String())
	}
	sb.WriteString("  " + chartName + ":\n")
	for _, e := range es {
		if e.Null {
			sb.WriteString("  - null\n")
			continue
		}
		fmt.Fprintf(&sb, "  - digest: %s\n", e.ID)
		if !e.NoMeta {
			fmt.Fprintf(&sb, "    name: %s\n    version: %q\n", chartName, e.Version)
		}
		switch {
		case e.URL:
			fmt.Fprintf(&sb, "    urls:\n    - %s\n", entryURL(e.ID))
		case e.Shape == "nullurls":
			sb.WriteString("    urls: null\n")
		case e.Shape == "emptyurls":
			sb.WriteString("    urls: []\n")
		}
	}
	return []byte(sb.String())
}

// ---------- oracle ----------

type cand struct {
	ID      string
	Version string
	URL     bool
	Shape   string
}

// validCands: the entries of the file a correct loader keeps.
func validCands(list []string) []cand {
	var out []cand
	for _, e := range mkEntries(list) {
		if e.Null || e.NoMeta {
			continue
		}
		if _, ok := parseSV(e.Version); !ok {
			continue
		}
		out = append(out, cand{ID: e.ID, Version: e.Version, URL: e.URL, Shape: e.Shape})
	}
	return out
}

// expect returns the acceptable answers (indices into cands) for a query; an
// empty result means only an error is acceptable. how names the clause used.
func expect(cands []cand, q string, exactFirst, needURL bool) (acc []int, how string) {
	if exactFirst && q != "" {
		for i, c := range cands {
			if c.Version == q {
				acc = append(acc, i)
			}
		}
		if len(acc) > 0 {
			return acc, "exact"
		}
	}
	var con *semver.Constraints
	how = "stable"
	if q != "" {
		how = "constraint"
		var err error
		if con, err = semver.NewConstraint(q); err != nil {
			return nil, "badconstraint"
		}
	}
	var sat []int
	for i, c := range cands {
		v, ok := parseSV(c.Version)
		if !ok || (needURL && !c.URL) {
			continue
		}
		if q == "" {
			if !v.stable() {
				continue
			}
		} else {
			lv, err := semver.NewVersion(c.Version)
			if err != nil || !con.Check(lv) {
				continue
			}
		}
		sat = append(sat, i)
	}
	if len(sat) == 0 {
		return nil, "none"
	}
	best, _ := parseSV(cands[sat[0]].Version)
	for _, i := range sat[1:] {
		if v, _ := parseSV(cands[i].Version); cmpSV(v, best) > 0 {
			best = v
		}
	}
	for _, i := range sat {
		if v, _ := parseSV(cands[i].Version); cmpSV(v, best) == 0 {
			acc = append(acc, i)
		}
	}
	return acc, how
}

func versionsOf(cands []cand, idx []int) string {
	var out []string
	for _, i := range idx {
		out = append(out, cands[i].Version+"("+cands[i].ID+")")
	}
	if len(out) == 0 {
		return "an error"
	}
	return strings.Join(out, " or ")
}

// ---------- running the real code ----------

func safely(f func() error) (err error, panicked string) {
	defer func() {
		if r := recover(); r != nil {
			panicked = fmt.Sprint(r)
		}
	}()
	return f(), ""
}

type memGetter struct{}

func (memGetter) Get(url string, _ ...getter.Option) (*bytes.Buffer, error) {
	return bytes.NewBufferString("not a chart archive: " + url), nil
}

// scratch is the per-process working directory (index file, repo cache,
// repositories.yaml, parent chart).
type scratch struct {
	dir, idxDir, cache, repoCfg, chartDir string
	getters                               getter.Providers
}

var theScratch *scratch

func getScratch() *scratch {
	if theScratch != nil {
		return theScratch
	}
	// housekeeping: scratch directories of workers that were killed long ago
	if old, _ := filepath.Glob("/var/tmp/c18-*"); len(old) > 0 {
		for _, d := range old {
			if fi, err := os.Stat(d); err == nil && time.Since(fi.ModTime()) > 6*time.Hour {
				os.RemoveAll(d)
			}
		}
	}
	dir, err := os.MkdirTemp("/var/tmp", "c18-")
	if err != nil {
		panic(err)
	}
	s := &scratch{dir: dir, idxDir: filepath.Join(dir, "idx"), cache: filepath.Join(dir, "cache"),
		repoCfg: filepath.Join(dir, "repositories.yaml"), chartDir: filepath.Join(dir, "parent")}
	for _, d := range []string{s.idxDir, s.cache, s.chartDir} {
		if err := os.MkdirAll(d, 0o755); err != nil {
			panic(err)
		}
	}
	must(os.WriteFile(s.repoCfg, []byte("apiVersion: \"\"\nrepositories:\n- name: "+repoName+"\n  url: "+repoURL+"\n"), 0o644))
	s.getters = getter.Providers{{Schemes: []string{"http", "https"}, New: func(...getter.Option) (getter.Getter, error) { return memGetter{}, nil }}}
	theScratch = s
	return s
}

func cleanupScratch() {
	if theScratch != nil {
		os.RemoveAll(theScratch.dir)
		theScratch = nil
	}
}

func must(err error) {
	if err != nil {
		panic(err)
	}
}

// loadReal writes the file and calls repo.LoadIndexFile.
func loadReal(list []string, spelling string) (idx *repo.IndexFile, errS, panicS string) {
	s := getScratch()
	p := filepath.Join(s.idxDir, "index."+spelling)
	must(os.WriteFile(p, render(list, spelling), 0o644))
	err, pan := safely(func() error {
		var e error
		idx, e = repo.LoadIndexFile(p)
		return e
	})
	if pan != "" {
		return nil, "", pan
	}
	if err != nil {
		return idx, err.Error(), ""
	}
	return idx, "", ""
}

// checkLoad evaluates the first sentence of the property on a loaded index.
// reordered reports whether the loader had to change the relative order.
func checkLoad(list []string, idx *repo.IndexFile, errS, panicS string) (kind, what string, reordered bool) {
	if panicS != "" {
		return "panic", "panics: " + panicS, false
	}
	if errS != "" {
		return "load-error", "fails to load a file whose only oddities are inside the entry list: " + errS, false
	}
	if idx == nil {
		return "load-error", "returned a nil index without error", false
	}
	es := mkEntries(list)
	byID := map[string]fileEntry{}
	for _, e := range es {
		byID[e.ID] = e
	}
	want := validCands(list)
	seen := map[string]bool{}
	var prev *sv
	prevS := ""
	lastPos := -1
	for i, cv := range idx.Entries[chartName] {
		if cv == nil {
			return "nil-entry-kept", fmt.Sprintf("loaded list holds a nil entry at position %d", i), false
		}
		if cv.Metadata == nil {
			return "nometa-entry-kept", fmt.Sprintf("loaded list holds an entry without metadata at position %d", i), false
		}
		fe, ok := byID[cv.Digest]
		if !ok || seen[cv.Digest] {
			return "foreign-entry", fmt.Sprintf("loaded entry %d (digest %q, version %q) is not an entry of the file or appears twice", i, cv.Digest, cv.Version), false
		}
		seen[cv.Digest] = true
		v, ok := parseSV(cv.Version)
		if !ok || cv.Name == "" {
			return "invalid-entry-kept", fmt.Sprintf("loaded list keeps invalid entry %s (name %q, version %q)", cv.Digest, cv.Name, cv.Version), false
		}
		if fe.NoMeta || fe.Version != cv.Version || cv.Name != chartName || (len(cv.URLs) > 0) != fe.URL {
			return "entry-altered", fmt.Sprintf("loaded entry %s differs from the file: name %q version %q urls %v", cv.Digest, cv.Name, cv.Version, cv.URLs), false
		}
		if prev != nil && cmpSV(*prev, v) < 0 {
			return "not-descending", fmt.Sprintf("loaded versions are not newest-first: %q is followed by the newer %q", prevS, cv.Version), false
		}
		pos := 0
		fmt.Sscanf(cv.Digest, "e%d", &pos)
		if pos < lastPos {
			reordered = true
		}
		lastPos = pos
		vv := v
		prev, prevS = &vv, cv.Version
	}
	for _, w := range want {
		if !seen[w.ID] {
			return "valid-entry-dropped", fmt.Sprintf("valid entry %s (version %q) of the file is missing from the loaded index", w.ID, w.Version), false
		}
	}
	return "", "", reordered
}

// lastAnswer is what the real code returned in the most recent check* call
// (only used to write out samples).
var lastAnswer string

// checkGet runs one IndexFile.Get and compares with the oracle.
func checkGet(idx *repo.IndexFile, cands []cand, q string) (kind, what, class string) {
	acc, how := expect(cands, q, true, false)
	var cv *repo.ChartVersion
	err, pan := safely(func() error {
		var e error
		cv, e = idx.Get(chartName, q)
		return e
	})
	lastAnswer = "error"
	if err == nil && cv != nil && cv.Metadata != nil {
		lastAnswer = cv.Version + "(" + cv.Digest + ")"
	}
	switch {
	case pan != "":
		return "panic", fmt.Sprintf("Get(%q) panics: %s", q, pan), "panic"
	case err != nil && len(acc) == 0:
		return "", "", "error:" + how
	case err != nil:
		return "unexpected-error", fmt.Sprintf("Get(%q) fails (%v) although %s matches (%s)", q, err, versionsOf(cands, acc), how), "VIOLATION"
	case cv == nil || cv.Metadata == nil:
		return "nil-result", fmt.Sprintf("Get(%q) returned nil without error", q), "VIOLATION"
	}
	for _, i := range acc {
		if cands[i].ID == cv.Digest {
			return "", "", how
		}
	}
	if len(acc) == 0 {
		return "missing-error", fmt.Sprintf("Get(%q) returned %q although nothing matches (%s)", q, cv.Version, how), "VIOLATION"
	}
	return "wrong-pick", fmt.Sprintf("Get(%q) returned %q(%s), expected %s (%s)", q, cv.Version, cv.Digest, versionsOf(cands, acc), how), "VIOLATION"
}

// writeCache puts the index into the repository cache; the cache file is
// always called r-index.yaml, LoadIndexFile sniffs JSON content.
func writeCache(list []string, spelling string) {
	s := getScratch()
	if spelling != "json" {
		spelling = "yaml"
	}
	must(os.WriteFile(filepath.Join(s.cache, repoName+"-index.yaml"), render(list, spelling), 0o644))
}

// checkPull runs ChartDownloader.ResolveChartVersion("r/x", q).
func checkPull(list []string, spelling string, cands []cand, q string) (kind, what, class string) {
	s := getScratch()
	writeCache(list, spelling)
	acc, how := expect(cands, q, true, false)
	errOK := len(acc) == 0
	for _, i := range acc {
		if !cands[i].URL {
			errOK = true // best match cannot be downloaded: refusing is fine
		}
	}
	dl := &downloader.ChartDownloader{Out: io.Discard, Getters: s.getters, RepositoryConfig: s.repoCfg, RepositoryCache: s.cache}
	got := ""
	err, pan := safely(func() error {
		u, e := dl.ResolveChartVersion(repoName+"/"+chartName, q)
		if e == nil && u != nil {
			got = u.String()
		}
		return e
	})
	lastAnswer = "error"
	if err == nil {
		lastAnswer = got
	}
	switch {
	case pan != "":
		return "panic", fmt.Sprintf("ResolveChartVersion(r/x, %q) panics: %s", q, pan), "panic"
	case err != nil && errOK:
		return "", "", "error:" + how
	case err != nil:
		return "unexpected-error", fmt.Sprintf("ResolveChartVersion(r/x, %q) fails (%v) although %s matches (%s)", q, err, versionsOf(cands, acc), how), "VIOLATION"
	}
	id := strings.TrimSuffix(strings.TrimPrefix(path.Base(got), chartName+"-"), ".tgz")
	for _, i := range acc {
		if cands[i].ID == id && cands[i].URL {
			return "", "", how
		}
	}
	if len(acc) == 0 {
		return "missing-error", fmt.Sprintf("ResolveChartVersion(r/x, %q) returned %s although nothing matches (%s)", q, got, how), "VIOLATION"
	}
	return "wrong-pick", fmt.Sprintf("ResolveChartVersion(r/x, %q) returned %s, expected %s (%s)", q, got, versionsOf(cands, acc), how), "VIOLATION"
}

// checkResolve runs Manager.Update on a parent chart depending on x with
// range q and reads the lock that resolver.Resolve produced.
func checkResolve(list []string, spelling string, cands []cand, q string) (kind, what, class string) {
	s := getScratch()
	writeCache(list, spelling)
	acc, how := expect(cands, q, false, true)
	lockPath := filepath.Join(s.chartDir, "Chart.lock")
	os.Remove(lockPath)
	os.RemoveAll(filepath.Join(s.chartDir, "charts"))
	must(os.WriteFile(filepath.Join(s.chartDir, "Chart.yaml"), []byte(fmt.Sprintf(
		"apiVersion: v2\nname: parent\nversion: 0.1.0\ndependencies:\n- name: %s\n  version: %q\n  repository: %s\n", chartName, q, repoURL)), 0o644))
	m := &downloader.Manager{Out: io.Discard, ChartPath: s.chartDir, SkipUpdate: true, Getters: s.getters,
		RepositoryConfig: s.repoCfg, RepositoryCache: s.cache, Verify: downloader.VerifyNever}
	err, pan := safely(m.Update)
	if pan != "" {
		return "panic", fmt.Sprintf("Manager.Update with dependency range %q panics: %s", q, pan), "panic"
	}
	lastAnswer = "error"
	if err != nil {
		if len(acc) == 0 {
			return "", "", "error:" + how
		}
		return "unexpected-error", fmt.Sprintf("dependency range %q: update fails (%v) although %s satisfies it", q, err, versionsOf(cands, acc)), "VIOLATION"
	}
	b, rerr := os.ReadFile(lockPath)
	var lock chart.Lock
	if rerr == nil {
		rerr = yaml.Unmarshal(b, &lock)
	}
	if rerr != nil || len(lock.Dependencies) != 1 || lock.Dependencies[0] == nil {
		return "no-lock", fmt.Sprintf("dependency range %q: update succeeded but no usable Chart.lock (%v)", q, rerr), "VIOLATION"
	}
	got := lock.Dependencies[0].Version
	lastAnswer = got
	for _, i := range acc {
		if cands[i].Version == got {
			return "", "", how
		}
	}
	if len(acc) == 0 {
		return "missing-error", fmt.Sprintf("dependency range %q locked to %q although no downloadable indexed version satisfies it", q, got), "VIOLATION"
	}
	return "wrong-pick", fmt.Sprintf("dependency range %q locked to %q, highest satisfying indexed version is %s", q, got, versionsOf(cands, acc)), "VIOLATION"
}

// sortedDesc: precondition of the registry entry point.
func sortedDesc(tags []string) bool {
	for i := 1; i < len(tags); i++ {
		a, ok1 := parseSV(tags[i-1])
		b, ok2 := parseSV(tags[i])
		if !ok1 || !ok2 || cmpSV(a, b) < 0 {
			return false
		}
	}
	return true
}

func checkRegistry(tags []string, q string) (kind, what, class string) {
	cands := make([]cand, len(tags))
	for i, t := range tags {
		cands[i] = cand{ID: fmt.Sprint(i), Version: t, URL: true}
	}
	acc, how := expect(cands, q, true, false)
	got := ""
	err, pan := safely(func() error {
		var e error
		got, e = registry.GetTagMatchingVersionOrConstraint(append([]string{}, tags...), q)
		return e
	})
	lastAnswer = "error"
	if err == nil {
		lastAnswer = got
	}
	switch {
	case pan != "":
		return "panic", fmt.Sprintf("GetTagMatchingVersionOrConstraint(%v, %q) panics: %s", tags, q, pan), "panic"
	case err != nil && len(acc) == 0:
		return "", "", "error:" + how
	case err != nil:
		return "unexpected-error", fmt.Sprintf("GetTagMatchingVersionOrConstraint(%v, %q) fails (%v), expected %s (%s)", tags, q, err, versionsOf(cands, acc), how), "VIOLATION"
	}
	for _, i := range acc {
		if cands[i].Version == got {
			return "", "", how
		}
	}
	if len(acc) == 0 {
		return "missing-error", fmt.Sprintf("GetTagMatchingVersionOrConstraint(%v, %q) returned %q although nothing matches (%s)", tags, q, got, how), "VIOLATION"
	}
	return "wrong-pick", fmt.Sprintf("GetTagMatchingVersionOrConstraint(%v, %q) returned %q, expected %s (%s)", tags, q, got, versionsOf(cands, acc), how), "VIOLATION"
}

// ---------- single cases (replay, minimisation) ----------

type caseSpec struct {
	Entry    string   `json:"entry"` // load | get | pull | resolve | registry
	Alpha    string   `json:"alphabet"`
	List     []string `json:"list"`
	Spelling string   `json:"spelling,omitempty"`
	Query    string   `json:"query"`
}

func (cs caseSpec) String() string {
	return fmt.Sprintf("%s/%s/%s[%s]?%s", cs.Entry, cs.Alpha, cs.Spelling, strings.Join(cs.List, ","), cs.Query)
}

// runCase executes exactly one case; kind "" = passes.
func runCase(cs caseSpec) (kind, what string) {
	pre := fmt.Sprintf("index (%s) with entries [%s]: ", cs.Spelling, strings.Join(cs.List, ", "))
	switch cs.Entry {
	case "load":
		idx, e, p := loadReal(cs.List, cs.Spelling)
		k, w, _ := checkLoad(cs.List, idx, e, p)
		if k != "" {
			w = "LoadIndexFile on " + pre + w
		}
		return k, w
	case "get":
		idx, e, p := loadReal(cs.List, cs.Spelling)
		if k, _, _ := checkLoad(cs.List, idx, e, p); k != "" {
			return "", "" // reported under entry point load
		}
		k, w, _ := checkGet(idx, validCands(cs.List), cs.Query)
		if k != "" {
			w = pre + w
		}
		return k, w
	case "pull":
		k, w, _ := checkPull(cs.List, cs.Spelling, validCands(cs.List), cs.Query)
		if k != "" {
			w = pre + w
		}
		return k, w
	case "resolve":
		k, w, _ := checkResolve(cs.List, cs.Spelling, validCands(cs.List), cs.Query)
		if k != "" {
			w = pre + w
		}
		return k, w
	case "registry":
		if !sortedDesc(cs.List) {
			return "", ""
		}
		k, w, _ := checkRegistry(cs.List, cs.Query)
		return k, w
	}
	return "", ""
}

var memo = map[string]string{}

func failKind(cs caseSpec) string {
	key := cs.String()
	if k, ok := memo[key]; ok {
		return k
	}
	k, _ := runCase(cs)
	memo[key] = k
	return k
}

func (cs caseSpec) with(f func(*caseSpec)) caseSpec {
	n := cs
	n.List = append([]string{}, cs.List...)
	f(&n)
	return n
}

// minimise: simplest query, fewest entries, simplest tokens, YAML - keeping the
// same failure kind - so that the finding key names only what matters.
func minimise(cs caseSpec, kind string) caseSpec {
	cur := cs.with(func(*caseSpec) {})
	try := func(n caseSpec) bool {
		if failKind(n) == kind {
			cur = n
			return true
		}
		return false
	}
	if cur.Entry != "load" && cur.Query != "*" {
		try(cur.with(func(n *caseSpec) { n.Query = "*" }))
	}
	for changed := true; changed; {
		changed = false
		for i := range cur.List {
			if try(cur.with(func(n *caseSpec) { n.List = append(n.List[:i], n.List[i+1:]...) })) {
				changed = true
				break
			}
		}
	}
	// A token may only be replaced by a simpler plain valid version (towards the
	// well-formed baseline): putting an odd entry shape (null, nometa, bad ...)
	// in could turn the case into a different defect with the same symptom.
	for i := range cur.List {
		for _, tok := range alphabets[cur.Alpha] {
			if tok == cur.List[i] {
				break
			}
			if plainVersion(tok) && try(cur.with(func(n *caseSpec) { n.List[i] = tok })) {
				break
			}
		}
	}
	if cur.Spelling == "json" {
		try(cur.with(func(n *caseSpec) { n.Spelling = "yaml" }))
	}
	return cur
}

func plainVersion(tok string) bool {
	switch tok {
	case "null", "nometa", "nourls", "empty":
		return false
	}
	_, ok := parseSV(tok)
	return ok
}

func keyOf(cs caseSpec, kind string) string {
	toks := append([]string{}, cs.List...)
	sort.Strings(toks)
	shape := strings.Join(toks, "+")
	if shape == "" {
		shape = "none"
	}
	k := cs.Entry + "/" + kind + "/" + shape
	if cs.Entry != "load" {
		q := cs.Query
		if q == "" {
			q = "(empty)"
		}
		k += "/q=" + q
	}
	return core.SanitizeKey(k)
}

func report(c *core.Ctx, cs caseSpec, kind string) {
	m := minimise(cs, kind)
	k, what := runCase(m)
	if k != kind { // cannot happen (memo says it fails); keep the original then
		m = cs
		_, what = runCase(cs)
	}
	if m.String() != cs.String() {
		what += " (minimised from " + cs.String() + ")"
	}
	c.Violate(prop, keyOf(m, kind), what, m)
}

func replay(_ *core.Ctx, data json.RawMessage) []core.Violation {
	defer cleanupScratch()
	var cs caseSpec
	if err := json.Unmarshal(data, &cs); err != nil {
		return nil
	}
	kind, what := runCase(cs)
	if kind == "" {
		return nil
	}
	return []core.Violation{{Property: prop, Key: keyOf(cs, kind), What: what, Replay: data}}
}

// ---------- exploration ----------

// enumLists calls f for every list over toks of length 0..maxLen, shortest
// first, odometer order. The slice is reused.
func enumLists(toks []string, maxLen int, f func(list []string)) {
	for n := 0; n <= maxLen; n++ {
		idx := make([]int, n)
		list := make([]string, n)
		for {
			for i, j := range idx {
				list[i] = toks[j]
			}
			f(list)
			i := n - 1
			for i >= 0 {
				idx[i]++
				if idx[i] < len(toks) {
					break
				}
				idx[i] = 0
				i--
			}
			if i < 0 {
				break
			}
		}
	}
}

func has(list []string, tok ...string) bool {
	for _, x := range list {
		for _, t := range tok {
			if x == t {
				return true
			}
		}
	}
	return false
}

func run(c *core.Ctx) {
	defer cleanupScratch()
	type bounds struct{ main, prec, tags, pull, resolve, urls int }
	b := bounds{main: 4, prec: 4, tags: 4, pull: 3, resolve: 3, urls: 3}
	if c.Thorough() {
		b = bounds{main: 5, prec: 5, tags: 6, pull: 4, resolve: 4, urls: 4}
	}
	c.Bound("urls alphabet (3 versions x {url, key absent, urls: null, urls: []}), load+get / pull / resolve, YAML and JSON: max entries per chart", fmt.Sprint(b.urls))
	c.Bound("urls alphabet through pull / resolve in the JSON spelling: max entries per chart", "3")
	c.Bound("urls alphabet size; queries get+pull / resolve", fmt.Sprintf("%d; %d/%d", len(alphabets["urls"]), len(queries["urls"]), len(queries["resolve-urls"])))
	c.Bound("load+get main alphabet: max entries per chart", fmt.Sprint(b.main))
	c.Bound("load+get precedence alphabet: max entries per chart", fmt.Sprint(b.prec))
	c.Bound("registry: max tags", fmt.Sprint(b.tags))
	c.Bound("pull (ResolveChartVersion): max entries per chart", fmt.Sprint(b.pull))
	c.Bound("resolve (Manager.Update): max entries per chart", fmt.Sprint(b.resolve))
	c.Bound("alphabet sizes main/prec/tags", fmt.Sprintf("%d/%d/%d", len(alphabets["main"]), len(alphabets["prec"]), len(alphabets["tags"])))
	c.Bound("queries main/prec/tags/resolve", fmt.Sprintf("%d/%d/%d/%d", len(queries["main"]), len(queries["prec"]), len(queries["tags"]), len(queries["resolve"])))
	only := func(p string) bool { return c.Only == "" || c.Only == p }
	// a few written-out passing cases per entry point (the runner keeps 12 per shard)
	seen, taken := map[string]int{}, map[string]int{}
	sample := func(v map[string]any) {
		e := fmt.Sprint(v["entry"])
		seen[e]++
		if seen[e]%211 == 1 && taken[e] < 3 {
			taken[e]++
			c.Sample(v)
		}
	}

	// Phase 1: LoadIndexFile + Get
	for _, alpha := range []string{"main", "prec", "urls"} {
		if !only("load") && !only("get") {
			break
		}
		maxLen := b.main
		switch alpha {
		case "prec":
			maxLen = b.prec
		case "urls":
			maxLen = b.urls
		}
		enumLists(alphabets[alpha], maxLen, func(list []string) {
			for _, sp := range []string{"yaml", "json"} {
				if !c.NextMine() {
					continue
				}
				c.Eval(1)
				c.Distinct("load|" + alpha + "|" + sp + "|" + strings.Join(list, ","))
				idx, e, p := loadReal(list, sp)
				kind, _, reordered := checkLoad(list, idx, e, p)
				if has(list, "null") {
					c.Floor("load:null-entry")
				}
				if kind != "" {
					c.Outcome("load:VIOLATION:" + kind)
					report(c, caseSpec{Entry: "load", Alpha: alpha, List: list, Spelling: sp}, kind)
					continue
				}
				cands := validCands(list)
				switch {
				case len(list) > 0 && len(cands) == 0:
					c.Outcome("load:all-removed")
					c.Floor("load:all-removed")
				case len(cands) < len(list):
					c.Outcome("load:some-removed")
					c.Floor("load:invalid-removed")
				case reordered:
					c.Outcome("load:kept-all-reordered")
				default:
					c.Outcome("load:kept-all-in-order")
				}
				if reordered {
					c.Floor("load:reordered")
				}
				for _, q := range queries[alpha] {
					c.Eval(1)
					k, _, class := checkGet(idx, cands, q)
					c.Outcome("get:" + class)
					switch class {
					case "exact":
						c.Floor("get:exact")
					case "constraint":
						c.Floor("get:constraint")
					case "stable":
						c.Floor("get:stable")
					case "error:none", "error:badconstraint":
						c.Floor("get:error")
					}
					if k != "" {
						report(c, caseSpec{Entry: "get", Alpha: alpha, List: list, Spelling: sp, Query: q}, k)
						continue
					}
					if class == "constraint" || class == "stable" {
						if acc, _ := expect(cands, q, true, false); len(acc) > 0 {
							if v, _ := parseSV(cands[acc[0]].Version); !v.stable() {
								c.Floor("get:prerelease-by-constraint")
							}
							if !cands[acc[0]].URL {
								c.Floor("get:urlless-entry")
							}
						}
					}
					if len(list) == maxLen {
						sample(map[string]any{"entry": "LoadIndexFile+Get", "spelling": sp, "file_entries": append([]string{}, list...), "query": q, "clause": class, "answer": lastAnswer, "agrees_with_oracle": true})
					}
				}
			}
		})
	}

	// Phase 2: ChartDownloader.ResolveChartVersion (helm pull r/x --version q)
	type via struct {
		alpha     string
		maxLen    int
		spellings []string
		queries   []string
		jsonMax   int // the JSON spelling is run up to this length (same decoder behind both spellings)
	}
	for _, v := range []via{{"main", b.pull, []string{"yaml"}, queries["main"], 0}, {"urls", b.urls, []string{"yaml", "json"}, queries["urls"], 3}} {
		if !only("pull") {
			break
		}
		enumLists(alphabets[v.alpha], v.maxLen, func(list []string) {
			for _, sp := range v.spellings {
				if sp == "json" && len(list) > v.jsonMax {
					continue
				}
				if !c.NextMine() {
					continue
				}
				c.Distinct("pull|" + v.alpha + "|" + sp + "|" + strings.Join(list, ","))
				cands := validCands(list)
				for _, q := range v.queries {
					c.Eval(1)
					k, _, class := checkPull(list, sp, cands, q)
					c.Outcome("pull:" + class)
					if strings.HasPrefix(class, "error:") {
						c.Floor("pull:error")
						if acc, _ := expect(cands, q, true, false); k == "" {
							for _, i := range acc { // best match exists but cannot be downloaded
								c.Floor("pull:urlless-refused:" + cands[i].Shape)
							}
						}
					} else if k == "" {
						c.Floor("pull:url")
					}
					if k != "" {
						report(c, caseSpec{Entry: "pull", Alpha: v.alpha, List: list, Spelling: sp, Query: q}, k)
					} else if len(list) == v.maxLen {
						sample(map[string]any{"entry": "ChartDownloader.ResolveChartVersion", "spelling": sp, "file_entries": append([]string{}, list...), "version": q, "clause": class, "answer": lastAnswer, "agrees_with_oracle": true})
					}
				}
			}
		})
	}

	// Phase 3: Manager.Update -> resolver.Resolve -> Chart.lock
	for _, v := range []via{{"main", b.resolve, []string{"yaml"}, queries["resolve"], 0}, {"urls", b.urls, []string{"yaml", "json"}, queries["resolve-urls"], 3}} {
		if !only("resolve") {
			break
		}
		enumLists(alphabets[v.alpha], v.maxLen, func(list []string) {
			for _, sp := range v.spellings {
				if sp == "json" && len(list) > v.jsonMax {
					continue
				}
				if !c.NextMine() {
					continue
				}
				c.Distinct("resolve|" + v.alpha + "|" + sp + "|" + strings.Join(list, ","))
				cands := validCands(list)
				for _, q := range v.queries {
					c.Eval(1)
					k, _, class := checkResolve(list, sp, cands, q)
					c.Outcome("resolve:" + class)
					if k != "" {
						report(c, caseSpec{Entry: "resolve", Alpha: v.alpha, List: list, Spelling: sp, Query: q}, k)
						continue
					}
					// entries that satisfy the range regardless of downloadability
					accAll, _ := expect(cands, q, false, false)
					acc, _ := expect(cands, q, false, true)
					if strings.HasPrefix(class, "error:") {
						c.Floor("resolve:error")
						for _, i := range accAll { // the only matches cannot be downloaded
							c.Floor("resolve:urlless-only:" + cands[i].Shape)
						}
						continue
					}
					c.Floor("resolve:locked")
					if len(accAll) > 0 && len(acc) > 0 {
						top, _ := parseSV(cands[accAll[0]].Version)
						got, _ := parseSV(cands[acc[0]].Version)
						if cmpSV(top, got) > 0 { // undownloadable entries outrank the locked one
							c.Floor("resolve:skipped-urlless")
							for _, i := range accAll {
								c.Floor("resolve:urlless-top:" + cands[i].Shape)
							}
						}
					}
					if len(list) == v.maxLen {
						sample(map[string]any{"entry": "Manager.Update/resolver.Resolve", "spelling": sp, "file_entries": append([]string{}, list...), "range": q, "locked": lastAnswer, "agrees_with_oracle": true})
					}
				}
			}
		})
	}

	// Phase 4: registry.GetTagMatchingVersionOrConstraint on descending tag lists
	if only("registry") {
		enumLists(alphabets["tags"], b.tags, func(list []string) {
			if !sortedDesc(list) {
				return
			}
			if !c.NextMine() {
				return
			}
			c.Distinct("registry|tags|" + strings.Join(list, ","))
			for _, q := range queries["tags"] {
				c.Eval(1)
				k, _, class := checkRegistry(list, q)
				c.Outcome("registry:" + class)
				switch {
				case class == "exact":
					c.Floor("registry:exact")
				case class == "constraint" || class == "stable":
					c.Floor("registry:constraint")
				case strings.HasPrefix(class, "error:"):
					c.Floor("registry:error")
				}
				if k != "" {
					report(c, caseSpec{Entry: "registry", Alpha: "tags", List: append([]string{}, list...), Query: q}, k)
				} else if len(list) >= 3 {
					sample(map[string]any{"entry": "registry.GetTagMatchingVersionOrConstraint", "tags": append([]string{}, list...), "version": q, "clause": class, "answer": lastAnswer, "agrees_with_oracle": true})
				}
			}
		})
	}
}
