// Package c18: version queries return the best matching chart from a
// well-formed index.
//
// Bounded-exhaustive enumeration of repository index files (one chart, every
// list of entry tokens up to a length bound, in every order, YAML and JSON
// spelling) run through the real repo.LoadIndexFile, IndexFile.Get,
// downloader.ChartDownloader.ResolveChartVersion ("helm pull repo/x"),
// downloader.Manager.Update (the only public route into
// internal/resolver.Resolve) and registry.GetTagMatchingVersionOrConstraint.
// The oracle is an independent semver precedence comparator
// (semver_oracle.go) plus a maximum over the entries of the *file*.
package c18

import (
	"bytes"
	"encoding/json"
	"fmt"
	"io"
	"os"
	"path"
	"path/filepath"
	"sort"
	"strings"
	"time"

	"github.com/Masterminds/semver/v3"
	"sigs.k8s.io/yaml"

	chart "helm.sh/helm/v4/pkg/chart/v2"
	"helm.sh/helm/v4/pkg/downloader"
	"helm.sh/helm/v4/pkg/getter"
	"helm.sh/helm/v4/pkg/registry"
	"helm.sh/helm/v4/pkg/repo"

	"verif/harness/internal/core"
)

const (
	prop      = "C18"
	chartName = "x"
	repoName  = "r"
	repoURL   = "http://repo.test"
)

func init() {
	core.Register(&core.Check{
		ID:    prop,
		Level: "exploration",
		Rule: "every list (with repetition, every order) of entry tokens up to the length bound is written as an index file for one chart and run through the real code; " +
			"phase load+get: main alphabet (13 tokens incl. null / metadata-less / url-less / invalid-version entries) and semver-precedence alphabet (10 tokens), YAML and JSON, " +
			"each loaded index queried with every query of the phase; phase pull: ChartDownloader.ResolveChartVersion; phase resolve: Manager.Update -> internal/resolver.Resolve -> Chart.lock; " +
			"urls alphabet (3 versions x 4 spellings of the urls field: URL, key absent, null, empty list) through load+get, pull and resolve in YAML and JSON; " +
			"hyphen/plus alphabet (stable versions with '-' inside the build metadata, pre-releases carrying build metadata) through load+get, pull and resolve; " +
			"zero alphabet (0.0.0 plain / v-prefixed / with build metadata, 0.0.0-rc.1, 0.0.1, 0.1.0-rc.1) through load+get and pull; " +
			"dependency LISTS naming the same chart two (thorough: three) times via aliases with every ordered tuple of 6 ranges, each entry compared with its own independent resolution; " +
			"histories on ONE path: load, then either modify the returned object with each public mutator or replace the file (every ordered pair of different files, mtime restored/newer/older), then load again - the second result is compared with an independent reading of the bytes then in the file; " +
			"phase registry: every descending tag list x every query. distinct = (entry point, alphabet, spelling, entry list); every list is non-trivial (the empty list is the only degenerate one); " +
			"evaluations = oracle evaluations (one per load, one per (list, query))",
		Run:    run,
		Replay: replay,
		Assumptions: []string{
			"'satisfies the constraint' is defined by Masterminds/semver Constraints.Check (trusted, as DESIGN.md says); precedence, stability, validity and the maximum are computed by this check's own comparator",
			"a version is valid if it has 1-3 numeric core parts, optional leading v, optional pre-release and build identifiers (Helm's lenient notion); version values are always quoted in the YAML spelling",
			"ties in precedence (1.2.0 vs 1.2.0+b1 vs 1.2, duplicate versions) may be resolved either way unless the query string is identical to one of them",
			"an entry is downloadable iff its urls list has at least one element: key absent, 'urls: null' and 'urls: []' all mean not downloadable; dependency resolution must lock the highest DOWNLOADABLE satisfying version (error if none), 'helm pull' may refuse when the best match is not downloadable; Get must not filter on urls",
			"an unparsable constraint is satisfied by nothing, so an error is expected",
			"a loaded index is a function of the bytes in the file at the time of the call: neither what an earlier caller did to the object it got back, nor an earlier content of the same path may show (file size and mtime are controlled with os.Chtimes, never read from the clock)",
			"internal/resolver cannot be imported from outside helm's module: Resolve is driven through downloader.Manager.Update with SkipUpdate, an in-memory getter and a cached index file; the observed value is dependencies[0].version of the written Chart.lock",
			"registry.GetTagMatchingVersionOrConstraint is called with tag lists that are valid strict semver in non-increasing precedence, which is what registry.Client.Tags hands it",
		},
		RequiredFloors: []string{
			"load:null-entry", "load:invalid-removed", "load:reordered", "load:all-removed",
			"get:exact", "get:constraint", "get:stable", "get:error", "get:prerelease-by-constraint", "get:urlless-entry",
			"pull:url", "pull:error", "resolve:locked", "resolve:error", "resolve:skipped-urlless",
			"resolve:urlless-top:nokey", "resolve:urlless-top:nullurls", "resolve:urlless-top:emptyurls",
			"resolve:urlless-only:nokey", "resolve:urlless-only:nullurls", "resolve:urlless-only:emptyurls",
			"pull:urlless-refused:nokey", "pull:urlless-refused:nullurls", "pull:urlless-refused:emptyurls",
			"resolve-multi:locked", "resolve-multi:different-versions", "resolve-multi:error-later-only",
			"get:stable-hyphen-build", "get:stable-hyphen-build-only", "get:prerelease-with-build-passed-over",
			"pull:stable-hyphen-build", "pull:stable-hyphen-build-only",
			"get:stable-zero:0.0.0", "get:stable-zero:v0.0.0", "get:stable-zero:0.0.0+b1", "pull:stable-zero:0.0.0", "pull:stable-zero:v0.0.0", "pull:stable-zero:0.0.0+b1",
			"history:alias:drop-first", "history:alias:delete-chart", "history:alias:mustadd-newer", "history:alias:mustadd-older", "history:alias:merge-newer",
			"history:alias:edit-version", "history:alias:sort-ascending", "history:alias:clear-urls",
			"history:rewrite:same-size:same-mtime", "history:rewrite:same-size:newer-mtime", "history:rewrite:same-size:older-mtime", "history:rewrite:diff-size:same-mtime",
			"registry:exact", "registry:constraint", "registry:error",
		},
	})
}

// ---------- grammar ----------

var alphabets = map[string][]string{
	// order = simplest first; the four words are entry shapes, everything else is a version string
	"main": {"1.0.0", "1.2.0", "1.10.0", "2.0.0", "2.0.0-rc.1", "v1.5.0", "1.2.0+b1", "1.2", "bad", "empty", "null", "nometa", "nourls"},
	"prec": {"1.0.0", "0.9.0", "1.0.0-rc.1", "1.0.0-beta.11", "1.0.0-beta.2", "1.0.0-beta", "1.0.0-alpha.beta", "1.0.0-alpha.1", "1.0.0-alpha", "1.0.0-1"},
	"tags": {"1.0.0", "1.2.0", "1.10.0", "2.0.0", "2.0.0-rc.1", "1.2.0+b1", "1.5.0", "1.0.0-rc.1", "1.0.0-beta.11", "1.0.0-beta.2", "1.0.0-alpha.1", "1.0.0-alpha"},
	// three versions x four spellings of the urls field: a download URL, key
	// absent (~nokey), "urls: null" (~nullurls), "urls: []" (~emptyurls). The
	// last three all mean "cannot be downloaded".
	"urls": {"1.0.0", "1.2.0", "2.0.0",
		"1.0.0~nokey", "1.2.0~nokey", "2.0.0~nokey",
		"1.0.0~nullurls", "1.2.0~nullurls", "2.0.0~nullurls",
		"1.0.0~emptyurls", "1.2.0~emptyurls", "2.0.0~emptyurls"},
	// '-' and '+' in the "wrong" part: stable versions whose build metadata holds a
	// hyphen, pre-releases that carry build metadata (with and without a hyphen)
	// the lowest version there is: 0.0.0 is a stable release, 0.0.0-rc.1 is not
	"zero": {"0.0.0", "v0.0.0", "0.0.0+b1", "0.0.0-rc.1", "0.0.1", "0.1.0-rc.1"},
	"hyph": {"1.2.0", "1.3.0", "1.3.0+b7", "1.3.0+git-4f2a", "0.8.0+build-7", "1.4.0-rc.1", "1.4.0-rc.1+b7", "1.4.0-rc.1+git-4f2a"},
	// reduced alphabet for dependency LISTS (the same chart several times, via aliases)
	"multi": {"1.0.0", "1.2.0", "1.10.0", "2.0.0", "2.0.0-rc.1", "nourls"},
	// reduced alphabet for rewrite histories (file replaced between two loads)
	"hist": {"1.0.0", "1.2.0", "2.0.0", "1.10.0", "2.0.0-rc.1", "bad", "null", "nourls"},
}

var queries = map[string][]string{
	"main": {"*", "", "1.2.0", "v1.5.0", "1.2.0+b1", "1.2", "2.0.0-rc.1", "3.0.0", "1.5.0", "^1.0.0", "~1.2", ">1.0.0 <2.0.0", ">=2.0.0-0", "9.9.9", "bad"},
	"prec": {"*", "", "1.0.0-beta.2", ">=1.0.0-0", ">=1.0.0-beta.2", "<1.0.0", ">=1.0.0-beta <1.0.0-rc.1", "~1.0.0-alpha", ">0.9.0-0 <1.0.0-0"},
	"tags": {"*", "", "1.2.0", "1.2.0+b1", "2.0.0-rc.1", "1.0.0-beta.2", "^1.0.0", "~1.2", ">1.0.0 <2.0.0", ">=2.0.0-0", ">=1.0.0-beta <1.0.0-rc.1", "9.9.9", "bad"},
	// dependency ranges (Chart.yaml): "" is not a range and is left out
	"resolve": {"*", "1.2.0", "v1.5.0", "1.2.0+b1", "1.2", "3.0.0", "^1.0.0", "~1.2", ">1.0.0 <2.0.0", ">=2.0.0-0", "9.9.9", "bad"},
	// urls alphabet: Get / pull queries and dependency ranges
	"urls":         {"*", "", "1.2.0", "^1.0.0", ">1.0.0 <2.0.0", "9.9.9"},
	"resolve-urls": {"*", "1.2.0", "^1.0.0", ">1.0.0 <2.0.0", "~1.2", "9.9.9"},
	"zero":         {"", "*", ">=0.0.0-0", "0.0.0", ">0.0.0", "^0.0.0", "9.9.9"},
	"hyph":         {"", "*", "1.3.0", "1.3.0+git-4f2a", "^1.0.0", ">=1.0.0-0", "9.9.9"},
	"resolve-hyph": {"*", "1.3.0", "^1.0.0", ">=1.0.0-0"},
	// every ordered tuple of these is a dependency list on the same chart
	"resolve-multi": {"*", "^1.0.0", ">1.0.0 <2.0.0", ">=2.0.0-0", "1.2.0", "9.9.9"},
}

const urllessVersion = "3.0.0"

// fileEntry is one element of entries.x in the generated file.
type fileEntry struct {
	ID      string // digest field, identifies the entry after loading
	Null    bool
	NoMeta  bool
	Version string
	URL     bool   // has a download URL
	Shape   string // how the missing URL is spelled: nokey | nullurls | emptyurls ("" when URL)
}

func mkEntries(list []string) []fileEntry {
	out := make([]fileEntry, len(list))
	for i, t := range list {
		e := fileEntry{ID: fmt.Sprintf("e%d", i), URL: true}
		switch t {
		case "null":
			e.Null = true
		case "nometa":
			e.NoMeta = true
		case "nourls":
			e.Version, e.URL, e.Shape = urllessVersion, false, "nokey"
		case "empty":
			e.Version = ""
		default:
			e.Version = t
			if i := strings.IndexByte(t, '~'); i >= 0 && (t[i+1:] == "nokey" || t[i+1:] == "nullurls" || t[i+1:] == "emptyurls") {
				e.Version, e.URL, e.Shape = t[:i], false, t[i+1:]
			}
		}
		out[i] = e
	}
	return out
}

func entryURL(id string) string { return repoURL + "/" + chartName + "-" + id + ".tgz" }

func render(list []string, spelling string) []byte {
	es := mkEntries(list)
	if spelling == "json" {
		arr := make([]any, 0, len(es))
		for _, e := range es {
			if e.Null {
				arr = append(arr, nil)
				continue
			}
			m := map[string]any{"digest": e.ID}
			if !e.NoMeta {
				m["name"], m["version"] = chartName, e.Version
			}
			switch {
			case e.URL:
				m["urls"] = []string{entryURL(e.ID)}
			case e.Shape == "nullurls":
				m["urls"] = nil
			case e.Shape == "emptyurls":
				m["urls"] = []string{}
			}
			arr = append(arr, m)
		}
		b, _ := json.Marshal(map[string]any{"apiVersion": "v1", "entries": map[string]any{chartName: arr}})
		return b
	}
	var sb strings.Builder
	sb.WriteString("apiVersion: v1\nentries:\n")
	if len(es) == 0 {
		sb.WriteString("  " + chartName + ": []\n")
		return []byte(sb.String())
	}
	sb.WriteString("  " + chartName + ":\n")
	for _, e := range es {
		if e.Null {
			sb.WriteString("  - null\n")
			continue
		}
		fmt.Fprintf(&sb, "  - digest: %s\n", e.ID)
		if !e.NoMeta {
			fmt.Fprintf(&sb, "    name: %s\n    version: %q\n", chartName, e.Version)
		}
		switch {
		case e.URL:
			fmt.Fprintf(&sb, "    urls:\n    - %s\n", entryURL(e.ID))
		case e.Shape == "nullurls":
			sb.WriteString("    urls: null\n")
		case e.Shape == "emptyurls":
			sb.WriteString("    urls: []\n")
		}
	}
	return []byte(sb.String())
}

// ---------- oracle ----------

type cand struct {
	ID      string
	Version string
	URL     bool
	Shape   string
}

// validCands: the entries of the file a correct loader keeps.
func validCands(list []string) []cand {
	var out []cand
	for _, e := range mkEntries(list) {
		if e.Null || e.NoMeta {
			continue
		}
		if _, ok := parseSV(e.Version); !ok {
			continue
		}
		out = append(out, cand{ID: e.ID, Version: e.Version, URL: e.URL, Shape: e.Shape})
	}
	return out
}

// expect returns the acceptable answers (indices into cands) for a query; an
// empty result means only an error is acceptable. how names the clause used.
func expect(cands []cand, q string, exactFirst, needURL bool) (acc []int, how string) {
	if exactFirst && q != "" {
		for i, c := range cands {
			if c.Version == q {
				acc = append(acc, i)
			}
		}
		if len(acc) > 0 {
			return acc, "exact"
		}
	}
	var con *semver.Constraints
	how = "stable"
	if q != "" {
		how = "constraint"
		var err error
		if con, err = semver.NewConstraint(q); err != nil {
			return nil, "badconstraint"
		}
	}
	var sat []int
	for i, c := range cands {
		v, ok := parseSV(c.Version)
		if !ok || (needURL && !c.URL) {
			continue
		}
		if q == "" {
			if !v.stable() {
				continue
			}
		} else {
			lv, err := semver.NewVersion(c.Version)
			if err != nil || !con.Check(lv) {
				continue
			}
		}
		sat = append(sat, i)
	}
	if len(sat) == 0 {
		return nil, "none"
	}
	best, _ := parseSV(cands[sat[0]].Version)
	for _, i := range sat[1:] {
		if v, _ := parseSV(cands[i].Version); cmpSV(v, best) > 0 {
			best = v
		}
	}
	for _, i := range sat {
		if v, _ := parseSV(cands[i].Version); cmpSV(v, best) == 0 {
			acc = append(acc, i)
		}
	}
	return acc, how
}

func versionsOf(cands []cand, idx []int) string {
	var out []string
	for _, i := range idx {
		out = append(out, cands[i].Version+"("+cands[i].ID+")")
	}
	if len(out) == 0 {
		return "an error"
	}
	return strings.Join(out, " or ")
}

// ---------- running the real code ----------

func safely(f func() error) (err error, panicked string) {
	defer func() {
		if r := recover(); r != nil {
			panicked = fmt.Sprint(r)
		}
	}()
	return f(), ""
}

type memGetter struct{}

func (memGetter) Get(url string, _ ...getter.Option) (*bytes.Buffer, error) {
	return bytes.NewBufferString("not a chart archive: " + url), nil
}

// scratch is the per-process working directory (index file, repo cache,
// repositories.yaml, parent chart).
type scratch struct {
	dir, idxDir, cache, repoCfg, chartDir string
	getters                               getter.Providers
}

var theScratch *scratch

func getScratch() *scratch {
	if theScratch != nil {
		return theScratch
	}
	// housekeeping: scratch directories of workers that were killed long ago
	if old, _ := filepath.Glob("/var/tmp/c18-[0-9]*"); len(old) > 0 {
		for _, d := range old {
			if fi, err := os.Stat(d); err == nil && time.Since(fi.ModTime()) > 6*time.Hour {
				os.RemoveAll(d)
			}
		}
	}
	dir, err := os.MkdirTemp("/var/tmp", "c18-")
	if err != nil {
		panic(err)
	}
	s := &scratch{dir: dir, idxDir: filepath.Join(dir, "idx"), cache: filepath.Join(dir, "cache"),
		repoCfg: filepath.Join(dir, "repositories.yaml"), chartDir: filepath.Join(dir, "parent")}
	for _, d := range []string{s.idxDir, s.cache, s.chartDir} {
		if err := os.MkdirAll(d, 0o755); err != nil {
			panic(err)
		}
	}
	must(os.WriteFile(s.repoCfg, []byte("apiVersion: \"\"\nrepositories:\n- name: "+repoName+"\n  url: "+repoURL+"\n"), 0o644))
	s.getters = getter.Providers{{Schemes: []string{"http", "https"}, New: func(...getter.Option) (getter.Getter, error) { return memGetter{}, nil }}}
	theScratch = s
	return s
}

func cleanupScratch() {
	if theScratch != nil {
		os.RemoveAll(theScratch.dir)
		theScratch = nil
	}
}

func must(err error) {
	if err != nil {
		panic(err)
	}
}

// loadReal writes the file and calls repo.LoadIndexFile.
func loadReal(list []string, spelling string) (idx *repo.IndexFile, errS, panicS string) {
	p := freshPath(spelling)
	defer os.Remove(p)
	must(os.WriteFile(p, render(list, spelling), 0o644))
	return loadPath(p)
}

var pathSeq int

// freshPath: every case gets a path of its own, so nothing that the code under
// test may remember about a path can leak from one case into the next.
func freshPath(spelling string) string {
	pathSeq++
	return filepath.Join(getScratch().idxDir, fmt.Sprintf("i%d.%s", pathSeq, spelling))
}

func loadPath(p string) (idx *repo.IndexFile, errS, panicS string) {
	err, pan := safely(func() error {
		var e error
		idx, e = repo.LoadIndexFile(p)
		return e
	})
	if pan != "" {
		return nil, "", pan
	}
	if err != nil {
		return idx, err.Error(), ""
	}
	return idx, "", ""
}

// checkLoad evaluates the first sentence of the property on a loaded index.
// reordered reports whether the loader had to change the relative order.
func checkLoad(list []string, idx *repo.IndexFile, errS, panicS string) (kind, what string, reordered bool) {
	if panicS != "" {
		return "panic", "panics: " + panicS, false
	}
	if errS != "" {
		return "load-error", "fails to load a file whose only oddities are inside the entry list: " + errS, false
	}
	if idx == nil {
		return "load-error", "returned a nil index without error", false
	}
	es := mkEntries(list)
	byID := map[string]fileEntry{}
	for _, e := range es {
		byID[e.ID] = e
	}
	want := validCands(list)
	seen := map[string]bool{}
	var prev *sv
	prevS := ""
	lastPos := -1
	for i, cv := range idx.Entries[chartName] {
		if cv == nil {
			return "nil-entry-kept", fmt.Sprintf("loaded list holds a nil entry at position %d", i), false
		}
		if cv.Metadata == nil {
			return "nometa-entry-kept", fmt.Sprintf("loaded list holds an entry without metadata at position %d", i), false
		}
		fe, ok := byID[cv.Digest]
		if !ok || seen[cv.Digest] {
			return "foreign-entry", fmt.Sprintf("loaded entry %d (digest %q, version %q) is not an entry of the file or appears twice", i, cv.Digest, cv.Version), false
		}
		seen[cv.Digest] = true
		v, ok := parseSV(cv.Version)
		if !ok || cv.Name == "" {
			return "invalid-entry-kept", fmt.Sprintf("loaded list keeps invalid entry %s (name %q, version %q)", cv.Digest, cv.Name, cv.Version), false
		}
		if fe.NoMeta || fe.Version != cv.Version || cv.Name != chartName || (len(cv.URLs) > 0) != fe.URL {
			return "entry-altered", fmt.Sprintf("loaded entry %s differs from the file: name %q version %q urls %v", cv.Digest, cv.Name, cv.Version, cv.URLs), false
		}
		if prev != nil && cmpSV(*prev, v) < 0 {
			return "not-descending", fmt.Sprintf("loaded versions are not newest-first: %q is followed by the newer %q", prevS, cv.Version), false
		}
		pos := 0
		fmt.Sscanf(cv.Digest, "e%d", &pos)
		if pos < lastPos {
			reordered = true
		}
		lastPos = pos
		vv := v
		prev, prevS = &vv, cv.Version
	}
	for _, w := range want {
		if !seen[w.ID] {
			return "valid-entry-dropped", fmt.Sprintf("valid entry %s (version %q) of the file is missing from the loaded index", w.ID, w.Version), false
		}
	}
	return "", "", reordered
}

// lastAnswer is what the real code returned in the most recent check* call
// (only used to write out samples).
var lastAnswer string

// checkGet runs one IndexFile.Get and compares with the oracle.
func checkGet(idx *repo.IndexFile, cands []cand, q string) (kind, what, class string) {
	acc, how := expect(cands, q, true, false)
	var cv *repo.ChartVersion
	err, pan := safely(func() error {
		var e error
		cv, e = idx.Get(chartName, q)
		return e
	})
	lastAnswer = "error"
	if err == nil && cv != nil && cv.Metadata != nil {
		lastAnswer = cv.Version + "(" + cv.Digest + ")"
	}
	switch {
	case pan != "":
		return "panic", fmt.Sprintf("Get(%q) panics: %s", q, pan), "panic"
	case err != nil && len(acc) == 0:
		return "", "", "error:" + how
	case err != nil:
		return "unexpected-error", fmt.Sprintf("Get(%q) fails (%v) although %s matches (%s)", q, err, versionsOf(cands, acc), how), "VIOLATION"
	case cv == nil || cv.Metadata == nil:
		return "nil-result", fmt.Sprintf("Get(%q) returned nil without error", q), "VIOLATION"
	}
	for _, i := range acc {
		if cands[i].ID == cv.Digest {
			return "", "", how
		}
	}
	if len(acc) == 0 {
		return "missing-error", fmt.Sprintf("Get(%q) returned %q although nothing matches (%s)", q, cv.Version, how), "VIOLATION"
	}
	return "wrong-pick", fmt.Sprintf("Get(%q) returned %q(%s), expected %s (%s)", q, cv.Version, cv.Digest, versionsOf(cands, acc), how), "VIOLATION"
}

// writeCache puts the index into the repository cache; the cache file is
// always called r-index.yaml, LoadIndexFile sniffs JSON content.
func writeCache(list []string, spelling string) {
	s := getScratch()
	if spelling != "json" {
		spelling = "yaml"
	}
	must(os.WriteFile(filepath.Join(s.cache, repoName+"-index.yaml"), render(list, spelling), 0o644))
}

// checkPull runs ChartDownloader.ResolveChartVersion("r/x", q).
func checkPull(list []string, spelling string, cands []cand, q string) (kind, what, class string) {
	s := getScratch()
	writeCache(list, spelling)
	acc, how := expect(cands, q, true, false)
	errOK := len(acc) == 0
	for _, i := range acc {
		if !cands[i].URL {
			errOK = true // best match cannot be downloaded: refusing is fine
		}
	}
	dl := &downloader.ChartDownloader{Out: io.Discard, Getters: s.getters, RepositoryConfig: s.repoCfg, RepositoryCache: s.cache}
	got := ""
	err, pan := safely(func() error {
		u, e := dl.ResolveChartVersion(repoName+"/"+chartName, q)
		if e == nil && u != nil {
			got = u.String()
		}
		return e
	})
	lastAnswer = "error"
	if err == nil {
		lastAnswer = got
	}
	switch {
	case pan != "":
		return "panic", fmt.Sprintf("ResolveChartVersion(r/x, %q) panics: %s", q, pan), "panic"
	case err != nil && errOK:
		return "", "", "error:" + how
	case err != nil:
		return "unexpected-error", fmt.Sprintf("ResolveChartVersion(r/x, %q) fails (%v) although %s matches (%s)", q, err, versionsOf(cands, acc), how), "VIOLATION"
	}
	id := strings.TrimSuffix(strings.TrimPrefix(path.Base(got), chartName+"-"), ".tgz")
	for _, i := range acc {
		if cands[i].ID == id && cands[i].URL {
			return "", "", how
		}
	}
	if len(acc) == 0 {
		return "missing-error", fmt.Sprintf("ResolveChartVersion(r/x, %q) returned %s although nothing matches (%s)", q, got, how), "VIOLATION"
	}
	return "wrong-pick", fmt.Sprintf("ResolveChartVersion(r/x, %q) returned %s, expected %s (%s)", q, got, versionsOf(cands, acc), how), "VIOLATION"
}

// checkResolve runs Manager.Update on a parent chart depending on x with
// range q and reads the lock that resolver.Resolve produced.
func checkResolve(list []string, spelling string, cands []cand, q string) (kind, what, class string) {
	s := getScratch()
	writeCache(list, spelling)
	acc, how := expect(cands, q, false, true)
	lockPath := filepath.Join(s.chartDir, "Chart.lock")
	os.Remove(lockPath)
	os.RemoveAll(filepath.Join(s.chartDir, "charts"))
	must(os.WriteFile(filepath.Join(s.chartDir, "Chart.yaml"), []byte(fmt.Sprintf(
		"apiVersion: v2\nname: parent\nversion: 0.1.0\ndependencies:\n- name: %s\n  version: %q\n  repository: %s\n", chartName, q, repoURL)), 0o644))
	m := &downloader.Manager{Out: io.Discard, ChartPath: s.chartDir, SkipUpdate: true, Getters: s.getters,
		RepositoryConfig: s.repoCfg, RepositoryCache: s.cache, Verify: downloader.VerifyNever}
	err, pan := safely(m.Update)
	if pan != "" {
		return "panic", fmt.Sprintf("Manager.Update with dependency range %q panics: %s", q, pan), "panic"
	}
	lastAnswer = "error"
	if err != nil {
		if len(acc) == 0 {
			return "", "", "error:" + how
		}
		return "unexpected-error", fmt.Sprintf("dependency range %q: update fails (%v) although %s satisfies it", q, err, versionsOf(cands, acc)), "VIOLATION"
	}
	b, rerr := os.ReadFile(lockPath)
	var lock chart.Lock
	if rerr == nil {
		rerr = yaml.Unmarshal(b, &lock)
	}
	if rerr != nil || len(lock.Dependencies) != 1 || lock.Dependencies[0] == nil {
		return "no-lock", fmt.Sprintf("dependency range %q: update succeeded but no usable Chart.lock (%v)", q, rerr), "VIOLATION"
	}
	got := lock.Dependencies[0].Version
	lastAnswer = got
	for _, i := range acc {
		if cands[i].Version == got {
			return "", "", how
		}
	}
	if len(acc) == 0 {
		return "missing-error", fmt.Sprintf("dependency range %q locked to %q although no downloadable indexed version satisfies it", q, got), "VIOLATION"
	}
	return "wrong-pick", fmt.Sprintf("dependency range %q locked to %q, highest satisfying indexed version is %s", q, got, versionsOf(cands, acc)), "VIOLATION"
}

// checkResolveMulti: one parent chart depending on the same chart several
// times (aliases a0, a1, ...) with the given ranges. Reference: every
// dependency is resolved on its own; one unsatisfiable range fails the update.
func checkResolveMulti(list []string, spelling string, cands []cand, ranges []string) (kind, what, class string) {
	s := getScratch()
	writeCache(list, spelling)
	accs := make([][]int, len(ranges))
	wantErr := false
	for i, q := range ranges {
		accs[i], _ = expect(cands, q, false, true)
		if len(accs[i]) == 0 {
			wantErr = true
		}
	}
	lockPath := filepath.Join(s.chartDir, "Chart.lock")
	os.Remove(lockPath)
	os.RemoveAll(filepath.Join(s.chartDir, "charts"))
	var sb strings.Builder
	sb.WriteString("apiVersion: v2\nname: parent\nversion: 0.1.0\ndependencies:\n")
	for i, q := range ranges {
		fmt.Fprintf(&sb, "- name: %s\n  alias: a%d\n  version: %q\n  repository: %s\n", chartName, i, q, repoURL)
	}
	must(os.WriteFile(filepath.Join(s.chartDir, "Chart.yaml"), []byte(sb.String()), 0o644))
	m := &downloader.Manager{Out: io.Discard, ChartPath: s.chartDir, SkipUpdate: true, Getters: s.getters,
		RepositoryConfig: s.repoCfg, RepositoryCache: s.cache, Verify: downloader.VerifyNever}
	err, pan := safely(m.Update)
	desc := fmt.Sprintf("dependencies on the same chart (aliases a0..a%d) with ranges %q: ", len(ranges)-1, ranges)
	lastAnswer = "error"
	switch {
	case pan != "":
		return "panic", desc + "Manager.Update panics: " + pan, "panic"
	case err != nil && wantErr:
		return "", "", "error"
	case err != nil:
		return "unexpected-error", desc + fmt.Sprintf("update fails (%v) although every range is satisfiable", err), "VIOLATION"
	}
	b, rerr := os.ReadFile(lockPath)
	var lock chart.Lock
	if rerr == nil {
		rerr = yaml.Unmarshal(b, &lock)
	}
	if rerr != nil || len(lock.Dependencies) != len(ranges) {
		return "no-lock", desc + fmt.Sprintf("update succeeded but Chart.lock is unusable or has %d entries (%v)", len(lock.Dependencies), rerr), "VIOLATION"
	}
	var got []string
	for _, d := range lock.Dependencies {
		if d == nil {
			return "no-lock", desc + "Chart.lock holds a null dependency", "VIOLATION"
		}
		got = append(got, d.Version)
	}
	lastAnswer = strings.Join(got, ",")
	for i, q := range ranges {
		if len(accs[i]) == 0 {
			return "missing-error", desc + fmt.Sprintf("locked to %v although no downloadable indexed version satisfies %q (dependency %d)", got, q, i), "VIOLATION"
		}
		ok := false
		for _, j := range accs[i] {
			if cands[j].Version == got[i] {
				ok = true
			}
		}
		if !ok {
			return "wrong-pick", desc + fmt.Sprintf("dependency %d (%q) locked to %q, highest satisfying indexed version is %s (lock: %v)", i, q, got[i], versionsOf(cands, accs[i]), got), "VIOLATION"
		}
	}
	return "", "", "locked"
}

// sortedDesc: precondition of the registry entry point.
func sortedDesc(tags []string) bool {
	for i := 1; i < len(tags); i++ {
		a, ok1 := parseSV(tags[i-1])
		b, ok2 := parseSV(tags[i])
		if !ok1 || !ok2 || cmpSV(a, b) < 0 {
			return false
		}
	}
	return true
}

func checkRegistry(tags []string, q string) (kind, what, class string) {
	cands := make([]cand, len(tags))
	for i, t := range tags {
		cands[i] = cand{ID: fmt.Sprint(i), Version: t, URL: true}
	}
	acc, how := expect(cands, q, true, false)
	got := ""
	err, pan := safely(func() error {
		var e error
		got, e = registry.GetTagMatchingVersionOrConstraint(append([]string{}, tags...), q)
		return e
	})
	lastAnswer = "error"
	if err == nil {
		lastAnswer = got
	}
	switch {
	case pan != "":
		return "panic", fmt.Sprintf("GetTagMatchingVersionOrConstraint(%v, %q) panics: %s", tags, q, pan), "panic"
	case err != nil && len(acc) == 0:
		return "", "", "error:" + how
	case err != nil:
		return "unexpected-error", fmt.Sprintf("GetTagMatchingVersionOrConstraint(%v, %q) fails (%v), expected %s (%s)", tags, q, err, versionsOf(cands, acc), how), "VIOLATION"
	}
	for _, i := range acc {
		if cands[i].Version == got {
			return "", "", how
		}
	}
	if len(acc) == 0 {
		return "missing-error", fmt.Sprintf("GetTagMatchingVersionOrConstraint(%v, %q) returned %q although nothing matches (%s)", tags, q, got, how), "VIOLATION"
	}
	return "wrong-pick", fmt.Sprintf("GetTagMatchingVersionOrConstraint(%v, %q) returned %q, expected %s (%s)", tags, q, got, versionsOf(cands, acc), how), "VIOLATION"
}

// ---------- single cases (replay, minimisation) ----------

type caseSpec struct {
	Entry    string   `json:"entry"` // load | get | pull | resolve | registry
	Alpha    string   `json:"alphabet"`
	List     []string `json:"list"`
	Spelling string   `json:"spelling,omitempty"`
	Query    string   `json:"query"`
	// histories on one path (entry "history"): load List, then Step, then load again
	// entry "resolve-multi": the ranges of the dependencies on the same chart (Query = ranges joined by |)
	Ranges []string `json:"ranges,omitempty"`
	Step   string   `json:"step,omitempty"`  // mutate:<mutator> | rewrite:<mtime mode>
	List2  []string `json:"list2,omitempty"` // rewrite: the entries of the replacing file
}

func (cs caseSpec) String() string {
	s := fmt.Sprintf("%s/%s/%s[%s]?%s", cs.Entry, cs.Alpha, cs.Spelling, strings.Join(cs.List, ","), cs.Query)
	if cs.Entry == "history" {
		s += fmt.Sprintf(" %s [%s]", cs.Step, strings.Join(cs.List2, ","))
	}
	return s
}

// runCase executes exactly one case; kind "" = passes.
func runCase(cs caseSpec) (kind, what string) {
	pre := fmt.Sprintf("index (%s) with entries [%s]: ", cs.Spelling, strings.Join(cs.List, ", "))
	switch cs.Entry {
	case "load":
		idx, e, p := loadReal(cs.List, cs.Spelling)
		k, w, _ := checkLoad(cs.List, idx, e, p)
		if k != "" {
			w = "LoadIndexFile on " + pre + w
		}
		return k, w
	case "get":
		idx, e, p := loadReal(cs.List, cs.Spelling)
		if k, _, _ := checkLoad(cs.List, idx, e, p); k != "" {
			return "", "" // reported under entry point load
		}
		k, w, _ := checkGet(idx, validCands(cs.List), cs.Query)
		if k != "" {
			w = pre + w
		}
		return k, w
	case "pull":
		k, w, _ := checkPull(cs.List, cs.Spelling, validCands(cs.List), cs.Query)
		if k != "" {
			w = pre + w
		}
		return k, w
	case "resolve":
		k, w, _ := checkResolve(cs.List, cs.Spelling, validCands(cs.List), cs.Query)
		if k != "" {
			w = pre + w
		}
		return k, w
	case "registry":
		if !sortedDesc(cs.List) {
			return "", ""
		}
		k, w, _ := checkRegistry(cs.List, cs.Query)
		return k, w
	case "history":
		k, w, _ := runHistory(cs)
		return k, w
	case "resolve-multi":
		k, w, _ := checkResolveMulti(cs.List, cs.Spelling, validCands(cs.List), cs.Ranges)
		if k != "" {
			w = pre + w
		}
		return k, w
	}
	return "", ""
}

// ---------- histories on one path ----------

var (
	histMutators = []string{"drop-first", "delete-chart", "mustadd-newer", "mustadd-older", "merge-newer", "edit-version", "sort-ascending", "clear-urls"}
	histModes    = []string{"same-mtime", "newer-mtime", "older-mtime"}
	histT0       = time.Unix(1700000000, 0)
	histQueries  = []string{"", "*", "9.0.0"}
)

// mutate changes the object a caller got back from LoadIndexFile using only
// the public surface of IndexFile (fields, MustAdd, Merge, the sort interface).
func mutate(idx *repo.IndexFile, m string) (changed bool) {
	safely(func() error {
		if idx == nil || idx.Entries == nil {
			return nil
		}
		vs := idx.Entries[chartName]
		newer := &chart.Metadata{Name: chartName, Version: "9.0.0", APIVersion: "v2"}
		switch m {
		case "drop-first":
			if len(vs) > 0 {
				idx.Entries[chartName] = vs[1:]
				changed = true
			}
		case "delete-chart":
			if len(vs) > 0 {
				delete(idx.Entries, chartName)
				changed = true
			}
		case "mustadd-newer":
			changed = idx.MustAdd(newer, chartName+"-9.0.0.tgz", repoURL, "dnew") == nil
		case "mustadd-older":
			changed = idx.MustAdd(&chart.Metadata{Name: chartName, Version: "0.0.1", APIVersion: "v2"}, chartName+"-0.0.1.tgz", repoURL, "dold") == nil
		case "merge-newer":
			o := repo.NewIndexFile()
			if o.MustAdd(newer, chartName+"-9.0.0.tgz", repoURL, "dnew") == nil {
				idx.Merge(o)
				changed = true
			}
		case "edit-version":
			if len(vs) > 0 && vs[0] != nil && vs[0].Metadata != nil {
				vs[0].Version = "9.9.9"
				changed = true
			}
		case "sort-ascending":
			if len(vs) > 1 {
				sort.Sort(vs)
				changed = true
			}
		case "clear-urls":
			if len(vs) > 0 && vs[0] != nil && len(vs[0].URLs) > 0 {
				vs[0].URLs = nil
				changed = true
			}
		}
		return nil
	})
	return changed
}

// runHistory: write List to a fresh path (mtime pinned), load it, perform Step,
// load the same path again. The second result must be what an independent
// reading of the bytes that are in the file at that moment says. info is for
// the vacuity floors: changed|noop (mutate), same-size|diff-size (rewrite).
func runHistory(cs caseSpec) (kind, what, info string) {
	sp := cs.Spelling
	if sp != "json" {
		sp = "yaml"
	}
	p := freshPath(sp)
	defer os.Remove(p)
	b1 := render(cs.List, sp)
	must(os.WriteFile(p, b1, 0o644))
	must(os.Chtimes(p, histT0, histT0))
	idx1, e, pn := loadPath(p)
	if k, _, _ := checkLoad(cs.List, idx1, e, pn); k != "" {
		return "", "", "first-load-fails" // reported under entry point load
	}
	expectList := cs.List
	desc := fmt.Sprintf("one path: file (%s) with entries [%s] is loaded", sp, strings.Join(cs.List, ", "))
	switch {
	case strings.HasPrefix(cs.Step, "mutate:"):
		m := strings.TrimPrefix(cs.Step, "mutate:")
		info = "noop"
		if mutate(idx1, m) {
			info = "changed"
		}
		desc += fmt.Sprintf(", the caller modifies the returned object (%s), the unchanged file is loaded again: ", m)
	case strings.HasPrefix(cs.Step, "rewrite:"):
		mode := strings.TrimPrefix(cs.Step, "rewrite:")
		b2 := render(cs.List2, sp)
		must(os.WriteFile(p, b2, 0o644))
		t := histT0
		switch mode {
		case "newer-mtime":
			t = t.Add(time.Second)
		case "older-mtime":
			t = t.Add(-time.Second)
		}
		must(os.Chtimes(p, t, t))
		info = "diff-size"
		if len(b1) == len(b2) {
			info = "same-size"
		}
		expectList = cs.List2
		desc += fmt.Sprintf(", the file is replaced by entries [%s] (%s, %s) and loaded again: ", strings.Join(cs.List2, ", "), info, mode)
	default:
		return "", "", ""
	}
	idx2, e, pn := loadPath(p)
	if k, w, _ := checkLoad(expectList, idx2, e, pn); k != "" {
		return k, desc + "second LoadIndexFile: " + w, info
	}
	cands := validCands(expectList)
	for _, q := range histQueries {
		if k, w, _ := checkGet(idx2, cands, q); k != "" {
			return "get-" + k, desc + w, info
		}
	}
	return "", "", info
}

var memo = map[string]string{}

func failKind(cs caseSpec) string {
	key := cs.String()
	if k, ok := memo[key]; ok {
		return k
	}
	k, _ := runCase(cs)
	memo[key] = k
	return k
}

func (cs caseSpec) with(f func(*caseSpec)) caseSpec {
	n := cs
	n.List = append([]string{}, cs.List...)
	if cs.List2 != nil {
		n.List2 = append([]string{}, cs.List2...)
	}
	f(&n)
	return n
}

// minimise: simplest query, fewest entries, simplest tokens, YAML - keeping the
// same failure kind - so that the finding key names only what matters.
func minimise(cs caseSpec, kind string) caseSpec {
	cur := cs.with(func(*caseSpec) {})
	try := func(n caseSpec) bool {
		if failKind(n) == kind {
			cur = n
			return true
		}
		return false
	}
	if cur.Entry != "load" && cur.Entry != "history" && cur.Entry != "resolve-multi" && cur.Query != "*" {
		try(cur.with(func(n *caseSpec) { n.Query = "*" }))
	}
	shrink := func(get func(*caseSpec) *[]string) {
		for changed := true; changed; {
			changed = false
			for i := range *get(&cur) {
				if try(cur.with(func(n *caseSpec) { l := get(n); *l = append((*l)[:i], (*l)[i+1:]...) })) {
					changed = true
					break
				}
			}
		}
		// A token may only be replaced by a simpler plain valid version (towards the
		// well-formed baseline): putting an odd entry shape (null, nometa, bad ...)
		// in could turn the case into a different defect with the same symptom.
		for i := range *get(&cur) {
			for _, tok := range alphabets[cur.Alpha] {
				if tok == (*get(&cur))[i] {
					break
				}
				if plainVersion(tok) && try(cur.with(func(n *caseSpec) { (*get(n))[i] = tok })) {
					break
				}
			}
		}
	}
	if cur.Entry == "history" && strings.HasPrefix(cur.Step, "rewrite:") {
		// first drop the same position from both files (keeps their size relation)
		for changed := true; changed; {
			changed = false
			for i := 0; i < len(cur.List) && i < len(cur.List2); i++ {
				if try(cur.with(func(n *caseSpec) {
					n.List = append(n.List[:i], n.List[i+1:]...)
					n.List2 = append(n.List2[:i], n.List2[i+1:]...)
				})) {
					changed = true
					break
				}
			}
		}
	}
	shrink(func(n *caseSpec) *[]string { return &n.List })
	if cur.Entry == "history" && strings.HasPrefix(cur.Step, "rewrite:") {
		shrink(func(n *caseSpec) *[]string { return &n.List2 })
	}
	if cur.Spelling == "json" {
		try(cur.with(func(n *caseSpec) { n.Spelling = "yaml" }))
	}
	return cur
}

func plainVersion(tok string) bool {
	switch tok {
	case "null", "nometa", "nourls", "empty":
		return false
	}
	_, ok := parseSV(tok)
	return ok
}

func keyOf(cs caseSpec, kind string) string {
	toks := append([]string{}, cs.List...)
	sort.Strings(toks)
	shape := strings.Join(toks, "+")
	if shape == "" {
		shape = "none"
	}
	if cs.Entry == "history" {
		if strings.HasPrefix(cs.Step, "rewrite:") {
			// one class per (mtime mode, size relation, symptom): the pair of files is
			// in the message and the replay, every same-size pair would be a key otherwise
			sp := cs.Spelling
			if sp != "json" {
				sp = "yaml"
			}
			rel := "diff-size"
			if len(render(cs.List, sp)) == len(render(cs.List2, sp)) {
				rel = "same-size"
			}
			return core.SanitizeKey("history/" + cs.Step + "/" + rel + "/" + kind)
		}
		return core.SanitizeKey("history/" + cs.Step + "/" + kind + "/" + shape)
	}
	if cs.Entry == "resolve-multi" {
		// one class per (symptom, number of dependencies on the chart): index and
		// ranges are in the message and the replay, every pair of ranges would be a key otherwise
		return core.SanitizeKey(fmt.Sprintf("resolve-multi/%s/same-chart-x%d", kind, len(cs.Ranges)))
	}
	k := cs.Entry + "/" + kind + "/" + shape
	if cs.Entry != "load" {
		q := cs.Query
		if q == "" {
			q = "(empty)"
		}
		k += "/q=" + q
	}
	return core.SanitizeKey(k)
}

func report(c *core.Ctx, cs caseSpec, kind string) {
	m := minimise(cs, kind)
	k, what := runCase(m)
	if k != kind { // cannot happen (memo says it fails); keep the original then
		m = cs
		_, what = runCase(cs)
	}
	if m.String() != cs.String() {
		what += " (minimised from " + cs.String() + ")"
	}
	c.Violate(prop, keyOf(m, kind), what, m)
}

func replay(_ *core.Ctx, data json.RawMessage) []core.Violation {
	defer cleanupScratch()
	var cs caseSpec
	if err := json.Unmarshal(data, &cs); err != nil {
		return nil
	}
	kind, what := runCase(cs)
	if kind == "" {
		return nil
	}
	return []core.Violation{{Property: prop, Key: keyOf(cs, kind), What: what, Replay: data}}
}

// ---------- exploration ----------

// enumLists calls f for every list over toks of length 0..maxLen, shortest
// first, odometer order. The slice is reused.
func enumLists(toks []string, maxLen int, f func(list []string)) {
	for n := 0; n <= maxLen; n++ {
		idx := make([]int, n)
		list := make([]string, n)
		for {
			for i, j := range idx {
				list[i] = toks[j]
			}
			f(list)
			i := n - 1
			for i >= 0 {
				idx[i]++
				if idx[i] < len(toks) {
					break
				}
				idx[i] = 0
				i--
			}
			if i < 0 {
				break
			}
		}
	}
}

// noteHyphenFloors records, for an empty-version query answered with acc, that
// the highest stable version carries a hyphen in its build metadata (also as the
// only stable entry) and that pre-releases with build metadata were passed over.
func noteHyphenFloors(c *core.Ctx, entry string, cands []cand, acc []int) {
	best := cands[acc[0]].Version
	if v, ok := parseSV(best); ok && v.stable() && v.core == [3]uint64{0, 0, 0} {
		c.Floor(entry + ":stable-zero:" + best) // the highest stable version is 0.0.0 itself
	}
	if i := strings.IndexByte(best, '+'); i >= 0 && strings.Contains(best[i:], "-") && len(acc) == 1 {
		c.Floor(entry + ":stable-hyphen-build")
		stable := 0
		for _, cd := range cands {
			if v, ok := parseSV(cd.Version); ok && v.stable() {
				stable++
			}
		}
		if stable == 1 {
			c.Floor(entry + ":stable-hyphen-build-only")
		}
	}
	bv, _ := parseSV(best)
	for _, cd := range cands {
		if v, ok := parseSV(cd.Version); ok && !v.stable() && strings.Contains(cd.Version, "+") && cmpSV(v, bv) > 0 {
			c.Floor(entry + ":prerelease-with-build-passed-over")
		}
	}
}

func has(list []string, tok ...string) bool {
	for _, x := range list {
		for _, t := range tok {
			if x == t {
				return true
			}
		}
	}
	return false
}

func run(c *core.Ctx) {
	defer cleanupScratch()
	type bounds struct{ main, prec, tags, pull, resolve, urls, hyph, hyphVia, alias, rw1, rw2, multi2, multi3 int }
	b := bounds{main: 4, prec: 4, tags: 4, pull: 3, resolve: 3, urls: 3, hyph: 4, hyphVia: 3, alias: 3, rw1: 2, rw2: 2, multi2: 2, multi3: 0}
	if c.Thorough() {
		b = bounds{main: 5, prec: 5, tags: 6, pull: 4, resolve: 4, urls: 4, hyph: 5, hyphVia: 4, alias: 4, rw1: 3, rw2: 2, multi2: 3, multi3: 2}
	}
	c.Bound("zero alphabet (6 tokens), load+get YAML and JSON / pull: max entries per chart", fmt.Sprintf("%d / %d", b.hyph, b.hyphVia))
	c.Bound("hyphen/plus alphabet (8 tokens), load+get YAML and JSON: max entries per chart; via pull / resolve", fmt.Sprintf("%d; %d", b.hyph, b.hyphVia))
	c.Bound("aliasing histories (load, mutate returned object with each of 8 public mutators, load again), main alphabet, YAML and JSON: max entries", fmt.Sprint(b.alias))
	c.Bound("rewrite histories (load, replace file, load again) x 3 mtime modes, hist alphabet (8 tokens): max entries first file / second file", fmt.Sprintf("%d/%d", b.rw1, b.rw2))
	c.Bound("urls alphabet (3 versions x {url, key absent, urls: null, urls: []}), load+get / pull / resolve, YAML and JSON: max entries per chart", fmt.Sprint(b.urls))
	c.Bound("urls alphabet through pull / resolve in the JSON spelling: max entries per chart", "3")
	c.Bound("urls alphabet size; queries get+pull / resolve", fmt.Sprintf("%d; %d/%d", len(alphabets["urls"]), len(queries["urls"]), len(queries["resolve-urls"])))
	c.Bound("load+get main alphabet: max entries per chart", fmt.Sprint(b.main))
	c.Bound("load+get precedence alphabet: max entries per chart", fmt.Sprint(b.prec))
	c.Bound("registry: max tags", fmt.Sprint(b.tags))
	c.Bound("pull (ResolveChartVersion): max entries per chart", fmt.Sprint(b.pull))
	c.Bound("resolve (Manager.Update): max entries per chart", fmt.Sprint(b.resolve))
	c.Bound("alphabet sizes main/prec/tags", fmt.Sprintf("%d/%d/%d", len(alphabets["main"]), len(alphabets["prec"]), len(alphabets["tags"])))
	c.Bound("queries main/prec/tags/resolve", fmt.Sprintf("%d/%d/%d/%d", len(queries["main"]), len(queries["prec"]), len(queries["tags"]), len(queries["resolve"])))
	only := func(p string) bool { return c.Only == "" || c.Only == p }
	// a few written-out passing cases per entry point (the runner keeps 12 per shard)
	seen, taken := map[string]int{}, map[string]int{}
	sample := func(v map[string]any) {
		e := fmt.Sprint(v["entry"])
		seen[e]++
		if seen[e]%211 == 1 && taken[e] < 3 {
			taken[e]++
			c.Sample(v)
		}
	}

	// Phase 1: LoadIndexFile + Get
	for _, alpha := range []string{"main", "prec", "urls", "hyph", "zero"} {
		if !only("load") && !only("get") {
			break
		}
		maxLen := b.main
		switch alpha {
		case "prec":
			maxLen = b.prec
		case "urls":
			maxLen = b.urls
		case "hyph", "zero":
			maxLen = b.hyph
		}
		enumLists(alphabets[alpha], maxLen, func(list []string) {
			for _, sp := range []string{"yaml", "json"} {
				if !c.NextMine() {
					continue
				}
				c.Eval(1)
				c.Distinct("load|" + alpha + "|" + sp + "|" + strings.Join(list, ","))
				idx, e, p := loadReal(list, sp)
				kind, _, reordered := checkLoad(list, idx, e, p)
				if has(list, "null") {
					c.Floor("load:null-entry")
				}
				if kind != "" {
					c.Outcome("load:VIOLATION:" + kind)
					report(c, caseSpec{Entry: "load", Alpha: alpha, List: list, Spelling: sp}, kind)
					continue
				}
				cands := validCands(list)
				switch {
				case len(list) > 0 && len(cands) == 0:
					c.Outcome("load:all-removed")
					c.Floor("load:all-removed")
				case len(cands) < len(list):
					c.Outcome("load:some-removed")
					c.Floor("load:invalid-removed")
				case reordered:
					c.Outcome("load:kept-all-reordered")
				default:
					c.Outcome("load:kept-all-in-order")
				}
				if reordered {
					c.Floor("load:reordered")
				}
				for _, q := range queries[alpha] {
					c.Eval(1)
					k, _, class := checkGet(idx, cands, q)
					c.Outcome("get:" + class)
					switch class {
					case "exact":
						c.Floor("get:exact")
					case "constraint":
						c.Floor("get:constraint")
					case "stable":
						c.Floor("get:stable")
					case "error:none", "error:badconstraint":
						c.Floor("get:error")
					}
					if k != "" {
						report(c, caseSpec{Entry: "get", Alpha: alpha, List: list, Spelling: sp, Query: q}, k)
						continue
					}
					if class == "constraint" || class == "stable" {
						if acc, _ := expect(cands, q, true, false); len(acc) > 0 {
							if v, _ := parseSV(cands[acc[0]].Version); !v.stable() {
								c.Floor("get:prerelease-by-constraint")
							}
							if !cands[acc[0]].URL {
								c.Floor("get:urlless-entry")
							}
							if q == "" {
								noteHyphenFloors(c, "get", cands, acc)
							}
						}
					}
					if len(list) == maxLen {
						sample(map[string]any{"entry": "LoadIndexFile+Get", "spelling": sp, "file_entries": append([]string{}, list...), "query": q, "clause": class, "answer": lastAnswer, "agrees_with_oracle": true})
					}
				}
			}
		})
	}

	// Phase 2: ChartDownloader.ResolveChartVersion (helm pull r/x --version q)
	type via struct {
		alpha     string
		maxLen    int
		spellings []string
		queries   []string
		jsonMax   int // the JSON spelling is run up to this length (same decoder behind both spellings)
	}
	for _, v := range []via{{"main", b.pull, []string{"yaml"}, queries["main"], 0}, {"urls", b.urls, []string{"yaml", "json"}, queries["urls"], 3}, {"hyph", b.hyphVia, []string{"yaml"}, queries["hyph"], 0}, {"zero", b.hyphVia, []string{"yaml"}, queries["zero"], 0}} {
		if !only("pull") {
			break
		}
		enumLists(alphabets[v.alpha], v.maxLen, func(list []string) {
			for _, sp := range v.spellings {
				if sp == "json" && len(list) > v.jsonMax {
					continue
				}
				if !c.NextMine() {
					continue
				}
				c.Distinct("pull|" + v.alpha + "|" + sp + "|" + strings.Join(list, ","))
				cands := validCands(list)
				for _, q := range v.queries {
					c.Eval(1)
					k, _, class := checkPull(list, sp, cands, q)
					c.Outcome("pull:" + class)
					if strings.HasPrefix(class, "error:") {
						c.Floor("pull:error")
						if acc, _ := expect(cands, q, true, false); k == "" {
							for _, i := range acc { // best match exists but cannot be downloaded
								c.Floor("pull:urlless-refused:" + cands[i].Shape)
							}
						}
					} else if k == "" {
						c.Floor("pull:url")
						if acc, _ := expect(cands, q, true, false); q == "" && len(acc) > 0 {
							noteHyphenFloors(c, "pull", cands, acc)
						}
					}
					if k != "" {
						report(c, caseSpec{Entry: "pull", Alpha: v.alpha, List: list, Spelling: sp, Query: q}, k)
					} else if len(list) == v.maxLen {
						sample(map[string]any{"entry": "ChartDownloader.ResolveChartVersion", "spelling": sp, "file_entries": append([]string{}, list...), "version": q, "clause": class, "answer": lastAnswer, "agrees_with_oracle": true})
					}
				}
			}
		})
	}

	// Phase 3: Manager.Update -> resolver.Resolve -> Chart.lock
	for _, v := range []via{{"main", b.resolve, []string{"yaml"}, queries["resolve"], 0}, {"urls", b.urls, []string{"yaml", "json"}, queries["resolve-urls"], 3}, {"hyph", b.hyphVia, []string{"yaml"}, queries["resolve-hyph"], 0}} {
		if !only("resolve") {
			break
		}
		enumLists(alphabets[v.alpha], v.maxLen, func(list []string) {
			for _, sp := range v.spellings {
				if sp == "json" && len(list) > v.jsonMax {
					continue
				}
				if !c.NextMine() {
					continue
				}
				c.Distinct("resolve|" + v.alpha + "|" + sp + "|" + strings.Join(list, ","))
				cands := validCands(list)
				for _, q := range v.queries {
					c.Eval(1)
					k, _, class := checkResolve(list, sp, cands, q)
					c.Outcome("resolve:" + class)
					if k != "" {
						report(c, caseSpec{Entry: "resolve", Alpha: v.alpha, List: list, Spelling: sp, Query: q}, k)
						continue
					}
					// entries that satisfy the range regardless of downloadability
					accAll, _ := expect(cands, q, false, false)
					acc, _ := expect(cands, q, false, true)
					if strings.HasPrefix(class, "error:") {
						c.Floor("resolve:error")
						for _, i := range accAll { // the only matches cannot be downloaded
							c.Floor("resolve:urlless-only:" + cands[i].Shape)
						}
						continue
					}
					c.Floor("resolve:locked")
					if len(accAll) > 0 && len(acc) > 0 {
						top, _ := parseSV(cands[accAll[0]].Version)
						got, _ := parseSV(cands[acc[0]].Version)
						if cmpSV(top, got) > 0 { // undownloadable entries outrank the locked one
							c.Floor("resolve:skipped-urlless")
							for _, i := range accAll {
								c.Floor("resolve:urlless-top:" + cands[i].Shape)
							}
						}
					}
					if len(list) == v.maxLen {
						sample(map[string]any{"entry": "Manager.Update/resolver.Resolve", "spelling": sp, "file_entries": append([]string{}, list...), "range": q, "locked": lastAnswer, "agrees_with_oracle": true})
					}
				}
			}
		})
	}

	// Phase 3a: dependency lists naming the same chart several times with
	// different ranges: every ordered tuple of ranges
	if only("resolve") || only("resolve-multi") {
		tuples := [][]string{}
		rs := queries["resolve-multi"]
		for _, a := range rs {
			for _, bq := range rs {
				tuples = append(tuples, []string{a, bq})
			}
		}
		runTuples := func(maxLen int, tuples [][]string) {
			enumLists(alphabets["multi"], maxLen, func(list []string) {
				if !c.NextMine() {
					return
				}
				c.Distinct(fmt.Sprintf("resolve-multi|%d|%s", len(tuples[0]), strings.Join(list, ",")))
				cands := validCands(list)
				for _, rg := range tuples {
					c.Eval(1)
					k, _, class := checkResolveMulti(list, "yaml", cands, rg)
					c.Outcome("resolve-multi:" + class)
					if k != "" {
						report(c, caseSpec{Entry: "resolve-multi", Alpha: "multi", List: list, Spelling: "yaml", Ranges: rg, Query: strings.Join(rg, "|")}, k)
						continue
					}
					if class == "error" {
						if a0, _ := expect(cands, rg[0], false, true); len(a0) > 0 {
							c.Floor("resolve-multi:error-later-only")
						}
						continue
					}
					c.Floor("resolve-multi:locked")
					if vs := strings.Split(lastAnswer, ","); len(vs) > 1 && vs[0] != vs[1] {
						c.Floor("resolve-multi:different-versions")
						if len(list) >= 2 {
							sample(map[string]any{"entry": "Manager.Update/resolver.Resolve (same chart twice)", "file_entries": append([]string{}, list...), "ranges": rg, "locked": lastAnswer, "agrees_with_oracle": true})
						}
					}
				}
			})
		}
		runTuples(b.multi2, tuples)
		if b.multi3 > 0 {
			var triples [][]string
			for _, t := range tuples {
				for _, cq := range rs {
					triples = append(triples, []string{t[0], t[1], cq})
				}
			}
			runTuples(b.multi3, triples)
		}
		c.Bound("resolve, same chart listed twice (aliases), every ordered pair of 6 ranges, multi alphabet (6 tokens): max entries per chart", fmt.Sprint(b.multi2))
		c.Bound("resolve, same chart listed three times, every ordered triple of 6 ranges: max entries per chart (0 = not run)", fmt.Sprint(b.multi3))
	}

	// Phase 3b: histories on one path. (a) aliasing: what a caller does to the
	// object it got back must not show in a later load of the unchanged file.
	if only("history") {
		enumLists(alphabets["main"], b.alias, func(list []string) {
			for _, sp := range []string{"yaml", "json"} {
				if !c.NextMine() {
					continue
				}
				c.Distinct("history|alias|" + sp + "|" + strings.Join(list, ","))
				for _, m := range histMutators {
					c.Eval(1)
					cs := caseSpec{Entry: "history", Alpha: "main", List: list, Spelling: sp, Step: "mutate:" + m}
					k, _, info := runHistory(cs)
					c.Outcome("history:mutate:" + m + ":" + info)
					if info == "changed" {
						c.Floor("history:alias:" + m)
					}
					if k != "" {
						report(c, cs, k)
					} else if len(list) == b.alias && info == "changed" {
						sample(map[string]any{"entry": "history/" + m, "spelling": sp, "file_entries": append([]string{}, list...), "second_load_equals_fresh_parse": true})
					}
				}
			}
		})
		// (b) the file is replaced between two loads: every ordered pair of
		// different files, mtime restored / newer / older
		enumLists(alphabets["hist"], b.rw1, func(l1 []string) {
			first := append([]string{}, l1...)
			enumLists(alphabets["hist"], b.rw2, func(l2 []string) {
				if strings.Join(first, ",") == strings.Join(l2, ",") {
					return
				}
				if !c.NextMine() {
					return
				}
				c.Distinct("history|rewrite|" + strings.Join(first, ",") + "|" + strings.Join(l2, ","))
				for _, mode := range histModes {
					c.Eval(1)
					cs := caseSpec{Entry: "history", Alpha: "hist", List: first, Spelling: "yaml", Step: "rewrite:" + mode, List2: append([]string{}, l2...)}
					k, _, info := runHistory(cs)
					c.Outcome("history:rewrite:" + mode + ":" + info)
					c.Floor("history:rewrite:" + info + ":" + mode)
					if k != "" {
						report(c, cs, k)
					} else if info == "same-size" && mode == "same-mtime" {
						sample(map[string]any{"entry": "history/rewrite", "first_file": first, "second_file": append([]string{}, l2...), "same_size_same_mtime": true, "second_load_reflects_second_file": true})
					}
				}
			})
		})
	}

	// Phase 4: registry.GetTagMatchingVersionOrConstraint on descending tag lists
	if only("registry") {
		enumLists(alphabets["tags"], b.tags, func(list []string) {
			if !sortedDesc(list) {
				return
			}
			if !c.NextMine() {
				return
			}
			c.Distinct("registry|tags|" + strings.Join(list, ","))
			for _, q := range queries["tags"] {
				c.Eval(1)
				k, _, class := checkRegistry(list, q)
				c.Outcome("registry:" + class)
				switch {
				case class == "exact":
					c.Floor("registry:exact")
				case class == "constraint" || class == "stable":
					c.Floor("registry:constraint")
				case strings.HasPrefix(class, "error:"):
					c.Floor("registry:error")
				}
				if k != "" {
					report(c, caseSpec{Entry: "registry", Alpha: "tags", List: append([]string{}, list...), Query: q}, k)
				} else if len(list) >= 3 {
					sample(map[string]any{"entry": "registry.GetTagMatchingVersionOrConstraint", "tags": append([]string{}, list...), "version": q, "clause": class, "answer": lastAnswer, "agrees_with_oracle": true})
				}
			}
		})
	}
}
