package c18

import (
	"strings"
	"testing"
)

// The comparator is checked against the ordering example of semver.org §11 and
// a few facts the check relies on (independently of Masterminds/semver).
func TestOracleComparator(t *testing.T) {
	chain := []string{"0.9.0", "1.0.0-1", "1.0.0-alpha", "1.0.0-alpha.1", "1.0.0-alpha.beta", "1.0.0-beta", "1.0.0-beta.2", "1.0.0-beta.11", "1.0.0-rc.1", "1.0.0", "1.2.0", "v1.5.0", "1.10.0", "2.0.0-rc.1", "2.0.0", "3.0.0"}
	for i := range chain {
		for j := range chain {
			a, ok1 := parseSV(chain[i])
			b, ok2 := parseSV(chain[j])
			if !ok1 || !ok2 {
				t.Fatalf("unparsable %q %q", chain[i], chain[j])
			}
			want := 0
			if i < j {
				want = -1
			} else if i > j {
				want = 1
			}
			if got := cmpSV(a, b); got != want {
				t.Errorf("cmp(%s,%s)=%d want %d", chain[i], chain[j], got, want)
			}
		}
	}
	eq := [][2]string{{"1.2.0", "1.2.0+b1"}, {"1.2", "1.2.0"}, {"v1.5.0", "1.5.0"}}
	for _, p := range eq {
		a, _ := parseSV(p[0])
		b, _ := parseSV(p[1])
		if cmpSV(a, b) != 0 {
			t.Errorf("%s and %s must have equal precedence", p[0], p[1])
		}
	}
	for _, bad := range []string{"", "bad", "1.2.3.4", "1..2", "1.0.0-", "1.0.0-a..b", "x1.0.0"} {
		if _, ok := parseSV(bad); ok {
			t.Errorf("%q must be invalid", bad)
		}
	}
}

func TestExpectClauses(t *testing.T) {
	cands := []cand{{"e0", "1.2.0+b1", true, ""}, {"e1", "1.2.0", true, ""}, {"e2", "2.0.0-rc.1", true, ""}, {"e3", "3.0.0", false, "emptyurls"}}
	check := func(q string, exact, needURL bool, wantIDs string, wantHow string) {
		acc, how := expect(cands, q, exact, needURL)
		got := ""
		for _, i := range acc {
			got += cands[i].ID
		}
		if got != wantIDs || how != wantHow {
			t.Errorf("expect(%q,%v,%v) = %s/%s want %s/%s", q, exact, needURL, got, how, wantIDs, wantHow)
		}
	}
	check("1.2.0", true, false, "e1", "exact")
	check("1.2.0", false, false, "e0e1", "constraint")
	check("", true, false, "e3", "stable")
	check("*", false, true, "e0e1", "constraint")
	check(">=2.0.0-0", true, true, "e2", "constraint")
	check("9.9.9", true, false, "", "none")
	check("bad", true, false, "", "badconstraint")
}

// The three spellings of "no URLs" render differently and are all treated as
// not downloadable by the oracle.
func TestURLSpellings(t *testing.T) {
	list := []string{"1.0.0", "1.2.0~nokey", "1.2.0~nullurls", "2.0.0~emptyurls"}
	y, j := string(render(list, "yaml")), string(render(list, "json"))
	for _, want := range []string{"urls: null\n", "urls: []\n"} {
		if !strings.Contains(y, want) {
			t.Errorf("yaml lacks %q:\n%s", want, y)
		}
	}
	for _, want := range []string{`"urls":null`, `"urls":[]`} {
		if !strings.Contains(j, want) {
			t.Errorf("json lacks %q: %s", want, j)
		}
	}
	cands := validCands(list)
	if len(cands) != 4 || cands[0].URL != true || cands[1].URL || cands[2].URL || cands[3].URL || cands[3].Version != "2.0.0" {
		t.Fatalf("cands %+v", cands)
	}
	if acc, _ := expect(cands, "*", false, true); len(acc) != 1 || cands[acc[0]].ID != "e0" {
		t.Errorf("resolve oracle must pick the only downloadable entry, got %v", acc)
	}
	if acc, _ := expect(cands, ">1.0.0", false, true); len(acc) != 0 {
		t.Errorf("resolve oracle must expect an error when only undownloadable entries match, got %v", acc)
	}
}

// '-' inside build metadata does not make a pre-release; '+' after a
// pre-release does not make it stable.
func TestHyphenAndPlusPlacement(t *testing.T) {
	for v, stable := range map[string]bool{"1.3.0+git-4f2a": true, "0.8.0+build-7": true, "1.3.0+b7": true, "1.4.0-rc.1+b7": false, "1.4.0-rc.1+git-4f2a": false, "1.4.0-rc.1": false} {
		p, ok := parseSV(v)
		if !ok || p.stable() != stable {
			t.Errorf("%s: ok=%v stable=%v want stable=%v", v, ok, p.stable(), stable)
		}
	}
	a, _ := parseSV("1.3.0+git-4f2a")
	b, _ := parseSV("1.3.0")
	if cmpSV(a, b) != 0 {
		t.Error("build metadata must not affect precedence")
	}
	cands := validCands([]string{"1.2.0", "1.3.0+git-4f2a", "1.4.0-rc.1+b7"})
	if acc, how := expect(cands, "", true, false); len(acc) != 1 || cands[acc[0]].Version != "1.3.0+git-4f2a" || how != "stable" {
		t.Errorf("empty query: %v %s", acc, how)
	}
}
