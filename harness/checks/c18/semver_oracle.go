package c18

import "strings"

// Independent semantic-version precedence (semver.org §11), written without
// looking at Masterminds/semver. Lenient in exactly the ways the index grammar
// of this check needs: optional leading "v", one to three numeric core parts
// (missing parts are 0). Build metadata never takes part in precedence.

type sv struct {
	core [3]uint64
	pre  []string // pre-release identifiers; empty = stable
}

func parseUint(s string) (uint64, bool) {
	if s == "" || len(s) > 18 {
		return 0, false
	}
	var n uint64
	for _, r := range s {
		if r < '0' || r > '9' {
			return 0, false
		}
		n = n*10 + uint64(r-'0')
	}
	return n, true
}

func identOK(s string) bool {
	if s == "" {
		return false
	}
	for _, r := range s {
		if !(r >= '0' && r <= '9' || r >= 'a' && r <= 'z' || r >= 'A' && r <= 'Z' || r == '-') {
			return false
		}
	}
	return true
}

func parseSV(s string) (sv, bool) {
	var v sv
	s = strings.TrimPrefix(s, "v")
	if i := strings.IndexByte(s, '+'); i >= 0 {
		for _, id := range strings.Split(s[i+1:], ".") {
			if !identOK(id) {
				return v, false
			}
		}
		s = s[:i]
	}
	if i := strings.IndexByte(s, '-'); i >= 0 {
		v.pre = strings.Split(s[i+1:], ".")
		for _, id := range v.pre {
			if !identOK(id) {
				return v, false
			}
		}
		s = s[:i]
	}
	parts := strings.Split(s, ".")
	if len(parts) < 1 || len(parts) > 3 {
		return v, false
	}
	for i, p := range parts {
		n, ok := parseUint(p)
		if !ok {
			return v, false
		}
		v.core[i] = n
	}
	return v, true
}

// cmpSV returns -1, 0, +1 by precedence.
func cmpSV(a, b sv) int {
	for i := 0; i < 3; i++ {
		if a.core[i] != b.core[i] {
			if a.core[i] < b.core[i] {
				return -1
			}
			return 1
		}
	}
	switch {
	case len(a.pre) == 0 && len(b.pre) == 0:
		return 0
	case len(a.pre) == 0:
		return 1 // a stable version outranks its pre-releases
	case len(b.pre) == 0:
		return -1
	}
	for i := 0; i < len(a.pre) && i < len(b.pre); i++ {
		x, y := a.pre[i], b.pre[i]
		if x == y {
			continue
		}
		xn, xIsNum := parseUint(x)
		yn, yIsNum := parseUint(y)
		switch {
		case xIsNum && yIsNum:
			if xn < yn {
				return -1
			}
			return 1
		case xIsNum:
			return -1 // numeric identifiers rank below alphanumeric ones
		case yIsNum:
			return 1
		case x < y:
			return -1
		default:
			return 1
		}
	}
	switch {
	case len(a.pre) < len(b.pre):
		return -1
	case len(a.pre) > len(b.pre):
		return 1
	}
	return 0
}

func (v sv) stable() bool { return len(v.pre) == 0 }
