// Package c02: after a successful operation the cluster matches the recorded
// manifest. Explicit-state search over histories of operations interleaved
// with out-of-band edits, on the real actions and the real kube.Client over
// the simulated API server; oracle = independent YAML -> object subset check.
package c02

import (
	"bytes"
	"encoding/json"
	"fmt"
	"sort"
	"strings"

	rspb "helm.sh/helm/v4/pkg/release/v1"

	"verif/harness/internal/core"
	"verif/harness/internal/hx"
	"verif/harness/internal/opspace"
	"verif/harness/internal/sim"
)

const prop = "C02"

func init() {
	core.Register(&core.Check{
		ID:    prop,
		Level: "model_checking",
		Rule: "BFS over histories install -> [env] -> upgrade|rollback|uninstall ... where charts range over the product of resource slots " +
			"(ConfigMap a x {absent,v1,v2,v2-minus-field} x policy {none,keep,delete}; Widget w (unstructured) x {absent,v1,v2}; Service s; second ConfigMap b) and env steps are " +
			"out-of-band edits / foreign fields / deletions / keep-annotation toggles of every live release object; two bystander objects; " +
			"every transition runs the real action; oracle applied to fault-free successful operations. distinct = canonical (state, step)",
		Run:    run,
		Replay: replay,
		Assumptions: []string{
			"simulated API server that accepts every request (no admission/defaulting); scripted waiter",
			"object identity for the oracle is computed from apiVersion/kind/name by a small independent table, manifests are parsed with yaml.v3's stream decoder",
			"lists are compared element-wise with equal length; maps by subset",
		},
		RequiredFloors: []string{"install-ok", "upgrade-ok", "rollback-ok", "uninstall-ok", "edit-repaired", "removed-deleted", "kept-by-live-annotation", "uninstall-kept", "bystanders-checked", "deleted-recreated"},
	})
}

// slot content: 0 = absent
type chartSel struct {
	A  int // ConfigMap a: 0 absent, 1..3 variants
	AP int // policy of a: 0 none, 1 keep, 2 delete
	W  int // Widget w: 0 absent, 1, 2
	S  int // Service s: 0 absent, 1, 2
	B  int // ConfigMap b: 0 absent, 1
	C  int // CustomResourceDefinition crds (as a template): 0 absent, 1, 2
}

func (c chartSel) spec(version int) *hx.ChartSpec {
	cs := &hx.ChartSpec{Name: "c", Version: fmt.Sprint(version)}
	if c.A > 0 {
		cs.Resources = append(cs.Resources, hx.ResSpec{Kind: "ConfigMap", Name: "a", Variant: c.A, Policy: []string{"", "keep", "delete"}[c.AP]})
	}
	if c.B > 0 {
		cs.Resources = append(cs.Resources, hx.ResSpec{Kind: "ConfigMap", Name: "b", Variant: c.B})
	}
	if c.S > 0 {
		cs.Resources = append(cs.Resources, hx.ResSpec{Kind: "Service", Name: "s", Variant: c.S})
	}
	if c.W > 0 {
		cs.Resources = append(cs.Resources, hx.ResSpec{Kind: "Widget", Name: "w", Variant: c.W})
	}
	if c.C > 0 {
		cs.Resources = append(cs.Resources, hx.ResSpec{Kind: "CRD", Name: "crds", Variant: c.C})
	}
	return cs
}

func charts(thorough bool) []*hx.ChartSpec {
	var sels []chartSel
	as := [][2]int{{0, 0}, {1, 0}, {2, 0}, {3, 0}, {1, 1}, {1, 2}}
	if thorough {
		// full product of ConfigMap a (7 variant/policy combinations) x Widget w (3), plus the Service and second-ConfigMap variants
		as = append(as, [2]int{2, 1})
		for _, a := range as {
			for _, w := range []int{0, 1, 2} {
				sels = append(sels, chartSel{A: a[0], AP: a[1], W: w})
			}
		}
		sels = append(sels, chartSel{C: 1}, chartSel{C: 2}, chartSel{A: 1, C: 1}, chartSel{A: 2, W: 1, C: 2}, chartSel{S: 1}, chartSel{S: 2}, chartSel{A: 1, W: 1, S: 1}, chartSel{A: 2, W: 2, S: 2}, chartSel{A: 1, S: 2}, chartSel{A: 1, B: 1}, chartSel{A: 2, W: 1, B: 1})
	} else {
		// every variant of every slot, with the other slots at absent and at v1
		for _, a := range as {
			sels = append(sels, chartSel{A: a[0], AP: a[1]}, chartSel{A: a[0], AP: a[1], W: 1})
		}
		sels = append(sels, chartSel{C: 1}, chartSel{C: 2}, chartSel{A: 1, C: 1}, chartSel{W: 2}, chartSel{A: 1, W: 2}, chartSel{S: 1}, chartSel{A: 1, W: 1, S: 1}, chartSel{A: 2, W: 2, S: 2}, chartSel{A: 1, S: 2}, chartSel{A: 1, B: 1})
	}
	var out []*hx.ChartSpec
	seen := map[chartSel]bool{}
	for _, s := range sels {
		if s == (chartSel{}) || seen[s] {
			continue
		}
		seen[s] = true
		out = append(out, s.spec(len(out)+1))
	}
	// a chart that renders no resource at all (every template switched off): upgrading to it must remove everything
	out = append(out, chartSel{}.spec(len(out)+1))
	return out
}

const (
	pathBy1 = "/api/v1/namespaces/default/configmaps/by1"
	pathBy2 = "/api/v1/namespaces/default/configmaps/by2"
)

func mkInit(drv, _ string) *hx.World {
	w := hx.NewWorld(drv)
	w.Sim.Put(pathBy1, map[string]any{"apiVersion": "v1", "kind": "ConfigMap", "metadata": map[string]any{"name": "by1", "namespace": "default"}, "data": map[string]any{"k": "bystander"}})
	w.Sim.Put(pathBy2, map[string]any{"apiVersion": "v1", "kind": "ConfigMap", "metadata": map[string]any{"name": "by2", "namespace": "default",
		"labels":      map[string]any{"app.kubernetes.io/managed-by": "Helm"},
		"annotations": map[string]any{"meta.helm.sh/release-name": "other", "meta.helm.sh/release-namespace": "default"}}, "data": map[string]any{"k": "other-release"}})
	return w
}

func config(tier string) *opspace.Config {
	thorough := tier == "thorough"
	cs := charts(thorough)
	maxOps := 3
	cfg := &opspace.Config{
		Property: prop,
		Drivers:  []string{"memory"},
		Inits:    []string{"bystanders"},
		MakeInit: mkInit,
		MaxDepth: 5, // ops and env steps together; see Alphabet for the real bounds
		Alphabet: func(w *hx.World, hist []*rspb.Release, path []opspace.Step) []opspace.Step {
			nOps, lastEnv, envs := 0, false, 0
			for i, s := range path {
				if s.Env != nil {
					envs++
					lastEnv = i == len(path)-1
				} else {
					nOps++
				}
			}
			var out []opspace.Step
			if nOps >= maxOps {
				return nil
			}
			if len(hist) == 0 {
				if nOps == 0 {
					for _, c := range cs {
						out = append(out, opspace.Step{Op: hx.Op{Kind: "install", Chart: c}})
					}
				}
				return out
			}
			last := hist[len(hist)-1]
			if last.Info.Status != rspb.StatusDeployed {
				return nil
			}
			// environment steps on the live objects of the release (at most one between two operations)
			maxEnv := 1
			if !lastEnv && envs < maxEnv && nOps < maxOps {
				docs, _ := hx.ParseManifest(last.Manifest)
				for _, d := range docs {
					p := d.Path()
					if _, ok := w.Sim.Get(p); !ok {
						continue
					}
					for _, k := range []string{"edit", "foreign", "delete", "keep-on", "keep-off"} {
						out = append(out, opspace.Step{Env: &opspace.EnvStep{Kind: k, Path: p}})
					}
				}
			}
			if nOps == maxOps-1 {
				// last operation: everything
				for _, c := range cs {
					out = append(out, opspace.Step{Op: hx.Op{Kind: "upgrade", Chart: c}})
				}
			} else {
				for _, c := range cs {
					out = append(out, opspace.Step{Op: hx.Op{Kind: "upgrade", Chart: c}})
				}
			}
			if len(hist) >= 2 {
				out = append(out, opspace.Step{Op: hx.Op{Kind: "rollback"}})
			}
			out = append(out, opspace.Step{Op: hx.Op{Kind: "uninstall"}}, opspace.Step{Op: hx.Op{Kind: "uninstall", KeepHistory: true}})
			return out
		},
		Check: check,
	}
	if thorough {
		cfg.Drivers = []string{"memory", "secrets"}
		cfg.MaxDepth = 6
	}
	return cfg
}

func run(c *core.Ctx) {
	config(c.Tier).Run(c)
	faultyConfig(c.Tier).Run(c)
	versionConfig(c.Tier).Run(c)
}

// versionConfig: (a) a resource that keeps kind and name but moves between two
// served versions of its API group (HorizontalPodAutoscaler autoscaling/v1 <->
// autoscaling/v2; the simulated server keeps one object for both), and (b) a
// history of eleven revisions on a Kubernetes backend, whose record list comes
// back in name order (v1, v10, v11, v2, ...), before the final operations.
func versionConfig(tier string) *opspace.Config {
	hpa := func(v, ver int, withA bool) *hx.ChartSpec {
		cs := &hx.ChartSpec{Name: "c", Version: fmt.Sprint(ver)}
		if v > 0 {
			cs.Resources = append(cs.Resources, hx.ResSpec{Kind: "HPA", Name: "h", Variant: v})
		}
		if withA {
			cs.Resources = append(cs.Resources, hx.ResSpec{Kind: "ConfigMap", Name: "a", Variant: 1})
		}
		return cs
	}
	cs := []*hx.ChartSpec{hpa(1, 201, false), hpa(2, 202, false), hpa(3, 203, true), hpa(0, 204, true), hpa(1, 205, true)}
	cfg := &opspace.Config{
		Property: prop,
		Drivers:  []string{"memory", "secrets"},
		Inits:    []string{"bystanders", "long11"},
		MakeInit: func(drv, init string) *hx.World {
			w := mkInit(drv, init)
			if init == "long11" {
				w.Exec(hx.Op{Kind: "install", Release: "r", Chart: cs[0]}, nil)
				for i := 0; i < 9; i++ {
					w.Exec(hx.Op{Kind: "upgrade", Release: "r", Chart: cs[(i+1)%2]}, nil)
				}
				w.Exec(hx.Op{Kind: "upgrade", Release: "r", Chart: cs[2]}, nil) // revision 11 = {h (v2, no minReplicas), a}; revision 9 = {h v1}
			}
			return w
		},
		MaxDepth: 3,
		DepthFor: func(init string) int {
			if init == "long11" {
				return 2
			}
			return 0
		},
		Alphabet: func(_ *hx.World, hist []*rspb.Release, _ []opspace.Step) []opspace.Step {
			var out []opspace.Step
			if len(hist) == 0 {
				for _, c := range cs {
					out = append(out, opspace.Step{Op: hx.Op{Kind: "install", Chart: c}})
				}
				return out
			}
			if hist[len(hist)-1].Info.Status != rspb.StatusDeployed {
				return nil
			}
			for _, c := range cs {
				out = append(out, opspace.Step{Op: hx.Op{Kind: "upgrade", Chart: c}})
			}
			if len(hist) >= 2 {
				out = append(out, opspace.Step{Op: hx.Op{Kind: "rollback"}})
			}
			out = append(out, opspace.Step{Op: hx.Op{Kind: "uninstall"}}, opspace.Step{Op: hx.Op{Kind: "uninstall", KeepHistory: true}})
			return out
		},
		Check: check,
	}
	if tier == "thorough" {
		cfg.Drivers = hx.Drivers
		cfg.MaxDepth = 4
	}
	return cfg
}

// faultyConfig: histories that contain a failed operation (one cluster-side
// fault), so that "previously deployed" and "last revision" differ; the
// oracle is still applied to fault-free successful operations only.
func faultyConfig(tier string) *opspace.Config {
	p := chartSel{A: 1, S: 1}.spec(101)        // {a, s}
	q := chartSel{A: 2, W: 1}.spec(102)        // {a', w}: drops s, adds w
	r := chartSel{A: 2, AP: 1, S: 2}.spec(103) // {a' keep, s'}
	q2 := chartSel{A: 1, W: 2}.spec(104)       // {a, w'}: changes w, which a failed upgrade to q may already have created
	ops := []hx.Op{{Kind: "upgrade", Chart: q}, {Kind: "upgrade", Chart: p}, {Kind: "upgrade", Chart: r}, {Kind: "upgrade", Chart: q2}, {Kind: "rollback"}, {Kind: "uninstall"}, {Kind: "uninstall", KeepHistory: true}}
	cfg := &opspace.Config{
		Property:  prop,
		Drivers:   []string{"memory"},
		Inits:     []string{"bystanders"},
		MakeInit:  mkInit,
		MaxDepth:  3,
		MaxFaulty: 1,
		Alphabet: func(_ *hx.World, hist []*rspb.Release, _ []opspace.Step) []opspace.Step {
			var out []opspace.Step
			if len(hist) == 0 {
				return []opspace.Step{{Op: hx.Op{Kind: "install", Chart: p}}, {Op: hx.Op{Kind: "install", Chart: q}}}
			}
			for _, o := range ops {
				out = append(out, opspace.Step{Op: o})
			}
			return out
		},
		FaultKinds: func(_ string, op hx.Op, call sim.Call) []string {
			switch call.Class {
			case "cluster":
				if call.Mutating {
					return []string{"reject"}
				}
			case "wait":
				return []string{"wait-fail"}
			}
			return nil
		},
		Check: check,
	}
	if tier == "thorough" {
		cfg.Drivers = []string{"memory", "secrets"}
		cfg.MaxDepth = 4
	}
	return cfg
}

type replayData struct {
	opspace.Replay
	Key   string `json:"key"`
	Tier  string `json:"tier"`
	Phase string `json:"phase,omitempty"`
}

func replay(c *core.Ctx, data json.RawMessage) []core.Violation {
	var rd replayData
	if err := json.Unmarshal(data, &rd); err != nil {
		return nil
	}
	if rd.Phase == "faulty" {
		faultyConfig(rd.Tier).ReplayPath(c, rd.Replay)
	} else if rd.Phase == "version" {
		versionConfig(rd.Tier).ReplayPath(c, rd.Replay)
	} else {
		config(rd.Tier).ReplayPath(c, rd.Replay)
	}
	return core.FilterKey(c.TakeViolations(), rd.Key)
}

func manifestPaths(manifest string) map[string]hx.Doc {
	out := map[string]hx.Doc{}
	docs, _ := hx.ParseManifest(manifest)
	for _, d := range docs {
		out[d.Path()] = d
	}
	return out
}

func short(p string) string { return p[strings.LastIndex(p[:strings.LastIndex(p, "/")], "/")+1:] }

// lastEnvOn returns the kind of the most recent env step on path p since the previous operation.
func envSince(path []opspace.Step) map[string]string {
	out := map[string]string{}
	for i := len(path) - 2; i >= 0; i-- {
		if path[i].Env == nil {
			break
		}
		if _, ok := out[path[i].Env.Path]; !ok {
			out[path[i].Env.Path] = path[i].Env.Kind
		}
	}
	return out
}

func check(c *core.Ctx, t *opspace.Transition) {
	if t.Step.Env != nil || t.Step.Fault != nil {
		return
	}
	op, res := t.Step.Op, t.Res
	c.Distinct(t.Pre.Canon() + "|" + t.Step.String())
	c.Outcome(op.Kind + ":" + res.ErrClass())
	if res.Failed {
		e := res.Err
		if len(e) > 90 {
			e = e[:90]
		}
		c.Count("failed:"+op.Kind+":"+e, 1)
		return
	}
	pre, post := t.PreHist, t.PostHist
	env := envSince(t.Path)
	kindOfPath := func(p string) string {
		segs := strings.Split(p, "/")
		return segs[len(segs)-2]
	}
	violate := func(inv, objPath, detail, what string) {
		ek := env[objPath]
		if ek == "" {
			ek = "none"
		}
		_ = ek
		key := core.SanitizeKey(fmt.Sprintf("%s|%s|%s|%s", inv, op.Kind, kindOfPath(objPath), detail))
		c.Violate(prop, key, fmt.Sprintf("%s: %s [history=%v]", inv, what, opspace.PathStrings(t.Path)),
			replayData{Replay: opspace.Replay{Driver: t.Driver, Init: t.Init, Path: t.Path}, Key: key, Tier: c.Tier, Phase: phaseOf(t)})
	}
	if len(t.Path) >= 3 {
		c.Sample(map[string]any{"history": opspace.PathStrings(t.Path), "cluster_after": shortPaths(t.Post)})
	}
	preObjs, postObjs := t.Pre.NonRecordObjects(), t.Post.NonRecordObjects()
	created, changed, deleted := hx.DiffObjects(preObjs, postObjs)
	// everything the release ever named
	owned := map[string]bool{}
	for _, r := range pre {
		for p := range manifestPaths(r.Manifest) {
			owned[p] = true
		}
	}
	for _, r := range post {
		for p := range manifestPaths(r.Manifest) {
			owned[p] = true
		}
	}
	switch op.Kind {
	case "install", "upgrade", "rollback":
		c.Floor(op.Kind + "-ok")
		if len(post) == 0 {
			return
		}
		nr := post[len(post)-1]
		newDocs := manifestPaths(nr.Manifest)
		// (1) every manifest resource exists with every specified field + ownership metadata
		for p, d := range newDocs {
			b, ok := postObjs[p]
			if !ok {
				violate("M1-exists", p, "missing", fmt.Sprintf("%s/%s is in the new manifest but not in the cluster", d.Kind, d.Name))
				continue
			}
			var live map[string]any
			json.Unmarshal(b, &live)
			if ok, why := hx.Subset(d.Obj, live); !ok {
				violate("M1-fields", p, "field", fmt.Sprintf("%s/%s live%s", d.Kind, d.Name, why))
			} else {
				if env[p] == "edit" {
					c.Floor("edit-repaired")
				}
				if env[p] == "delete" {
					c.Floor("deleted-recreated")
				}
			}
			if why := hx.OwnershipProblem(live, "r", hx.Namespace); why != "" {
				violate("M1-ownership", p, "ownership", fmt.Sprintf("%s/%s: %s", d.Kind, d.Name, why))
			}
		}
		// (2) resources of the previously deployed manifest that are not in the new one are gone unless the live object carried keep
		var prev *rspb.Release
		for _, r := range pre {
			if r.Info.Status == rspb.StatusDeployed {
				prev = r
			}
		}
		if prev != nil {
			for p, d := range manifestPaths(prev.Manifest) {
				if _, still := newDocs[p]; still {
					continue
				}
				pb, existed := preObjs[p]
				if !existed {
					continue
				}
				_, exists := postObjs[p]
				keep := hx.HasKeep(pb)
				switch {
				case keep && !exists:
					violate("M2-keep-deleted", p, "keep", fmt.Sprintf("%s/%s carried the keep policy on the live object but was deleted", d.Kind, d.Name))
				case keep && exists:
					c.Floor("kept-by-live-annotation")
				case !keep && exists:
					violate("M2-not-deleted", p, "stale", fmt.Sprintf("%s/%s was in the previously deployed manifest, is not in the new one, and still exists", d.Kind, d.Name))
				default:
					c.Floor("removed-deleted")
				}
			}
		}
	case "uninstall":
		c.Floor("uninstall-ok")
		if len(pre) == 0 {
			return
		}
		lr := pre[len(pre)-1]
		for p, d := range manifestPaths(lr.Manifest) {
			pol := ""
			if md, ok := d.Obj["metadata"].(map[string]any); ok {
				if an, ok := md["annotations"].(map[string]any); ok {
					pol, _ = an["helm.sh/resource-policy"].(string)
				}
			}
			pb, existed := preObjs[p]
			qb, exists := postObjs[p]
			if strings.EqualFold(strings.TrimSpace(pol), "keep") {
				if existed && (!exists || !bytes.Equal(pb, qb)) {
					violate("U1-keep-untouched", p, "keep", fmt.Sprintf("%s/%s has the keep policy but was deleted or changed by uninstall", d.Kind, d.Name))
				} else if lr.Info.Status == rspb.StatusUninstalled {
					// purge of a release that an earlier `uninstall --keep-history` already uninstalled: that earlier
					// response listed the kept resource; this one only removes the records
					c.Outcome("uninstall:purge-of-uninstalled-keeps-object")
				} else if !strings.Contains(res.Info, "["+d.Kind+"] "+d.Name) {
					violate("U1-keep-listed", p, "keep", fmt.Sprintf("%s/%s was kept but is not listed in the response (%q)", d.Kind, d.Name, res.Info))
				} else {
					c.Floor("uninstall-kept")
				}
			} else if exists {
				violate("U2-gone", p, "policy="+core.SanitizeKey(pol), fmt.Sprintf("%s/%s is in the uninstalled revision's manifest (resource-policy %q) and still exists", d.Kind, d.Name, pol))
			}
		}
	}
	// (3) nothing outside the release's manifests was created, changed or deleted
	for _, set := range [][]string{created, changed, deleted} {
		for _, p := range set {
			if !owned[p] {
				violate("B1-bystander", p, "touched", fmt.Sprintf("%s is not named by any manifest of the release but was created/changed/deleted", p))
			}
		}
	}
	for _, e := range res.Log {
		if e.Class == "cluster" && e.Mutating() {
			full := e.Path
			if e.Verb == "POST" {
				full = e.Path + "/" + e.Label[strings.LastIndex(e.Label, "/")+1:]
			}
			full = sim.StorePath(full) // the object's store key (a group served under several versions keeps one object)
			if !owned[full] {
				violate("B1-bystander-request", full, "request", fmt.Sprintf("mutating request %s on an object outside the release's manifests", e.Label))
			}
		}
	}
	if bytes.Equal(preObjs[pathBy1], postObjs[pathBy1]) && bytes.Equal(preObjs[pathBy2], postObjs[pathBy2]) {
		c.Floor("bystanders-checked")
	}
	_ = sim.RecordPrefix
}

func shortPaths(w *hx.World) []string {
	var out []string
	for p := range w.NonRecordObjects() {
		out = append(out, short(p)+"/"+p[strings.LastIndex(p, "/")+1:])
	}
	sort.Strings(out)
	return out
}

// phaseOf tells which of the two searches a transition belongs to: only the
// faulty-history search has a faulty step on its path.
func phaseOf(t *opspace.Transition) string {
	if t.Init == "long11" {
		return "version"
	}
	for _, s := range t.Path {
		if s.Op.Chart != nil && s.Op.Chart.Version >= "201" && len(s.Op.Chart.Version) == 3 {
			return "version"
		}
	}
	for _, s := range t.Path {
		if s.Fault != nil {
			return "faulty"
		}
		if s.Op.Chart != nil && s.Op.Chart.Version >= "101" && len(s.Op.Chart.Version) == 3 {
			return "faulty"
		}
	}
	return ""
}
