package c19

// Call path "getter-history": a HISTORY of Get calls on ONE getter.HTTPGetter.
//
// HTTPGetter.Get applies its options to the getter persistently (that is how
// ChartDownloader fetches the .prov file: a second Get without options), so one
// instance can be re-pointed at another repository by a later Get with
// WithURL / WithBasicAuth / WithPassCredentialsAll.  Every in-tree flow takes a
// fresh getter per repository; an SDK user, or a kept repo.ChartRepository.Client,
// does not have to.  A defect that keeps per-getter state derived from the options
// (a cached parsed repository URL, a cached decision, a cached header) only shows
// in such a history, never in a single call.
//
// Enumerated: all ordered pairs (thorough: also triples) of calls.  Call i either
// carries the full option set of a repository R_i out of the origin-relation
// alphabet -- WithURL(R_i), WithBasicAuth(credentials number i),
// WithPassCredentialsAll(p_i) -- or, from the second call on, no options at all
// (it inherits).  The file fetched by call i lives on the origin of one of the
// repositories of the history or on a third, unrelated origin.
//
// Oracle (reference model: three sticky variables): the credentials number k, which
// were configured together with repository URL R_k, may appear on the request of
// call i only if pass-credentials is in force for call i or the request's origin
// equals the origin of R_k.  For the credentials in force this is "only to the
// origin of the repository URL in force for that call"; for credentials that are no
// longer in force it is the statement's own wording.

import (
	"encoding/base64"
	"encoding/json"
	"fmt"
	"strings"
	"time"

	"helm.sh/helm/v4/pkg/getter"

	"verif/harness/internal/core"
)

const pHistory = "getter-history"

// Call is one Get of a history.
type Call struct {
	Href string `json:"href"`
	// Opts: "full" = WithURL(Repo), WithBasicAuth(credentials of this call), WithPassCredentialsAll(Pass);
	// "none" = no options, everything inherited from the earlier calls.
	Opts string `json:"opts"`
	Repo string `json:"repo,omitempty"`
	Pass bool   `json:"pass,omitempty"`
}

// credentials number i (0-based call index); number 0 is the pair used everywhere else.
var histCreds = [][2]string{{repoUser, repoPass}, {"bob", "hunter2"}, {"carol", "pa55"}}

func histAuth(i int) string {
	return "Basic " + base64.StdEncoding.EncodeToString([]byte(histCreds[i][0]+":"+histCreds[i][1]))
}

const thirdOrigin = "http://third.example"

// histRepos: the repository spellings of the histories = the origin relations of the
// alphabet (same, other scheme, scheme case, host case, unrelated host, look-alike
// parent, subdomain, default port spelled, other ports, userinfo).
func histRepos(thorough bool) []string {
	maxDev := 1
	if thorough {
		maxDev = 2
	}
	r, _ := repoURLs(0, maxDev)
	return r
}

// histReposTriples: one representative per origin relation.
var histReposTriples = []string{
	"http://repo.test/charts", "https://repo.test/charts", "http://repo.test:8080/charts",
	"http://REPO.test/charts", "http://sub.repo.test/charts", "http://evil.test/charts",
}

func hrefOn(repoURL string) string { return strings.TrimSuffix(repoURL, "/") + "/x.tgz" }

// enumerateHistories emits every history, shortest and simplest first.
func enumerateHistories(thorough bool, emit func(Case)) (pairs, triples int64) {
	type opt struct {
		opts string
		pass bool
	}
	first := []opt{{"full", false}, {"full", true}}
	later := []opt{{"full", false}, {"full", true}, {"none", false}}
	// dup: file position h names the same repository as an earlier position (equal spellings in the history)
	dup := func(repos []string, h int) bool {
		if h >= len(repos) {
			return false
		}
		for j := 0; j < h; j++ {
			if repos[j] == repos[h] {
				return true
			}
		}
		return false
	}
	// a call without options makes its repository slot irrelevant unless a file lives there, so different
	// tuples can denote the same history: every history is emitted once (same order in every worker)
	seen := map[uint64]bool{}
	emitOnce := func(c Case) bool {
		h := core.Hash64(c.canon())
		if seen[h] {
			return false
		}
		seen[h] = true
		emit(c)
		return true
	}
	mk := func(repos []string, os []opt, hs []int) Case {
		c := Case{Path: pHistory, Kind: "chart", Redirect: "none"}
		for i := range os {
			h := thirdOrigin + "/charts/x.tgz"
			if hs[i] < len(repos) {
				h = hrefOn(repos[hs[i]])
			}
			cl := Call{Href: h, Opts: os[i].opts}
			if cl.Opts == "full" {
				cl.Repo, cl.Pass = repos[i], os[i].pass
			}
			c.Seq = append(c.Seq, cl)
		}
		return c
	}
	rs := histRepos(thorough)
	for _, r1 := range rs {
		for _, r2 := range rs {
			repos := []string{r1, r2}
			for _, o1 := range first {
				for _, o2 := range later {
					for h1 := 0; h1 < 2; h1++ { // first file: on R1 or on R2
						for h2 := 0; h2 < 3; h2++ { // second file: on R1, on R2, on the third origin
							if dup(repos, h1) || dup(repos, h2) {
								continue
							}
							if emitOnce(mk(repos, []opt{o1, o2}, []int{h1, h2})) {
								pairs++
							}
						}
					}
				}
			}
		}
	}
	if !thorough {
		return
	}
	rt := histReposTriples
	for _, r1 := range rt {
		for _, r2 := range rt {
			for _, r3 := range rt {
				repos := []string{r1, r2, r3}
				for _, o1 := range first {
					for _, o2 := range later {
						for _, o3 := range later {
							for h1 := 0; h1 < 4; h1++ {
								for h2 := 0; h2 < 4; h2++ {
									for h3 := 0; h3 < 4; h3++ {
										if dup(repos, h1) || dup(repos, h2) || dup(repos, h3) {
											continue
										}
										if emitOnce(mk(repos, []opt{o1, o2, o3}, []int{h1, h2, h3})) {
											triples++
										}
									}
								}
							}
						}
					}
				}
			}
		}
	}
	return
}

// execHistory runs the calls on one real HTTPGetter and tags each request with its call.
func execHistory(w *world, c Case) Result {
	tr := w.org.newTransport()
	defer tr.CloseIdleConnections()
	w.org.begin(scenario{redirect: "none"})
	g, err := getter.NewHTTPGetter(getter.WithTransport(tr), getter.WithTimeout(20*time.Second))
	if err != nil {
		return Result{Err: err.Error()}
	}
	var res Result
	for i, cl := range c.Seq {
		var opts []getter.Option
		if cl.Opts == "full" {
			cr := histCreds[i%len(histCreds)]
			opts = []getter.Option{getter.WithURL(cl.Repo), getter.WithBasicAuth(cr[0], cr[1]), getter.WithPassCredentialsAll(cl.Pass)}
		}
		if _, err := g.Get(cl.Href, opts...); err != nil && res.Err == "" {
			res.Err = fmt.Sprintf("call %d: %v", i+1, err)
		}
		for _, r := range w.org.take() {
			r.Call = i + 1
			res.Recs = append(res.Recs, r)
		}
	}
	return res
}

// classifyHist is the reference model: three sticky variables, then the rule.
func classifyHist(c Case, r Rec) verdict {
	v := verdict{Rec: r}
	if r.Auth == "" {
		v.Class = "clean"
		return v
	}
	k := -1
	for i := range c.Seq {
		if r.Auth == histAuth(i%len(histCreds)) {
			k = i
		}
	}
	if k < 0 {
		v.Class = "foreign-auth"
		return v
	}
	// state in force for the call that issued this request
	pass, inForce := false, -1
	credRepo := map[int]string{} // credentials number -> repository URL they were configured with (latest)
	for i := 0; i < r.Call && i < len(c.Seq); i++ {
		if c.Seq[i].Opts == "full" {
			pass, inForce = c.Seq[i].Pass, i%len(histCreds)
			credRepo[inForce] = c.Seq[i].Repo
		}
	}
	kk := k % len(histCreds)
	repoOfCred, configured := credRepo[kk]
	qo := originOfRec(r)
	ro, err := originOfURL(repoOfCred)
	if configured && err == nil && ro == qo {
		v.Class = "creds-same-origin"
		if kk != inForce {
			v.Class = "creds-same-origin-stale" // not in force any more, but on their own repository's origin: within the statement
		}
		return v
	}
	var d []string
	if ro.scheme != qo.scheme {
		d = append(d, "scheme")
	}
	if ro.host != qo.host {
		d = append(d, "host")
	}
	if ro.port != qo.port {
		d = append(d, "port")
	}
	v.Differs = strings.Join(d, "+")
	v.HostRel = hostRelation(qo.host, ro.host)
	if pass {
		v.Class = "creds-pass-credentials"
		return v
	}
	v.Class = "VIOLATION-cross-origin"
	return v
}

// histViolation builds the (single) violation of a history: the first offending call.
func histViolation(ev evaluated) (key, what string, ok bool) {
	var first *verdict
	for i := range ev.Verdicts {
		v := &ev.Verdicts[i]
		if v.violation() && (first == nil || v.Rec.Call < first.Rec.Call) {
			first = v
		}
	}
	if first == nil {
		return "", "", false
	}
	v := *first
	strongest := "port"
	switch {
	case strings.Contains(v.Differs, "host"):
		strongest = "host"
	case strings.Contains(v.Differs, "scheme"):
		strongest = "scheme"
	}
	cl := ev.Case.Seq[v.Rec.Call-1]
	key = fmt.Sprintf("%s/len=%d/call=%d/opts=%s/cross-origin/differs=%s", pHistory, len(ev.Case.Seq), v.Rec.Call, cl.Opts, strongest)
	seq, _ := json.Marshal(ev.Case.Seq)
	what = fmt.Sprintf("%s: on one HTTPGetter, call %d of %d sent %s although the credentials belong to another repository origin and pass-credentials is not in force (differs in %s; request host is %s); calls=%s",
		pHistory, v.Rec.Call, len(ev.Case.Seq), v.Rec.String(), v.Differs, v.HostRel, seq)
	return key, what, true
}

var histRequiredFloors = []string{"history:carry-after-switch", "history:clean-on-old-origin-after-switch", "history:inherit-carries",
	"history:inherit-clean-cross-origin", "history:pass-credentials-after-switch", "history:pass-switched-off-clean"}

// histFloors: vacuity guards of the history path (all reached on the unchanged tree).
func histFloors(c *core.Ctx, ev evaluated) {
	seq := ev.Case.Seq
	for _, v := range ev.Verdicts {
		i := v.Rec.Call - 1
		if i < 1 || i >= len(seq) {
			continue
		}
		cl := seq[i]
		// state in force before this call
		prevRepo, prevPass := "", false
		for j := 0; j < i; j++ {
			if seq[j].Opts == "full" {
				prevRepo, prevPass = seq[j].Repo, seq[j].Pass
			}
		}
		po, _ := originOfURL(prevRepo)
		qo := originOfRec(v.Rec)
		switch {
		case cl.Opts == "full":
			no, _ := originOfURL(cl.Repo)
			switched := no != po
			if switched && v.Class == "creds-same-origin" && v.Rec.Auth == histAuth(i%len(histCreds)) {
				c.Floor("history:carry-after-switch")
			}
			if switched && !cl.Pass && v.Class == "clean" && qo == po {
				c.Floor("history:clean-on-old-origin-after-switch")
			}
			if switched && cl.Pass && v.Class == "creds-pass-credentials" {
				c.Floor("history:pass-credentials-after-switch")
			}
			if prevPass && !cl.Pass && v.Class == "clean" && qo != no {
				c.Floor("history:pass-switched-off-clean")
			}
		case cl.Opts == "none":
			if v.Class == "creds-same-origin" {
				c.Floor("history:inherit-carries")
			}
			if v.Class == "clean" && !prevPass && qo != po {
				c.Floor("history:inherit-clean-cross-origin")
			}
		}
		switch v.Class {
		case "creds-same-origin":
			c.Count("obs_history_creds_same_origin", 1)
		case "creds-pass-credentials":
			c.Count("obs_history_creds_pass_credentials", 1)
		case "clean":
			c.Count("obs_history_clean", 1)
		case "creds-same-origin-stale":
			c.Count("obs_history_stale_credentials_on_own_origin", 1)
		}
	}
	if ev.Err == "" && len(ev.Verdicts) == len(seq) {
		c.Count("histories_all_calls_answered", 1)
	}
}
