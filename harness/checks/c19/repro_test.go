package c19

// Stand-alone reproductions of the two C19 findings ("manager-2repos" and
// "pull-repo") with Helm's own default getters and real loopback HTTP servers --
// no part of the harness (no capture seam, no oracle) is involved.
//
//	go test ./checks/c19 -run TestRepro -v

import (
	"fmt"
	"io"
	"net/http"
	"net/http/httptest"
	"os"
	"path/filepath"
	"sync"
	"testing"

	"helm.sh/helm/v4/pkg/action"
	"helm.sh/helm/v4/pkg/cli"
	"helm.sh/helm/v4/pkg/downloader"
	"helm.sh/helm/v4/pkg/getter"
	"helm.sh/helm/v4/pkg/repo"
)

func TestReproTwoRepos(t *testing.T) {
	home := t.TempDir()
	t.Setenv("HELM_CACHE_HOME", filepath.Join(home, "cache"))
	t.Setenv("HELM_CONFIG_HOME", filepath.Join(home, "config"))
	t.Setenv("HELM_DATA_HOME", filepath.Join(home, "data"))
	cache := filepath.Join(home, "cache", "repository")
	os.MkdirAll(cache, 0o755)
	os.MkdirAll(filepath.Join(home, "config"), 0o755)

	var mu sync.Mutex
	seen := map[string]string{} // "server path" -> Authorization
	serve := func(name string) *httptest.Server {
		return httptest.NewServer(http.HandlerFunc(func(w http.ResponseWriter, r *http.Request) {
			mu.Lock()
			seen[name+" "+r.URL.Path] = r.Header.Get("Authorization")
			mu.Unlock()
			w.Write(chartTGZ)
		}))
	}
	public := serve("public") // somebody else's server
	defer public.Close()
	private := serve("private") // the repository the credentials were configured for
	defer private.Close()

	chartURL := public.URL + "/pub/x-0.1.0.tgz"
	rf := repo.NewFile()
	rf.Update(&repo.Entry{Name: "public", URL: public.URL + "/pub"})
	rf.Update(&repo.Entry{Name: "private", URL: private.URL + "/priv", Username: "alice", Password: "s3cret"})
	cfg := filepath.Join(home, "config", "repositories.yaml")
	if err := rf.WriteFile(cfg, 0o644); err != nil {
		t.Fatal(err)
	}
	// both indexes list the same absolute URL (the private repository re-exports a public chart)
	for _, n := range []string{"public", "private"} {
		os.WriteFile(filepath.Join(cache, n+"-index.yaml"), indexYAML(chartURL), 0o644)
	}
	parent := filepath.Join(home, "parent")
	os.MkdirAll(parent, 0o755)
	os.WriteFile(filepath.Join(parent, "Chart.yaml"), []byte(fmt.Sprintf(
		"apiVersion: v2\nname: parent\nversion: 0.1.0\ndependencies:\n- name: x\n  version: 0.1.0\n  repository: %s/priv\n", private.URL)), 0o644)

	m := &downloader.Manager{Out: io.Discard, ChartPath: parent, SkipUpdate: true, Getters: getter.All(cli.New()),
		RepositoryConfig: cfg, RepositoryCache: cache}
	if err := m.Update(); err != nil {
		t.Fatal(err)
	}
	mu.Lock()
	defer mu.Unlock()
	t.Logf("requests seen: %v", seen)
	if a := seen["public /pub/x-0.1.0.tgz"]; a != "" {
		t.Logf("REPRODUCED: the server of repository %q (%s) received the credentials configured for %q (%s): Authorization: %s",
			"public", public.URL, "private", private.URL, a)
	} else {
		t.Logf("not reproduced: the public server saw no Authorization header")
	}
}

// helm pull x --repo <private> --username alice --password s3cret, where the
// private repository's index lists the chart at an absolute URL on another server.
func TestReproPullRepo(t *testing.T) {
	home := t.TempDir()
	t.Setenv("HELM_CACHE_HOME", filepath.Join(home, "cache"))
	t.Setenv("HELM_CONFIG_HOME", filepath.Join(home, "config"))
	t.Setenv("HELM_DATA_HOME", filepath.Join(home, "data"))
	dest := filepath.Join(home, "dest")
	os.MkdirAll(dest, 0o755)

	var mu sync.Mutex
	seen := map[string]string{}
	var foreignURL string
	serve := func(name string) *httptest.Server {
		return httptest.NewServer(http.HandlerFunc(func(w http.ResponseWriter, r *http.Request) {
			mu.Lock()
			seen[name+" "+r.URL.Path] = r.Header.Get("Authorization")
			mu.Unlock()
			if r.URL.Path == "/priv/index.yaml" {
				w.Write(indexYAML(foreignURL + "/pub/x-0.1.0.tgz"))
				return
			}
			w.Write(chartTGZ)
		}))
	}
	foreign := serve("foreign")
	defer foreign.Close()
	foreignURL = foreign.URL
	private := serve("private")
	defer private.Close()

	p := action.NewPull(action.WithConfig(&action.Configuration{}))
	p.Settings = cli.New()
	p.DestDir = dest
	p.RepoURL, p.Username, p.Password = private.URL+"/priv", "alice", "s3cret"
	if _, err := p.Run("x"); err != nil {
		t.Fatal(err)
	}
	mu.Lock()
	defer mu.Unlock()
	t.Logf("requests seen: %v", seen)
	if a := seen["foreign /pub/x-0.1.0.tgz"]; a != "" {
		t.Logf("REPRODUCED: %s received the credentials given for --repo %s/priv: Authorization: %s", foreign.URL, private.URL, a)
	} else {
		t.Logf("not reproduced: the foreign server saw no Authorization header")
	}
}
