package c19

import (
	"encoding/json"
	"fmt"
	"testing"
	"time"
)

func TestDbg(t *testing.T) {
	w := getWorld()
	defer w.cleanup()
	cases := []Case{
		{Path: pGetter, Repo: "http://repo.test/charts", Chart: "http://repo.test/charts/x.tgz", Kind: "prov", Redirect: "none"},
		{Path: pGetter, Repo: "https://repo.test/charts", Chart: "https://repo.test/charts/x.tgz", Kind: "chart", Redirect: "evil"},
		{Path: pGetter, Repo: "https://repo.test/charts", Chart: "https://repo.test/charts/x.tgz", Kind: "chart", Redirect: "port"},
		{Path: pGetter, Repo: "http://repo.test/charts", Chart: "http://u@evil.test/charts/x.tgz", Kind: "chart", Redirect: "none"},
		{Path: pIndex, Repo: "http://repo.test/charts", Chart: "x.tgz", Kind: "index", Redirect: "none"},
		{Path: pDLRef, Repo: "http://repo.test/charts", Chart: "x.tgz", Kind: "prov", Redirect: "none"},
		{Path: pDLRef, Repo: "http://repo.test/charts", Chart: "//x.tgz", Kind: "chart", Redirect: "none"},
		{Path: pDLRef, Repo: "http://repo.test/charts", Chart: "http://evil.test/charts/x.tgz", Kind: "chart", Redirect: "none", Pass: true},
		{Path: pDLFound, Repo: "http://repo.test/charts", Chart: "http://repo.test/charts/x.tgz", Kind: "chart", Redirect: "none"},
		{Path: pDLNotFound, Repo: "http://repo.test/charts", Chart: "http://repo.test/charts/x.tgz", Kind: "chart", Redirect: "none"},
		{Path: pMgrUpdate, Repo: "http://repo.test/charts", Chart: "x.tgz", Kind: "prov", Redirect: "none"},
		{Path: pMgrUpdate, Repo: "http://repo.test/charts", Chart: "http://evil.test/charts/x.tgz", Kind: "chart", Redirect: "none"},
		{Path: pMgrRefresh, Repo: "http://repo.test/charts", Chart: "http://evil.test/charts/x.tgz", Kind: "index", Redirect: "evil"},
		{Path: pMgrBuild, Repo: "http://repo.test/charts", Chart: "http://evil.test/charts/x.tgz", Kind: "chart", Redirect: "none"},
		{Path: pMgrDecoy, Repo: "http://repo.test/charts", Chart: "http://evil.test/charts/x.tgz", Kind: "chart", Redirect: "none"},
		{Path: pLocate, Repo: "http://repo.test/charts", Chart: "x.tgz", Kind: "chart", Redirect: "none"},
		{Path: pLocate, Repo: "https://repo.test/charts", Chart: "https://evil.test/charts/x.tgz", Kind: "prov", Redirect: "none"},
		{Path: pLocate, Repo: "https://repo.test/charts", Chart: "x.tgz", Kind: "chart", Redirect: "evil"},
	}
	for _, c := range cases {
		t0 := time.Now()
		ev := evaluate(c, execCase(c))
		d := time.Since(t0)
		b, _ := json.Marshal(c)
		fmt.Printf("%s  (%v)\n  outcome=%s err=%q\n", b, d, ev.Outcome, ev.Err)
		for _, v := range ev.Verdicts {
			fmt.Printf("    %-26s %s\n", v.Class, v.Rec)
		}
		for _, v := range violationsOf(ev) {
			fmt.Printf("    !! %s\n       %s\n", v.Key, v.What)
		}
	}
}
