package c19

// The call paths of Helm through which a repository's credentials can reach the
// wire.  Every function below drives the real Helm code; nothing is stubbed
// except the transport (capture.go).

import (
	"fmt"
	"io"
	"net/http"
	"net/url"
	"os"
	"path/filepath"
	"strings"
	"sync"
	"time"

	"helm.sh/helm/v4/pkg/action"
	"helm.sh/helm/v4/pkg/cli"
	"helm.sh/helm/v4/pkg/downloader"
	"helm.sh/helm/v4/pkg/getter"
	"helm.sh/helm/v4/pkg/repo"
)

// Case is one member of the enumerated space.
type Case struct {
	Path     string `json:"path"`               // call path, see callPaths
	Repo     string `json:"repo"`               // repository URL spelling (the credentials belong to it)
	Chart    string `json:"chart"`              // chart URL spelling (index entry / href)
	Pass     bool   `json:"pass"`               // pass-credentials
	Kind     string `json:"kind"`               // request kind in focus: chart | prov | index
	Redirect string `json:"redirect"`           // none | evil | port : answer the request in focus with a 302
	DepRepo  string `json:"dep_repo,omitempty"` // call path manager-depurl only: repository URL as spelled in the dependency (Chart.yaml)
	PassB    bool   `json:"pass_b,omitempty"`   // manager-2creds: pass_credentials_all of the second credentialed repository b
	BFirst   bool   `json:"b_first,omitempty"`  // manager-2creds: b is listed before r in repositories.yaml
	Seq      []Call `json:"seq,omitempty"`      // call path getter-history only: the calls made on one getter (history.go)
}

func (c Case) canon() string {
	s := fmt.Sprintf("%s|%s|%s|%v|%s|%s", c.Path, c.Repo, c.Chart, c.Pass, c.Kind, c.Redirect)
	if c.DepRepo != "" {
		s += "|dep=" + c.DepRepo
	}
	if c.Path == pMgr2Creds {
		s += fmt.Sprintf("|passB=%v|bFirst=%v", c.PassB, c.BFirst)
	}
	for _, cl := range c.Seq {
		s += fmt.Sprintf("|%s,%s,%s,%v", cl.Href, cl.Opts, cl.Repo, cl.Pass)
	}
	return s
}

const (
	pGetter     = "getter"          // getter.HTTPGetter.Get(href, WithURL(repo), WithBasicAuth, WithPassCredentialsAll)
	pIndex      = "index"           // repo.ChartRepository.DownloadIndexFile (helm repo add/update)
	pDLRef      = "dl-ref"          // ChartDownloader.DownloadTo("r/x") with repositories.yaml + cached index
	pDLFound    = "dl-url-found"    // ChartDownloader.DownloadTo(absolute URL) listed in the configured repo's index
	pDLNotFound = "dl-url-notfound" // ChartDownloader.DownloadTo(absolute URL) not listed in any configured repo's index
	pLocate     = "locate-repo"     // ChartPathOptions.LocateChart("x") with --repo/--username/--password (through the loopback proxy)
	pPull       = "pull-repo"       // action.Pull.Run("x") with --repo/--username/--password (helm pull --repo; through the loopback proxy)
	pMgrUpdate  = "manager-update"  // Manager.Update, SkipUpdate (chart download only)
	pMgrRefresh = "manager-refresh" // Manager.Update including the repository index refresh
	pMgrBuild   = "manager-build"   // Manager.Build from the Chart.lock a previous Update wrote
	pMgrDecoy   = "manager-2repos"  // Manager.Update with a second, credential-less repository configured first whose index lists the same absolute chart URL
	pMgrDepURL  = "manager-depurl"  // Manager.Update (with index refresh) where the dependency spells its repository URL differently from repositories.yaml
	pMgr2Creds  = "manager-2creds"  // Manager.Update with two credentialed repositories (r and b, each with its own pass_credentials_all) whose indexes list the same absolute chart URL
	decoyName   = "a"
	repoName    = "r"
	otherChart  = "other-0.1.0.tgz"
	depVersion  = "0.1.0"
)

// kindsOf: which request kinds can be put in focus on a call path.
func kindsOf(path string) []string {
	switch path {
	case pIndex:
		return []string{"index"}
	case pLocate, pPull, pMgrRefresh:
		return []string{"chart", "prov", "index"} // "index": the 302 hits the index request the path issues first
	}
	return []string{"chart", "prov"}
}

func isAbsURL(s string) bool { return strings.Contains(s, "://") }

// applicable: does the chart spelling make sense on this call path.
func applicable(path, chart string) bool {
	switch path {
	case pGetter, pDLFound, pMgrDecoy, pMgr2Creds:
		return isAbsURL(chart)
	}
	return true
}

// resolveRef resolves an index entry against a repository URL with plain net/url
// (RFC 3986) -- used only to build an input (the absolute URL a user would type),
// never as an expected value.
func resolveRef(repoURL, ref string) string {
	b, err := url.Parse(repoURL)
	if err != nil {
		return ref
	}
	r, err := url.Parse(ref)
	if err != nil {
		return ref
	}
	b.Path = strings.TrimSuffix(b.Path, "/") + "/"
	return b.ResolveReference(r).String()
}

// ---------- per-process world ----------

type world struct {
	home string
	org  *origins
}

var (
	theWorld     *world
	theWorldOnce sync.Once
)

func getWorld() *world {
	theWorldOnce.Do(func() {
		base := scratchBase()
		home := filepath.Join(base, fmt.Sprintf("vc19-home-%d", os.Getpid()))
		os.RemoveAll(home)
		for _, d := range []string{"config", "cache/repository", "data/plugins", "dest", "cwd"} {
			if err := os.MkdirAll(filepath.Join(home, d), 0o755); err != nil {
				panic(err)
			}
		}
		os.Setenv("HELM_CACHE_HOME", filepath.Join(home, "cache"))
		os.Setenv("HELM_CONFIG_HOME", filepath.Join(home, "config"))
		os.Setenv("HELM_DATA_HOME", filepath.Join(home, "data"))
		for _, k := range []string{"HELM_REPOSITORY_CONFIG", "HELM_REPOSITORY_CACHE", "HELM_PLUGINS", "HELM_REGISTRY_CONFIG", "HELM_DEBUG"} {
			os.Unsetenv(k)
		}
		// LocateChart stats the chart name relative to the working directory
		os.Chdir(filepath.Join(home, "cwd"))
		theWorld = &world{home: home, org: &origins{}}
		sweepStale(base)
	})
	return theWorld
}

// scratchBase: the per-worker HELM home lives on tmpfs when there is one (a case
// costs 2-3 ms there, 10-20 ms wall on the ext4 root disk); VERIF_C19_HOME
// overrides; /var/tmp is the fallback.
func scratchBase() string {
	if d := os.Getenv("VERIF_C19_HOME"); d != "" {
		return d
	}
	if fi, err := os.Stat("/dev/shm"); err == nil && fi.IsDir() {
		probe := filepath.Join("/dev/shm", fmt.Sprintf("vc19-probe-%d", os.Getpid()))
		if err := os.WriteFile(probe, nil, 0o600); err == nil {
			os.Remove(probe)
			return "/dev/shm"
		}
	}
	return "/var/tmp"
}

// sweepStale removes homes left behind by workers that no longer exist.
func sweepStale(base string) {
	ents, err := os.ReadDir(base)
	if err != nil {
		return
	}
	for _, e := range ents {
		var pid int
		if _, err := fmt.Sscanf(e.Name(), "vc19-home-%d", &pid); err == nil && pid > 0 && pid != os.Getpid() {
			if _, err := os.Stat(fmt.Sprintf("/proc/%d", pid)); os.IsNotExist(err) {
				os.RemoveAll(filepath.Join(base, e.Name()))
			}
		}
	}
}

func (w *world) cleanup() { os.RemoveAll(w.home) }

func (w *world) repoConfig() string { return filepath.Join(w.home, "config", "repositories.yaml") }
func (w *world) repoCache() string  { return filepath.Join(w.home, "cache", "repository") }
func (w *world) dest() string       { return filepath.Join(w.home, "dest") }

func (w *world) providers(tr *http.Transport) getter.Providers {
	return getter.Providers{{
		Schemes: []string{"http", "https"},
		New: func(opts ...getter.Option) (getter.Getter, error) {
			opts = append(opts, getter.WithTimeout(20*time.Second), getter.WithTransport(tr))
			return getter.NewHTTPGetter(opts...)
		},
	}}
}

// configure writes repositories.yaml and the cached indexes.
//
// Files are overwritten in place rather than wiped (file system calls dominate
// the cost of a case): the names are fixed (repositories.yaml, r-index.yaml,
// a-index.yaml, dest/x.tgz[.prov]), every file Helm reads is rewritten for every
// case, and whatever Helm downloads is written by rename over the old name, so
// nothing a case reads was left behind by an earlier one.
func (w *world) configure(entries []*repo.Entry, indexes map[string][]byte) error {
	if _, ok := indexes[decoyName]; !ok {
		os.Remove(filepath.Join(w.repoCache(), decoyName+"-index.yaml"))
	}
	f := repo.NewFile()
	for _, e := range entries {
		f.Update(e)
	}
	if err := f.WriteFile(w.repoConfig(), 0o644); err != nil {
		return err
	}
	for name, idx := range indexes {
		if err := os.WriteFile(filepath.Join(w.repoCache(), name+"-index.yaml"), idx, 0o644); err != nil {
			return err
		}
	}
	return nil
}

func credEntry(c Case) *repo.Entry {
	return &repo.Entry{Name: repoName, URL: c.Repo, Username: repoUser, Password: repoPass, PassCredentialsAll: c.Pass}
}

// redirectHostFor picks the target of the "302 to an unrelated domain": evil.test,
// unless the repository or the chart itself lives on (a sub- or parent domain of)
// evil.test -- then attacker.example, which is unrelated to every host of the
// alphabet.
func redirectHostFor(repoURL, chart string) string {
	h := "evil.test"
	if o, err := originOfURL(repoURL); err == nil && related(o.host, h) {
		return "attacker.example"
	}
	if o, err := originOfURL(resolveRef(repoURL, chart)); err == nil && related(o.host, h) {
		return "attacker.example"
	}
	return h
}

// Result of executing one case.
type Result struct {
	Recs []Rec  `json:"requests"`
	Err  string `json:"error,omitempty"`
}

// execCase runs one case on the real code and returns what reached the wire.
func execCase(c Case) (res Result) {
	w := getWorld()
	sc := scenario{index: indexYAML(c.Chart), redirect: c.Redirect, redirectKind: c.Kind, redirectHost: redirectHostFor(c.Repo, c.Chart)}
	defer func() {
		if r := recover(); r != nil {
			res.Err = fmt.Sprintf("panic: %v", r)
		}
		if rest := w.org.take(); res.Recs == nil {
			res.Recs = rest
		}
	}()
	fail := func(err error) Result {
		if err != nil {
			return Result{Err: err.Error()}
		}
		return Result{}
	}
	verify := downloader.VerifyNever
	if c.Kind == "prov" {
		verify = downloader.VerifyLater
	}
	tr := w.org.newTransport()
	defer tr.CloseIdleConnections()
	provs := w.providers(tr)

	switch c.Path {
	case pHistory:
		return execHistory(w, c) // records are collected and tagged per call there

	case pGetter:
		w.org.begin(sc)
		g, err := getter.NewHTTPGetter(getter.WithTransport(tr), getter.WithTimeout(20*time.Second))
		if err != nil {
			return fail(err)
		}
		_, err = g.Get(c.Chart, getter.WithURL(c.Repo), getter.WithBasicAuth(repoUser, repoPass), getter.WithPassCredentialsAll(c.Pass))
		if c.Kind == "prov" {
			// what ChartDownloader.DownloadTo does next on the same getter, without options
			_, err2 := g.Get(c.Chart + ".prov")
			if err == nil {
				err = err2
			}
		}
		return fail(err)

	case pIndex:
		w.org.begin(sc)
		r, err := repo.NewChartRepository(credEntry(c), provs)
		if err != nil {
			return fail(err)
		}
		r.CachePath = w.repoCache()
		_, err = r.DownloadIndexFile()
		return fail(err)

	case pDLRef, pDLFound, pDLNotFound:
		ref := repoName + "/x"
		idx := sc.index
		switch c.Path {
		case pDLFound:
			ref = c.Chart
		case pDLNotFound:
			if isAbsURL(c.Chart) {
				ref = c.Chart
				idx = indexYAML(otherChart)
			} else {
				ref = resolveRef(c.Repo, c.Chart)
			}
		}
		if err := w.configure([]*repo.Entry{credEntry(c)}, map[string][]byte{repoName: idx}); err != nil {
			return fail(err)
		}
		w.org.begin(sc)
		dl := downloader.ChartDownloader{Out: io.Discard, Verify: verify, Getters: provs, RepositoryConfig: w.repoConfig(), RepositoryCache: w.repoCache()}
		_, _, err := dl.DownloadTo(ref, "", w.dest())
		return fail(err)

	case pLocate:
		if err := w.org.ensureProxy(); err != nil {
			return fail(err)
		}
		if err := w.configure(nil, nil); err != nil {
			return fail(err)
		}
		w.org.begin(sc)
		settings := cli.New()
		cpo := action.ChartPathOptions{RepoURL: c.Repo, Username: repoUser, Password: repoPass, PassCredentialsAll: c.Pass,
			InsecureSkipTLSverify: true, Verify: c.Kind == "prov"}
		_, err := cpo.LocateChart("x", settings)
		return fail(err)

	case pPull:
		if err := w.org.ensureProxy(); err != nil {
			return fail(err)
		}
		if err := w.configure(nil, nil); err != nil {
			return fail(err)
		}
		w.org.begin(sc)
		p := action.NewPull(action.WithConfig(&action.Configuration{}))
		p.Settings = cli.New()
		p.DestDir = w.dest()
		p.RepoURL, p.Username, p.Password, p.PassCredentialsAll = c.Repo, repoUser, repoPass, c.Pass
		p.InsecureSkipTLSverify = true
		p.VerifyLater = c.Kind == "prov"
		_, err := p.Run("x")
		return fail(err)

	case pMgrUpdate, pMgrRefresh, pMgrBuild, pMgrDecoy, pMgrDepURL, pMgr2Creds:
		entries := []*repo.Entry{credEntry(c)}
		indexes := map[string][]byte{repoName: sc.index}
		if c.Path == pMgrDecoy {
			u, err := url.Parse(c.Chart)
			if err != nil {
				return fail(err)
			}
			decoy := &repo.Entry{Name: decoyName, URL: u.Scheme + "://" + u.Host + "/decoy"}
			entries = []*repo.Entry{decoy, credEntry(c)}
			indexes[decoyName] = sc.index
		}
		if c.Path == pMgr2Creds {
			b := &repo.Entry{Name: "b", URL: repoBURL, Username: repoBUser, Password: repoBPass, PassCredentialsAll: c.PassB}
			entries = []*repo.Entry{credEntry(c), b}
			if c.BFirst {
				entries = []*repo.Entry{b, credEntry(c)}
			}
			indexes["b"] = sc.index
		}
		if err := w.configure(entries, indexes); err != nil {
			return fail(err)
		}
		parent := filepath.Join(w.home, "parent")
		if err := os.MkdirAll(parent, 0o755); err != nil {
			return fail(err)
		}
		os.Remove(filepath.Join(parent, "Chart.lock"))
		os.Remove(filepath.Join(parent, "charts", "x.tgz"))
		os.Remove(filepath.Join(parent, "charts", "x.tgz.prov"))
		dep := c.Repo
		if c.Path == pMgrDepURL {
			dep = c.DepRepo
			// indexes of unmanaged repositories cached by earlier cases
			if old, _ := filepath.Glob(filepath.Join(w.repoCache(), "helm-manager-*")); len(old) > 0 {
				for _, f := range old {
					os.Remove(f)
				}
			}
		}
		chartYAML := "apiVersion: v2\nname: parent\nversion: 0.1.0\ndependencies:\n- name: x\n  version: " + depVersion + "\n  repository: " + yamlQuote(dep) + "\n"
		if err := os.WriteFile(filepath.Join(parent, "Chart.yaml"), []byte(chartYAML), 0o644); err != nil {
			return fail(err)
		}
		m := &downloader.Manager{Out: io.Discard, ChartPath: parent, Verify: verify, SkipUpdate: c.Path != pMgrRefresh && c.Path != pMgrDepURL, Getters: provs,
			RepositoryConfig: w.repoConfig(), RepositoryCache: w.repoCache()}
		if c.Path == pMgrBuild {
			// a first Update (no redirect, not recorded) writes Chart.lock; Build is the call under observation
			w.org.begin(scenario{index: sc.index, redirect: "none"})
			if err := m.Update(); err != nil {
				return Result{Err: "setup update: " + err.Error()}
			}
			if _, err := os.Stat(filepath.Join(parent, "Chart.lock")); err != nil {
				return Result{Err: "setup update wrote no Chart.lock"}
			}
			os.Remove(filepath.Join(parent, "charts", "x.tgz"))
			os.Remove(filepath.Join(parent, "charts", "x.tgz.prov"))
			w.org.begin(sc)
			return fail(m.Build())
		}
		w.org.begin(sc)
		return fail(m.Update())
	}
	return Result{Err: "unknown call path " + c.Path}
}
