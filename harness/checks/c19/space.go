package c19

import (
	"archive/tar"
	"bytes"
	"compress/gzip"
	"net/url"
	"strings"
)

// ---------- URL spelling alphabet (DESIGN.md C19) ----------

var (
	schemes   = []string{"http", "https", "HTTP"}
	hosts     = []string{"repo.test", "REPO.test", "evil.test", "repo.test.evil.test", "sub.repo.test"}
	ports     = []string{"", ":80", ":443", ":8080"}
	userinfos = []string{"", "u@", "repo.test@"}
	// the four paths of the alphabet, hung below an authority ...
	absPaths = []string{"/charts/x.tgz", "//x.tgz", "/x.tgz", "/../x.tgz"}
	// ... and as bare references inside an index (resolved against the repository URL
	// by Helm): absolute-path, network-path (host "x.tgz"), relative, dot-dot, plus a
	// network-path reference naming a real foreign host.
	relRefs = []string{"/charts/x.tgz", "//x.tgz", "x.tgz", "../x.tgz", "//evil.test/charts/x.tgz"}
)

const repoPath = "/charts"

// spelling is one (scheme, host, port, userinfo) choice by index.
type spelling struct{ s, h, p, u int }

func (sp spelling) authority() string {
	return schemes[sp.s] + "://" + userinfos[sp.u] + hosts[sp.h] + ports[sp.p]
}

// deviations counts the dimensions that differ from the baseline http://repo.test.
func (sp spelling) deviations() int {
	n := 0
	for _, v := range []int{sp.s, sp.h, sp.p, sp.u} {
		if v != 0 {
			n++
		}
	}
	return n
}

// allSpellings lists the full product, fewest deviations from the baseline first.
func allSpellings() []spelling {
	var out []spelling
	for d := 0; d <= 4; d++ {
		for s := range schemes {
			for h := range hosts {
				for p := range ports {
					for u := range userinfos {
						sp := spelling{s, h, p, u}
						if sp.deviations() == d {
							out = append(out, sp)
						}
					}
				}
			}
		}
	}
	return out
}

func parses(s string) bool { _, err := url.Parse(s); return err == nil }

// repoURLs returns the repository URL spellings with minDev..maxDev deviations
// from the baseline (0..4 = the full product), unparsable ones removed.
func repoURLs(minDev, maxDev int) (out []string, dropped int) {
	for _, sp := range allSpellings() {
		if d := sp.deviations(); d < minDev || d > maxDev {
			continue
		}
		u := sp.authority() + repoPath
		if !parses(u) {
			dropped++
			continue
		}
		out = append(out, u)
	}
	return
}

// chartURLs returns the absolute chart URL spellings (authority product x the
// first nPaths paths) followed, when rel is set, by the bare references.
func chartURLs(nPaths int, rel bool) (out []string, dropped int) {
	for _, sp := range allSpellings() {
		for _, p := range absPaths[:nPaths] {
			u := sp.authority() + p
			if !parses(u) {
				dropped++
				continue
			}
			out = append(out, u)
		}
	}
	if rel {
		for _, r := range relRefs {
			if !parses(r) {
				dropped++
				continue
			}
			out = append(out, r)
		}
	}
	return
}

// chartForm classifies a chart spelling for finding keys.
func chartForm(s string) string {
	switch {
	case strings.Contains(s, "://"):
		return "absolute"
	case strings.HasPrefix(s, "//"):
		return "network-path"
	case strings.HasPrefix(s, "/"):
		return "absolute-path"
	}
	return "relative"
}

// ---------- served payloads ----------

var chartTGZ = mkChart()

func mkChart() []byte {
	var buf bytes.Buffer
	gz := gzip.NewWriter(&buf)
	tw := tar.NewWriter(gz)
	add := func(name, body string) {
		tw.WriteHeader(&tar.Header{Name: name, Mode: 0o644, Size: int64(len(body)), Typeflag: tar.TypeReg})
		tw.Write([]byte(body))
	}
	add("x/Chart.yaml", "apiVersion: v2\nname: x\nversion: 0.1.0\n")
	add("x/values.yaml", "{}\n")
	tw.Close()
	gz.Close()
	return buf.Bytes()
}

// indexYAML is a repository index with one chart "x" 0.1.0 at the given URLs.
func indexYAML(urls ...string) []byte {
	var sb strings.Builder
	sb.WriteString("apiVersion: v1\nentries:\n  x:\n  - apiVersion: v2\n    name: x\n    version: 0.1.0\n    urls:\n")
	for _, u := range urls {
		sb.WriteString("    - " + yamlQuote(u) + "\n")
	}
	sb.WriteString("generated: \"2020-01-01T00:00:00Z\"\n")
	return []byte(sb.String())
}

func yamlQuote(s string) string { return "'" + strings.ReplaceAll(s, "'", "''") + "'" }

// ---------- round-4 additions ----------

// bareRepoURL: the repository spelling without any path and without trailing
// slash (http://repo.test) -- the only form whose text can be EXTENDED into
// another authority.
func bareRepoURL(repoURL string) string { return strings.TrimSuffix(repoURL, repoPath) }

// extensionCharts: the absolute chart URLs that textually extend a bare
// repository URL into another authority -- another port, the whole repository
// authority demoted to userinfo, a longer host name -- plus two controls on the
// repository's own origin.  Unparsable results (repository already has a port, ...)
// are dropped and counted.
func extensionCharts(bare string) (out []string, dropped int) {
	for _, c := range []string{bare + ":8443/charts/x.tgz", bare + "@evil.test/charts/x.tgz", bare + ".evil.test/charts/x.tgz"} {
		if !parses(c) {
			dropped++
			continue
		}
		out = append(out, c)
	}
	out = append(out, bare+"/charts/x.tgz", "x.tgz")
	return
}

// neighbours: all spellings that differ from sp in exactly one of scheme, host,
// port, userinfo, plus sp itself.
func neighbours(sp spelling) []spelling {
	out := []spelling{sp}
	for s := range schemes {
		if s != sp.s {
			out = append(out, spelling{s, sp.h, sp.p, sp.u})
		}
	}
	for h := range hosts {
		if h != sp.h {
			out = append(out, spelling{sp.s, h, sp.p, sp.u})
		}
	}
	for p := range ports {
		if p != sp.p {
			out = append(out, spelling{sp.s, sp.h, p, sp.u})
		}
	}
	for u := range userinfos {
		if u != sp.u {
			out = append(out, spelling{sp.s, sp.h, sp.p, u})
		}
	}
	return out
}

// boundaryShiftCharts: chart URLs whose scheme+host CONCATENATION equals the
// repository's although scheme and host both differ -- one character moved across
// the scheme/host boundary: https://H -> http://sH, and http://sH' -> https://H'.
// (A comparison of scheme+host without a separator cannot tell them apart.)
func boundaryShiftCharts(repoURL string) []string {
	u, err := url.Parse(repoURL)
	if err != nil {
		return nil
	}
	ui := ""
	if u.User != nil {
		ui = u.User.String() + "@"
	}
	var out []string
	if u.Scheme == "https" {
		out = append(out, "http://"+ui+"s"+u.Host+"/charts/x.tgz")
	}
	if u.Scheme == "http" && strings.HasPrefix(strings.ToLower(u.Host), "s") && len(u.Host) > 1 {
		out = append(out, "https://"+ui+u.Host[1:]+"/charts/x.tgz")
	}
	return out
}
