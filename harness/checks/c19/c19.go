// Package c19: repository credentials are sent only to the repository's own
// origin.  Bounded-exhaustive enumeration of (repository URL spelling, chart URL
// spelling, pass-credentials, request kind, redirect, call path); every case runs
// the real Helm code (getter.HTTPGetter with the real net/http client underneath,
// ChartDownloader, ChartRepository, ChartPathOptions.LocateChart, Manager) against
// an in-memory origin set that records the Authorization header of every request.
package c19

import (
	"encoding/json"
	"fmt"
	"net/url"
	"sort"
	"strings"
	"time"

	"verif/harness/internal/core"
)

const prop = "C19"

var allPaths = []string{pGetter, pIndex, pDLRef, pDLFound, pDLNotFound, pMgrUpdate, pMgrBuild, pMgrRefresh, pMgrDecoy, pLocate}

func init() {
	floors := []string{"redirect-evil-followed", "redirect-port-followed", "redirect-port-keeps-auth-observed", "tls-request", "proxy-connect", "proxy-plain",
		"helm-stricter-than-origin:case", "helm-stricter-than-origin:default-port", "userinfo-auth-is-not-repo-auth", "error-before-any-request", "download-succeeded"}
	for _, p := range allPaths {
		if p != pDLNotFound {
			floors = append(floors, "carry:"+p)
		}
		if p != pIndex {
			floors = append(floors, "clean-cross-origin:"+p)
		}
		switch p {
		case pIndex, pDLNotFound:
		default:
			floors = append(floors, "pass-credentials-cross-origin:"+p)
		}
	}
	core.Register(&core.Check{
		ID:    prop,
		Level: "exploration",
		Rule: "full product of repository-URL spellings x chart-URL spellings over scheme{http,https,HTTP} x host{repo.test,REPO.test,evil.test,repo.test.evil.test,sub.repo.test} x " +
			"port{none,:80,:443,:8080} x userinfo{none,u@,repo.test@} x path{/charts/x.tgz,//x.tgz,/x.tgz,/../x.tgz; as bare index references also x.tgz, ../x.tgz, //evil.test/charts/x.tgz} " +
			"x pass-credentials x request kind in focus {chart,.prov,index} x redirect {none, 302 to unrelated domain, 302 to same host other port} x 10 call paths " +
			"(HTTPGetter.Get, DownloadIndexFile, DownloadTo by repo/chart, by URL found / not found in the index, Manager.Update / Build / Update with index refresh / Update with a second repository, " +
			"LocateChart --repo through a loopback proxy); the full repository product is run at getter and index level, the other paths use the repository spellings with at most 1 (quick) / 2 (thorough) " +
			"deviations from http://repo.test. distinct = the case tuple; a case is non-trivial when Helm issued at least one request",
		Run:    run,
		Replay: replay,
		Assumptions: []string{
			"'scheme, host and port equal' is read as web-origin equality (scheme and host case-insensitive, absent port = scheme default); the property is an 'only if', so not sending credentials is never flagged",
			"an Authorization header counts only when it equals Basic(alice:s3cret), the credentials configured for the repository; the header net/http derives from URL userinfo (u@host) is a different credential and is recorded as an observation",
			"requests issued by net/http while following a 302 are judged only when the target host is unrelated to the repository host; same-host-other-port targets that still carry the header are an observation (net/http policy)",
			"in-memory paths: real getter.HTTPGetter + real net/http client over net.Pipe; https is a real TLS session terminated in-process with a self-signed Ed25519 certificate, client side InsecureSkipVerify (the transport is injected, so Helm's own TLS options are bypassed there)",
			"LocateChart hard-codes getter.All(settings): it is reached through HTTP_PROXY/HTTPS_PROXY pointing at a loopback listener of the worker process; https is intercepted after CONNECT with the same certificate and --insecure-skip-tls-verify",
			"the request's port is the port net/http dialled (default filled in by net/http), the host is the Host header",
			"OCI registries and plugin getters are outside the property (basic-auth repository credentials only)",
		},
		RequiredFloors: floors,
		Shards:         nil,
	})
}

// ---------- the space ----------

type kr struct{ kind, redirect string }

// focusCombos: which (request kind in focus, redirect) pairs run on a call path.
func focusCombos(path string, thorough bool) []kr {
	var out []kr
	for _, k := range kindsOf(path) {
		for _, r := range []string{"none", "evil", "port"} {
			if !thorough {
				// quick: redirects of the .prov request only at getter level and on dl-ref; Build/refresh/2repos
				// differ from Update above the downloader only, so they run without redirects
				if r != "none" && k == "prov" && path != pGetter && path != pDLRef {
					continue
				}
				if r != "none" && (path == pMgrBuild || path == pMgrDecoy || path == pDLNotFound) {
					continue
				}
				if r == "port" && (path == pMgrRefresh || path == pLocate) && k != "chart" {
					continue
				}
			}
			out = append(out, kr{k, r})
		}
	}
	return out
}

type spaceInfo struct {
	RepoFull, RepoReduced, RepoLocate int
	ChartAbs, ChartAll                int
	Unparsable                        int
	PerPath                           map[string]int64
}

// enumerate calls f for every case, simplest first, in a fixed order.
func enumerate(thorough bool, only string, f func(Case)) spaceInfo {
	nPaths, dev, devLocate := 2, 1, 1
	if thorough {
		nPaths, dev, devLocate = len(absPaths), 2, 1
	}
	reposFull, d1 := repoURLs(4)
	reposRed, _ := repoURLs(dev)
	reposLoc, _ := repoURLs(devLocate)
	chAbs, d2 := chartURLs(nPaths, false)
	chAll, d3 := chartURLs(nPaths, true)
	info := spaceInfo{RepoFull: len(reposFull), RepoReduced: len(reposRed), RepoLocate: len(reposLoc), ChartAbs: len(chAbs), ChartAll: len(chAll),
		Unparsable: d1 + d2 + (d3 - d2), PerPath: map[string]int64{}}
	emit := func(c Case) {
		if only != "" && only != c.Path {
			return
		}
		info.PerPath[c.Path]++
		f(c)
	}
	bools := []bool{false, true}
	// A: getter, full repository product, plain chart request
	for _, r := range reposFull {
		for _, ch := range chAbs {
			for _, p := range bools {
				emit(Case{Path: pGetter, Repo: r, Chart: ch, Pass: p, Kind: "chart", Redirect: "none"})
			}
		}
	}
	// B: index download, full repository product
	for _, r := range reposFull {
		for _, p := range bools {
			for _, k := range focusCombos(pIndex, thorough) {
				emit(Case{Path: pIndex, Repo: r, Chart: "x-0.1.0.tgz", Pass: p, Kind: k.kind, Redirect: k.redirect})
			}
		}
	}
	// C: every call path over the reduced repository set
	for _, path := range allPaths {
		if path == pIndex {
			continue
		}
		repos := reposRed
		if path == pLocate {
			repos = reposLoc
		}
		combos := focusCombos(path, thorough)
		for _, r := range repos {
			for _, ch := range chAll {
				if !applicable(path, ch) {
					continue
				}
				for _, p := range bools {
					for _, k := range combos {
						if path == pGetter && k.kind == "chart" && k.redirect == "none" {
							continue // in block A
						}
						emit(Case{Path: path, Repo: r, Chart: ch, Pass: p, Kind: k.kind, Redirect: k.redirect})
					}
				}
			}
		}
	}
	return info
}

// ---------- evaluation ----------

type evaluated struct {
	Case     Case      `json:"case"`
	Err      string    `json:"error,omitempty"`
	Verdicts []verdict `json:"requests"`
	Outcome  string    `json:"outcome"`
}

func evaluate(c Case, res Result) evaluated {
	ev := evaluated{Case: c, Err: res.Err}
	set := map[string]bool{}
	for _, r := range res.Recs {
		v := classify(c.Repo, c.Pass, r)
		ev.Verdicts = append(ev.Verdicts, v)
		set[v.Class] = true
	}
	var cl []string
	for k := range set {
		cl = append(cl, k)
	}
	sort.Strings(cl)
	ev.Outcome = strings.Join(cl, "+")
	if len(cl) == 0 {
		ev.Outcome = "no-request"
	}
	if res.Err != "" {
		ev.Outcome += "/err"
	}
	return ev
}

func violationsOf(ev evaluated) []core.Violation {
	var out []core.Violation
	seen := map[string]bool{}
	for _, v := range ev.Verdicts {
		if !v.violation() {
			continue
		}
		c := ev.Case
		key := core.SanitizeKey(fmt.Sprintf("%s/%s/redirect=%s/%s/differs=%s/host=%s/chart=%s", c.Path, kindOfPath(v.Rec.Path), c.Redirect,
			strings.TrimPrefix(v.Class, "VIOLATION-"), v.Differs, v.HostRel, chartForm(c.Chart)))
		if seen[key] {
			continue
		}
		seen[key] = true
		rd, _ := json.Marshal(c)
		what := fmt.Sprintf("%s: %s [repo=%s chart=%s pass-credentials=%v kind=%s redirect=%s]", c.Path, v.describe(c.Repo), c.Repo, c.Chart, c.Pass, c.Kind, c.Redirect)
		out = append(out, core.Violation{Property: prop, Key: key, What: what, Replay: rd})
	}
	return out
}

func replay(_ *core.Ctx, data json.RawMessage) []core.Violation {
	var c Case
	if err := json.Unmarshal(data, &c); err != nil {
		return nil
	}
	w := getWorld()
	defer w.cleanup()
	return violationsOf(evaluate(c, execCase(c)))
}

// floorsOf records the vacuity guards and observations of one evaluated case.
func floorsOf(c *core.Ctx, ev evaluated) {
	cs := ev.Case
	ro, err := originOfURL(cs.Repo)
	if err != nil {
		return
	}
	ru, _ := url.Parse(cs.Repo)
	if len(ev.Verdicts) == 0 && ev.Err != "" {
		c.Floor("error-before-any-request")
	}
	if ev.Err == "" && len(ev.Verdicts) > 0 {
		c.Floor("download-succeeded")
	}
	for _, v := range ev.Verdicts {
		qo := originOfRec(v.Rec)
		if v.Rec.Scheme == "https" {
			c.Floor("tls-request")
		}
		if v.Rec.Via == "proxy" {
			if v.Rec.Scheme == "https" {
				c.Floor("proxy-connect")
			} else {
				c.Floor("proxy-plain")
			}
		}
		if v.Redirect {
			if cs.Redirect == "evil" {
				c.Floor("redirect-evil-followed")
				c.Count("redirect_evil_targets", 1)
				if v.Rec.Auth == repoAuth {
					c.Count("redirect_evil_targets_with_repo_auth", 1)
				}
			} else {
				c.Floor("redirect-port-followed")
				c.Count("redirect_port_targets", 1)
			}
		}
		switch v.Class {
		case "creds-same-origin":
			c.Floor("carry:" + cs.Path)
			c.Count("obs_creds_same_origin", 1)
		case "creds-pass-credentials":
			c.Floor("pass-credentials-cross-origin:" + cs.Path)
			c.Count("obs_creds_cross_origin_with_pass_credentials", 1)
		case "creds-redirect-related":
			c.Floor("redirect-port-keeps-auth-observed")
			c.Count("obs_nethttp_keeps_auth_on_redirect_to_same_host_other_port", 1)
		case "foreign-auth":
			c.Floor("userinfo-auth-is-not-repo-auth")
			c.Count("obs_authorization_from_url_userinfo", 1)
		case "clean":
			if cs.Pass || v.Redirect {
				break
			}
			if qo != ro {
				c.Floor("clean-cross-origin:" + cs.Path)
				c.Count("obs_clean_cross_origin", 1)
				break
			}
			// same origin, no credentials although pass-credentials is off: Helm is stricter than origin equality
			if cs.Path == pDLNotFound {
				break // no credentials are configured on this path's downloader at all
			}
			var ws []string
			if v.Rec.Host != ru.Hostname() {
				ws = append(ws, "case")
			}
			// the wire does not show whether a default port was spelled out; take it from the case's spellings
			if spelledPort(cs) != ru.Port() {
				ws = append(ws, "default-port")
			}
			why := strings.Join(ws, "+")
			if why == "" {
				why = "other"
			}
			c.Floor("helm-stricter-than-origin:" + why)
			c.Count("obs_same_origin_without_credentials:"+why, 1)
		}
	}
}

// spelledPort: the port as spelled in the chart URL of the case ("" when the
// chart spelling is a bare reference or has none).
func spelledPort(cs Case) string {
	if !isAbsURL(cs.Chart) {
		u, err := url.Parse(cs.Repo)
		if err != nil {
			return ""
		}
		return u.Port()
	}
	u, err := url.Parse(cs.Chart)
	if err != nil {
		return ""
	}
	return u.Port()
}

// ---------- run ----------

func run(c *core.Ctx) {
	t0 := time.Now()
	w := getWorld()
	defer w.cleanup()
	sampled := map[string]bool{}
	perPathMs := map[string]int64{}
	info := enumerate(c.Thorough(), c.Only, func(cs Case) {
		if !c.NextMine() {
			return
		}
		t := time.Now()
		c.Eval(1)
		res := execCase(cs)
		ev := evaluate(cs, res)
		perPathMs[cs.Path] += time.Since(t).Microseconds()
		if len(ev.Verdicts) > 0 {
			c.Distinct(cs.canon())
		}
		c.Count("requests_observed", int64(len(ev.Verdicts)))
		c.Outcome(ev.Outcome)
		floorsOf(c, ev)
		if strings.HasPrefix(res.Err, "panic:") {
			c.Count("panics", 1)
		}
		for _, v := range violationsOf(ev) {
			c.Violate(prop, v.Key, v.What, cs)
		}
		sk := cs.Path + "|" + ev.Outcome
		if !sampled[sk] && len(sampled) < 40 {
			sampled[sk] = true
			if len(sampled)%3 == 1 {
				c.Sample(ev)
			}
		}
	})
	for p, us := range perPathMs {
		c.Count("cpu_ms:"+p, us/1000)
	}
	c.Bound("repo_url_spellings_full_product", fmt.Sprint(info.RepoFull))
	c.Bound("repo_url_spellings_reduced", fmt.Sprint(info.RepoReduced))
	c.Bound("repo_url_spellings_locate", fmt.Sprint(info.RepoLocate))
	c.Bound("chart_url_spellings_absolute", fmt.Sprint(info.ChartAbs))
	c.Bound("chart_url_spellings_with_bare_references", fmt.Sprint(info.ChartAll))
	c.Bound("unparsable_spellings_removed", fmt.Sprint(info.Unparsable))
	var ps []string
	for p, n := range info.PerPath {
		ps = append(ps, fmt.Sprintf("%s=%d", p, n))
	}
	sort.Strings(ps)
	c.Bound("cases_per_call_path", strings.Join(ps, " "))
	c.Count("phase_ms_total", time.Since(t0).Milliseconds())
}
