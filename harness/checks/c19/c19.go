// Package c19: repository credentials are sent only to the repository's own
// origin.  Bounded-exhaustive enumeration of (repository URL spelling, chart URL
// spelling, pass-credentials, request kind, redirect, call path); every case runs
// the real Helm code (getter.HTTPGetter with the real net/http client underneath,
// ChartDownloader, ChartRepository, ChartPathOptions.LocateChart, Pull.Run,
// Manager) against
// an in-memory origin set that records the Authorization header of every request.
package c19

import (
	"encoding/json"
	"fmt"
	"net/url"
	"sort"
	"strings"
	"time"

	"verif/harness/internal/core"
)

const prop = "C19"

var allPaths = []string{pGetter, pIndex, pDLRef, pDLFound, pDLNotFound, pMgrUpdate, pMgrBuild, pMgrRefresh, pMgrDecoy, pLocate, pPull}

func init() {
	floors := []string{"redirect-evil-followed", "redirect-port-followed", "redirect-port-keeps-auth-observed", "tls-request", "proxy-connect", "proxy-plain",
		"helm-stricter-than-origin:case", "helm-stricter-than-origin:default-port", "userinfo-auth-is-not-repo-auth", "error-before-any-request", "download-succeeded"}
	for _, p := range allPaths {
		if p != pDLNotFound {
			floors = append(floors, "carry:"+p)
		}
		if p != pIndex { // (manager-2repos and pull-repo leaked on every cross-origin request before the fix: commits 27ebae8, ec3056d)
			floors = append(floors, "clean-cross-origin:"+p)
		}
		switch p {
		case pIndex, pDLNotFound:
		default:
			floors = append(floors, "pass-credentials-cross-origin:"+p)
		}
	}
	floors = append(floors, histRequiredFloors...)
	floors = append(floors, "2creds:owners-own-pass-flag-honoured", "2creds:other-repositorys-pass-flag-not-inherited", "2creds:carry-own-origin", "boundary-shift:clean")
	floors = append(floors, "carry:"+pMgrDepURL, "clean-cross-origin:"+pMgrDepURL, "extension:clean-other-authority", "extension:carry-own-origin")
	core.Register(&core.Check{
		ID:    prop,
		Level: "exploration",
		Rule: "full product of repository-URL spellings x chart-URL spellings over scheme{http,https,HTTP} x host{repo.test,REPO.test,evil.test,repo.test.evil.test,sub.repo.test} x " +
			"port{none,:80,:443,:8080} x userinfo{none,u@,repo.test@} x path{/charts/x.tgz,//x.tgz,/x.tgz,/../x.tgz; as bare index references also x.tgz, ../x.tgz, //evil.test/charts/x.tgz} " +
			"x pass-credentials x request kind in focus {chart,.prov,index} x redirect {none, 302 to unrelated domain, 302 to same host other port} x 11 call paths " +
			"(HTTPGetter.Get, DownloadIndexFile, DownloadTo by repo/chart, by URL found / not found in the index, Manager.Update / Build / Update with index refresh / Update with a second repository, " +
			"LocateChart --repo and Pull.Run --repo through a loopback proxy); the full 180 x 360 (quick) / 180 x 720 (thorough) repository x chart product is run at getter level and all 180 repositories at index level; " +
			"the other call paths run the repository spellings with at most 1 deviation from http://repo.test (12) x every authority spelling of the chart (180, path /charts/x.tgz; thorough: all 4 paths, 720) plus the 5 bare references, " +
			"thorough adds the 44 two-deviation repositories; quick crosses redirects with the paths that hand URLs to the getter differently, thorough crosses everything on chart paths 1-2 and the bare references. " +
			"Plus, on every call path, bare repository URLs (no path, no trailing slash) x the chart URLs that textually extend them into another authority (R+':8443/..', R+'@evil.test/..', R+'.evil.test/..'); " +
			"plus Manager.Update with the dependency's repository URL spelled at distance <=1 (scheme, host, port, userinfo) from the repositories.yaml URL, over the full 180-spelling product. " +
			"Plus the one-character scheme/host boundary shift (https://H vs http://sH, http://sH vs https://H) for all 180 repository spellings at getter level and the reduced set on every call path; " +
			"plus Manager.Update with two credentialed repositories (own pass-credentials flag each, both listing orders, both indexes listing the same absolute chart URL; credentials of R only on R's origin unless R's own flag is on). " +
			"Plus histories on ONE HTTPGetter instance (options are sticky): all ordered pairs of Get calls over the 12 (thorough 56) repository spellings, each call either re-configuring the getter " +
			"(WithURL, WithBasicAuth of its own credentials, WithPassCredentialsAll on/off) or inheriting, the file on the origin of either repository or a third one; thorough also all ordered triples over 6 origin relations. " +
			"distinct = the case tuple; a case is non-trivial when Helm issued at least one request",
		Run:    run,
		Replay: replay,
		Assumptions: []string{
			"'scheme, host and port equal' is read as web-origin equality (scheme and host case-insensitive, absent port = scheme default); the property is an 'only if', so not sending credentials is never flagged",
			"an Authorization header counts only when it equals Basic(alice:s3cret), the credentials configured for the repository; the header net/http derives from URL userinfo (u@host) is a different credential and is recorded as an observation",
			"requests issued by net/http while following a 302 are judged only when the target host is unrelated to the repository host; same-host-other-port targets that still carry the header are an observation (net/http policy)",
			"in-memory paths: real getter.HTTPGetter + real net/http client over net.Pipe; https is a real TLS session terminated in-process with a self-signed Ed25519 certificate, client side InsecureSkipVerify (the transport is injected, so Helm's own TLS options are bypassed there)",
			"LocateChart and Pull.Run hard-code getter.All(settings): they are reached through HTTP_PROXY/HTTPS_PROXY pointing at a loopback listener of the worker process; https is intercepted after CONNECT with the same certificate and --insecure-skip-tls-verify",
			"the request's port is the port net/http dialled (default filled in by net/http), the host is the Host header",
			"getter-history: credentials number k (configured in the same call as repository URL R_k) may appear on a later request only on R_k's origin or while pass-credentials is in force for that call; sticky options are Helm's documented design and are modelled, not judged",
			"OCI registries and plugin getters are outside the property (basic-auth repository credentials only)",
		},
		RequiredFloors: floors,
		Shards:         nil,
	})
}

// ---------- the space ----------

type kr struct{ kind, redirect string }

// allCombos: every (request kind in focus, redirect) pair of a call path.  Kind
// "index" without a redirect is the same run as kind "chart" and is left out on
// the paths that have other kinds.
func allCombos(path string) []kr {
	var out []kr
	for _, k := range kindsOf(path) {
		for _, r := range []string{"none", "evil", "port"} {
			if k == "index" && r == "none" && path != pIndex {
				continue
			}
			out = append(out, kr{k, r})
		}
	}
	return out
}

// coreCombos: the reduced set used by the quick tier (and by the thorough tier
// for the 2-deviation repository spellings).  Redirect handling lives in net/http
// below the getter and is crossed with everything at getter level; above it, it is
// crossed with the paths that hand a URL to the getter in different ways.
func coreCombos(path string) []kr {
	switch path {
	case pGetter, pIndex:
		return allCombos(path)
	case pDLRef, pDLFound, pMgrUpdate:
		return []kr{{"chart", "none"}, {"prov", "none"}, {"chart", "evil"}, {"chart", "port"}}
	case pMgrRefresh:
		return []kr{{"chart", "none"}, {"index", "evil"}, {"index", "port"}}
	case pLocate, pPull:
		return []kr{{"chart", "none"}, {"prov", "none"}, {"chart", "evil"}, {"index", "evil"}, {"index", "port"}}
	}
	return []kr{{"chart", "none"}, {"prov", "none"}} // dl-url-notfound, manager-build, manager-2repos
}

type spaceInfo struct {
	Bounds  map[string]string
	PerPath map[string]int64
}

// enumerate calls f for every case, simplest first, in a fixed order.
//
//	quick:    getter   : all repository spellings x absolute chart spellings (2 paths) x pass, plain request;
//	                     1-deviation repositories x the same charts x pass x every other (kind, redirect)
//	          index    : all repository spellings x pass x redirect
//	          others   : 1-deviation repositories x chart spellings (1 path + bare references) x pass x coreCombos
//	thorough: getter   : as quick with all 4 paths and 2-deviation repositories in the second block
//	          others   : 1-deviation repositories x chart spellings (paths 1-2 + bare references) x pass x allCombos,
//	                     1-deviation repositories x chart spellings (paths 3-4) x pass x coreCombos,
//	                     plus exactly-2-deviation repositories x chart spellings (1 path + bare references) x pass x coreCombos
func enumerate(thorough bool, only string, f func(Case)) spaceInfo {
	info := spaceInfo{Bounds: map[string]string{}, PerPath: map[string]int64{}}
	emit := func(c Case) {
		if only != "" && only != c.Path {
			return
		}
		info.PerPath[c.Path]++
		f(c)
	}
	bools := []bool{false, true}
	block := func(path string, repos, charts []string, combos []kr, skipPlain bool) {
		for _, r := range repos {
			for _, ch := range charts {
				if !applicable(path, ch) {
					continue
				}
				for _, p := range bools {
					for _, k := range combos {
						if skipPlain && k.kind == "chart" && k.redirect == "none" {
							continue
						}
						emit(Case{Path: path, Repo: r, Chart: ch, Pass: p, Kind: k.kind, Redirect: k.redirect})
					}
				}
			}
		}
	}
	gPaths, gDev, hPaths := 2, 1, 1
	if thorough {
		gPaths, gDev, hPaths = len(absPaths), 2, len(absPaths)
	}
	reposFull, d1 := repoURLs(0, 4)
	repos1, _ := repoURLs(0, 1)
	repos2, _ := repoURLs(2, 2)
	reposG, _ := repoURLs(0, gDev)
	chG, d2 := chartURLs(gPaths, false)
	chH, d3 := chartURLs(hPaths, true)
	ch1, _ := chartURLs(1, true)
	chH2, _ := chartURLs(2, true)
	var chRest []string // the absolute spellings on paths 3 and 4
	if all4, _ := chartURLs(len(absPaths), false); true {
		have := map[string]bool{}
		for _, u := range chH2 {
			have[u] = true
		}
		for _, u := range all4 {
			if !have[u] {
				chRest = append(chRest, u)
			}
		}
	}
	info.Bounds["repo_url_spellings_full_product"] = fmt.Sprint(len(reposFull))
	info.Bounds["repo_url_spellings_le1_deviation"] = fmt.Sprint(len(repos1))
	info.Bounds["repo_url_spellings_eq2_deviations"] = fmt.Sprint(len(repos2))
	info.Bounds["chart_url_spellings_getter_level"] = fmt.Sprint(len(chG))
	info.Bounds["chart_url_spellings_other_paths"] = fmt.Sprint(len(chH))
	info.Bounds["unparsable_spellings_removed"] = fmt.Sprint(d1 + d2 + d3)
	info.Bounds["getter_pairs_full_product"] = fmt.Sprint(len(reposFull) * len(chG))

	// getter, full repository product, plain chart request
	block(pGetter, reposFull, chG, []kr{{"chart", "none"}}, false)
	// index download, full repository product
	block(pIndex, reposFull, []string{"x-0.1.0.tgz"}, allCombos(pIndex), false)
	// getter, the remaining (kind, redirect) pairs
	block(pGetter, reposG, chG, allCombos(pGetter), true)
	for _, path := range allPaths {
		if path == pIndex || path == pGetter {
			continue
		}
		if !thorough {
			block(path, repos1, chH, coreCombos(path), false)
			continue
		}
		// thorough: every (kind, redirect) pair on the first two paths and the bare references; the paths /x.tgz and
		// /../x.tgz (which differ from the first two only below the getter, where the getter-level product has them
		// in full) with the core pairs; the two-deviation repositories with the core pairs
		block(path, repos1, chH2, allCombos(path), false)
		block(path, repos1, chRest, coreCombos(path), false)
		block(path, repos2, ch1, coreCombos(path), false)
	}
	// textual extensions of a bare repository URL (no path, no trailing slash) into another authority, every call path
	extRepos := repos1
	if thorough {
		extRepos = append(append([]string{}, repos1...), repos2...)
	}
	extDropped := 0
	for _, path := range allPaths {
		if path == pIndex {
			continue
		}
		combos := coreCombos(path)
		if path == pGetter {
			combos = []kr{{"chart", "none"}, {"prov", "none"}}
		}
		for _, r := range extRepos {
			bare := bareRepoURL(r)
			chs, d := extensionCharts(bare)
			if path == pLocate {
				extDropped += d
			}
			chs = append(chs, boundaryShiftCharts(bare)...)
			block(path, []string{bare}, chs, combos, false)
			// the same one-character shift for the repository spelling with its path
			block(path, []string{r}, boundaryShiftCharts(r), combos, false)
		}
	}
	// getter level: the scheme/host boundary shift for every repository spelling of the full product
	nShift := 0
	for _, r := range reposFull {
		bs := boundaryShiftCharts(r)
		nShift += len(bs)
		block(pGetter, []string{r}, bs, []kr{{"chart", "none"}, {"prov", "none"}}, false)
	}
	info.Bounds["boundary_shift_chart_spellings_getter_level"] = fmt.Sprint(nShift)

	// Manager.Update with two credentialed repositories, each with its own pass-credentials flag, both listing orders
	ch2, _ := chartURLs(1, false)
	kinds2 := []string{"chart"}
	if thorough {
		kinds2 = []string{"chart", "prov"}
	}
	for _, r := range repos1 {
		for _, ch := range ch2 {
			for _, pa := range bools {
				for _, pb := range bools {
					for _, bf := range bools {
						for _, k := range kinds2 {
							emit(Case{Path: pMgr2Creds, Repo: r, Chart: ch, Pass: pa, PassB: pb, BFirst: bf, Kind: k, Redirect: "none"})
						}
					}
				}
			}
		}
	}
	info.Bounds["extension_repo_spellings_bare"] = fmt.Sprint(len(extRepos))
	info.Bounds["extension_chart_shapes"] = "repo+':8443/..', repo+'@evil.test/..', repo+'.evil.test/..' (+2 same-origin controls)"
	info.Bounds["extension_unparsable_dropped_per_path"] = fmt.Sprint(extDropped)

	// Manager.Update where the dependency spells its repository differently from repositories.yaml: every repository
	// spelling of the full product x every spelling at distance <= 1 from it (scheme, host, port or userinfo changed)
	depPairs := 0
	depKinds := []string{"chart"}
	if thorough {
		depKinds = []string{"chart", "prov"}
	}
	for _, sp := range allSpellings() {
		r := sp.authority() + repoPath
		for _, nb := range neighbours(sp) {
			d := nb.authority() + repoPath
			if !parses(r) || !parses(d) {
				continue
			}
			depPairs++
			for _, ch := range []string{"x.tgz", nb.authority() + "/charts/x.tgz"} {
				for _, p := range bools {
					for _, k := range depKinds {
						emit(Case{Path: pMgrDepURL, Repo: r, DepRepo: d, Chart: ch, Pass: p, Kind: k, Redirect: "none"})
					}
				}
			}
		}
	}
	info.Bounds["manager_depurl_repo_x_dependency_spelling_pairs"] = fmt.Sprint(depPairs)

	// histories of Get calls on one getter instance
	np, nt := enumerateHistories(thorough, emit)
	info.Bounds["history_repo_spellings_pairs"] = fmt.Sprint(len(histRepos(thorough)))
	info.Bounds["history_ordered_pairs_of_calls"] = fmt.Sprint(np)
	info.Bounds["history_repo_spellings_triples"] = fmt.Sprint(len(histReposTriples))
	info.Bounds["history_ordered_triples_of_calls"] = fmt.Sprint(nt)
	return info
}

// ---------- evaluation ----------

type evaluated struct {
	Case     Case      `json:"case"`
	Err      string    `json:"error,omitempty"`
	Verdicts []verdict `json:"requests"`
	Outcome  string    `json:"outcome"`
}

func evaluate(c Case, res Result) evaluated {
	ev := evaluated{Case: c, Err: res.Err}
	set := map[string]bool{}
	for _, r := range res.Recs {
		var v verdict
		if c.Path == pHistory {
			v = classifyHist(c, r)
		} else if c.Path == pMgr2Creds {
			v = classify2(c, r)
		} else {
			v = classify(c.Repo, c.Pass, r)
		}
		ev.Verdicts = append(ev.Verdicts, v)
		set[v.Class] = true
	}
	var cl []string
	for k := range set {
		cl = append(cl, k)
	}
	sort.Strings(cl)
	ev.Outcome = strings.Join(cl, "+")
	if len(cl) == 0 {
		ev.Outcome = "no-request"
	}
	if res.Err != "" {
		ev.Outcome += "/err"
	}
	return ev
}

// violationsOf turns the verdicts of one case into at most one violation: the
// first offending request in the order chart < index < .prov < other, requests
// Helm issued itself before redirect targets.  (A chart request that leaks is
// followed by a .prov request that leaks for the same reason; one defect, one
// key.)  The key names the call path, the kind of the leaking request, whether it
// was Helm's own request or a redirect target, the strongest component in which
// the request's origin differs from the repository's (host > scheme > port) and
// the form of the chart reference.
func violationsOf(ev evaluated) []core.Violation {
	if ev.Case.Path == pHistory {
		key, what, bad := histViolation(ev)
		if !bad {
			return nil
		}
		rd, _ := json.Marshal(ev.Case)
		return []core.Violation{{Property: prop, Key: core.SanitizeKey(key), What: what, Replay: rd}}
	}
	rank := func(v verdict) int {
		r := map[string]int{"chart": 0, "index": 1, "prov": 2, "other": 3}[kindOfPath(v.Rec.Path)]
		if v.Redirect {
			r += 10
		}
		return r
	}
	var first *verdict
	n := 0
	for i := range ev.Verdicts {
		v := &ev.Verdicts[i]
		if !v.violation() {
			continue
		}
		n++
		if first == nil || rank(*v) < rank(*first) {
			first = v
		}
	}
	if first == nil {
		return nil
	}
	v, c := *first, ev.Case
	strongest := "port"
	switch {
	case strings.Contains(v.Differs, "host"):
		strongest = "host"
	case strings.Contains(v.Differs, "scheme"):
		strongest = "scheme"
	}
	key := core.SanitizeKey(fmt.Sprintf("%s/%s/%s/differs=%s/chart=%s", c.Path, kindOfPath(v.Rec.Path), strings.TrimPrefix(v.Class, "VIOLATION-"), strongest, chartForm(c.Chart)))
	rd, _ := json.Marshal(c)
	what := fmt.Sprintf("%s: %s; %d offending request(s) in this case [repo=%s chart=%s pass-credentials=%v kind=%s redirect=%s]",
		c.Path, v.describe(c.Repo), n, c.Repo, c.Chart, c.Pass, c.Kind, c.Redirect)
	return []core.Violation{{Property: prop, Key: key, What: what, Replay: rd}}
}

func replay(_ *core.Ctx, data json.RawMessage) []core.Violation {
	var c Case
	if err := json.Unmarshal(data, &c); err != nil {
		return nil
	}
	w := getWorld()
	defer w.cleanup()
	return violationsOf(evaluate(c, execCase(c)))
}

// floorsOf records the vacuity guards and observations of one evaluated case.
func floorsOf(c *core.Ctx, ev evaluated) {
	cs := ev.Case
	if cs.Path == pHistory {
		histFloors(c, ev)
		return
	}
	if cs.Path == pMgr2Creds {
		for _, v := range ev.Verdicts {
			switch {
			case v.Class == "creds-pass-credentials" && v.Rec.Auth == repoBAuth && cs.PassB:
				c.Floor("2creds:owners-own-pass-flag-honoured")
			case v.Class == "clean" && cs.BFirst && !cs.PassB && cs.Pass:
				if ob, _ := originOfURL(repoBURL); originOfRec(v.Rec) != ob {
					c.Floor("2creds:other-repositorys-pass-flag-not-inherited")
				}
			case v.Class == "creds-same-origin":
				c.Floor("2creds:carry-own-origin")
			}
		}
		return
	}
	ro, err := originOfURL(cs.Repo)
	if err != nil {
		return
	}
	ru, _ := url.Parse(cs.Repo)
	if !cs.Pass {
		for _, b := range boundaryShiftCharts(cs.Repo) {
			if b == cs.Chart {
				for _, v := range ev.Verdicts {
					if v.Class == "clean" && kindOfPath(v.Rec.Path) != "index" {
						c.Floor("boundary-shift:clean")
					}
				}
			}
		}
	}
	if len(ev.Verdicts) == 0 && ev.Err != "" {
		c.Floor("error-before-any-request")
	}
	if ev.Err == "" && len(ev.Verdicts) > 0 {
		c.Floor("download-succeeded")
	}
	bare := !strings.HasSuffix(cs.Repo, repoPath) // extension block: repository URL without path
	for _, v := range ev.Verdicts {
		qo := originOfRec(v.Rec)
		if bare && !cs.Pass && !v.Redirect {
			if v.Class == "clean" && qo != ro && strings.HasPrefix(cs.Chart, cs.Repo) {
				c.Floor("extension:clean-other-authority")
				c.Count("obs_extension_clean_other_authority", 1)
			}
			if v.Class == "creds-same-origin" {
				c.Floor("extension:carry-own-origin")
			}
		}
		if v.Rec.Scheme == "https" {
			c.Floor("tls-request")
		}
		if v.Rec.Via == "proxy" {
			if v.Rec.Scheme == "https" {
				c.Floor("proxy-connect")
			} else {
				c.Floor("proxy-plain")
			}
		}
		if v.Redirect {
			if cs.Redirect == "evil" {
				c.Floor("redirect-evil-followed")
				c.Count("redirect_evil_targets", 1)
				if v.Rec.Auth == repoAuth {
					c.Count("redirect_evil_targets_with_repo_auth", 1)
				}
			} else {
				c.Floor("redirect-port-followed")
				c.Count("redirect_port_targets", 1)
			}
		}
		switch v.Class {
		case "creds-same-origin":
			c.Floor("carry:" + cs.Path)
			c.Count("obs_creds_same_origin", 1)
		case "creds-pass-credentials":
			c.Floor("pass-credentials-cross-origin:" + cs.Path)
			c.Count("obs_creds_cross_origin_with_pass_credentials", 1)
		case "creds-redirect-related":
			c.Floor("redirect-port-keeps-auth-observed")
			c.Count("obs_nethttp_keeps_auth_on_redirect_to_same_host_other_port", 1)
		case "foreign-auth":
			c.Floor("userinfo-auth-is-not-repo-auth")
			c.Count("obs_authorization_from_url_userinfo", 1)
		case "clean":
			if cs.Pass || v.Redirect {
				break
			}
			if qo != ro {
				c.Floor("clean-cross-origin:" + cs.Path)
				c.Count("obs_clean_cross_origin", 1)
				break
			}
			// same origin, no credentials although pass-credentials is off: Helm is stricter than origin equality
			if cs.Path == pDLNotFound {
				break // no credentials are configured on this path's downloader at all
			}
			var ws []string
			if v.Rec.Host != ru.Hostname() {
				ws = append(ws, "case")
			}
			// the wire does not show whether a default port was spelled out; take it from the case's spellings
			if spelledPort(cs) != ru.Port() {
				ws = append(ws, "default-port")
			}
			why := strings.Join(ws, "+")
			if why == "" {
				why = "other"
			}
			c.Floor("helm-stricter-than-origin:" + why)
			c.Count("obs_same_origin_without_credentials:"+why, 1)
		}
	}
}

// spelledPort: the port as spelled in the URL the chart reference of the case
// stands for (a relative reference inherits the repository's spelling, a
// network-path reference //host/... has none).
func spelledPort(cs Case) string {
	s := cs.Chart
	if !isAbsURL(s) {
		s = resolveRef(cs.Repo, s)
	}
	u, err := url.Parse(s)
	if err != nil {
		return ""
	}
	return u.Port()
}

// ---------- run ----------

func run(c *core.Ctx) {
	t0 := time.Now()
	w := getWorld()
	defer w.cleanup()
	sampled := map[string]bool{}
	perPathMs := map[string]int64{}
	// internal deadline well inside the runner's watchdog (900 s quick, 3 h thorough)
	deadline := t0.Add(780 * time.Second)
	if c.Thorough() {
		deadline = t0.Add(170 * time.Minute)
	}
	skipped := int64(0)
	info := enumerate(c.Thorough(), c.Only, func(cs Case) {
		if !c.NextMine() {
			return
		}
		if skipped > 0 || time.Now().After(deadline) {
			skipped++
			return
		}
		t := time.Now()
		c.Eval(1)
		res := execCase(cs)
		ev := evaluate(cs, res)
		perPathMs[cs.Path] += time.Since(t).Microseconds()
		if len(ev.Verdicts) > 0 {
			c.Distinct(cs.canon())
		}
		c.Count("requests_observed", int64(len(ev.Verdicts)))
		c.Outcome(ev.Outcome)
		floorsOf(c, ev)
		if strings.HasPrefix(res.Err, "panic:") {
			c.Count("panics", 1)
		}
		for _, v := range violationsOf(ev) {
			c.Violate(prop, v.Key, v.What, cs)
		}
		sk := cs.Path + "|" + ev.Outcome
		if !sampled[sk] && len(sampled) < 40 {
			sampled[sk] = true
			if len(sampled)%3 == 1 {
				c.Sample(ev)
			}
		}
	})
	if skipped > 0 {
		c.NotExhaustive("internal deadline reached on shard %d: %d cases of this shard not run", c.Shard, skipped)
	}
	for p, us := range perPathMs {
		c.Count("wall_ms:"+p, us/1000)
	}
	for k, v := range info.Bounds {
		c.Bound(k, v)
	}
	var ps []string
	for p, n := range info.PerPath {
		ps = append(ps, fmt.Sprintf("%s=%d", p, n))
	}
	sort.Strings(ps)
	c.Bound("cases_per_call_path", strings.Join(ps, " "))
	c.Count("phase_ms_total", time.Since(t0).Milliseconds())
}
