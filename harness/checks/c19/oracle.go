package c19

// The oracle of C19, independent of Helm's own comparison.
//
// Statement: a username/password configured for a repository is attached ONLY to
// requests whose scheme, host and port equal those of the repository URL, unless
// pass-credentials is enabled.  It is an "only if": not attaching the header is
// never a violation.  "Equal" is read in the way most favourable to Helm, i.e. as
// equality of web origins: scheme and host compared case-insensitively, an absent
// port equal to the scheme's default (http 80, https 443).  Where Helm is stricter
// than that (REPO.test vs repo.test, :80 vs none: no credentials) the check
// records an observation, never a verdict.

import (
	"encoding/base64"
	"fmt"
	"net/url"
	"strings"
)

const (
	repoUser = "alice"
	repoPass = "s3cret"
)

var repoAuth = "Basic " + base64.StdEncoding.EncodeToString([]byte(repoUser+":"+repoPass))

type origin struct{ scheme, host, port string }

func (o origin) String() string { return o.scheme + "://" + o.host + ":" + o.port }

func defaultPort(scheme string) string {
	if scheme == "https" {
		return "443"
	}
	return "80"
}

// originOfURL: normalised origin of a URL string (the repository URL).
func originOfURL(raw string) (origin, error) {
	u, err := url.Parse(raw)
	if err != nil {
		return origin{}, err
	}
	o := origin{scheme: strings.ToLower(u.Scheme), host: strings.ToLower(u.Hostname()), port: u.Port()}
	if o.port == "" {
		o.port = defaultPort(o.scheme)
	}
	return o, nil
}

// originOfRec: normalised origin of an observed request.
func originOfRec(r Rec) origin {
	o := origin{scheme: r.Scheme, host: strings.ToLower(r.Host), port: r.Port}
	if o.port == "" {
		o.port = defaultPort(o.scheme)
	}
	return o
}

// related: one host is the other or a subdomain of it (what net/http regards as
// the same party when it follows a redirect).
func related(a, b string) bool {
	return a == b || strings.HasSuffix(a, "."+b) || strings.HasSuffix(b, "."+a)
}

func hostRelation(req, repo string) string {
	switch {
	case req == repo:
		return "same"
	case strings.HasSuffix(req, "."+repo):
		return "subdomain-of-repo"
	case strings.HasSuffix(repo, "."+req):
		return "parent-of-repo"
	}
	return "unrelated"
}

// verdict on one request.
type verdict struct {
	Rec      Rec    `json:"request"`
	Class    string `json:"class"` // see classify
	Differs  string `json:"differs,omitempty"`
	HostRel  string `json:"host_relation,omitempty"`
	Redirect bool   `json:"followed_redirect,omitempty"`
	CredRepo string `json:"credentials_of,omitempty"` // repository URL the observed credentials were configured for
}

// classify decides one recorded request of a case whose repository (the one the
// credentials were configured for) has URL repoURL.
//
//	clean                      no Authorization at all
//	foreign-auth               an Authorization header that is not the repository's (net/http derives one from URL userinfo)
//	creds-same-origin          repository credentials, request origin = repository origin
//	creds-pass-credentials     repository credentials cross-origin, pass-credentials on
//	creds-redirect-related     credentials copied by net/http onto a redirect target on the repository's own host (other port) or a subdomain: observation
//	VIOLATION-cross-origin     repository credentials on a request Helm itself issued to another origin
//	VIOLATION-redirect         repository credentials on a redirect target on an unrelated domain
func classify(repoURL string, pass bool, r Rec) verdict {
	return classifyFor(repoURL, pass, repoAuth, r)
}

// classifyFor is classify for the repository whose credentials encode to credAuth.
func classifyFor(repoURL string, pass bool, credAuth string, r Rec) verdict {
	v := verdict{Rec: r, Redirect: strings.HasPrefix(r.Path, redirPrefix+"/")}
	if r.Auth == "" {
		v.Class = "clean"
		return v
	}
	if r.Auth != credAuth {
		v.Class = "foreign-auth"
		return v
	}
	v.CredRepo = repoURL
	ro, err := originOfURL(repoURL)
	if err != nil {
		v.Class = "VIOLATION-cross-origin"
		v.Differs = "repo-url-unparsable"
		return v
	}
	qo := originOfRec(r)
	if ro == qo {
		v.Class = "creds-same-origin"
		return v
	}
	var d []string
	if ro.scheme != qo.scheme {
		d = append(d, "scheme")
	}
	if ro.host != qo.host {
		d = append(d, "host")
	}
	if ro.port != qo.port {
		d = append(d, "port")
	}
	v.Differs = strings.Join(d, "+")
	v.HostRel = hostRelation(qo.host, ro.host)
	switch {
	case pass:
		v.Class = "creds-pass-credentials"
	case v.Redirect && related(qo.host, ro.host):
		v.Class = "creds-redirect-related"
	case v.Redirect:
		v.Class = "VIOLATION-redirect"
	default:
		v.Class = "VIOLATION-cross-origin"
	}
	return v
}

func (v verdict) violation() bool { return strings.HasPrefix(v.Class, "VIOLATION") }

func (v verdict) describe(repoURL string) string {
	if v.CredRepo != "" {
		repoURL = v.CredRepo
	}
	return fmt.Sprintf("request %s carries the credentials configured for repository %s (differs in %s; request host is %s)",
		v.Rec.String(), repoURL, v.Differs, v.HostRel)
}

// second credentialed repository of call path manager-2creds
const (
	repoBUser = "bob"
	repoBPass = "hunter2"
	repoBURL  = "http://other.test/charts"
)

var repoBAuth = "Basic " + base64.StdEncoding.EncodeToString([]byte(repoBUser+":"+repoBPass))

// classify2 judges a request of a case with two credentialed repositories: the
// credentials of repository R may appear only on R's origin unless R's OWN
// pass-credentials flag is on.
func classify2(c Case, r Rec) verdict {
	if r.Auth == repoBAuth {
		return classifyFor(repoBURL, c.PassB, repoBAuth, r)
	}
	return classifyFor(c.Repo, c.Pass, repoAuth, r)
}
