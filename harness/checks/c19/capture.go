package c19

// The capture seam: a set of in-memory HTTP(S) origins.  Helm's real
// getter.HTTPGetter (real net/http client, real redirect following, real request
// serialisation) reaches it in one of two ways:
//
//   - in-memory: an *http.Transport whose DialContext / DialTLSContext hand out
//     one end of a net.Pipe; the other end is served by serveConn below.  For
//     https the pipe carries a real TLS session terminated in-process with a
//     self-signed certificate (client side InsecureSkipVerify).
//   - proxy: a loopback TCP listener announced through HTTP_PROXY/HTTPS_PROXY, for
//     the one call path (ChartPathOptions.LocateChart) that hard-codes
//     getter.All(settings) and therefore builds its own transport with
//     Proxy: http.ProxyFromEnvironment.  Plain requests arrive in absolute-URI
//     form; https arrives as CONNECT host:port and is intercepted with the same
//     self-signed certificate (Helm side: --insecure-skip-tls-verify).
//
// Every request is recorded as (scheme, Host header, dial port, path,
// Authorization) before anything is answered.

import (
	"bufio"
	"bytes"
	"context"
	"crypto/ed25519"
	"crypto/rand"
	"crypto/tls"
	"crypto/x509"
	"crypto/x509/pkix"
	"fmt"
	"io"
	"math/big"
	"net"
	"net/http"
	"os"
	"path"
	"sort"
	"strings"
	"sync"
	"time"
)

// Rec is one request seen by the origin set.
type Rec struct {
	Scheme string `json:"scheme"`         // http | https (https = the request arrived inside a TLS session)
	Host   string `json:"host"`           // hostname as sent in the Host header (case preserved, port stripped)
	Port   string `json:"port"`           // port that was dialled / CONNECTed / named in the absolute URI (defaults filled in by net/http)
	Path   string `json:"path"`           // request path as sent on the wire
	Auth   string `json:"auth"`           // Authorization header ("" = absent)
	Via    string `json:"via"`            // pipe | proxy
	Call   int    `json:"call,omitempty"` // getter-history: 1-based number of the Get call that issued the request
}

func (r Rec) String() string {
	a := "-"
	if r.Auth != "" {
		a = r.Auth
	}
	return fmt.Sprintf("%s://%s:%s%s auth=%s", r.Scheme, r.Host, r.Port, r.Path, a)
}

// scenario says what the origin set serves for the current case.
type scenario struct {
	index        []byte // body of every */index.yaml
	redirect     string // none | evil | port
	redirectKind string // chart | prov | index : which request gets the 302
	redirectHost string // host used for redirect "evil"
}

const redirPrefix = "/redir"

type origins struct {
	mu   sync.Mutex
	sc   scenario
	recs []Rec
}

func (o *origins) begin(sc scenario) {
	o.mu.Lock()
	o.sc = sc
	o.recs = nil
	o.mu.Unlock()
}

// take returns the records in a canonical order (requests of one case may be
// issued concurrently by Manager.parallelRepoUpdate).
func (o *origins) take() []Rec {
	o.mu.Lock()
	r := o.recs
	o.recs = nil
	o.mu.Unlock()
	sort.SliceStable(r, func(i, j int) bool { return r[i].String() < r[j].String() })
	return r
}

func kindOfPath(p string) string {
	switch {
	case strings.HasSuffix(p, "/index.yaml"):
		return "index"
	case strings.HasSuffix(p, ".prov"):
		return "prov"
	case strings.HasSuffix(p, ".tgz"):
		return "chart"
	}
	return "other"
}

// handle records the request and builds the answer.
func (o *origins) handle(scheme, dialHost, dialPort, via string, req *http.Request) *http.Response {
	host := req.Host
	if host == "" {
		host = dialHost
	}
	if h, _, err := net.SplitHostPort(host); err == nil {
		host = h
	}
	p := req.URL.EscapedPath()
	if req.URL.Opaque != "" {
		p = req.URL.Opaque
	}
	o.mu.Lock()
	o.recs = append(o.recs, Rec{Scheme: scheme, Host: host, Port: dialPort, Path: p, Auth: req.Header.Get("Authorization"), Via: via})
	sc := o.sc
	o.mu.Unlock()

	resp := &http.Response{ProtoMajor: 1, ProtoMinor: 1, Header: http.Header{}, Close: true, Request: req}
	body := func(code int, b []byte) *http.Response {
		resp.StatusCode = code
		resp.Status = fmt.Sprintf("%d %s", code, http.StatusText(code))
		resp.Body = io.NopCloser(bytes.NewReader(b))
		resp.ContentLength = int64(len(b))
		return resp
	}
	kind := kindOfPath(p)
	redirected := strings.HasPrefix(p, redirPrefix+"/")
	if !redirected && sc.redirect != "none" && sc.redirect != "" && kind == sc.redirectKind {
		var loc string
		// no dot segments or empty segments in the Location: net/http resolves it against the
		// request URL and would otherwise eat the /redir marker (request path /../x.tgz)
		clean := path.Clean("/" + p)
		switch sc.redirect {
		case "evil":
			loc = scheme + "://" + sc.redirectHost + redirPrefix + clean
		case "port":
			loc = scheme + "://" + host + ":8081" + redirPrefix + clean
		}
		resp.Header.Set("Location", loc)
		return body(http.StatusFound, nil)
	}
	switch kind {
	case "index":
		return body(200, sc.index)
	case "chart":
		return body(200, chartTGZ)
	case "prov":
		return body(200, []byte("-----BEGIN PGP SIGNED MESSAGE-----\nnot verified in this check\n"))
	}
	return body(404, []byte("not found\n"))
}

// serveConn speaks HTTP/1.1 on one connection: one request, one answer, close.
func (o *origins) serveConn(conn net.Conn, scheme, dialHost, dialPort, via string) {
	defer conn.Close()
	br := bufio.NewReader(conn)
	req, err := http.ReadRequest(br)
	if err != nil {
		return
	}
	io.Copy(io.Discard, req.Body)
	resp := o.handle(scheme, dialHost, dialPort, via, req)
	resp.Write(conn)
}

// ---------- TLS ----------

var (
	tlsOnce   sync.Once
	serverTLS *tls.Config
)

func serverTLSConfig() *tls.Config {
	tlsOnce.Do(func() {
		pub, priv, err := ed25519.GenerateKey(rand.Reader)
		if err != nil {
			panic(err)
		}
		tmpl := &x509.Certificate{
			SerialNumber: big.NewInt(19),
			Subject:      pkix.Name{CommonName: "c19 capture (self-signed)"},
			NotBefore:    time.Unix(0, 0),
			NotAfter:     time.Date(2099, 1, 1, 0, 0, 0, 0, time.UTC),
			KeyUsage:     x509.KeyUsageDigitalSignature,
			ExtKeyUsage:  []x509.ExtKeyUsage{x509.ExtKeyUsageServerAuth},
			DNSNames:     []string{"capture.invalid"},
		}
		der, err := x509.CreateCertificate(rand.Reader, tmpl, tmpl, pub, priv)
		if err != nil {
			panic(err)
		}
		serverTLS = &tls.Config{Certificates: []tls.Certificate{{Certificate: [][]byte{der}, PrivateKey: priv}}, MinVersion: tls.VersionTLS12,
			CurvePreferences: []tls.CurveID{tls.X25519}, SessionTicketsDisabled: true}
	})
	return serverTLS
}

// ---------- in-memory transport ----------

// newTransport builds a fresh *http.Transport (what getter.WithTransport wants)
// whose connections end in o.  Nothing touches the network.
func (o *origins) newTransport() *http.Transport {
	split := func(addr string) (string, string) {
		h, p, err := net.SplitHostPort(addr)
		if err != nil {
			return addr, ""
		}
		return h, p
	}
	return &http.Transport{
		DisableKeepAlives:  true,
		DisableCompression: true,
		Proxy:              nil,
		DialContext: func(_ context.Context, _, addr string) (net.Conn, error) {
			h, p := split(addr)
			c, s := net.Pipe()
			go o.serveConn(s, "http", h, p, "pipe")
			return c, nil
		},
		DialTLSContext: func(ctx context.Context, _, addr string) (net.Conn, error) {
			h, p := split(addr)
			c, s := net.Pipe()
			go func() {
				ts := tls.Server(s, serverTLSConfig())
				if err := ts.Handshake(); err != nil {
					s.Close()
					return
				}
				o.serveConn(ts, "https", h, p, "pipe")
			}()
			tc := tls.Client(c, &tls.Config{InsecureSkipVerify: true, ServerName: h, CurvePreferences: []tls.CurveID{tls.X25519}})
			if err := tc.HandshakeContext(ctx); err != nil {
				c.Close()
				return nil, err
			}
			return tc, nil
		},
	}
}

// ---------- loopback proxy ----------

var (
	proxyOnce sync.Once
	proxyErr  error
)

// ensureProxy starts the loopback proxy of this process (once) and points the
// process environment at it.  net/http caches the proxy environment on first use,
// so this must run before the first request of a default-transport getter; no
// other code in a C19 worker uses http.ProxyFromEnvironment.
func (o *origins) ensureProxy() error {
	proxyOnce.Do(func() {
		ln, err := net.Listen("tcp", "127.0.0.1:0")
		if err != nil {
			proxyErr = err
			return
		}
		u := "http://" + ln.Addr().String()
		for _, k := range []string{"HTTP_PROXY", "HTTPS_PROXY", "http_proxy", "https_proxy"} {
			os.Setenv(k, u)
		}
		for _, k := range []string{"NO_PROXY", "no_proxy", "REQUEST_METHOD"} {
			os.Unsetenv(k)
		}
		go func() {
			for {
				c, err := ln.Accept()
				if err != nil {
					return
				}
				go o.serveProxyConn(c)
			}
		}()
	})
	return proxyErr
}

func (o *origins) serveProxyConn(conn net.Conn) {
	br := bufio.NewReader(conn)
	req, err := http.ReadRequest(br)
	if err != nil {
		conn.Close()
		return
	}
	hostport := func(hp, defPort string) (string, string) {
		if h, p, err := net.SplitHostPort(hp); err == nil {
			return h, p
		}
		return hp, defPort
	}
	if req.Method == http.MethodConnect {
		h, p := hostport(req.RequestURI, "443")
		io.WriteString(conn, "HTTP/1.1 200 Connection established\r\n\r\n")
		ts := tls.Server(conn, serverTLSConfig())
		if err := ts.Handshake(); err != nil {
			conn.Close()
			return
		}
		o.serveConn(ts, "https", h, p, "proxy")
		return
	}
	// plain proxying: absolute-URI request line
	defer conn.Close()
	io.Copy(io.Discard, req.Body)
	h, p := hostport(req.URL.Host, "80")
	if req.Host == "" {
		req.Host = req.URL.Host
	}
	resp := o.handle("http", h, p, "proxy", req)
	resp.Write(conn)
}
