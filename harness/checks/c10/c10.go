// Package c10: all storage backends behave as the same faithful key-value
// store. Explicit-state search over reference-map states; every transition is
// executed on the real Memory, Secrets and ConfigMaps drivers (Kubernetes ones
// over client-go's fake clientset) and compared with a plain Go map.
package c10

import (
	"encoding/json"
	"errors"
	"fmt"
	"reflect"
	"sort"
	"strings"
	"time"

	"k8s.io/client-go/kubernetes/fake"
	"sigs.k8s.io/yaml"

	chart "helm.sh/helm/v4/pkg/chart/v2"
	rspb "helm.sh/helm/v4/pkg/release/v1"
	"helm.sh/helm/v4/pkg/storage/driver"
	helmtime "helm.sh/helm/v4/pkg/time"

	"verif/harness/internal/core"
)

const prop = "C10"

func init() {
	core.Register(&core.Check{
		ID:    prop,
		Level: "model_checking",
		Rule: "BFS over reference-map states (3 keys x 6 payloads -> 343 states); from every state, reached by up to 3 different real call paths " +
			"(shortest, ending in Update, ending in Delete), every operation of the alphabet is executed on each real backend and on the reference map; " +
			"plus all call sequences up to depth 3/4 over a reduced alphabet, plus the full round-trip product. distinct = (backend, state, op) / (backend, round-trip tuple)",
		Run:    run,
		Replay: replay,
		Assumptions: []string{
			"Kubernetes backends run over client-go's fake clientset (object tracker), as the property's observe_at says",
			"createdAt/modifiedAt and the other five system labels are projected away: the property speaks of user labels",
			"charts with dependencies are outside the record format (Chart.dependencies is unexported) and are not generated",
			"callers hand a fresh *Release to every Create/Update and do not mutate it afterwards (pointer aliasing in Memory is exercised by C01)",
		},
		RequiredFloors: []string{"err:exists", "err:notfound-get", "err:notfound-update", "err:notfound-delete", "query-nonempty", "query-empty", "roundtrip"},
	})
}

var backends = []string{"memory", "secrets", "configmaps"}

func newBackend(name string) driver.Driver {
	switch name {
	case "memory":
		return driver.NewMemory()
	case "secrets":
		return driver.NewSecrets(fake.NewSimpleClientset().CoreV1().Secrets("default"))
	case "configmaps":
		return driver.NewConfigMaps(fake.NewSimpleClientset().CoreV1().ConfigMaps("default"))
	}
	panic(name)
}

// ---------- alphabet ----------

type rkey struct {
	Name string
	Rev  int
}

func (k rkey) key() string { return fmt.Sprintf("sh.helm.release.v1.%s.v%d", k.Name, k.Rev) }

var keys = []rkey{{"a", 1}, {"a", 2}, {"b", 1}}

// keySets: the explorations run once per key set. The second one crosses the
// one-digit/two-digit revision boundary (record keys "…v9" < "…v10" numerically
// but not as strings).
var keySets = [][]rkey{{{"a", 1}, {"a", 2}, {"b", 1}}, {{"a", 9}, {"a", 10}, {"b", 1}}}

type payload struct {
	Status string
	Label  bool
}

var payloads = []payload{{"deployed", false}, {"failed", false}, {"superseded", false}, {"deployed", true}, {"failed", true}, {"superseded", true}}

// Op is one driver call.
type Op struct {
	Kind    string            `json:"kind"` // create update get delete list query
	Key     int               `json:"key"`  // index into keys; 3 = a key that never exists (c,1)
	Payload int               `json:"payload"`
	Filter  string            `json:"filter,omitempty"` // list: all|deployed|name-a
	Query   map[string]string `json:"query,omitempty"`
}

func (o Op) String() string {
	switch o.Kind {
	case "create", "update":
		return fmt.Sprintf("%s(%v,%v)", o.Kind, keyOf(o.Key), payloads[o.Payload])
	case "get", "delete":
		return fmt.Sprintf("%s(%v)", o.Kind, keyOf(o.Key))
	case "list":
		return "list(" + o.Filter + ")"
	}
	b, _ := json.Marshal(o.Query)
	return "query(" + string(b) + ")"
}

func keyOf(i int) rkey {
	if i < len(keys) {
		return keys[i]
	}
	return rkey{"c", 1}
}

func alphabet(reduced bool) []Op {
	var ops []Op
	for k := range keys {
		for p := range payloads {
			if reduced && p != 0 && p != 4 {
				continue
			}
			ops = append(ops, Op{Kind: "create", Key: k, Payload: p})
		}
	}
	for k := 0; k <= len(keys); k++ {
		if reduced && k == 1 {
			continue
		}
		for p := range payloads {
			if reduced && p != 1 && p != 3 {
				continue
			}
			ops = append(ops, Op{Kind: "update", Key: k, Payload: p})
		}
	}
	for k := 0; k <= len(keys); k++ {
		ops = append(ops, Op{Kind: "get", Key: k})
	}
	for k := 0; k <= len(keys); k++ {
		ops = append(ops, Op{Kind: "delete", Key: k})
	}
	ops = append(ops, Op{Kind: "list", Filter: "all"}, Op{Kind: "list", Filter: "deployed"})
	qs := []map[string]string{
		{"name": "a", "owner": "helm"},
		{"name": "a", "owner": "helm", "status": "deployed"},
		{"owner": "helm", "status": "failed"},
		{"name": "a", "version": "2"},
		{"name": "zz", "owner": "helm"},
		{"name": "b", "owner": "other"},
		{"owner": "helm"},
		{"owner": "helm", "version": "1"}, // a revision number without a name: one match per release name
		{"version": "1", "status": "deployed"},
	}
	if !reduced {
		ops = append(ops, Op{Kind: "list", Filter: "name-a"})
	}
	for i, q := range qs {
		if reduced && i > 2 {
			continue
		}
		ops = append(ops, Op{Kind: "query", Query: q})
	}
	return ops
}

func mkRelease(k rkey, p payload) *rspb.Release {
	r := &rspb.Release{
		Name:      k.Name,
		Namespace: "default",
		Version:   k.Rev,
		Info: &rspb.Info{
			FirstDeployed: helmtime.Unix(1700000000, 0).UTC(),
			LastDeployed:  helmtime.Unix(1700000100, 0).UTC(),
			Status:        rspb.Status(p.Status),
			Description:   "d-" + p.Status,
		},
		Chart:    &chart.Chart{Metadata: &chart.Metadata{Name: "ch", Version: "0.1.0", APIVersion: "v2"}},
		Config:   map[string]interface{}{"k": k.Name},
		Manifest: fmt.Sprintf("apiVersion: v1\nkind: ConfigMap\nmetadata:\n  name: %s-%d\n", k.Name, k.Rev),
	}
	if p.Label {
		r.Labels = map[string]string{"x": "y"}
	}
	return r
}

// ---------- reference model ----------

type ref map[int]int // key index -> payload index

func (r ref) clone() ref {
	c := ref{}
	for k, v := range r {
		c[k] = v
	}
	return c
}

func (r ref) canon() string {
	var sb strings.Builder
	for k := range keys {
		if p, ok := r[k]; ok {
			fmt.Fprintf(&sb, "%d=%d;", k, p)
		}
	}
	return sb.String()
}

// outcome of one call in comparable form
type outcome struct {
	Err  string   `json:"err"`  // "" | exists | notfound | fail
	Rels []string `json:"rels"` // canonical release projections, sorted
}

func (o outcome) String() string { b, _ := json.Marshal(o); return string(b) }

func proj(k int, p int) string {
	return projRel(mkRelease(keys[k], payloads[p]))
}

// projRel projects a release to the comparable fields.
func projRel(r *rspb.Release) string {
	if r == nil {
		return "<nil>"
	}
	ul := map[string]string{}
	for k, v := range r.Labels {
		switch k {
		case "name", "owner", "status", "version", "createdAt", "modifiedAt":
		default:
			ul[k] = v
		}
	}
	st, desc := "", ""
	var fd, ld helmtime.Time
	if r.Info != nil {
		st, desc, fd, ld = r.Info.Status.String(), r.Info.Description, r.Info.FirstDeployed, r.Info.LastDeployed
	}
	cfg, _ := yaml.Marshal(r.Config)
	cn := ""
	if r.Chart != nil && r.Chart.Metadata != nil {
		cn = r.Chart.Metadata.Name + "-" + r.Chart.Metadata.Version
	}
	lb, _ := json.Marshal(ul)
	return fmt.Sprintf("%s/%s.v%d st=%s desc=%s fd=%d ld=%d chart=%s cfg=%s man=%q labels=%s", r.Namespace, r.Name, r.Version, st, desc,
		fd.UnixNano(), ld.UnixNano(), cn, strings.TrimSpace(string(cfg)), r.Manifest, lb)
}

func (r ref) apply(op Op) (ref, outcome) {
	n := r.clone()
	switch op.Kind {
	case "create":
		if _, ok := r[op.Key]; ok {
			return n, outcome{Err: "exists"}
		}
		n[op.Key] = op.Payload
		return n, outcome{}
	case "update":
		if _, ok := r[op.Key]; !ok {
			return n, outcome{Err: "fail"}
		}
		n[op.Key] = op.Payload
		return n, outcome{}
	case "get":
		p, ok := r[op.Key]
		if !ok {
			return n, outcome{Err: "fail"}
		}
		return n, outcome{Rels: []string{proj(op.Key, p)}}
	case "delete":
		p, ok := r[op.Key]
		if !ok {
			return n, outcome{Err: "fail"}
		}
		delete(n, op.Key)
		return n, outcome{Rels: []string{proj(op.Key, p)}}
	case "list":
		var out []string
		for k, p := range r {
			switch op.Filter {
			case "deployed":
				if payloads[p].Status != "deployed" {
					continue
				}
			case "name-a":
				if keys[k].Name != "a" {
					continue
				}
			}
			out = append(out, proj(k, p))
		}
		sort.Strings(out)
		return n, outcome{Rels: out}
	case "query":
		var out []string
		for k, p := range r {
			ok := true
			for qk, qv := range op.Query {
				var have string
				switch qk {
				case "name":
					have = keys[k].Name
				case "owner":
					have = "helm"
				case "status":
					have = payloads[p].Status
				case "version":
					have = fmt.Sprint(keys[k].Rev)
				}
				if have != qv {
					ok = false
				}
			}
			if ok {
				out = append(out, proj(k, p))
			}
		}
		sort.Strings(out)
		return n, outcome{Rels: out}
	}
	panic(op.Kind)
}

// ---------- implementation side ----------

func applyImpl(d driver.Driver, op Op) outcome {
	k := keyOf(op.Key)
	switch op.Kind {
	case "create":
		err := d.Create(k.key(), mkRelease(k, payloads[op.Payload]))
		if err == nil {
			return outcome{}
		}
		if errors.Is(err, driver.ErrReleaseExists) {
			return outcome{Err: "exists"}
		}
		return outcome{Err: "fail"}
	case "update":
		err := d.Update(k.key(), mkRelease(k, payloads[op.Payload]))
		if err == nil {
			return outcome{}
		}
		return outcome{Err: "fail"}
	case "get":
		r, err := d.Get(k.key())
		if err != nil {
			return outcome{Err: "fail"}
		}
		return outcome{Rels: []string{projRel(r)}}
	case "delete":
		r, err := d.Delete(k.key())
		if err != nil {
			return outcome{Err: "fail"}
		}
		return outcome{Rels: []string{projRel(r)}}
	case "list":
		rs, err := d.List(func(r *rspb.Release) bool {
			switch op.Filter {
			case "deployed":
				return r.Info.Status == rspb.StatusDeployed
			case "name-a":
				return r.Name == "a"
			}
			return true
		})
		if err != nil {
			return outcome{Err: "fail"}
		}
		return outcome{Rels: projAll(rs)}
	case "query":
		rs, err := d.Query(op.Query)
		if err != nil {
			if errors.Is(err, driver.ErrReleaseNotFound) {
				return outcome{} // "no match" is reported as not-found: an empty result
			}
			return outcome{Err: "fail"}
		}
		return outcome{Rels: projAll(rs)}
	}
	panic(op.Kind)
}

func projAll(rs []*rspb.Release) []string {
	var out []string
	for _, r := range rs {
		out = append(out, projRel(r))
	}
	sort.Strings(out)
	return out
}

func sameOutcome(a, b outcome) bool {
	if a.Err != b.Err {
		return false
	}
	if len(a.Rels) == 0 && len(b.Rels) == 0 {
		return true
	}
	return reflect.DeepEqual(a.Rels, b.Rels)
}

// ---------- replay data ----------

type replayData struct {
	Mode    string  `json:"mode"` // "seq" | "roundtrip"
	Backend string  `json:"backend"`
	Path    []Op    `json:"path,omitempty"`
	RT      *rtCase `json:"rt,omitempty"`
	KeySet  int     `json:"key_set,omitempty"`
}

// runSeq executes path on a fresh backend in lock-step with the reference and
// returns the first disagreement.
func runSeq(backend string, path []Op) (string, string, bool) { return runSeqFrom(backend, path, 0) }

// runSeqFrom is runSeq with the checks switched off for the first `unchecked`
// steps (prefixes that the BFS already checked as sequences of their own).
func runSeqFrom(backend string, path []Op, unchecked int) (string, string, bool) {
	d := newBackend(backend)
	r := ref{}
	for i, op := range path {
		var want outcome
		r, want = r.apply(op)
		got := applyImpl(d, op)
		if i < unchecked {
			continue
		}
		if !sameOutcome(got, want) {
			return fmt.Sprintf("step %d %s: backend %s returned %s, reference map says %s", i, op, backend, got, want),
				fmt.Sprintf("op=%s/got=%s/want=%s", op.Kind, got.Err, want.Err), false
		}
		// whole-store comparison after every step
		_, wantAll := r.apply(Op{Kind: "list", Filter: "all"})
		gotAll := applyImpl(d, Op{Kind: "list", Filter: "all"})
		if !sameOutcome(gotAll, wantAll) {
			return fmt.Sprintf("after step %d %s: backend %s holds %s, reference map holds %s", i, op, backend, gotAll, wantAll),
				fmt.Sprintf("op=%s/store-diverged", op.Kind), false
		}
	}
	return "", "", true
}

func replay(c *core.Ctx, data json.RawMessage) []core.Violation {
	var rd replayData
	if err := json.Unmarshal(data, &rd); err != nil {
		return nil
	}
	if rd.Mode == "roundtrip" {
		if what, key, ok := runRT(rd.Backend, *rd.RT); !ok {
			return []core.Violation{{Property: prop, Key: key, What: what, Replay: data}}
		}
		return nil
	}
	if rd.KeySet > 0 && rd.KeySet < len(keySets) {
		keys = keySets[rd.KeySet]
	}
	if what, key, ok := runSeq(rd.Backend, rd.Path); !ok {
		return []core.Violation{{Property: prop, Key: "seq/" + rd.Backend + ksTag(rd.KeySet) + "/" + key, What: what, Replay: data}}
	}
	return nil
}

func ksTag(ks int) string {
	if ks == 0 {
		return ""
	}
	return "/revs=9,10"
}

// ---------- exploration ----------

func run(c *core.Ctx) {
	t0 := time.Now()
	defer func() { c.Count("phase_ms_total", time.Since(t0).Milliseconds()) }()
	for ks := range keySets {
		keys = keySets[ks]
		runSeqPhases(c, ks)
	}
	keys = keySets[0]
	t2 := time.Now()
	runRoundTrips(c)
	c.Count("phase_ms_rt", time.Since(t2).Milliseconds())
}

func runSeqPhases(c *core.Ctx, ks int) {
	t0 := time.Now()
	full := alphabet(false)
	// BFS over reference states, remembering up to three real paths per state.
	type node struct {
		st    ref
		paths [][]Op
	}
	seen := map[string]*node{}
	order := []string{""}
	seen[""] = &node{st: ref{}, paths: [][]Op{{}}}
	addPath := func(n *node, p []Op) {
		if len(n.paths) >= 3 {
			return
		}
		last := ""
		if len(p) > 0 {
			last = p[len(p)-1].Kind
		}
		for _, q := range n.paths {
			ql := ""
			if len(q) > 0 {
				ql = q[len(q)-1].Kind
			}
			if ql == last {
				return
			}
		}
		n.paths = append(n.paths, append([]Op{}, p...))
	}
	for i := 0; i < len(order); i++ {
		n := seen[order[i]]
		for _, op := range full {
			if op.Kind != "create" && op.Kind != "update" && op.Kind != "delete" {
				continue
			}
			ns, out := n.st.apply(op)
			if out.Err != "" {
				continue
			}
			cn := ns.canon()
			path := append(append([]Op{}, n.paths[0]...), op)
			if m, ok := seen[cn]; ok {
				addPath(m, path)
				continue
			}
			seen[cn] = &node{st: ns, paths: [][]Op{path}}
			order = append(order, cn)
		}
	}
	c.Bound("bfs_states", fmt.Sprint(len(order)))
	maxd := 0
	// execute every op from every state (via each remembered path) on each backend
	for _, be := range backends {
		for _, cn := range order {
			n := seen[cn]
			for pi, path := range n.paths {
				for _, op := range full {
					if !c.NextMine() {
						continue
					}
					seq := append(append([]Op{}, path...), op)
					if len(seq) > maxd {
						maxd = len(seq)
					}
					c.Transition(1)
					c.Eval(1)
					c.State(be + ksTag(ks) + "|" + cn)
					if pi == 0 {
						c.Distinct(be + ksTag(ks) + "|" + cn + "|" + op.String())
					}
					what, key, ok := runSeqFrom(be, seq, len(seq)-1)
					_, want := n.st.apply(op)
					noteFloors(c, op, want)
					c.Outcome(op.Kind + ":" + want.Err)
					if !ok {
						c.Violate(prop, "seq/"+be+ksTag(ks)+"/"+key, what, replayData{Mode: "seq", Backend: be, Path: seq, KeySet: ks})
					} else if len(seq) == 4 {
						c.Sample(map[string]any{"backend": be, "calls": opStrings(seq), "agrees_with_reference_map": true})
					}
				}
			}
		}
	}
	c.Depth(maxd)
	c.Count("phase_ms_bfs", time.Since(t0).Milliseconds())
	t1 := time.Now()

	if ks > 0 && !c.Thorough() {
		return // quick: the second key set runs the state-graph phase only
	}
	// plain sequence enumeration over the reduced alphabet (hidden-state guard)
	red := alphabet(true)
	depth := 3
	if c.Thorough() {
		depth = 4
	}
	c.Bound("sequence_depth_reduced_alphabet", fmt.Sprint(depth))
	c.Bound("reduced_alphabet_size", fmt.Sprint(len(red)))
	for _, be := range backends {
		idx := make([]int, depth)
		for {
			if c.NextMine() {
				seq := make([]Op, depth)
				for i, j := range idx {
					seq[i] = red[j]
				}
				c.Eval(1)
				c.Transition(int64(depth))
				what, key, ok := runSeq(be, seq)
				if !ok {
					c.Violate(prop, "seq/"+be+ksTag(ks)+"/"+key, what, replayData{Mode: "seq", Backend: be, Path: seq, KeySet: ks})
				}
			}
			i := depth - 1
			for i >= 0 {
				idx[i]++
				if idx[i] < len(red) {
					break
				}
				idx[i] = 0
				i--
			}
			if i < 0 {
				break
			}
		}
	}
	c.Depth(depth)
	c.Count("phase_ms_seq", time.Since(t1).Milliseconds())
}

func opStrings(ops []Op) []string {
	var out []string
	for _, o := range ops {
		out = append(out, o.String())
	}
	return out
}

func noteFloors(c *core.Ctx, op Op, want outcome) {
	switch {
	case op.Kind == "create" && want.Err == "exists":
		c.Floor("err:exists")
	case op.Kind == "get" && want.Err != "":
		c.Floor("err:notfound-get")
	case op.Kind == "update" && want.Err != "":
		c.Floor("err:notfound-update")
	case op.Kind == "delete" && want.Err != "":
		c.Floor("err:notfound-delete")
	case op.Kind == "query" && len(want.Rels) > 0:
		c.Floor("query-nonempty")
	case op.Kind == "query" && len(want.Rels) == 0:
		c.Floor("query-empty")
	}
}

// ---------- round trips ----------

type rtCase struct {
	Name     string `json:"name"`
	Rev      int    `json:"rev"`
	Manifest string `json:"manifest"` // empty|unicode|big
	Config   string `json:"config"`   // none|nested|numbers|bigint|nullleaf
	Labels   string `json:"labels"`   // none|one|maxlen
	Time     string `json:"time"`     // zero|utc|offset|nanos
	Status   string `json:"status"`
}

var (
	rtNames     = []string{"a", "a.b", "a.v1", "x.v2.y", strings.Repeat("n", 53), "a-b", "v1", "a.v"}
	rtRevs      = []int{1, 10, 2147483647}
	rtManifests = []string{"empty", "unicode", "big"}
	rtConfigs   = []string{"none", "nested", "numbers", "bigint", "nullleaf"}
	rtLabels    = []string{"none", "one", "maxlen"}
	rtTimes     = []string{"zero", "utc", "offset", "nanos"}
	rtStatuses  = []string{"deployed", "pending-upgrade", "uninstalled"}
)

func buildRT(rc rtCase) *rspb.Release {
	r := &rspb.Release{Name: rc.Name, Namespace: "default", Version: rc.Rev,
		Info: &rspb.Info{Status: rspb.Status(rc.Status), Description: "desc ü", Notes: "notes\nline2"},
		Chart: &chart.Chart{Metadata: &chart.Metadata{Name: "ch", Version: "1.2.3", APIVersion: "v2", Description: "d", Keywords: []string{"k1", "k2"}, AppVersion: "9"},
			Templates: []*chart.File{{Name: "templates/a.yaml", Data: []byte("a: {{ .Values.x }}\n")}},
			Files:     []*chart.File{{Name: "bin.dat", Data: []byte{0, 255, 1, 2}}},
			Values:    map[string]interface{}{"x": "def"},
			Schema:    []byte(`{"type":"object"}`)},
		Hooks: []*rspb.Hook{{Name: "h1", Kind: "Job", Path: "templates/h.yaml", Manifest: "kind: Job\n", Events: []rspb.HookEvent{rspb.HookPreInstall}, Weight: -5,
			DeletePolicies: []rspb.HookDeletePolicy{rspb.HookSucceeded}}},
	}
	switch rc.Manifest {
	case "unicode":
		r.Manifest = "kind: ConfigMap\ndata:\n  k: \"héllo → 世界 \\u0000\"\n"
	case "big":
		r.Manifest = strings.Repeat("# 0123456789abcdef0123456789abcdef0123456789abcdef0123456789abc\n", 16384) // 1 MiB
	}
	switch rc.Config {
	case "nested":
		r.Config = map[string]interface{}{"a": map[string]interface{}{"b": map[string]interface{}{"c": "d"}}, "l": []interface{}{"x", map[string]interface{}{"y": "z"}}}
	case "numbers":
		r.Config = map[string]interface{}{"i": int64(7), "f": 1.5, "neg": int64(-3), "b": true}
	case "bigint":
		r.Config = map[string]interface{}{"big": int64(9007199254740993)}
	case "nullleaf":
		r.Config = map[string]interface{}{"n": nil, "s": ""}
	}
	switch rc.Labels {
	case "one":
		r.Labels = map[string]string{"team": "blue"}
	case "maxlen":
		r.Labels = map[string]string{"team": strings.Repeat("v", 63), "a.b/c-d_e": ""}
	}
	switch rc.Time {
	case "utc":
		r.Info.FirstDeployed = helmtime.Date(2024, 2, 29, 12, 0, 0, 0, time.UTC)
		r.Info.LastDeployed = helmtime.Date(2024, 3, 1, 0, 0, 1, 0, time.UTC)
	case "offset":
		loc := time.FixedZone("x", 5*3600+1800)
		r.Info.FirstDeployed = helmtime.Date(2024, 2, 29, 12, 0, 0, 0, loc)
		r.Info.LastDeployed = helmtime.Date(2024, 3, 1, 0, 0, 1, 0, loc)
		r.Info.Deleted = helmtime.Date(2024, 3, 2, 0, 0, 1, 0, loc)
	case "nanos":
		r.Info.FirstDeployed = helmtime.Date(2024, 2, 29, 12, 0, 0, 123456789, time.UTC)
		r.Info.LastDeployed = helmtime.Date(1999, 12, 31, 23, 59, 59, 999999999, time.UTC)
	}
	return r
}

// fullProj is the field-by-field comparable form for round trips.
func fullProj(r *rspb.Release) string {
	if r == nil {
		return "<nil>"
	}
	cfg, _ := yaml.Marshal(r.Config)
	ch, _ := json.Marshal(r.Chart)
	hk, _ := json.Marshal(hooksNoTimes(r.Hooks))
	del := int64(0)
	if r.Info != nil && !r.Info.Deleted.IsZero() {
		del = r.Info.Deleted.UnixNano()
	}
	notes := ""
	if r.Info != nil {
		notes = r.Info.Notes
	}
	return projRel(r) + fmt.Sprintf(" cfgfull=%s chart=%s hooks=%s deleted=%d notes=%q zfd=%v", cfg, ch, hk, del, notes, r.Info != nil && r.Info.FirstDeployed.IsZero())
}

func hooksNoTimes(hs []*rspb.Hook) []rspb.Hook {
	var out []rspb.Hook
	for _, h := range hs {
		c := *h
		out = append(out, c)
	}
	return out
}

func runRTraw(backend string, rc rtCase) (string, string, bool) {
	d := newBackend(backend)
	k := rkey{rc.Name, rc.Rev}
	want := fullProj(buildRT(rc))
	if err := d.Create(k.key(), buildRT(rc)); err != nil {
		return fmt.Sprintf("create %v on %s failed: %v", rc, backend, err), "roundtrip/" + backend + "/create-fails/" + rtShape(rc), false
	}
	got, err := d.Get(k.key())
	if err != nil {
		return fmt.Sprintf("release %q rev %d was created on %s but Get fails: %v", rc.Name, rc.Rev, backend, err), "roundtrip/" + backend + "/get-fails/" + rtShape(rc), false
	}
	if g := fullProj(got); g != want {
		return fmt.Sprintf("read-back differs on %s for %+v: %s", backend, rc, firstDiff(g, want)), "roundtrip/" + backend + "/differs/" + rtShape(rc), false
	}
	// the record must be found by name and by listing
	qs, err := d.Query(map[string]string{"name": rc.Name, "owner": "helm"})
	if err != nil || len(qs) != 1 || fullProj(qs[0]) != want {
		return fmt.Sprintf("query by name on %s for %+v: err=%v n=%d", backend, rc, err, len(qs)), "roundtrip/" + backend + "/query/" + rtShape(rc), false
	}
	ls, err := d.List(func(*rspb.Release) bool { return true })
	if err != nil || len(ls) != 1 || fullProj(ls[0]) != want {
		return fmt.Sprintf("list on %s for %+v: err=%v n=%d", backend, rc, err, len(ls)), "roundtrip/" + backend + "/list/" + rtShape(rc), false
	}
	// update with a changed status, read back
	up := buildRT(rc)
	up.Info.Status = rspb.StatusSuperseded
	if err := d.Update(k.key(), up); err != nil {
		return fmt.Sprintf("update on %s for %+v fails: %v", backend, rc, err), "roundtrip/" + backend + "/update-fails/" + rtShape(rc), false
	}
	got, err = d.Get(k.key())
	if err != nil || fullProj(got) != fullProj(up) {
		return fmt.Sprintf("read-back after update differs on %s for %+v (err=%v)", backend, rc, err), "roundtrip/" + backend + "/update-differs/" + rtShape(rc), false
	}
	del, err := d.Delete(k.key())
	if err != nil {
		return fmt.Sprintf("release %q rev %d exists on %s but Delete fails: %v", rc.Name, rc.Rev, backend, err), "roundtrip/" + backend + "/delete-fails/" + rtShape(rc), false
	}
	if fullProj(del) != fullProj(up) {
		return fmt.Sprintf("delete on %s returned a different release for %+v", backend, rc), "roundtrip/" + backend + "/delete-differs/" + rtShape(rc), false
	}
	if _, err := d.Get(k.key()); err == nil {
		return fmt.Sprintf("get after delete succeeds on %s for %+v", backend, rc), "roundtrip/" + backend + "/undeleted/" + rtShape(rc), false
	}
	return "", "", true
}

var rtBaseline = rtCase{Name: "a", Rev: 1, Manifest: "empty", Config: "none", Labels: "none", Time: "zero", Status: "deployed"}

// minimise resets every dimension that is not needed for the failure to its
// baseline value (greedy, deterministic) so that the finding key names only the
// dimensions that cause it.
func minimise(backend string, rc rtCase) rtCase {
	fails := func(x rtCase) bool { _, _, ok := runRTraw(backend, x); return !ok }
	cur := rc
	try := func(mod func(*rtCase)) {
		x := cur
		mod(&x)
		if x != cur && fails(x) {
			cur = x
		}
	}
	try(func(x *rtCase) { x.Manifest = rtBaseline.Manifest })
	try(func(x *rtCase) { x.Name = rtBaseline.Name })
	try(func(x *rtCase) { x.Rev = rtBaseline.Rev })
	try(func(x *rtCase) { x.Config = rtBaseline.Config })
	try(func(x *rtCase) { x.Labels = rtBaseline.Labels })
	try(func(x *rtCase) { x.Time = rtBaseline.Time })
	try(func(x *rtCase) { x.Status = rtBaseline.Status })
	return cur
}

// rtShape is the finding key part: the non-baseline dimensions of the
// minimised failing case.
func rtShape(rc rtCase) string {
	var parts []string
	if rc.Name != rtBaseline.Name {
		parts = append(parts, "name="+rc.Name)
	}
	if rc.Rev != rtBaseline.Rev {
		parts = append(parts, fmt.Sprintf("rev=%d", rc.Rev))
	}
	if rc.Manifest != rtBaseline.Manifest {
		parts = append(parts, "manifest="+rc.Manifest)
	}
	if rc.Config != rtBaseline.Config {
		parts = append(parts, "config="+rc.Config)
	}
	if rc.Labels != rtBaseline.Labels {
		parts = append(parts, "labels="+rc.Labels)
	}
	if rc.Time != rtBaseline.Time {
		parts = append(parts, "time="+rc.Time)
	}
	if rc.Status != rtBaseline.Status {
		parts = append(parts, "status="+rc.Status)
	}
	if len(parts) == 0 {
		return "baseline"
	}
	return strings.Join(parts, ",")
}

// runRT runs one round trip and, on failure, minimises it for the key.
func runRT(backend string, rc rtCase) (string, string, bool) {
	what, key, ok := runRTraw(backend, rc)
	if ok {
		return "", "", true
	}
	m := minimise(backend, rc)
	if m != rc {
		what2, key2, ok2 := runRTraw(backend, m)
		if !ok2 {
			return what2 + " (minimised from " + fmt.Sprintf("%+v", rc) + ")", key2, false
		}
	}
	return what, key, false
}

func firstDiff(a, b string) string {
	i := 0
	for i < len(a) && i < len(b) && a[i] == b[i] {
		i++
	}
	lo := i - 40
	if lo < 0 {
		lo = 0
	}
	ha, hb := i+60, i+60
	if ha > len(a) {
		ha = len(a)
	}
	if hb > len(b) {
		hb = len(b)
	}
	return fmt.Sprintf("got …%s… want …%s…", a[lo:ha], b[lo:hb])
}

func runRoundTrips(c *core.Ctx) {
	n := 0
	for _, be := range backends {
		for _, name := range rtNames {
			for _, rev := range rtRevs {
				for _, man := range rtManifests {
					for _, cfg := range rtConfigs {
						for _, lb := range rtLabels {
							for _, tm := range rtTimes {
								st := rtStatuses[n%len(rtStatuses)]
								n++
								if man == "big" && (rev != 1 || lb != "none" || tm != "zero") {
									continue // 1 MiB manifests: sub-product names x configs only
								}
								if !c.NextMine() {
									continue
								}
								rc := rtCase{Name: name, Rev: rev, Manifest: man, Config: cfg, Labels: lb, Time: tm, Status: st}
								c.Eval(1)
								c.Transition(7)
								c.Floor("roundtrip")
								c.Distinct(fmt.Sprintf("rt|%s|%+v", be, rc))
								what, key, ok := runRT(be, rc)
								if !ok {
									c.Violate(prop, key, what, replayData{Mode: "roundtrip", Backend: be, RT: &rc})
								} else if n%977 == 0 {
									c.Sample(map[string]any{"backend": be, "roundtrip": rc, "equal": true})
								}
							}
						}
					}
				}
			}
		}
	}
}
