package c13

import (
	"fmt"
	"testing"
	"time"

	"verif/harness/internal/opspace"
)

func TestSpeed(t *testing.T) {
	for _, drv := range []string{"memory", "secrets"} {
		cfg := config("quick")
		cfg.Check = nil
		path := []opspace.Step{
			{Op: upgradeOp("reuse", "2", map[string]any{"a": 1})},
			{Op: upgradeOp("default", "3", nil)},
			{Op: upgradeOp("reset-then-reuse", "1", map[string]any{"b": "s"})},
		}
		t0 := time.Now()
		n := 200
		for i := 0; i < n; i++ {
			cfg.ReplayPath(nil, opspace.Replay{Driver: drv, Init: "i-a5-bu", Path: path})
		}
		fmt.Printf("%s: %.2f ms per op (incl. install, History)\n", drv, float64(time.Since(t0).Microseconds())/1000/float64(n*4))
	}
}
