// Package c13: an upgrade carries user values forward exactly as the chosen
// flag says; a rollback restores the target's values.
//
// Explicit-state search (opspace) over chains of upgrades and rollbacks after
// an install, on the real action.Upgrade / action.Rollback through the real
// storage drivers. The oracle is a small reference written here (overlay,
// effective) that never calls Helm's coalescing code.
//
// How null is treated in "overlaid key by key" (reading N, the one Helm's own
// value merging of several -f/--set sources uses): a null in the new values is
// a value like any other. overlay(old, new)[k] = new[k] for every key k of
// new, except that when old[k] and new[k] are both maps they are overlaid
// recursively; keys only in old are kept. So {a: null} over {a: 5} is
// {a: null}: the recorded user value of a becomes null, exactly as when
// {a: null} is given at install time or with reset-values, and that recorded
// null removes the chart default of a when values are rendered.
// When rendered values are compared, a null-valued key and an absent key are
// not distinguished (the statement does not speak about that difference).
package c13

import (
	"encoding/json"
	"fmt"
	"sort"
	"strings"

	rspb "helm.sh/helm/v4/pkg/release/v1"

	"verif/harness/internal/core"
	"verif/harness/internal/hx"
	"verif/harness/internal/opspace"
	"verif/harness/internal/sim"
)

const prop = "C13"

func init() {
	core.Register(&core.Check{
		ID:    prop,
		Level: "model_checking",
		Rule: "BFS over canonical world states reached by chains install(values) -> (upgrade x {default,reset,reuse,reset-then-reuse} x value trees {none,{a:1},{a:null},{a:{x:1}},{b:s},{a:{y:2}}[,{a:{x:null}}]} (empties plans: {none,{a:{}},{a:{x:{}}},{a:{x:1}},{a:{x:{p:1}}}} after installs {a:{x:5}} and {a:{x:{p:1,q:2}}}) " +
			"x charts (per plan: the version after the deployed one | same and next | all of v1..v3; defaults of a,b,c differ between versions, a changes type) | rollback to every stored revision)*, " +
			"at most one failing upgrade per chain (reduced alphabet, one injected fault) so that newest != deployed, otherwise fault-free; memory and secrets drivers; every transition is the real action on a clone of the state; the reference (overlay / effective values / defaults in force) " +
			"is evaluated on every transition against Release.Config of every stored revision, the probe document in Release.Manifest and the probe ConfigMap in the simulated cluster; " +
			"distinct = canonical (state, step) pairs; non-trivial = the step succeeded and created a revision",
		Run:    run,
		Replay: replay,
		// no hang risk in this check; on a loaded machine the default 900 s quick watchdog is too tight
		WorkerTimeoutS: func(tier string) int {
			if tier == "thorough" {
				return 6 * 3600
			}
			return 3600
		},
		Assumptions: []string{
			"the statement is about successful steps: chains are fault-free except for at most one failing upgrade per chain (one injected cluster-side fault: first mutating request for a release resource rejected, else readiness wait failed), which only serves to make the newest revision differ from the deployed one; the failing step's own values are not judged; simulated API server, scripted waiter",
			"the currently deployed revision is the revision with status deployed (= the last step that succeeded); when a failing step leaves no revision marked deployed, it is the revision the last successful step created; rollback targets include failed revisions",
			"flag combinations (flag-combination plans: all 8 subsets of reset/reuse/reset-then-reuse): Helm documents and implements reset-values > reuse-values > reset-then-reuse-values, a lower flag is ignored; the reference applies the statement's rule of the winning flag",
			"uniformity clause (independent of the reading of null): with reuse / reset-then-reuse an explicit a: null over a previously recorded non-null a must end up in the same class (dropped | kept-as-null) whether the recorded value was a scalar or a map; the first observation of each (mode, kind) per worker is compared with the others",
			"nil-values plans: \"no values\" is given in two spellings, an empty map and a nil map (Go API: Upgrade.Run(name, chart, nil)); both mean that no values were given",
			"rollback-hook plans: the chart family carries a post-rollback hook; a failing rollback = the wait for that hook fails; like a failing upgrade it only sets up the following steps",
			"null in new values is a value: overlay(old,new)[k]=new[k] (maps on both sides overlaid recursively); rendered values are compared with null-valued keys dropped on both sides",
			"rendered values of a revision are required to equal effective(chart defaults in force, Config recorded for that revision); defaults in force follow the path: reuse-values keeps those of the deployed revision, other upgrades take the new chart's, rollback takes the target's",
			"states that follow a violating transition are not expanded (consequences are not separate findings)",
			"charts have no subcharts; values trees are built from keys a, b (user) and a, b, c (defaults) with scalars, null, maps of depth <= 2 and (empties plans) empty maps at depth 1 and 2; an empty map in the new values overrides no key",
		},
		RequiredFloors: []string{"overlay-both-contribute", "overlay-nested-merge", "carry-forward", "default-replaced", "reset-drops-old", "defaults-stay-old", "defaults-switch-new",
			"rollback-restores-different", "null-recorded", "type-scalar-to-map", "type-map-to-scalar", "secrets-json-roundtrip", "rollback-to-reuse-revision", "chain-reuse-reuse",
			"failed-upgrade-recorded:reject", "failed-upgrade-recorded:wait-fail", "carry-from-deployed-not-latest", "defaults-from-deployed-not-latest", "rollback-to-failed-revision",
			"empty-over-populated-depth1", "empty-over-populated-depth2", "populated-over-empty-depth1", "populated-over-empty-depth2", "empty-table-keeps-defaults",
			"reset-wins-over-reuse", "reset-wins-over-reset-then-reuse", "reuse-wins-over-reset-then-reuse", "failed-rollback-recorded", "carry-after-failed-rollback",
			"nil-values-carry:reuse", "nil-values-carry:reset-then-reuse", "nil-values-carry:default",
			"null-over-recorded-scalar", "null-over-recorded-map"},
	})
}

// ---------- the finite alphabet ----------

// chart defaults: a changes type (scalar, map, scalar), b changes value, c
// (never set by the user) changes value and disappears: c identifies the
// defaults in force.
var defaults = map[string]map[string]any{
	"1": {"a": 10, "b": "d1", "c": 1},
	"2": {"a": map[string]any{"x": 20, "z": 2}, "b": "d2", "c": 2},
	"3": {"a": 30, "b": "d3"},
}

func chartSpec(v string) *hx.ChartSpec {
	return &hx.ChartSpec{Name: "c", Version: v, Values: defaults[v], Probe: true}
}

// chartSpecHook is the same chart family with a post-rollback hook (a
// ConfigMap the rollback waits for): the rollback-hook plans make that wait
// fail, which leaves a failed rollback revision above the deployed one.
func chartSpecHook(v string) *hx.ChartSpec {
	cs := chartSpec(v)
	cs.Hooks = []hx.HookSpec{{Name: "hpost", Kind: "ConfigMap", Events: []string{"post-rollback"}}}
	return cs
}

type namedVals struct {
	Name string
	V    map[string]any
	// Nil: "no values" spelled as a nil map (Upgrade.Run(name, chart, nil)) instead of an empty map.
	Nil bool
}

var stepValues = []namedVals{
	{Name: "none", V: nil},
	{Name: "a=1", V: map[string]any{"a": 1}},
	{Name: "a=null", V: map[string]any{"a": nil}},
	{Name: "a={x:1}", V: map[string]any{"a": map[string]any{"x": 1}}},
	{Name: "b=s", V: map[string]any{"b": "s"}},
	{Name: "a={y:2}", V: map[string]any{"a": map[string]any{"y": 2}}}, // type change from a scalar, nested merge onto a map
}

// emptyValues: the alphabet of the "empties" plans. An empty table in the new
// values overrides no key: over a populated table of the deployed revision
// (depth 1: a, depth 2: a.x) the old subtree is carried forward; the reverse
// (populated new over empty old) fills it; {} against a scalar is a type change.
var emptyValues = []namedVals{
	{Name: "none", V: nil},
	{Name: "a={}", V: map[string]any{"a": map[string]any{}}},
	{Name: "a={x:{}}", V: map[string]any{"a": map[string]any{"x": map[string]any{}}}},
	{Name: "a={x:1}", V: map[string]any{"a": map[string]any{"x": 1}}},
	{Name: "a={x:{p:1}}", V: map[string]any{"a": map[string]any{"x": map[string]any{"p": 1}}}},
}

// comboValues / hookValues: reduced alphabets of the flag-combination and rollback-hook plans.
var comboValues = []namedVals{stepValues[0], stepValues[1], stepValues[4]}               // none, a=1, b=s
var hookValues = []namedVals{stepValues[0], stepValues[1], stepValues[4], stepValues[3]} // + a={x:1}

// nilValues: the alphabet of the nil-values plans: "no values" in both spellings next to two real value sets.
var nilValues = []namedVals{{Name: "nil", Nil: true}, stepValues[0], stepValues[1], stepValues[4]}

var stepValuesThorough = []namedVals{
	{Name: "a={x:null}", V: map[string]any{"a": map[string]any{"x": nil}}},
}

// installs: name -> (chart version, values)
type installSpec struct {
	Chart string
	V     map[string]any
	Hook  bool
}

var installs = map[string]installSpec{
	"i-none":   {Chart: "1", V: nil},
	"i-a5-bu":  {Chart: "1", V: map[string]any{"a": 5, "b": "u"}},
	"i-amap":   {Chart: "1", V: map[string]any{"a": map[string]any{"x": 5}}},
	"i-anull":  {Chart: "1", V: map[string]any{"a": nil}},
	"i2-a5-bu": {Chart: "2", V: map[string]any{"a": 5, "b": "u"}},
	"i2-amap":  {Chart: "2", V: map[string]any{"a": map[string]any{"x": 5}}},
	"i-adeep":  {Chart: "1", V: map[string]any{"a": map[string]any{"x": map[string]any{"p": 1, "q": 2}}}},
	"ih-a5-bu": {Chart: "1", V: map[string]any{"a": 5, "b": "u"}, Hook: true},
	"ih-amap":  {Chart: "1", V: map[string]any{"a": map[string]any{"x": 5}}, Hook: true},
}

var modes = []string{"default", "reset", "reuse", "reset-then-reuse"}

// modes8: all subsets of the three flags. Helm documents (pkg/cmd/upgrade.go flag help) and implements
// the precedence reset-values > reuse-values > reset-then-reuse-values: a lower flag is ignored.
var modes8 = []string{"default", "reset", "reuse", "reset-then-reuse", "reset+reuse", "reset+reset-then-reuse", "reuse+reset-then-reuse", "reset+reuse+reset-then-reuse"}

// modeOf is the effective mode of a step under the documented precedence.
func modeOf(op hx.Op) string {
	switch {
	case op.Kind == "rollback":
		return "rollback"
	case op.ResetValues:
		return "reset"
	case op.ReuseValues:
		return "reuse"
	case op.ResetThenReuseValues:
		return "reset-then-reuse"
	}
	return "default"
}

// flagsOf names the flags as given ("reset+reuse").
func flagsOf(op hx.Op) string {
	var f []string
	if op.ResetValues {
		f = append(f, "reset")
	}
	if op.ReuseValues {
		f = append(f, "reuse")
	}
	if op.ResetThenReuseValues {
		f = append(f, "reset-then-reuse")
	}
	if len(f) == 0 {
		return modeOf(op)
	}
	return strings.Join(f, "+")
}

// keyMode is the mode component of finding keys: the effective mode; a
// combination whose effective mode is reset keeps its flags (no known finding
// lives there), reuse+reset-then-reuse is keyed as reuse (same code path as
// plain reuse, so the known root causes keep their keys).
func keyMode(op hx.Op) string {
	if m := modeOf(op); m != "reset" {
		return m
	}
	return flagsOf(op)
}

func valuesName(v map[string]any) string {
	if len(v) == 0 {
		return "none"
	}
	return strings.ReplaceAll(canon(v), `"`, "")
}

func upgradeOp(mode string, chart string, v map[string]any) hx.Op {
	return upgradeOpOn(mode, chartSpec(chart), v)
}

func upgradeOpOn(mode string, chart *hx.ChartSpec, v map[string]any) hx.Op {
	op := hx.Op{Kind: "upgrade", Chart: chart, Values: v}
	for _, f := range strings.Split(mode, "+") {
		switch f {
		case "reset":
			op.ResetValues = true
		case "reuse":
			op.ReuseValues = true
		case "reset-then-reuse":
			op.ResetThenReuseValues = true
		}
	}
	return op
}

// plan is one sub-search: which drivers, how long the chains, which values
// and which charts an upgrade may choose given the deployed chart version.
type plan struct {
	Name    string
	Drivers []string
	Depth   int
	Inits   []string
	Vals    []namedVals
	Charts  string // "next" | "same,next" | "all"
	// Fail: every chain may contain at most one failing step (see failingStep).
	Fail bool
	// Modes: nil = the four single modes.
	Modes []string
	// Hook: the chart family with a post-rollback hook; the failing steps are the rollbacks (hook wait fails).
	Hook bool
}

var (
	// quick: the empty install is left to the thorough tier (the empty record is still reached by reset-values with no values)
	initsQuick    = []string{"i-a5-bu", "i-amap", "i-anull"}
	initsFour     = []string{"i-none", "i-a5-bu", "i-amap", "i-anull"}
	initsEmpties  = []string{"i-amap", "i-adeep"}
	initsCombos   = []string{"i-a5-bu", "i-amap"}
	initsHook     = []string{"ih-a5-bu", "ih-amap"}
	initsThorough = []string{"i-none", "i-a5-bu", "i-amap", "i-anull", "i2-a5-bu", "i2-amap"}
)

func plans(tier string) []plan {
	vals7 := append(append([]namedVals{}, stepValues...), stepValuesThorough...)
	if tier == "thorough" {
		return []plan{
			{"mem-len3-allcharts", []string{"memory"}, 3, initsFour, vals7, "all", true, nil, false},
			{"mem-len4-nextchart", []string{"memory"}, 4, initsThorough, stepValues, "next", true, nil, false},
			{"sec-len3-same+next", []string{"secrets"}, 3, initsFour, stepValues, "same,next", true, nil, false},
			{"sec-len4-nextchart", []string{"secrets"}, 4, []string{"i-a5-bu"}, stepValues, "next", false, nil, false},
			{"mem-len4-empties", []string{"memory"}, 4, initsEmpties, emptyValues, "next", false, nil, false},
			{"sec-len3-empties", []string{"secrets"}, 3, initsEmpties, emptyValues, "next", false, nil, false},
			{"mem-len3-flagcombos", []string{"memory"}, 3, initsCombos, stepValues, "next", false, modes8, false},
			{"sec-len3-flagcombos", []string{"secrets"}, 3, initsCombos, comboValues, "next", false, modes8, false},
			{"mem-len4-rollbackhook", []string{"memory"}, 4, initsHook, comboValues, "next", true, nil, true},
			{"sec-len3-rollbackhook", []string{"secrets"}, 3, initsHook, comboValues, "next", true, nil, true},
			{"mem-len4-nilvalues", []string{"memory"}, 4, initsCombos, nilValues, "next", false, nil, false},
			{"sec-len3-nilvalues", []string{"secrets"}, 3, initsCombos, nilValues, "next", false, nil, false},
		}
	}
	return []plan{
		{"mem-len3-same+next", []string{"memory"}, 3, initsQuick, stepValues, "same,next", true, nil, false},
		{"sec-len3-nextchart", []string{"secrets"}, 3, initsQuick, stepValues, "next", true, nil, false},
		{"mem-len3-empties", []string{"memory"}, 3, initsEmpties, emptyValues, "next", false, nil, false},
		{"sec-len2-empties", []string{"secrets"}, 2, initsEmpties, emptyValues, "next", false, nil, false},
		{"mem-len3-flagcombos", []string{"memory"}, 3, initsCombos, comboValues, "next", false, modes8, false},
		{"sec-len2-flagcombos", []string{"secrets"}, 2, initsCombos, comboValues, "next", false, modes8, false},
		{"mem-len3-rollbackhook", []string{"memory"}, 3, initsHook, hookValues, "next", true, nil, true},
		{"sec-len3-rollbackhook", []string{"secrets"}, 3, []string{"ih-a5-bu"}, comboValues, "next", true, nil, true},
		{"mem-len3-nilvalues", []string{"memory"}, 3, initsCombos, nilValues, "next", false, nil, false},
		{"sec-len2-nilvalues", []string{"secrets"}, 2, initsCombos, nilValues, "next", false, nil, false},
	}
}

// allInits: every install, simplest first (used by the minimiser).
var allInits = append(append([]string{}, initsThorough...), "i-adeep", "ih-a5-bu", "ih-amap")

func nextChart(v string) string {
	switch v {
	case "1":
		return "2"
	case "2":
		return "3"
	}
	return "1"
}

func (p plan) charts(deployedChart string) []string {
	switch p.Charts {
	case "next":
		return []string{nextChart(deployedChart)}
	case "same,next":
		return []string{deployedChart, nextChart(deployedChart)}
	}
	return []string{"1", "2", "3"}
}

func makeInit(drv, init string) *hx.World {
	w := hx.NewWorld(drv)
	is := installs[init]
	cs := chartSpec(is.Chart)
	if is.Hook {
		cs = chartSpecHook(is.Chart)
	}
	w.Exec(hx.Op{Kind: "install", Release: "r", Chart: cs, Values: is.V}, nil)
	return w
}

// replayConfig is all ReplayPath needs: the initial state and the oracle.
func replayConfig(check func(*core.Ctx, *opspace.Transition)) *opspace.Config {
	return &opspace.Config{Property: prop, MakeInit: makeInit, Check: check}
}

// failingStep: the upgrades that are also executed with one injected
// cluster-side fault, so that the new revision is recorded failed and the old
// one stays deployed: default mode with {a:1} or {b:s} and reuse-values with
// {a:1}, always with the chart version after the deployed one (the failed
// revision then differs from the deployed one in recorded values, chart and,
// except for reuse-values, defaults).
func failingStep(op hx.Op, deployedChart string) bool {
	if op.Kind != "upgrade" || op.Chart == nil || op.Chart.Version != nextChart(deployedChart) {
		return false
	}
	switch modeOf(op) + " " + valuesName(op.Values) {
	case "default {a:1}", "default {b:s}", "reuse {a:1}":
		return true
	}
	return false
}

// pickFault chooses, from the calls of the fault-free run of a step, the call
// that makes the step fail. Upgrade: the first mutating request for a release
// resource is rejected; when the upgrade changes nothing in the cluster (no
// such request) the readiness wait fails instead. Rollback (hook plans): the
// wait for the post-rollback hook fails (the chart family has no other hook).
func pickFault(op hx.Op, calls []sim.Call) *sim.Fault {
	if op.Kind == "rollback" {
		for _, c := range calls {
			if c.Class == "wait" && strings.HasPrefix(c.Label, "wait:WatchUntilReady") {
				return &sim.Fault{Label: c.Label, Occurrence: c.Occurrence, Kind: "wait-fail"}
			}
		}
		return nil
	}
	for _, c := range calls {
		if c.Class == "cluster" && c.Mutating {
			return &sim.Fault{Label: c.Label, Occurrence: c.Occurrence, Kind: "reject"}
		}
	}
	for _, c := range calls {
		if c.Class == "wait" {
			return &sim.Fault{Label: c.Label, Occurrence: c.Occurrence, Kind: "wait-fail"}
		}
	}
	return nil
}

func config(p plan, tier string) *opspace.Config {
	lastBad := false
	perKey := map[string]int{}
	curDepChart := "1"  // chart version of the deployed revision of the state being expanded
	var want *sim.Fault // the fault chosen for the step being expanded
	planModes, spec := modes, chartSpec
	if p.Modes != nil {
		planModes = p.Modes
	}
	if p.Hook {
		spec = chartSpecHook
	}
	cfg := &opspace.Config{
		Property: prop,
		Drivers:  p.Drivers,
		Inits:    p.Inits,
		MakeInit: makeInit,
		Alphabet: func(_ *hx.World, hist []*rspb.Release, path []opspace.Step) []opspace.Step {
			var out []opspace.Step
			if len(path) == 0 {
				// The first step only decides which worker explores the subtree (unit i goes to
				// shard i mod n). In generation order i mod 4 is the mode, so whole modes would
				// land on one worker; order the first steps by a fixed hash instead. Every first
				// step is still enumerated.
				defer func() {
					sort.SliceStable(out, func(i, j int) bool {
						return core.Hash64(out[i].String()) < core.Hash64(out[j].String())
					})
				}()
			}
			dep := deployed(hist)
			depChart := "1"
			if dep != nil && dep.Chart != nil && dep.Chart.Metadata != nil {
				depChart = dep.Chart.Metadata.Version
			}
			curDepChart = depChart
			// simplest first: no values, then one key
			for _, v := range p.Vals {
				for _, ch := range p.charts(depChart) {
					for _, m := range planModes {
						op := upgradeOpOn(m, spec(ch), v.V)
						op.NilValues = v.Nil
						out = append(out, opspace.Step{Op: op})
					}
				}
			}
			for _, r := range hist {
				out = append(out, opspace.Step{Op: hx.Op{Kind: "rollback", Version: r.Version}})
			}
			return out
		},
		MaxDepth: p.Depth,
		Check: func(c *core.Ctx, t *opspace.Transition) {
			if t.Step.Fault == nil {
				// opspace runs a step fault-free first and then asks FaultKinds for every call of that run
				want = pickFault(t.Step.Op, t.Res.Calls)
			}
			v := evaluate(t)
			lastBad = !v.Continue
			apply(c, t, v, tier, perKey)
		},
		Expand: func(*opspace.Transition) bool { return !lastBad },
		KeyExtra: func(t *opspace.Transition) string {
			// defaults in force per revision (reference side) and the values stored
			// inside each revision's chart (reuse-values rewrites them): both decide
			// the future of a state and are not part of the canonical world
			var sb strings.Builder
			ds := refDefaults(t.Init, t.Path)
			for _, r := range t.PostHist {
				var cv any
				if r.Chart != nil {
					cv = r.Chart.Values
				}
				fmt.Fprintf(&sb, "%d:%s:%s;", r.Version, canon(ds[r.Version]), canon(cv))
			}
			return sb.String()
		},
	}
	if p.Fail {
		cfg.MaxFaulty = 1
		// a failing last step has no successor whose carried values could be checked
		cfg.FaultAt = func(depth int, _ []opspace.Step) bool { return depth < p.Depth-1 }
		cfg.FaultKinds = func(_ string, op hx.Op, call sim.Call) []string {
			fails := failingStep(op, curDepChart)
			if p.Hook {
				fails = op.Kind == "rollback" // hook plans: every rollback is also run with its post-rollback hook failing
			}
			if want == nil || !fails || call.Label != want.Label || call.Occurrence != want.Occurrence {
				return nil
			}
			return []string{want.Kind}
		}
	}
	return cfg
}

func run(c *core.Ctx) {
	// --only plan=<name>,depth=2,driver=memory,init=i-none restricts the run (debugging; reported as not exhaustive)
	only := map[string]string{}
	for _, kv := range strings.Split(c.Only, ",") {
		if k, v, ok := strings.Cut(kv, "="); ok {
			only[k] = v
			c.NotExhaustive("restricted by --only %s", kv)
		}
	}
	for _, p := range plans(c.Tier) {
		if only["plan"] != "" && only["plan"] != p.Name {
			continue
		}
		if only["depth"] != "" {
			fmt.Sscan(only["depth"], &p.Depth)
		}
		if only["driver"] != "" {
			p.Drivers = []string{only["driver"]}
		}
		if only["init"] != "" {
			p.Inits = []string{only["init"]}
		}
		var vn []string
		for _, v := range p.Vals {
			vn = append(vn, v.Name)
		}
		pm := modes
		if p.Modes != nil {
			pm = p.Modes
		}
		failing := "none"
		switch {
		case p.Fail && p.Hook:
			failing = "at most one per chain, at every position but the last: any rollback, wait for the post-rollback hook of the chart family fails"
		case p.Fail:
			failing = "at most one per chain, at every position but the last: default{a:1} | default{b:s} | reuse{a:1}, next chart, first mutating cluster request rejected (else readiness wait failed)"
		}
		c.Bound("plan:"+p.Name, fmt.Sprintf("drivers=%s chain_length<=%d installs=%s step_values=[%s] modes=%s charts_per_upgrade=%s post_rollback_hook=%v rollback=every-stored-revision(also failed ones) failing_steps=%s",
			strings.Join(p.Drivers, ","), p.Depth, strings.Join(p.Inits, ","), strings.Join(vn, " "), strings.Join(pm, ","), p.Charts, p.Hook, failing))
		config(p, c.Tier).Run(c)
	}
}

type replayData struct {
	opspace.Replay
	Key  string `json:"key"`
	Tier string `json:"tier"`
	// Other: the second history of a null-uniformity violation (the two are compared).
	Other *opspace.Replay `json:"other,omitempty"`
}

func replay(c *core.Ctx, data json.RawMessage) []core.Violation {
	var rd replayData
	if err := json.Unmarshal(data, &rd); err != nil {
		return nil
	}
	if rd.Other != nil {
		a, b := lastNull(rd.Replay), lastNull(*rd.Other)
		if a != nil && b != nil {
			if key, what := nullDiffers(*a, rd.Replay, *b, *rd.Other); key == rd.Key {
				return []core.Violation{{Property: prop, Key: key, What: what, Replay: data}}
			}
		}
		return nil
	}
	replayConfig(func(c *core.Ctx, t *opspace.Transition) {
		apply(c, t, evaluate(t), rd.Tier, nil)
	}).ReplayPath(c, rd.Replay)
	return core.FilterKey(c.TakeViolations(), rd.Key)
}

// ---------- reference (plain maps; never calls Helm) ----------

// norm brings a value to its JSON shape (float64 numbers, map[string]any,
// nil map = empty map at top level).
func norm(v any) any {
	b, err := json.Marshal(v)
	if err != nil {
		return fmt.Sprintf("unmarshalable: %v", err)
	}
	var out any
	json.Unmarshal(b, &out)
	return out
}

func normMap(v map[string]any) map[string]any {
	m, _ := norm(v).(map[string]any)
	if m == nil {
		m = map[string]any{}
	}
	return m
}

// canon is a canonical string (encoding/json sorts map keys).
func canon(v any) string {
	b, _ := json.Marshal(norm(v))
	return string(b)
}

func deep(v any) any {
	switch x := v.(type) {
	case map[string]any:
		o := make(map[string]any, len(x))
		for k, e := range x {
			o[k] = deep(e)
		}
		return o
	case []any:
		o := make([]any, len(x))
		for i, e := range x {
			o[i] = deep(e)
		}
		return o
	}
	return v
}

// overlay: the old user values overlaid key by key with the new ones. A null
// in new is a value (it replaces the old entry and stays recorded).
func overlay(old, nw map[string]any) map[string]any {
	out := deep(old).(map[string]any)
	for k, nv := range nw {
		nm, nIsMap := nv.(map[string]any)
		om, oIsMap := out[k].(map[string]any)
		if nIsMap && oIsMap {
			out[k] = overlay(om, nm)
		} else {
			out[k] = deep(nv)
		}
	}
	return out
}

// refConfig is the reference for the recorded user values of the new revision.
// dep = recorded values of the deployed revision, target = those of the
// rollback target (both as observed in the pre-state, normalised).
func refConfig(mode string, dep, nw, target map[string]any) map[string]any {
	switch mode {
	case "reset":
		return deep(nw).(map[string]any)
	case "reuse", "reset-then-reuse":
		return overlay(dep, nw)
	case "rollback":
		return deep(target).(map[string]any)
	}
	if len(nw) > 0 {
		return deep(nw).(map[string]any)
	}
	return deep(dep).(map[string]any)
}

// effective: what templates see = chart defaults overridden by user values;
// maps merge, a user null removes the key, anything else replaces.
func effective(defs, user map[string]any) map[string]any {
	out := deep(defs).(map[string]any)
	for k, uv := range user {
		switch u := uv.(type) {
		case nil:
			delete(out, k)
		case map[string]any:
			dm, _ := out[k].(map[string]any)
			if dm == nil {
				dm = map[string]any{}
			}
			out[k] = effective(dm, u)
		default:
			out[k] = uv
		}
	}
	return out
}

// sameOutside: a and b agree on every top-level key that user does not set.
func sameOutside(a, b, user map[string]any) bool {
	for _, m := range []map[string]any{a, b} {
		for k := range m {
			if _, set := user[k]; set {
				continue
			}
			if canon(a[k]) != canon(b[k]) {
				return false
			}
		}
	}
	return true
}

func dropNulls(v any) any {
	m, ok := v.(map[string]any)
	if !ok {
		return v
	}
	o := map[string]any{}
	for k, e := range m {
		if e == nil {
			continue
		}
		o[k] = dropNulls(e)
	}
	return o
}

// refDefaults maps revision -> chart defaults in force, from the path alone
// (every step, failing or not, creates a revision: step i created revision
// i+2; a step with an injected fault failed and left the deployed revision
// where it was).
func refDefaults(init string, path []opspace.Step) map[int]map[string]any {
	ds := map[int]map[string]any{1: normMap(defaults[installs[init].Chart])}
	dep := 1 // the deployed revision = the revision of the last step that succeeded
	for i, st := range path {
		n := i + 2
		switch {
		case st.Op.Kind == "rollback":
			ds[n] = ds[st.Op.Version]
		case st.Op.ReuseValues && !st.Op.ResetValues:
			ds[n] = ds[dep]
		default:
			ds[n] = normMap(st.Op.Chart.Values)
		}
		if st.Fault == nil {
			dep = n
		}
	}
	return ds
}

// ---------- observation ----------

func deployed(h []*rspb.Release) *rspb.Release {
	var d *rspb.Release
	for _, r := range h {
		if r.Info != nil && r.Info.Status == rspb.StatusDeployed {
			d = r
		}
	}
	return d
}

func find(h []*rspb.Release, v int) *rspb.Release {
	for _, r := range h {
		if r.Version == v {
			return r
		}
	}
	return nil
}

const probeName = "probe-c"

// probeOfManifest extracts the rendered .Values from the probe document.
func probeOfManifest(manifest string) (map[string]any, string) {
	docs, err := hx.ParseManifest(manifest)
	if err != nil {
		return nil, "manifest does not parse: " + err.Error()
	}
	for _, d := range docs {
		if d.Kind == "ConfigMap" && d.Name == probeName {
			return probeData(d.Obj)
		}
	}
	return nil, "no probe document in the manifest"
}

func probeOfCluster(w *hx.World) (map[string]any, string) {
	b, ok := w.Sim.Get(sim.ObjPath("", "v1", hx.Namespace, "configmaps", probeName))
	if !ok {
		return nil, "no probe ConfigMap in the cluster"
	}
	var obj map[string]any
	json.Unmarshal(b, &obj)
	return probeData(obj)
}

func probeData(obj map[string]any) (map[string]any, string) {
	data, _ := obj["data"].(map[string]any)
	s, _ := data["values"].(string)
	var v map[string]any
	if err := json.Unmarshal([]byte(s), &v); err != nil {
		return nil, "probe data.values is not a JSON object: " + s
	}
	return v, ""
}

func kindOf(m map[string]any, k string) string {
	v, ok := m[k]
	switch {
	case !ok:
		return "unset"
	case v == nil:
		return "null"
	}
	if _, isMap := v.(map[string]any); isMap {
		return "map"
	}
	return "scalar"
}

func hasFloat(v any) bool {
	switch x := v.(type) {
	case float64:
		return true
	case map[string]any:
		for _, e := range x {
			if hasFloat(e) {
				return true
			}
		}
	}
	return false
}

// ---------- the transition oracle ----------

type finding struct {
	Key  string
	What string
}

// verdict is everything evaluate says about one transition; apply books it.
type verdict struct {
	Findings []finding
	// Continue: the search may go on from the post-state.
	Continue bool
	// Counted: the step succeeded and created a revision (a non-trivial case).
	Counted  bool
	Outcome  string
	Floors   []string
	Sample   any
	NotExh   string // a condition outside the property stopped the evaluation
	NoteText string
	// Null: what happened to an explicit top-level a: null of the new values over a previously
	// recorded non-null a (reuse / reset-then-reuse only); nil when the step is not such a case.
	Null *nullObs
}

// nullObs is one observation for the uniformity clause: the treatment of an
// explicit null must not depend on the type (scalar / map) of the value that
// was recorded before - under any reading of "overlaid key by key".
type nullObs struct {
	Mode  string `json:"mode"`  // reuse | reset-then-reuse
	Kind  string `json:"kind"`  // scalar | map: the deployed revision's a
	Class string `json:"class"` // dropped | kept-as-null | kept-value: a in the new record
}

// evaluate is the oracle: pure function of the transition.
func evaluate(t *opspace.Transition) (v verdict) {
	op, res := t.Step.Op, t.Res
	mode := modeOf(op)
	pre, post := t.PreHist, t.PostHist
	dep := deployed(pre)
	// the revision created by the last step that succeeded (1 = the install)
	refDep := 1
	for i, st := range t.Path[:len(t.Path)-1] {
		if st.Fault == nil {
			refDep = i + 2
		}
	}
	violate := func(clause, shape, what string) {
		key := core.SanitizeKey(clause + "|" + keyMode(op) + "|" + shape)
		v.Findings = append(v.Findings, finding{key, fmt.Sprintf("%s: %s [driver=%s install=%s history=%v]", clause, what, t.Driver, t.Init, opspace.PathStrings(t.Path))})
	}
	ds := refDefaults(t.Init, t.Path)

	// the install that produced the initial state (evaluated with every first step)
	if t.Depth == 1 {
		is := installs[t.Init]
		r := find(pre, 1)
		if r == nil || len(pre) != 1 {
			v.NotExh = fmt.Sprintf("install %s did not produce exactly revision 1", t.Init)
			return v
		}
		if got, want := canon(normMap(r.Config)), canon(normMap(is.V)); got != want {
			violate("install-config", "values="+valuesName(is.V), fmt.Sprintf("install recorded user values %s, given %s", got, want))
		}
		pv, why := probeOfManifest(r.Manifest)
		want := canon(dropNulls(effective(ds[1], normMap(is.V))))
		if why != "" || canon(dropNulls(pv)) != want {
			violate("install-render", "values="+valuesName(is.V), fmt.Sprintf("install rendered values %s%s, want %s", canon(pv), why, want))
		}
	}
	if dep == nil {
		// No revision is marked deployed (only possible after a failing step lost the marker). The
		// deployed revision the statement speaks about is then the one the last successful step created.
		dep = find(pre, refDep)
	}
	if dep == nil || dep.Version != refDep {
		v.NotExh = fmt.Sprintf("the revision marked deployed before %s is not the one of the last successful step (%d): %s", t.Step.String(), refDep, hx.StatusVector(pre))
		return v
	}
	if t.Step.Fault != nil {
		// the failing step: it must fail and leave a failed revision; whether the deployed one keeps its status is
		// decided by C01/C03 - here it is only the precondition for the steps that follow; its own values are not judged
		if !res.Failed || len(post) != len(pre)+1 || post[len(post)-1].Version != t.Depth+1 ||
			post[len(post)-1].Info.Status != rspb.StatusFailed || (deployed(post) != nil && deployed(post).Version != dep.Version) {
			v.Outcome = mode + ":failing-step-unexpected"
			v.NotExh = fmt.Sprintf("%s with %s did not leave (deployed, failed): err=%q ledger=%s; not continued", op.Kind, t.Step.Fault, res.Err, hx.StatusVector(post))
			return v
		}
		if deployed(post) == nil {
			v.NoteText = fmt.Sprintf("after the failing %s no revision is marked deployed (%s); the following steps are judged against revision %d", op.Kind, hx.StatusVector(post), dep.Version)
		}
		for _, r := range pre {
			if pr := find(post, r.Version); pr != nil && canon(normMap(pr.Config)) != canon(normMap(r.Config)) {
				violate("stored-config-changed", "failing-upgrade", fmt.Sprintf("user values of stored revision %d changed from %s to %s", r.Version, canon(normMap(r.Config)), canon(normMap(pr.Config))))
			}
		}
		v.Counted, v.Continue = true, len(v.Findings) == 0
		v.Outcome = mode + ":failed-step:" + t.Step.Fault.Kind
		if op.Kind == "rollback" {
			v.Floors = append(v.Floors, "failed-rollback-recorded")
		} else {
			v.Floors = append(v.Floors, "failed-upgrade-recorded:"+t.Step.Fault.Kind)
		}
		return v
	}
	if res.Failed {
		// a fault-free step with valid input is expected to succeed; the property speaks about successful steps only
		v.Outcome = mode + ":failed:" + res.ErrClass()
		v.NoteText = fmt.Sprintf("step failed: %s: %s", t.Step.String(), res.Err)
		return v
	}
	if len(post) != len(pre)+1 || post[len(post)-1].Version != pre[len(pre)-1].Version+1 || post[len(post)-1].Version != t.Depth+1 {
		v.Outcome = mode + ":ledger-unexpected"
		v.NotExh = fmt.Sprintf("ledger after %v is %s (C01's business); not continued", opspace.PathStrings(t.Path), hx.StatusVector(post))
		return v
	}
	nr := post[len(post)-1]
	v.Counted = true
	// the newest revision when it is not the deployed one (a failed upgrade lies between)
	var latest *rspb.Release
	if l := pre[len(pre)-1]; l.Version != dep.Version {
		latest = l
	}

	depCfg := normMap(dep.Config)
	nw := normMap(op.Values)
	var tgtCfg map[string]any
	if mode == "rollback" {
		tgt := find(pre, op.Version)
		if tgt == nil {
			v.NotExh = fmt.Sprintf("rollback target %d missing", op.Version)
			return v
		}
		tgtCfg = normMap(tgt.Config)
	}
	want := refConfig(mode, depCfg, nw, tgtCfg)
	got := normMap(nr.Config)
	newName := valuesName(op.Values)
	if op.NilValues && op.Values == nil {
		newName = "nil"
	}
	shape := fmt.Sprintf("new=%s|dep.a=%s", newName, kindOf(depCfg, "a"))
	if mode == "rollback" {
		shape = "target-differs-from-deployed"
		if canon(tgtCfg) == canon(depCfg) {
			shape = "target-equals-deployed"
		}
	}

	if av, given := nw["a"]; given && av == nil && (mode == "reuse" || mode == "reset-then-reuse") {
		if k := kindOf(depCfg, "a"); k == "scalar" || k == "map" {
			class := "kept-value"
			if gv, has := got["a"]; !has {
				class = "dropped"
			} else if gv == nil {
				class = "kept-as-null"
			}
			v.Null = &nullObs{Mode: mode, Kind: k, Class: class}
		}
	}

	// K1: the recorded user values of the new revision
	if canon(got) != canon(want) {
		clause := "config"
		if latest != nil && mode != "rollback" && canon(got) == canon(refConfig(mode, normMap(latest.Config), nw, nil)) {
			// diagnosis: the result is what the reference gives when it starts from the newest revision
			clause = "config-from-latest-revision"
		}
		violate(clause, shape, fmt.Sprintf("revision %d records user values %s, want %s (deployed revision %d had %s, new values %s)",
			nr.Version, canon(got), canon(want), dep.Version, canon(depCfg), canon(nw)))
	}
	// K2: recorded values of the existing revisions are not touched
	for _, r := range pre {
		pr := find(post, r.Version)
		if pr == nil {
			continue // pruning is not in this alphabet; C01 covers the ledger
		}
		if canon(normMap(pr.Config)) != canon(normMap(r.Config)) {
			violate("stored-config-changed", shape, fmt.Sprintf("user values of stored revision %d changed from %s to %s", r.Version, canon(normMap(r.Config)), canon(normMap(pr.Config))))
		}
	}
	// K3: rendered values = effective(defaults in force, values recorded for this revision)
	dn := ds[nr.Version]
	wantE := canon(dropNulls(effective(dn, got)))
	pv, why := probeOfManifest(nr.Manifest)
	if why != "" || canon(dropNulls(pv)) != wantE {
		clause := "render"
		if latest != nil && mode == "reuse" && canon(ds[latest.Version]) != canon(dn) && sameOutside(pv, effective(ds[latest.Version], got), got) {
			// diagnosis: for every key the user values do not set, the rendered value is the default of the newest revision
			clause = "render-defaults-of-latest-revision"
		}
		violate(clause, shape, fmt.Sprintf("revision %d renders values %s%s, want %s = defaults in force %s overridden by its recorded user values %s (deployed revision %d had %s, new values %s)",
			nr.Version, canon(pv), why, wantE, canon(dn), canon(got), dep.Version, canon(depCfg), canon(nw)))
	} else if cv, why := probeOfCluster(t.Post); why != "" || canon(dropNulls(cv)) != wantE {
		violate("cluster-render", shape, fmt.Sprintf("probe in the cluster after revision %d has values %s%s, want %s", nr.Version, canon(cv), why, wantE))
	}
	ok := len(v.Findings) == 0
	v.Continue = ok

	// outcome classes and vacuity floors (all computed on the reference side)
	class := "other"
	switch {
	case mode == "rollback":
		class = "restored"
	case canon(want) == canon(depCfg) && canon(want) == canon(nw):
		class = "same"
	case canon(want) == canon(depCfg):
		class = "carried"
	case canon(want) == canon(nw):
		class = "new-only"
	default:
		class = "overlaid"
	}
	dclass := "defaults-same"
	if canon(dn) != canon(ds[dep.Version]) {
		dclass = "defaults-new"
	} else if mode != "rollback" && canon(normMap(op.Chart.Values)) != canon(dn) {
		dclass = "defaults-kept"
	}
	if ok {
		v.Outcome = flagsOf(op) + ":" + class + ":" + dclass + ":ok"
	} else {
		v.Outcome = flagsOf(op) + ":" + class + ":" + dclass + ":violation"
		return v
	}
	floor := func(f string) { v.Floors = append(v.Floors, f) }
	switch mode {
	case "reuse", "reset-then-reuse":
		if class == "overlaid" {
			floor("overlay-both-contribute")
		}
		if om, _ := depCfg["a"].(map[string]any); om != nil {
			if wm, _ := want["a"].(map[string]any); wm != nil && len(wm) > len(om) {
				floor("overlay-nested-merge")
			}
		}
		if kindOf(depCfg, "a") == "scalar" && kindOf(want, "a") == "map" {
			floor("type-scalar-to-map")
		}
		if kindOf(depCfg, "a") == "map" && kindOf(want, "a") == "scalar" {
			floor("type-map-to-scalar")
		}
		if mode == "reuse" && dclass == "defaults-kept" {
			floor("defaults-stay-old")
		}
		if mode == "reuse" && t.Depth >= 2 && t.Path[t.Depth-2].Op.ReuseValues {
			floor("chain-reuse-reuse")
		}
	case "default":
		if len(nw) == 0 && len(depCfg) > 0 {
			floor("carry-forward")
		}
		if len(nw) > 0 && len(depCfg) > 0 && class == "new-only" {
			floor("default-replaced")
		}
	case "reset":
		for k := range depCfg {
			if _, in := want[k]; !in {
				floor("reset-drops-old")
				break
			}
		}
	case "rollback":
		if canon(tgtCfg) != canon(depCfg) {
			floor("rollback-restores-different")
		}
		if op.Version >= 2 && t.Path[op.Version-2].Op.ReuseValues {
			floor("rollback-to-reuse-revision")
		}
	}
	if mode != "reuse" && mode != "rollback" && dclass == "defaults-new" {
		floor("defaults-switch-new")
	}
	if latest != nil {
		carries := mode == "reuse" || mode == "reset-then-reuse" || (mode == "default" && len(nw) == 0)
		if carries && canon(refConfig(mode, normMap(latest.Config), nw, nil)) != canon(want) {
			floor("carry-from-deployed-not-latest")
		}
		if mode == "reuse" && canon(ds[latest.Version]) != canon(dn) {
			floor("defaults-from-deployed-not-latest")
		}
		if mode == "rollback" {
			if tgt := find(pre, op.Version); tgt != nil && tgt.Info.Status == rspb.StatusFailed {
				floor("rollback-to-failed-revision")
			}
		}
		if carries && t.Path[latest.Version-2].Op.Kind == "rollback" && canon(normMap(latest.Config)) != canon(depCfg) {
			floor("carry-after-failed-rollback")
		}
	}
	if mode == "reset" && len(depCfg) > 0 && canon(overlay(depCfg, nw)) != canon(want) {
		if op.ReuseValues {
			floor("reset-wins-over-reuse")
		}
		if op.ResetThenReuseValues {
			floor("reset-wins-over-reset-then-reuse")
		}
	}
	if op.NilValues && op.Values == nil && len(depCfg) > 0 {
		switch mode {
		case "reuse", "reset-then-reuse", "default":
			floor("nil-values-carry:" + mode)
		}
	}
	if mode == "reuse" && op.ResetThenReuseValues && dclass == "defaults-kept" {
		floor("reuse-wins-over-reset-then-reuse")
	}
	if kindOf(want, "a") == "null" {
		floor("null-recorded")
	}
	if mode == "reuse" || mode == "reset-then-reuse" {
		sub := func(m map[string]any, path ...string) (map[string]any, bool) {
			for _, k := range path {
				n, ok := m[k].(map[string]any)
				if !ok {
					return nil, false
				}
				m = n
			}
			return m, true
		}
		for _, lv := range []struct {
			name string
			path []string
		}{{"depth1", []string{"a"}}, {"depth2", []string{"a", "x"}}} {
			n, nok := sub(nw, lv.path...)
			o, ook := sub(depCfg, lv.path...)
			if nok && ook && len(n) == 0 && len(o) > 0 {
				floor("empty-over-populated-" + lv.name)
			}
			if nok && ook && len(n) > 0 && len(o) == 0 {
				floor("populated-over-empty-" + lv.name)
			}
		}
	}
	if ua, ok := got["a"].(map[string]any); ok && len(ua) == 0 {
		if da, ok := dn["a"].(map[string]any); ok && len(da) > 0 {
			floor("empty-table-keeps-defaults")
		}
	}
	if t.Driver == "secrets" && hasFloat(any(dep.Config)) {
		floor("secrets-json-roundtrip")
	}
	if t.Depth == 3 && ((class == "overlaid" && dclass != "defaults-same") || (mode == "rollback" && canon(tgtCfg) != canon(depCfg) && dclass == "defaults-new")) {
		v.Sample = map[string]any{"driver": t.Driver, "install": t.Init, "history": opspace.PathStrings(t.Path),
			"recorded_values": recorded(post), "rendered_values_of_new_revision": pv}
	}
	return v
}

// cache of the canonical hash of the pre-state last seen by apply (one worker = one goroutine)
var (
	canonOf   *hx.World
	canonHash uint64
)

// apply books a verdict into the run's counters. perKey (nil in replays)
// counts the violations of a key seen by this worker: the first two of every
// key are minimised before they are recorded.
func apply(c *core.Ctx, t *opspace.Transition, v verdict, tier string, perKey map[string]int) {
	if v.NotExh != "" {
		c.NotExhaustive("%s", v.NotExh)
	}
	if v.NoteText != "" {
		c.Note("%s", v.NoteText)
	}
	if v.Outcome != "" {
		c.Outcome(v.Outcome)
	}
	if v.Counted {
		// all steps out of one state share the pre-world: canonicalise it once
		if t.Pre != canonOf {
			canonOf, canonHash = t.Pre, core.Hash64(t.Pre.Canon())
		}
		c.Distinct(fmt.Sprintf("%x|%s", canonHash, t.Step.String()))
	}
	for _, f := range v.Floors {
		c.Floor(f)
	}
	if v.Sample != nil {
		c.Sample(v.Sample)
	}
	if v.Null != nil && perKey != nil {
		// uniformity clause: compare with the first observation of the other kind in the same mode (this worker)
		here := opspace.Replay{Driver: t.Driver, Init: t.Init, Path: t.Path}
		if nullSeen[v.Null.Mode] == nil {
			nullSeen[v.Null.Mode] = map[string]nullSeenAt{}
		}
		if _, ok := nullSeen[v.Null.Mode][v.Null.Kind]; !ok {
			nullSeen[v.Null.Mode][v.Null.Kind] = nullSeenAt{*v.Null, here}
		}
		for kind, o := range nullSeen[v.Null.Mode] {
			if kind != v.Null.Kind && o.Obs.Class != v.Null.Class {
				key, what := nullDiffers(*v.Null, here, o.Obs, o.At)
				other := o.At
				c.Violate(prop, key, what, replayData{Replay: here, Key: key, Tier: tier, Other: &other})
			}
		}
		c.Floor("null-over-recorded-" + v.Null.Kind)
	}
	for _, f := range v.Findings {
		r := opspace.Replay{Driver: t.Driver, Init: t.Init, Path: t.Path}
		what := f.What
		if perKey != nil {
			perKey[f.Key]++
			if perKey[f.Key] <= 2 {
				r, what = minimise(r, f)
			}
		}
		c.Violate(prop, f.Key, what, replayData{Replay: r, Key: f.Key, Tier: tier})
	}
}

type nullSeenAt struct {
	Obs nullObs
	At  opspace.Replay
}

// nullSeen: mode -> kind -> first observation by this worker (one worker = one goroutine).
var nullSeen = map[string]map[string]nullSeenAt{}

// lastNull replays a history and returns the null observation of its last step.
func lastNull(r opspace.Replay) *nullObs {
	var last verdict
	replayConfig(func(_ *core.Ctx, t *opspace.Transition) { last = evaluate(t) }).ReplayPath(nil, r)
	return last.Null
}

// nullDiffers builds key and message of a uniformity violation (kinds in fixed order).
func nullDiffers(a nullObs, ar opspace.Replay, b nullObs, br opspace.Replay) (string, string) {
	if a.Kind > b.Kind { // map before scalar
		a, ar, b, br = b, br, a, ar
	}
	if a.Mode != b.Mode || a.Kind == b.Kind || a.Class == b.Class {
		return "", ""
	}
	key := core.SanitizeKey(fmt.Sprintf("null-handling-depends-on-recorded-type|%s|%s=%s,%s=%s", a.Mode, a.Kind, a.Class, b.Kind, b.Class))
	what := fmt.Sprintf("null-handling-depends-on-recorded-type: with %s, new values {a: null} over a recorded %s are %s in the new record but over a recorded %s they are %s "+
		"[driver=%s install=%s history=%v] vs [driver=%s install=%s history=%v]", a.Mode, a.Kind, a.Class, b.Kind, b.Class,
		ar.Driver, ar.Init, opspace.PathStrings(ar.Path), br.Driver, br.Init, opspace.PathStrings(br.Path))
	return key, what
}

// lastFinding replays a history and returns the finding with the given key
// reported for its last step, if any.
func lastFinding(r opspace.Replay, key string) (finding, bool) {
	var last verdict
	replayConfig(func(_ *core.Ctx, t *opspace.Transition) { last = evaluate(t) }).ReplayPath(nil, r)
	for _, f := range last.Findings {
		if f.Key == key {
			return f, true
		}
	}
	return finding{}, false
}

// minimise greedily drops steps before the failing one (renumbering rollback
// targets) and then tries the simpler installs, as long as the last step still
// yields a finding with the same key.
func minimise(r opspace.Replay, f finding) (opspace.Replay, string) {
	what := f.What
	// shortest first: the last 1, 2, ... steps after each install
	suffix := r
	var suffixes []opspace.Replay
	for len(suffix.Path) > 1 {
		next, ok := dropStep(suffix, 0)
		if !ok {
			break
		}
		suffix = next
		suffixes = append([]opspace.Replay{suffix}, suffixes...)
	}
	for _, sfx := range suffixes {
		for _, init := range allInits {
			cand := opspace.Replay{Driver: r.Driver, Init: init, Path: sfx.Path}
			if nf, hit := lastFinding(cand, f.Key); hit {
				return cand, nf.What
			}
		}
	}
	for changed := true; changed; {
		changed = false
		for i := 0; i < len(r.Path)-1; i++ {
			cand, ok := dropStep(r, i)
			if !ok {
				continue
			}
			if nf, hit := lastFinding(cand, f.Key); hit {
				r, what, changed = cand, nf.What, true
				break
			}
		}
	}
	for _, init := range allInits {
		if init == r.Init {
			break
		}
		cand := r
		cand.Init = init
		if nf, hit := lastFinding(cand, f.Key); hit {
			r, what = cand, nf.What
			break
		}
	}
	return r, what
}

// dropStep removes step i (which created revision i+2).
func dropStep(r opspace.Replay, i int) (opspace.Replay, bool) {
	out := opspace.Replay{Driver: r.Driver, Init: r.Init}
	for j, st := range r.Path {
		if j == i {
			continue
		}
		if j > i && st.Op.Kind == "rollback" {
			switch {
			case st.Op.Version == i+2:
				return out, false
			case st.Op.Version > i+2:
				st.Op.Version--
			}
		}
		out.Path = append(out.Path, st)
	}
	return out, true
}

func recorded(h []*rspb.Release) []string {
	var out []string
	for _, r := range h {
		out = append(out, fmt.Sprintf("%d:%s", r.Version, canon(normMap(r.Config))))
	}
	sort.Strings(out)
	return out
}
