package c13

// Standalone reproduction of the C13 findings against the public Helm API
// with Helm's own fake kube client and the memory driver: no simulated API
// server, no explorer, no reference code. Run: C13_REPRO=1 go test ./checks/c13 -run Repro -v

import (
	"io"
	"os"
	"strings"
	"testing"

	"helm.sh/helm/v4/pkg/action"
	chart "helm.sh/helm/v4/pkg/chart/v2"
	chartutil "helm.sh/helm/v4/pkg/chart/v2/util"
	kubefake "helm.sh/helm/v4/pkg/kube/fake"
	"helm.sh/helm/v4/pkg/storage"
	"helm.sh/helm/v4/pkg/storage/driver"
)

func reproChart(version string, defaults map[string]any) *chart.Chart {
	return &chart.Chart{Metadata: &chart.Metadata{Name: "c", Version: version, APIVersion: "v2"}, Values: defaults,
		Templates: []*chart.File{{Name: "templates/p.yaml", Data: []byte("kind: ConfigMap\napiVersion: v1\nmetadata:\n  name: p\ndata:\n  values: {{ .Values | toJson | quote }}\n")}}}
}

// installThenUpgrade returns (recorded Config, rendered values line) of revision 2.
func installThenUpgrade(t *testing.T, instDefaults, instVals map[string]any, set func(*action.Upgrade), upDefaults, upVals map[string]any) (map[string]any, string) {
	if os.Getenv("C13_REPRO") == "" {
		t.Skip("set C13_REPRO=1 to run the reproduction of the known C13 findings (fails on the unpatched tree)")
	}
	cfg := &action.Configuration{Releases: storage.Init(driver.NewMemory()), KubeClient: &kubefake.PrintingKubeClient{Out: io.Discard}, Capabilities: chartutil.DefaultCapabilities}
	in := action.NewInstall(cfg)
	in.ReleaseName, in.Namespace = "r", "default"
	if _, err := in.Run(reproChart("1", instDefaults), instVals); err != nil {
		t.Fatal(err)
	}
	up := action.NewUpgrade(cfg)
	up.Namespace = "default"
	set(up)
	rel, err := up.Run("r", reproChart("2", upDefaults), upVals)
	if err != nil {
		t.Fatal(err)
	}
	line := ""
	for _, l := range strings.Split(rel.Manifest, "\n") {
		if strings.Contains(l, "values:") {
			line = strings.TrimSpace(l)
		}
	}
	return rel.Config, line
}

func TestReproNullOverPreviouslySetKey(t *testing.T) {
	d := func() map[string]any { return map[string]any{"a": 10, "c": 1} }
	// the same new values {a: null} with the same flag: recorded as null when a was not set before ...
	cfg, line := installThenUpgrade(t, d(), map[string]any{"b": "u"}, func(u *action.Upgrade) { u.ResetThenReuseValues = true }, d(), map[string]any{"a": nil})
	t.Logf("reset-then-reuse, a not set before:  Config=%v  %s", cfg, line)
	// ... and dropped when a was set before: the chart default of a comes back
	cfg, line = installThenUpgrade(t, d(), map[string]any{"a": 5}, func(u *action.Upgrade) { u.ResetThenReuseValues = true }, d(), map[string]any{"a": nil})
	t.Logf("reset-then-reuse, a=5 set before:    Config=%v  %s", cfg, line)
	if _, has := cfg["a"]; !has {
		t.Errorf("reset-then-reuse-values with {a: null} over {a: 5}: recorded user values %v do not contain a: null", cfg)
	}
	// with reuse-values the old user value itself stays in force although it is no longer recorded
	cfg, line = installThenUpgrade(t, d(), map[string]any{"a": 5}, func(u *action.Upgrade) { u.ReuseValues = true }, d(), map[string]any{"a": nil})
	t.Logf("reuse-values, a=5 set before:        Config=%v  %s", cfg, line)
	if strings.Contains(line, `\"a\":5`) {
		t.Errorf("reuse-values with {a: null} over {a: 5}: recorded user values are %v but the templates still see a=5: %s", cfg, line)
	}
}

func TestReproReuseValuesLosesMapDefaults(t *testing.T) {
	d := func() map[string]any { return map[string]any{"a": map[string]any{"x": 20, "z": 2}, "c": 2} }
	_, rtr := installThenUpgrade(t, d(), map[string]any{"a": 5}, func(u *action.Upgrade) { u.ResetThenReuseValues = true }, d(), map[string]any{"a": map[string]any{"y": 2}})
	cfg, reuse := installThenUpgrade(t, d(), map[string]any{"a": 5}, func(u *action.Upgrade) { u.ReuseValues = true }, d(), map[string]any{"a": map[string]any{"y": 2}})
	t.Logf("same chart, same recorded values %v:\n  reset-then-reuse renders %s\n  reuse-values     renders %s", cfg, rtr, reuse)
	if !strings.Contains(reuse, `\"z\":2`) {
		t.Errorf("reuse-values: chart default a.z=2 of the deployed revision is no longer in force: %s", reuse)
	}
}
