package c17

import (
	"archive/tar"
	"bytes"
	"compress/gzip"
	"crypto"
	"crypto/ecdsa"
	"crypto/elliptic"
	"crypto/sha256"
	"encoding/binary"
	"encoding/hex"
	"fmt"
	"io"
	"os"
	"path/filepath"
	"strings"
	"time"

	"golang.org/x/crypto/openpgp"           //nolint
	"golang.org/x/crypto/openpgp/clearsign" //nolint
	"golang.org/x/crypto/openpgp/packet"    //nolint

	chart "helm.sh/helm/v4/pkg/chart/v2"
	chartutil "helm.sh/helm/v4/pkg/chart/v2/util"
	"helm.sh/helm/v4/pkg/provenance"
)

// ---------- deterministic randomness ----------

// detReader is a fixed-seed byte stream (SHA-256 in counter mode). One-byte
// reads return a constant and do not advance the stream: that is exactly the
// read crypto/internal/randutil.MaybeReadByte performs with probability 1/2 to
// make key generation non-reproducible, so ignoring it restores reproducibility.
type detReader struct {
	seed [32]byte
	ctr  uint64
	buf  []byte
}

func newDet(label string) *detReader {
	return &detReader{seed: sha256.Sum256([]byte("verif-c17/" + label))}
}

func (r *detReader) Read(p []byte) (int, error) {
	if len(p) == 1 {
		p[0] = 0
		return 1, nil
	}
	for i := range p {
		if len(r.buf) == 0 {
			var in [40]byte
			copy(in[:], r.seed[:])
			binary.BigEndian.PutUint64(in[32:], r.ctr)
			r.ctr++
			h := sha256.Sum256(in[:])
			r.buf = h[:]
		}
		p[i] = r.buf[0]
		r.buf = r.buf[1:]
	}
	return len(p), nil
}

var (
	keyTime     = time.Unix(1600000000, 0).UTC()
	sigTime     = time.Unix(1650000000, 0).UTC()
	archiveTime = time.Unix(1640000000, 0).UTC()
)

func pinned(label string, t time.Time, hash crypto.Hash) *packet.Config {
	return &packet.Config{Rand: newDet(label), Time: func() time.Time { return t }, DefaultHash: hash, RSABits: 2048}
}

// ---------- keys ----------

type keyInfo struct {
	Label  string
	Algo   string
	Entity *openpgp.Entity
	Pub    []byte // public key packets (a one-key keyring)
	Sec    []byte // private key packets
	FP     string // upper-case hex fingerprint of the primary key
}

func fpOf(e *openpgp.Entity) string {
	if e == nil || e.PrimaryKey == nil {
		return ""
	}
	return strings.ToUpper(hex.EncodeToString(e.PrimaryKey.Fingerprint[:]))
}

func newECDSAEntity(name, email string, cfg *packet.Config) (*openpgp.Entity, error) {
	priv, err := ecdsa.GenerateKey(elliptic.P256(), cfg.Random())
	if err != nil {
		return nil, err
	}
	t := cfg.Now()
	e := &openpgp.Entity{
		PrimaryKey: packet.NewECDSAPublicKey(t, &priv.PublicKey),
		PrivateKey: packet.NewECDSAPrivateKey(t, priv),
		Identities: map[string]*openpgp.Identity{},
	}
	uid := packet.NewUserId(name, "", email)
	primary := true
	e.Identities[uid.Id] = &openpgp.Identity{Name: uid.Id, UserId: uid, SelfSignature: &packet.Signature{
		CreationTime: t, SigType: packet.SigTypePositiveCert, PubKeyAlgo: packet.PubKeyAlgoECDSA, Hash: cfg.Hash(),
		IsPrimaryId: &primary, FlagsValid: true, FlagSign: true, FlagCertify: true, IssuerKeyId: &e.PrimaryKey.KeyId}}
	if err := e.Identities[uid.Id].SelfSignature.SignUserId(uid.Id, e.PrimaryKey, e.PrivateKey, cfg); err != nil {
		return nil, err
	}
	return e, nil
}

func makeKey(i int) (*keyInfo, error) {
	label := fmt.Sprintf("k%d", i)
	cfg := pinned("key/"+label, keyTime, crypto.SHA256)
	var e *openpgp.Entity
	var err error
	algo := "rsa2048"
	if i == 0 {
		e, err = openpgp.NewEntity("Helm Verif Signer A", "", "a@verif.example", cfg)
	} else {
		algo = "ecdsa-p256"
		e, err = newECDSAEntity("Helm Verif Signer B", "b@verif.example", cfg)
	}
	if err != nil {
		return nil, err
	}
	var sec, pub bytes.Buffer
	if err := e.SerializePrivate(&sec, pinned("ser/"+label, keyTime, crypto.SHA256)); err != nil {
		return nil, err
	}
	if err := e.Serialize(&pub); err != nil {
		return nil, err
	}
	return &keyInfo{Label: label, Algo: algo, Entity: e, Pub: pub.Bytes(), Sec: sec.Bytes(), FP: fpOf(e)}, nil
}

// ---------- charts ----------

func buildChart(i int) *chart.Chart {
	if i == 0 {
		return &chart.Chart{Metadata: &chart.Metadata{APIVersion: "v2", Name: "hx-a", Version: "0.1.0"}}
	}
	return &chart.Chart{
		Metadata: &chart.Metadata{APIVersion: "v2", Name: "hx-b", Version: "1.2.3", Description: "second chart - with a dash", AppVersion: "9", Keywords: []string{"k1", "k2"},
			Home: "https://verif.example/hx-b", Sources: []string{"https://verif.example/src"}, Icon: "https://verif.example/i.png", Type: "application",
			Maintainers: []*chart.Maintainer{{Name: "m one", Email: "m1@verif.example"}}, Annotations: map[string]string{"verif/note": "-----BEGIN is only text here"}},
		Raw:    []*chart.File{{Name: "values.yaml", Data: []byte("replicas: 2\nname: b\n")}},
		Values: map[string]interface{}{"replicas": 2, "name": "b"},
		Templates: []*chart.File{{Name: "templates/cm.yaml", Data: []byte(
			"apiVersion: v1\nkind: ConfigMap\nmetadata:\n  name: {{ .Release.Name }}-{{ .Values.name }}\ndata:\n  r: \"{{ .Values.replicas }}\"\n")}},
	}
}

// normalise rewrites an archive written by chartutil.Save with a fixed tar
// modification time (Save stamps time.Now()), keeping names, modes, bodies and
// the gzip header, so that all worker processes mutate identical bytes.
func normalise(b []byte) ([]byte, error) {
	zr, err := gzip.NewReader(bytes.NewReader(b))
	if err != nil {
		return nil, err
	}
	tr := tar.NewReader(zr)
	var out bytes.Buffer
	zw := gzip.NewWriter(&out)
	zw.Extra = zr.Extra
	zw.Comment = zr.Comment
	tw := tar.NewWriter(zw)
	for {
		h, err := tr.Next()
		if err == io.EOF {
			break
		}
		if err != nil {
			return nil, err
		}
		body, err := io.ReadAll(tr)
		if err != nil {
			return nil, err
		}
		if err := tw.WriteHeader(&tar.Header{Name: h.Name, Mode: h.Mode, Size: int64(len(body)), ModTime: archiveTime}); err != nil {
			return nil, err
		}
		if _, err := tw.Write(body); err != nil {
			return nil, err
		}
	}
	if err := tw.Close(); err != nil {
		return nil, err
	}
	if err := zw.Close(); err != nil {
		return nil, err
	}
	return out.Bytes(), nil
}

// ---------- signing ----------

// signPinned clear-signs text exactly as Signatory.ClearSign does
// (clearsign.Encode, SHA-512) but with the signature time and randomness pinned.
func signPinned(k *keyInfo, text []byte, label string) ([]byte, error) {
	var out bytes.Buffer
	w, err := clearsign.Encode(&out, k.Entity.PrivateKey, pinned("sig/"+k.Label+"/"+label, sigTime, crypto.SHA512))
	if err != nil {
		return nil, err
	}
	if _, err := w.Write(text); err != nil {
		return nil, err
	}
	if err := w.Close(); err != nil {
		return nil, err
	}
	return out.Bytes(), nil
}

func digestOf(b []byte) string {
	s := sha256.Sum256(b)
	return "sha256:" + hex.EncodeToString(s[:])
}

// ---------- fixture ----------

type pairInfo struct {
	Chart, Key int
	Base       string
	Archive    []byte
	RealProv   []byte // output of Signatory.ClearSign (wall-clock signature time)
	Message    []byte // the message block Helm signed (Plaintext of RealProv)
	Prov       []byte // same message, signed with pinned time: the mutation baseline
	Text       []byte // canonical signed text of Prov, LF line ends
}

type fixture struct {
	root     string
	keys     []*keyInfo
	archives [][]byte // per chart, normalised
	bases    []string
	pairs    []*pairInfo
	rings    map[string][]byte // ring name -> keyring bytes
}

func (f *fixture) ringPath(name string) string { return filepath.Join(f.root, "rings", name+".gpg") }

// ringNames returns, for a signer key index, the four keyrings of the property.
func ringNames(signer int) []string {
	o := 1 - signer
	return []string{fmt.Sprintf("k%d", signer), fmt.Sprintf("k%dk%d", o, signer), fmt.Sprintf("k%d", o), "empty"}
}

func ringKind(signer int, name string) string {
	for i, n := range ringNames(signer) {
		if n == name {
			return []string{"signer", "other+signer", "other-only", "empty"}[i]
		}
	}
	return name
}

func canonText(blockBytes []byte) []byte {
	return bytes.ReplaceAll(blockBytes, []byte("\r\n"), []byte("\n"))
}

func buildFixture(root string) (*fixture, error) {
	f := &fixture{root: root, rings: map[string][]byte{}}
	for _, d := range []string{"keys", "rings", "w", "dl", "save", "cache"} {
		if err := os.MkdirAll(filepath.Join(root, d), 0o755); err != nil {
			return nil, err
		}
	}
	for i := 0; i < 2; i++ {
		k, err := makeKey(i)
		if err != nil {
			return nil, fmt.Errorf("key %d: %w", i, err)
		}
		f.keys = append(f.keys, k)
		if err := os.WriteFile(filepath.Join(root, "keys", k.Label+".sec"), k.Sec, 0o600); err != nil {
			return nil, err
		}
	}
	f.rings["k0"] = f.keys[0].Pub
	f.rings["k1"] = f.keys[1].Pub
	f.rings["k0k1"] = append(append([]byte{}, f.keys[0].Pub...), f.keys[1].Pub...)
	f.rings["k1k0"] = append(append([]byte{}, f.keys[1].Pub...), f.keys[0].Pub...)
	f.rings["empty"] = []byte{}
	for i, k := range f.keys {
		rev, err := revokedRing(k)
		if err != nil {
			return nil, fmt.Errorf("revoked keyring for %s: %w", k.Label, err)
		}
		f.rings[k.Label+"rev"] = rev
		f.rings[f.keys[1-i].Label+k.Label+"rev"] = append(append([]byte{}, f.keys[1-i].Pub...), rev...)
	}
	for n, b := range f.rings {
		if err := os.WriteFile(f.ringPath(n), b, 0o644); err != nil {
			return nil, err
		}
	}
	for ci := 0; ci < 2; ci++ {
		p, err := chartutil.Save(buildChart(ci), filepath.Join(root, "save"))
		if err != nil {
			return nil, fmt.Errorf("chartutil.Save: %w", err)
		}
		raw, err := os.ReadFile(p)
		if err != nil {
			return nil, err
		}
		nb, err := normalise(raw)
		if err != nil {
			return nil, fmt.Errorf("normalise: %w", err)
		}
		f.archives = append(f.archives, nb)
		f.bases = append(f.bases, filepath.Base(p))
		// the normalised archive replaces the saved one: this is the file that is signed
		if err := os.WriteFile(p, nb, 0o644); err != nil {
			return nil, err
		}
	}
	for ci := 0; ci < 2; ci++ {
		for ki := 0; ki < 2; ki++ {
			k := f.keys[ki]
			archPath := filepath.Join(root, "save", f.bases[ci])
			s, err := provenance.NewFromFiles(filepath.Join(root, "keys", k.Label+".sec"), f.ringPath(k.Label))
			if err != nil {
				return nil, fmt.Errorf("NewFromFiles(%s): %w", k.Label, err)
			}
			real, err := s.ClearSign(archPath)
			if err != nil {
				return nil, fmt.Errorf("ClearSign(%s,%s): %w", f.bases[ci], k.Label, err)
			}
			blk, _ := clearsign.Decode([]byte(real))
			if blk == nil {
				return nil, fmt.Errorf("ClearSign(%s,%s) output has no clearsign block", f.bases[ci], k.Label)
			}
			msg := append([]byte{}, blk.Plaintext...)
			prov, err := signPinned(k, msg, "pair/"+f.bases[ci])
			if err != nil {
				return nil, err
			}
			pb, _ := clearsign.Decode(prov)
			if pb == nil {
				return nil, fmt.Errorf("pinned signature does not decode")
			}
			f.pairs = append(f.pairs, &pairInfo{Chart: ci, Key: ki, Base: f.bases[ci], Archive: f.archives[ci],
				RealProv: []byte(real), Message: msg, Prov: prov, Text: canonText(pb.Bytes)})
		}
	}
	return f, nil
}

func mustDecode(prov []byte) *clearsign.Block {
	b, _ := clearsign.Decode(prov)
	if b == nil {
		panic("c17 harness: own signature does not decode")
	}
	return b
}
