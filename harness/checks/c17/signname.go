package c17

import (
	"bytes"
	"crypto"
	"fmt"
	"os"
	"path/filepath"
	"strings"

	"golang.org/x/crypto/openpgp" //nolint

	"helm.sh/helm/v4/pkg/action"
	chartutil "helm.sh/helm/v4/pkg/chart/v2/util"
	"helm.sh/helm/v4/pkg/downloader"

	"verif/harness/internal/core"
)

// Family "sign-by-name": "a chart signed and then verified with the matching
// public key always passes", where the signing key is chosen by user id from a
// secret keyring holding two keys whose user ids overlap ("release" and
// "release-staging"), through action.Package{Sign, Key, Keyring} (helm package
// --sign --key), i.e. provenance.NewFromKeyring(keyring, id) + ClearSign.
// Expected signer: the key whose user id equals the requested id, else the only
// key whose user id contains it. The provenance must verify (reference and
// Helm) with that key's public keyring and must not with the other key's.

var signNameOrders = []string{"release,release-staging", "release-staging,release"}
var signNameIDs = []string{"release", "release-staging", "staging", "release-s"}

func signNameKeys() (map[string]*openpgp.Entity, map[string][]byte, map[string][]byte, error) {
	ents, pubs, secs := map[string]*openpgp.Entity{}, map[string][]byte{}, map[string][]byte{}
	for _, n := range []string{"release", "release-staging"} {
		e, err := newECDSAEntity(n, "", pinned("signname/"+n, keyTime, crypto.SHA256))
		if err != nil {
			return nil, nil, nil, err
		}
		var pub, sec bytes.Buffer
		if err := e.SerializePrivate(&sec, pinned("signname-ser/"+n, keyTime, crypto.SHA256)); err != nil {
			return nil, nil, nil, err
		}
		if err := e.Serialize(&pub); err != nil {
			return nil, nil, nil, err
		}
		ents[n], pubs[n], secs[n] = e, pub.Bytes(), sec.Bytes()
	}
	return ents, pubs, secs, nil
}

func expectedSigner(id string) string {
	for _, n := range []string{"release", "release-staging"} {
		if n == id {
			return n
		}
	}
	hit := ""
	for _, n := range []string{"release", "release-staging"} {
		if strings.Contains(n, id) {
			if hit != "" {
				return ""
			}
			hit = n
		}
	}
	return hit
}

// runSignByName executes one (keyring order, requested id) case in dir.
func runSignByName(dir, order, id string) (outcome string, vs []core.Violation) {
	region := "order=" + order + ";id=" + id
	viol := func(kind, what string) {
		vs = append(vs, core.Violation{Property: prop, Key: core.SanitizeKey("sign-by-name/" + kind + "/" + region),
			What: fmt.Sprintf("%s [secret keyring order %s, helm package --sign --key %q]", what, order, id)})
	}
	ents, pubs, secs, err := signNameKeys()
	if err != nil {
		panic("c17 harness: key generation failed: " + err.Error())
	}
	os.RemoveAll(dir)
	for _, d := range []string{"src", "out"} {
		os.MkdirAll(filepath.Join(dir, d), 0o755)
	}
	defer os.RemoveAll(dir)
	var ring []byte
	for _, n := range strings.Split(order, ",") {
		ring = append(ring, secs[n]...)
	}
	secring := filepath.Join(dir, "secring.gpg")
	os.WriteFile(secring, ring, 0o600)
	for n, b := range pubs {
		os.WriteFile(filepath.Join(dir, n+".pub"), b, 0o644)
	}
	ch := buildChart(0)
	if err := chartutil.SaveDir(ch, filepath.Join(dir, "src")); err != nil {
		panic("c17 harness: SaveDir: " + err.Error())
	}
	want := expectedSigner(id)
	other := "release"
	if want == "release" {
		other = "release-staging"
	}
	pkg := action.NewPackage()
	pkg.Sign, pkg.Key, pkg.Keyring, pkg.Destination = true, id, secring, filepath.Join(dir, "out")
	var archPath string
	func() {
		defer func() {
			if r := recover(); r != nil {
				err = fmt.Errorf("panic: %v", r)
			}
		}()
		archPath, err = pkg.Run(filepath.Join(dir, "src", ch.Name()), nil)
	}()
	if err != nil {
		viol("package-sign-fails", "packaging and signing fails: "+strings.ReplaceAll(err.Error(), dir, "<dir>"))
		return "package-error", vs
	}
	archive, _ := os.ReadFile(archPath)
	prov, _ := os.ReadFile(archPath + ".prov")
	base := filepath.Base(archPath)
	vWant := reference(archive, base, prov, false, pubs[want])
	vOther := reference(archive, base, prov, false, pubs[other])
	outcome = "signed-by-named-key"
	if !vWant.Accept {
		outcome = "signed-by-another-key"
		who := "no known key"
		if vOther.Accept {
			who = fmt.Sprintf("%q (%s)", other, fpOf(ents[other]))
		}
		viol("signed-with-another-key-than-named", fmt.Sprintf("the provenance does not verify with the public key of %q (%s): reference says %s; it was signed by %s",
			want, fpOf(ents[want]), vWant.Reason, who))
	}
	// Helm's verification must agree with the reference for both public keyrings
	for _, n := range []string{want, other} {
		v := vWant
		if n == other {
			v = vOther
		}
		ringPath := filepath.Join(dir, n+".pub")
		_, err1 := downloader.VerifyChart(archPath, ringPath)
		av := action.NewVerify()
		av.Keyring = ringPath
		err2 := av.Run(archPath)
		for i, e := range []error{err1, err2} {
			if (e == nil) != v.Accept {
				viol("verify-disagrees-with-reference", fmt.Sprintf("%s with the public key of %q: error=%v, reference %s",
					[]string{"VerifyChart", "action.Verify"}[i], n, e, v.Reason))
			}
		}
	}
	return outcome, vs
}

func (x *explorer) signByName() {
	n := 0
	for _, order := range signNameOrders {
		for _, id := range signNameIDs {
			n++
			if !x.c.NextMine() {
				continue
			}
			x.c.Eval(5)
			x.c.Distinct("sign-by-name|" + order + "|" + id)
			oc, vs := runSignByName(filepath.Join(x.f.root, fmt.Sprintf("signname-%d", n)), order, id)
			x.c.Outcome("sign-by-name:" + oc)
			if oc == "signed-by-named-key" && len(vs) == 0 {
				x.c.Floor("sign-by-name-verified-with-named-key-only")
			}
			for _, v := range vs {
				x.c.Violate(v.Property, v.Key, v.What, caseIn{Family: "sign-by-name", Region: order + "|" + id})
			}
			if len(vs) == 0 && id == "release" {
				x.c.Sample(map[string]any{"family": "sign-by-name", "secret_keyring_order": order, "key": id, "result": oc + "; verifies with the named key's public ring only"})
			}
		}
	}
}
