package c17

import (
	"bytes"
	"strings"

	"golang.org/x/crypto/openpgp"                  //nolint
	"golang.org/x/crypto/openpgp/clearsign"        //nolint
	pgperrors "golang.org/x/crypto/openpgp/errors" //nolint
)

// parseFiles is the independent reader of the signed message: the part after
// the first "..." line is expected to be the checksum document
//
//	files:
//	  NAME: VALUE
//
// It returns every value listed for every name (several when a name or the
// files key is repeated) and whether the text has that shape at all.
func parseFiles(text []byte) (map[string][]string, bool) {
	m, n := parseFilesN(text)
	return m, n > 0
}

// parseFilesN also reports how many files sections the document has.
func parseFilesN(text []byte) (map[string][]string, int) {
	s := strings.ReplaceAll(string(text), "\r\n", "\n")
	lines := strings.Split(s, "\n")
	sep := -1
	for i, l := range lines {
		if l == "..." && i > 0 {
			sep = i
			break
		}
	}
	if sep < 0 {
		return nil, 0
	}
	out := map[string][]string{}
	seen, in := 0, false
	for _, l := range lines[sep+1:] {
		if l == "..." {
			break
		}
		if strings.TrimSpace(l) == "" {
			continue
		}
		if !strings.HasPrefix(l, " ") {
			in = false
			if l == "files:" {
				in = true
				seen++
			} else if l == "files: {}" {
				seen++
			}
			continue
		}
		if !in {
			continue
		}
		k, v, ok := splitEntry(strings.TrimLeft(l, " "))
		if !ok {
			return nil, 0
		}
		out[k] = append(out[k], v)
	}
	return out, seen
}

func splitEntry(l string) (string, string, bool) {
	var k, rest string
	if strings.HasPrefix(l, "\"") {
		j := strings.Index(l[1:], "\"")
		if j < 0 {
			return "", "", false
		}
		k, rest = l[1:1+j], l[2+j:]
		if !strings.HasPrefix(rest, ":") {
			return "", "", false
		}
		rest = rest[1:]
	} else {
		j := strings.Index(l, ": ")
		if j < 0 {
			if strings.HasSuffix(l, ":") {
				return l[:len(l)-1], "", true
			}
			return "", "", false
		}
		k, rest = l[:j], l[j+1:]
	}
	v := strings.TrimSpace(rest)
	if len(v) >= 2 && v[0] == '"' && v[len(v)-1] == '"' {
		v = v[1 : len(v)-1]
	}
	return k, v, true
}

// verdict of the reference
type verdict struct {
	Accept    bool
	Reason    string // accept | no-prov | no-block | ring-unreadable | unknown-key | bad-signature | no-files-doc | no-entry | digest-mismatch | ambiguous-*
	Ambiguous bool   // the message lists the name more than once: only "must reject when no listed value matches" is decidable
	SignerFP  string
	Text      []byte // canonical signed text (LF) when the block decodes
}

// reference decides acceptance from first principles: the clearsign block
// decodes, openpgp.CheckDetachedSignature over the block bytes succeeds with a
// key of the ring (trusted crypto base), and the independently parsed message
// lists "sha256:"+sha256(archive bytes) under the archive's base name.
func reference(archive []byte, archName string, prov []byte, noProv bool, ring []byte) verdict {
	if noProv {
		return verdict{Reason: "no-prov"}
	}
	blk, _ := clearsign.Decode(prov)
	if blk == nil {
		return verdict{Reason: "no-block"}
	}
	v := verdict{Text: canonText(blk.Bytes)}
	el, err := parsedRing(ring)
	if err != nil {
		v.Reason = "ring-unreadable"
		return v
	}
	signer, err := openpgp.CheckDetachedSignature(el, bytes.NewReader(blk.Bytes), blk.ArmoredSignature.Body)
	if err != nil || signer == nil {
		v.Reason = "bad-signature"
		if err == pgperrors.ErrUnknownIssuer {
			v.Reason = "unknown-key"
		}
		return v
	}
	v.SignerFP = fpOf(signer)
	files, sections := parseFilesN(blk.Bytes)
	if sections == 0 {
		v.Reason = "no-files-doc"
		return v
	}
	vals := files[archName]
	want := digestOf(archive)
	switch {
	case sections > 1:
		// a repeated files key: which section counts is undefined
		v.Ambiguous = true
		v.Reason = "ambiguous-none-matches"
		for _, x := range vals {
			if x == want {
				v.Reason = "ambiguous-one-matches"
			}
		}
	case len(vals) == 0:
		v.Reason = "no-entry"
	case len(vals) == 1 && vals[0] == want:
		v.Accept, v.Reason = true, "accept"
	case len(vals) == 1:
		v.Reason = "digest-mismatch"
	default:
		v.Ambiguous = true
		v.Reason = "ambiguous-none-matches"
		for _, x := range vals {
			if x == want {
				v.Reason = "ambiguous-one-matches"
			}
		}
	}
	return v
}

// parsedRing parses a keyring once per distinct content (the reference's own
// memo, keyed by the bytes, not by any path).
var ringMemo = map[string]openpgp.EntityList{}

func parsedRing(ring []byte) (openpgp.EntityList, error) {
	if el, ok := ringMemo[string(ring)]; ok {
		return el, nil
	}
	el, err := openpgp.ReadKeyRing(bytes.NewReader(ring))
	if err != nil {
		return nil, err
	}
	ringMemo[string(ring)] = el
	return el, nil
}
