// Package c17: provenance verification accepts exactly untampered,
// trusted-key-signed charts.
//
// Two chart archives (chartutil.Save) are signed by two deterministically
// generated PGP keys through provenance.Signatory.ClearSign. Every single-bit
// flip and every truncation of the archive and of the provenance file, every
// keyring of the property, renamed archives, cross-combined and spliced
// provenance files and a grid of validly signed messages that list something
// other than the archive are run through Signatory.Verify,
// downloader.VerifyChart, ChartDownloader.DownloadTo (VerifyAlways, in-memory
// getter), ChartPathOptions.LocateChart (--verify), action.Verify.Run and
// action.Pull.Run (Verify x VerifyLater x Untar, loopback HTTP server), and
// compared with a semantic reference (oracle.go).
package c17

import (
	"bytes"
	"encoding/json"
	"fmt"
	"io"
	"net"
	"net/http"
	"net/url"
	"os"
	"path"
	"path/filepath"
	"sort"
	"strings"
	"sync"

	"golang.org/x/crypto/openpgp/clearsign" //nolint

	"helm.sh/helm/v4/pkg/action"
	"helm.sh/helm/v4/pkg/chart/v2/loader"
	"helm.sh/helm/v4/pkg/cli"
	"helm.sh/helm/v4/pkg/downloader"
	"helm.sh/helm/v4/pkg/getter"
	"helm.sh/helm/v4/pkg/provenance"

	"verif/harness/internal/core"
)

const prop = "C17"

func init() {
	core.Register(&core.Check{
		ID:    prop,
		Level: "exploration",
		Rule: "2 charts x 2 generated keys (RSA-2048, ECDSA-P256; fixed-seed generation) signed through Signatory.ClearSign. Per (chart,key) pair, structured families: " +
			"unmodified (ClearSign output and time-pinned re-signature), missing provenance, 5 renamed/moved archives (by copy) and 5 renames through symbolic links " +
			"(archive linked; archive and provenance linked; to another name or to the own name in another directory), 12 tamper-class representatives, every other pair's provenance (also with the archive renamed to match), " +
			"text/armor splices, helm dependency update --verify (downloader.Manager.Update, VerifyAlways, loopback HTTP repository) on a parent with 2 repository dependencies in both orders, " +
			"each position valid / archive bit flipped / provenance text bit flipped / provenance missing (16 x 2, plus all-valid under an untrusting keyring), signing by user id (helm package --sign --key) from a secret keyring with two keys whose ids overlap (2 keyring orders x 4 requested ids), " +
			"keyrings holding the signer's key with its revocation signature (alone / with the other key) and a provenance signed by the signer's encryption-only subkey, " +
			"an archive longer than loader.MaxDecompressedChartSize (8 cases: unmodified, bit flips before/after the limit and in the last byte, truncation to the limit and by one byte, 1 B / 4 KiB appended), " +
			"content-differs-per-open cases (archive and provenance behind named pipes whose k-th open yields the k-th of two contents: 22 sequences of " +
			"genuine / forged-unsigned / forged-signed-by-the-other-key provenance and original / tampered archive, keyrings signer and other+signer, the 4 entry points taking a local path; " +
			"judged by what was actually served at each open), keyring-file sequences in one process (one path rewritten in place ring1 -> ring2 -> ring1 for all 12 ordered pairs of keyring contents, and one content under " +
			"two paths, each for the unmodified pair and for a pair with one archive bit flipped, judged after every step), a grid of messages validly signed by the trusted key (8 name keys x 12 digest values x 3 second entries) and 7 repeated-entry messages, " +
			"under the keyrings {signer, other+signer, other only, empty}, through 9 entry points: Signatory.Verify, VerifyChart, DownloadTo(VerifyAlways), LocateChart(--verify), " +
			"action.Verify and action.Pull with Verify set x {VerifyLater} x {Untar} over a loopback HTTP server (the 4 pulls without Verify are executed on 4 classes, unjudged). Positional families: every single-bit flip and every truncation length of the " +
			"provenance file and of the archive (quick: keyring other+signer, Signatory.Verify/VerifyChart/DownloadTo; thorough: all 4 keyrings x the 5 non-Pull entry points, plus every " +
			"byte of the provenance replaced by each of the 255 other values and every single byte deleted). distinct = (family, pair, mutation position or grid cell, keyring); " +
			"every case differs from the signed original in at least one byte, name or key, except the families baseline and real-clearsign",
		Run:    run,
		Replay: replay,
		Assumptions: []string{
			"golang.org/x/crypto/openpgp (clearsign.Decode, CheckDetachedSignature, ReadKeyRing) is the trusted crypto base of the reference",
			"the mutation baseline carries the message block produced by Signatory.ClearSign, re-signed by the same key with clearsign.Encode/SHA-512 and a pinned signature time, " +
				"because ClearSign stamps time.Now(); ClearSign's own output is verified unmodified under all keyrings (family real-clearsign)",
			"archives written by chartutil.Save are re-packed with a fixed tar mtime (Save stamps time.Now()) before signing so that all shards enumerate identical bytes",
			"messages that list the archive name more than once have no defined meaning in the statement: only 'no listed value matches => reject' is required of them",
			"action.Pull only accepts the built-in getters, so the Pull entry points fetch from an HTTP server on 127.0.0.1 owned by the worker; with Verify set, " +
				"a failed pull must return an error and leave nothing in the untar directory; pulls without Verify are outside the statement",
			"loader.MaxDecompressedChartSize is a package variable: family large-archive lowers it to 16 KiB while its cases (and the signing of its archive) run, so a 36 KiB archive stands for one above 100 MiB",
			"key expiry is not in the keyring alphabet: golang.org/x/crypto/openpgp does not evaluate it for detached signatures, so the reference has no opinion",
			"family reopen needs named pipes and /proc/self/fd (Linux); every entry-point call in it has a 60 s deadline, an expired deadline is reported as not exhaustive " +
				"under the name reopen/deadline-exceeded/<sequence>, never as a violation",
			"a symbolic link offered under its own file name whose provenance exists only next to the link target is not judged (not generated)",
			"a panic inside Helm is counted (outcome panic) and is a C17 violation only when the reference accepts the case",
		},
		RequiredFloors: []string{"real-clearsign-roundtrip", "accept-baseline", "accept-noop-mutant", "reject-no-block", "reject-bad-signature",
			"reject-unknown-key", "reject-digest-mismatch", "reject-no-entry", "reject-no-prov", "download-verifyalways-error", "accept-in-subdir",
			"ring-rewrite:accept-then-reject", "ring-rewrite:reject-then-accept", "ring-rewrite:reject-then-reject", "ring-copy:accept-then-accept", "ring-copy:reject-then-reject",
			"sign-by-name-verified-with-named-key-only", "dep-update-error-on-invalid", "dep-update-error-when-only-first-invalid", "dep-update-ok-all-valid", "ring-trust-revoked-rejected", "ring-trust-subkey-rejected", "large-archive-accept", "large-archive-tail-change-rejected",
			"reopen-accept", "reopen-reject-digest-mismatch", "reopen-reject-file-never-read", "reopen-one-open-per-file"},
	})
}

// entries: the first five take a file or a getter directly; the Pull entries run
// action.Pull (helm pull) with verification required, over the real HTTP getter
// against a loopback server owned by the check, for the product of --prov and --untar.
var entries = []string{"Signatory.Verify", "VerifyChart", "DownloadTo", "LocateChart", "action.Verify",
	"Pull(--verify)", "Pull(--verify,--prov)", "Pull(--verify,--untar)", "Pull(--verify,--prov,--untar)"}

// coreEntries are the entry points used for the positional families in the thorough tier.
var coreEntries = entries[:5]

// noVerifyPulls complete the flag product of helm pull; the property requires
// nothing of them, they are executed and counted but not judged.
var noVerifyPulls = []string{"Pull()", "Pull(--prov)", "Pull(--untar)", "Pull(--prov,--untar)"}

// caseIn is one fully written-out case; it is also the replay record.
type caseIn struct {
	Family     string `json:"family"`
	Desc       string `json:"desc"`
	Region     string `json:"region,omitempty"`
	Pair       string `json:"pair"`
	Ring       string `json:"ring"`      // signer | other+signer | other-only | empty (relative to the key that signed Prov)
	RingName   string `json:"ring_name"` // file name of the keyring
	RingBytes  []byte `json:"ring_bytes"`
	SubDir     string `json:"subdir,omitempty"`
	ArchName   string `json:"arch_name"`
	Archive    []byte `json:"archive"`
	Prov       []byte `json:"prov"`
	NoProv     bool   `json:"no_prov,omitempty"`
	OriginText []byte `json:"origin_text"` // canonical text legitimately signed that Prov derives from; empty = none
	OriginFP   string `json:"origin_fp"`
	Root       string `json:"root"` // working directory (signed absolute-path variants refer to it)
	// Link: "" | "archive" | "archive+prov". When set, archive and provenance are
	// stored as <root>/w/link-target/<LinkTarget>[.prov] and the path handed to
	// Helm (SubDir/ArchName) is a symbolic link to the archive; with
	// "archive+prov" ArchName.prov is a link to the provenance file too, with
	// "archive" there is no provenance file next to the link.
	Link       string `json:"link,omitempty"`
	LinkTarget string `json:"link_target,omitempty"`
	// Entries restricts the entry points to run (empty = all).
	Entries []string `json:"entries,omitempty"`
	// Deps (family dep-update): the repository dependencies served to Manager.Update.
	Deps []depItem `json:"deps,omitempty"`
	// LoaderLimit > 0: loader.MaxDecompressedChartSize is set to it while the case runs.
	LoaderLimit int64 `json:"loader_limit,omitempty"`
	// ProvSeq/ArchSeq (family reopen): the k-th open of the provenance / archive
	// path yields the k-th item (the last one for further opens); see reopen.go.
	ProvSeq []seqItem `json:"prov_seq,omitempty"`
	ArchSeq []seqItem `json:"arch_seq,omitempty"`
	// Steps, when set, makes the case a sequence run in one process: before each
	// step the keyring file of that step is (re)written, then every entry point
	// runs and is judged against the reference for the keyring content of that step.
	Steps []ringStep `json:"steps,omitempty"`
}

// ringStep is one step of a keyring-file sequence.
type ringStep struct {
	Label     string `json:"label"`     // first-use | after-rewrite | after-restore | same-content-other-path
	Ring      string `json:"ring"`      // keyring kind relative to the signer
	PathName  string `json:"path_name"` // keyring file is <root>/rings/<PathName>.gpg
	RingBytes []byte `json:"ring_bytes"`
}

type stepResult struct {
	Label string
	V     verdict
	Obs   []obs
}

// execSteps runs a keyring-file sequence; every step is an ordinary case whose
// keyring file name and content are those of the step.
func (e *env) execSteps(ci *caseIn) ([]stepResult, []core.Violation) {
	rd, _ := json.Marshal(ci)
	var out []stepResult
	var vs []core.Violation
	for i, st := range ci.Steps {
		sci := *ci
		sci.Steps = nil
		sci.Ring, sci.RingName, sci.RingBytes, sci.Region = st.Ring, st.PathName, st.RingBytes, st.Label
		sci.Desc = fmt.Sprintf("%s; step %d of %d (%s): keyring file %s.gpg now holds %s", ci.Desc, i+1, len(ci.Steps), st.Label, st.PathName, st.Ring)
		v, os_, svs := e.execCase(&sci)
		out = append(out, stepResult{Label: st.Label, V: v, Obs: os_})
		for _, x := range svs {
			x.Replay = rd
			vs = append(vs, x)
		}
	}
	return out, vs
}

// obs is what one entry point did.
type obs struct {
	Entry  string
	OK     bool
	Err    string
	Panic  string
	HasVer bool
	Hash   string
	Name   string
	FP     string
	// Unpacked: a failed pull left something in the untar directory
	Unpacked string
	// Unjudged: the property requires nothing of this run
	Unjudged bool
}

// ---------- environment ----------

type env struct {
	root     string
	settings *cli.EnvSettings
	written  map[string][]byte
	present  map[string]bool
	links    map[string]bool
	// loopback chart server for the Pull entry points
	srv      *http.Server
	srvURL   string
	srvMu    sync.Mutex
	srvFiles map[string][]byte
	// blanket[entry][reference reason]: the entry point gets even the simplest
	// case with that reference verdict wrong (set by explorer.sentinels; nil in replays)
	blanket map[string]map[string]bool
}

func newEnv(root string) *env {
	for _, d := range []string{"rings", "w", "dl", "cache", "pull"} {
		os.MkdirAll(filepath.Join(root, d), 0o755)
	}
	st := cli.New()
	st.RepositoryConfig = filepath.Join(root, "no-repositories.yaml")
	st.RepositoryCache = filepath.Join(root, "cache")
	st.PluginsDirectory = filepath.Join(root, "no-plugins")
	return &env{root: root, settings: st, written: map[string][]byte{}, present: map[string]bool{}, links: map[string]bool{}}
}

// serve starts (once) the loopback server and publishes the files of one case.
func (e *env) serve(files map[string][]byte) (string, error) {
	e.srvMu.Lock()
	e.srvFiles = files
	e.srvMu.Unlock()
	if e.srv != nil {
		return e.srvURL, nil
	}
	ln, err := net.Listen("tcp", "127.0.0.1:0")
	if err != nil {
		return "", err
	}
	e.srv = &http.Server{Handler: http.HandlerFunc(func(w http.ResponseWriter, r *http.Request) {
		e.srvMu.Lock()
		b, ok := e.srvFiles[path.Base(r.URL.Path)]
		e.srvMu.Unlock()
		if !ok {
			http.NotFound(w, r)
			return
		}
		w.Header().Set("Content-Type", "application/octet-stream")
		w.Write(b)
	})}
	// every pull builds its own HTTP transport; without keep-alive the
	// connections are closed by the server instead of piling up idle
	e.srv.SetKeepAlivesEnabled(false)
	go e.srv.Serve(ln)
	e.srvURL = "http://" + ln.Addr().String()
	return e.srvURL, nil
}

func (e *env) close() {
	if e.srv != nil {
		e.srv.Close()
	}
}

// setLink makes p a symbolic link to target.
func (e *env) setLink(p, target string) error {
	if err := os.MkdirAll(filepath.Dir(p), 0o755); err != nil {
		return err
	}
	os.Remove(p)
	delete(e.present, p)
	delete(e.written, p)
	e.links[p] = true
	return os.Symlink(target, p)
}

func (e *env) setFile(p string, b []byte, absent bool) error {
	if e.links[p] {
		// never write through a link left by an earlier case
		os.Remove(p)
		delete(e.links, p)
	}
	if absent {
		if e.present[p] {
			delete(e.present, p)
			delete(e.written, p)
			return os.Remove(p)
		}
		os.Remove(p)
		return nil
	}
	if e.present[p] && bytes.Equal(e.written[p], b) {
		return nil
	}
	if err := os.MkdirAll(filepath.Dir(p), 0o755); err != nil {
		return err
	}
	if err := os.WriteFile(p, b, 0o644); err != nil {
		return err
	}
	e.present[p] = true
	e.written[p] = append([]byte{}, b...)
	return nil
}

type memGetter struct{ files map[string][]byte }

func (m *memGetter) Get(href string, _ ...getter.Option) (*bytes.Buffer, error) {
	u, err := url.Parse(href)
	if err != nil {
		return nil, err
	}
	b, ok := m.files[path.Base(u.Path)]
	if !ok {
		return nil, fmt.Errorf("mem getter: 404 %s", href)
	}
	return bytes.NewBuffer(append([]byte{}, b...)), nil
}

func verObs(o *obs, v *provenance.Verification) {
	if v == nil {
		return
	}
	o.HasVer = true
	o.Hash, o.Name, o.FP = v.FileHash, v.FileName, fpOf(v.SignedBy)
}

func (e *env) runEntry(entry string, ci *caseIn, archPath, ringPath string) (o obs) {
	defer func() {
		if r := recover(); r != nil {
			o = obs{Panic: fmt.Sprint(r)}
		}
	}()
	var err error
	switch entry {
	case "Signatory.Verify":
		var s *provenance.Signatory
		s, err = provenance.NewFromKeyring(ringPath, "")
		if err == nil {
			var v *provenance.Verification
			v, err = s.Verify(archPath, archPath+".prov")
			if err == nil {
				verObs(&o, v)
			}
		}
	case "VerifyChart":
		var v *provenance.Verification
		v, err = downloader.VerifyChart(archPath, ringPath)
		if err == nil {
			verObs(&o, v)
		}
	case "DownloadTo":
		files := map[string][]byte{ci.ArchName: ci.Archive}
		if !ci.NoProv && ci.Link != "archive" {
			files[ci.ArchName+".prov"] = ci.Prov
		}
		dl := &downloader.ChartDownloader{Out: io.Discard, Verify: downloader.VerifyAlways, Keyring: ringPath,
			Getters:          getter.Providers{{Schemes: []string{"mem"}, New: func(...getter.Option) (getter.Getter, error) { return &memGetter{files: files}, nil }}},
			RepositoryConfig: filepath.Join(e.root, "no-repositories.yaml"), RepositoryCache: filepath.Join(e.root, "cache")}
		dest := filepath.Join(e.root, "dl")
		os.Remove(filepath.Join(dest, ci.ArchName))
		os.Remove(filepath.Join(dest, ci.ArchName+".prov"))
		var v *provenance.Verification
		_, v, err = dl.DownloadTo("mem://charts.verif.example/repo/"+ci.ArchName, "", dest)
		if err == nil {
			verObs(&o, v)
		}
	case "LocateChart":
		cpo := &action.ChartPathOptions{Verify: true, Keyring: ringPath}
		_, err = cpo.LocateChart(archPath, e.settings)
	case "action.Verify":
		v := action.NewVerify()
		v.Keyring = ringPath
		err = v.Run(archPath)
		if err == nil {
			o.HasVer = true
			o.Name = ci.ArchName // not reported by this entry point
			for _, l := range strings.Split(v.Out, "\n") {
				if s, ok := strings.CutPrefix(l, "Using Key With Fingerprint: "); ok {
					o.FP = strings.TrimSpace(s)
				}
				if s, ok := strings.CutPrefix(l, "Chart Hash Verified: "); ok {
					o.Hash = strings.TrimSpace(s)
				}
			}
		}
	default:
		if !strings.HasPrefix(entry, "Pull(") {
			panic("unknown entry " + entry)
		}
		files := map[string][]byte{ci.ArchName: ci.Archive}
		if !ci.NoProv && ci.Link != "archive" {
			files[ci.ArchName+".prov"] = ci.Prov
		}
		var base string
		base, err = e.serve(files)
		if err != nil {
			panic("c17 harness: cannot listen on loopback: " + err.Error())
		}
		dest := filepath.Join(e.root, "pull")
		os.RemoveAll(dest)
		os.MkdirAll(dest, 0o755)
		p := action.NewPull(action.WithConfig(&action.Configuration{}))
		p.Settings = e.settings
		p.Keyring = ringPath
		p.DestDir = dest
		p.UntarDir = "unpacked"
		p.Verify = strings.Contains(entry, "--verify")
		p.VerifyLater = strings.Contains(entry, "--prov")
		p.Untar = strings.Contains(entry, "--untar")
		o.Unjudged = !p.Verify
		var out string
		out, err = p.Run(base + "/charts/" + ci.ArchName)
		if err != nil && p.Untar {
			if des, _ := os.ReadDir(filepath.Join(dest, "unpacked")); len(des) > 0 {
				o.Unpacked = des[0].Name()
			}
		}
		if err == nil && p.Verify {
			o.HasVer = true
			o.Name = ci.ArchName // not reported by this entry point
			for _, l := range strings.Split(out, "\n") {
				if s, ok := strings.CutPrefix(l, "Using Key With Fingerprint: "); ok {
					o.FP = strings.TrimSpace(s)
				}
				if s, ok := strings.CutPrefix(l, "Chart Hash Verified: "); ok {
					o.Hash = strings.TrimSpace(s)
				}
			}
		}
	}
	if err != nil {
		o.Err = strings.ReplaceAll(err.Error(), e.srvURL+"/", "http://<loopback>/")
		return o
	}
	o.OK = true
	return o
}

// ---------- judging ----------

type finding struct {
	Kind, Entry, What string
}

func ringFPs(ring []byte) map[string]bool {
	out := map[string]bool{}
	el, _ := parsedRing(ring)
	for _, e := range el {
		out[fpOf(e)] = true
	}
	return out
}

func judge(ci *caseIn, v verdict, entry string, o obs) []finding {
	var fs []finding
	add := func(kind, what string) { fs = append(fs, finding{Kind: kind, Entry: entry, What: what}) }
	if o.Unjudged {
		return nil
	}
	if o.Unpacked != "" {
		add("unpacked-after-failed-verification", fmt.Sprintf("fails (%s) but leaves %q in the untar directory", o.Err, o.Unpacked))
	}
	if o.Panic != "" {
		if v.Accept {
			add("panics-on-valid", "panics ("+o.Panic+") although signature, keyring and listed digest are all valid")
		}
		return fs
	}
	if !o.OK {
		if v.Accept {
			add("rejects-valid", fmt.Sprintf("fails with %q although the provenance carries a valid signature by a key of the ring and lists %s under %q", o.Err, digestOf(ci.Archive), ci.ArchName))
		}
		return fs
	}
	// Helm accepted.
	if !v.Accept && v.Reason != "ambiguous-one-matches" {
		add("accepts-invalid:"+v.Reason, "succeeds although the reference rejects ("+v.Reason+")")
	}
	// Security corollary, independent of the reference's verdict.
	want := digestOf(ci.Archive)
	if len(ci.OriginText) == 0 {
		add("accepted-without-signed-origin", "succeeds on a provenance file that derives from no text signed by a ring key")
	} else {
		if blk, _ := clearsign.Decode(ci.Prov); blk == nil || !bytes.Equal(canonText(blk.Bytes), ci.OriginText) {
			add("accepted-changed-signed-text", "succeeds although the signed text differs from the text that was signed")
		}
		files, _ := parseFiles(ci.OriginText)
		listed := false
		for _, x := range files[ci.ArchName] {
			if x == want {
				listed = true
			}
		}
		if !listed {
			add("accepted-unlisted-archive", fmt.Sprintf("succeeds although the signed text does not list %s under %q (it lists %q)", want, ci.ArchName, files[ci.ArchName]))
		}
	}
	if o.HasVer {
		if o.FP != ci.OriginFP || !ringFPs(ci.RingBytes)[o.FP] {
			add("accepted-signer-not-trusted", fmt.Sprintf("succeeds reporting signer %q; signing key %q; ring has it: %v", o.FP, ci.OriginFP, ringFPs(ci.RingBytes)[o.FP]))
		}
		if o.Hash != want || o.Name != ci.ArchName {
			add("wrong-verification-record", fmt.Sprintf("succeeds reporting %q for %q, archive is %s named %q", o.Hash, o.Name, want, ci.ArchName))
		}
	}
	return fs
}

// execCase runs one case through every entry point and returns the reference
// verdict, the observations and the violations (grouped by kind).
func (e *env) execCase(ci *caseIn) (verdict, []obs, []core.Violation) {
	if ci.LoaderLimit > 0 {
		defer setLoaderLimit(ci.LoaderLimit)()
	}
	dir := filepath.Join(e.root, "w")
	if ci.SubDir != "" {
		dir = filepath.Join(dir, ci.SubDir)
	}
	archPath := filepath.Join(dir, ci.ArchName)
	ringPath := filepath.Join(e.root, "rings", ci.RingName+".gpg")
	noProv := ci.NoProv
	var herr error
	if ci.Link == "" {
		herr = e.setFile(archPath, ci.Archive, false)
		if err := e.setFile(archPath+".prov", ci.Prov, ci.NoProv); err != nil {
			herr = err
		}
	} else {
		target := filepath.Join(e.root, "w", "link-target", ci.LinkTarget)
		herr = e.setFile(target, ci.Archive, false)
		if err := e.setFile(target+".prov", ci.Prov, ci.NoProv); err != nil {
			herr = err
		}
		if err := e.setLink(archPath, target); err != nil {
			herr = err
		}
		if ci.Link == "archive+prov" && !ci.NoProv {
			if err := e.setLink(archPath+".prov", target+".prov"); err != nil {
				herr = err
			}
		} else {
			noProv = true // nothing next to the link
			if err := e.setFile(archPath+".prov", nil, true); err != nil {
				herr = err
			}
		}
	}
	if err := e.setFile(ringPath, ci.RingBytes, false); err != nil {
		herr = err
	}
	if herr != nil {
		panic("c17 harness: cannot write case files: " + herr.Error())
	}
	v := reference(ci.Archive, ci.ArchName, ci.Prov, noProv, ci.RingBytes)
	// per entry point the first finding (judge lists the verdict mismatch before
	// the corollaries) names the class; the others are appended to its text.
	// The class names family and location unless the entry point already gets
	// the simplest case with the same reference verdict wrong (e.blanket): then
	// the location carries no information and one key stands for all of them.
	var os_ []obs
	byKey := map[string][]finding{}
	var gks []string
	run := entries
	if len(ci.Entries) > 0 {
		run = ci.Entries
	}
	for _, en := range run {
		o := e.runEntry(en, ci, archPath, ringPath)
		o.Entry = en
		os_ = append(os_, o)
		fs := judge(ci, v, en, o)
		if len(fs) == 0 {
			continue
		}
		pf := fs[0]
		for _, x := range fs[1:] {
			pf.What += "; also " + x.Kind + ": " + x.What
		}
		gk := ci.Family + "/" + pf.Kind
		if r := keyRegion(ci, v); r != "" {
			gk += "/" + r
		}
		if (strings.HasPrefix(pf.Kind, "accepts-invalid:") || pf.Kind == "rejects-valid") && e.blanket[en][v.Reason] {
			gk = "any-case/" + pf.Kind
		} else if e.blanket[en]["kind:"+pf.Kind] {
			gk = "any-case/" + pf.Kind
		}
		if _, ok := byKey[gk]; !ok {
			gks = append(gks, gk)
		}
		byKey[gk] = append(byKey[gk], pf)
	}
	if len(gks) == 0 {
		return v, os_, nil
	}
	sort.Strings(gks)
	rd, _ := json.Marshal(ci)
	var vs []core.Violation
	for _, gk := range gks {
		fs := byKey[gk]
		var ens []string
		for _, f := range fs {
			ens = append(ens, f.Entry)
		}
		enKey := strings.Join(ens, "+")
		if len(ens) == len(run) && len(run) == len(entries) {
			enKey = "all-entry-points"
		}
		what := fmt.Sprintf("%s: %s [case: %s; pair %s; keyring %s; archive %q %d bytes; reference: %s]",
			strings.Join(ens, ","), fs[0].What, ci.Desc, ci.Pair, ci.Ring, ci.ArchName, len(ci.Archive), v.Reason)
		vs = append(vs, core.Violation{Property: prop, Key: core.SanitizeKey(gk + "/" + enKey), What: what, Replay: rd})
	}
	return v, os_, vs
}

// keyRegion is the part of a finding key that says where the deviation sits:
// the file region for positional mutations; for signed variants the name key
// when the name is the deviation, else the listed value.
func keyRegion(ci *caseIn, v verdict) string {
	if ci.Family != "signed-variant" {
		return ci.Region
	}
	name, value, _ := strings.Cut(ci.Region, ",")
	if name != "name=base" {
		return name
	}
	return value
}

// setLoaderLimit sets the loader's size limit and returns the function that restores it.
func setLoaderLimit(n int64) func() {
	old := loader.MaxDecompressedChartSize
	loader.MaxDecompressedChartSize = n
	return func() { loader.MaxDecompressedChartSize = old }
}

func replay(c *core.Ctx, data json.RawMessage) []core.Violation {
	var ci caseIn
	if err := json.Unmarshal(data, &ci); err != nil {
		return nil
	}
	if ci.Family == "sign-by-name" {
		order, id, _ := strings.Cut(ci.Region, "|")
		dir, err := os.MkdirTemp("/var/tmp", "c17-")
		if err != nil {
			return nil
		}
		_, vs := runSignByName(dir, order, id)
		return vs
	}
	if ci.Family == "fixture" {
		root, err := os.MkdirTemp("/var/tmp", "c17-")
		if err != nil {
			return nil
		}
		defer os.RemoveAll(root)
		f, err := buildFixture(root)
		return fixtureViolations(root, f, err)
	}
	root := ci.Root
	if root == "" || !strings.HasPrefix(root, "/var/tmp/") {
		return nil
	}
	if err := os.MkdirAll(root, 0o755); err != nil {
		return nil
	}
	defer os.RemoveAll(root)
	e := newEnv(root)
	defer e.close()
	if len(ci.ProvSeq) > 0 {
		_, vs, _ := e.execReopen(&ci, 0)
		return vs
	}
	if len(ci.Deps) > 0 {
		_, vs := e.execDepUpdate(&ci, 0)
		return vs
	}
	if len(ci.Steps) > 0 {
		_, vs := e.execSteps(&ci)
		return vs
	}
	_, _, vs := e.execCase(&ci)
	return vs
}

// ---------- regions ----------

func provRegions(p []byte) []string {
	reg := make([]string, len(p))
	state := "begin-line"
	for off := 0; off < len(p); {
		end := bytes.IndexByte(p[off:], '\n')
		if end < 0 {
			end = len(p)
		} else {
			end = off + end + 1
		}
		line := strings.TrimRight(string(p[off:end]), "\r\n")
		r := state
		switch state {
		case "begin-line":
			state = "hash-header"
		case "hash-header":
			if line == "" {
				r, state = "header-blank", "text-metadata"
			}
		case "text-metadata":
			if line == "..." {
				r, state = "text-separator", "text-files"
			} else if line == "-----BEGIN PGP SIGNATURE-----" {
				r, state = "sig-begin-line", "armor-head"
			}
		case "text-files":
			if line == "-----BEGIN PGP SIGNATURE-----" {
				r, state = "sig-begin-line", "armor-head"
			}
		case "armor-head":
			if line == "" {
				r, state = "armor-blank", "armor-body"
			}
		case "armor-body":
			if strings.HasPrefix(line, "=") {
				r = "armor-crc"
			} else if strings.HasPrefix(line, "-----END") {
				r = "sig-end-line"
			}
		}
		for i := off; i < end; i++ {
			reg[i] = r
		}
		off = end
	}
	return reg
}

func archiveRegion(a []byte, pos int) string {
	// gzip member: 10 byte header, FEXTRA (2+n), FCOMMENT (zero terminated), deflate stream, 8 byte trailer
	hl := 10
	if len(a) > 12 && a[3]&4 != 0 {
		hl += 2 + int(a[10]) + int(a[11])<<8
	}
	if len(a) > hl && a[3]&16 != 0 {
		if i := bytes.IndexByte(a[hl:], 0); i >= 0 {
			hl += i + 1
		}
	}
	switch {
	case pos < hl:
		return "gzip-header"
	case pos >= len(a)-8:
		return "gzip-trailer"
	}
	return "deflate-stream"
}

// ---------- exploration ----------

func run(c *core.Ctx) {
	root, err := os.MkdirTemp("/var/tmp", "c17-")
	if err != nil {
		c.NotExhaustive("cannot create scratch directory: %v", err)
		return
	}
	defer os.RemoveAll(root)
	f, err := buildFixture(root)
	if fv := fixtureViolations(root, f, err); len(fv) > 0 {
		// "a chart signed and then verified with the matching key always passes"
		// fails at its first step; nothing else can be explored
		for _, v := range fv {
			c.Violate(v.Property, v.Key, v.What, caseIn{Family: "fixture", Desc: v.What})
		}
		c.NotExhaustive("charts could not be saved and signed as the property describes; exploration skipped")
		return
	}
	e := newEnv(root)
	defer e.close()
	x := &explorer{c: c, f: f, e: e}
	c.Bound("charts", "2 (hx-a-0.1.0: Chart.yaml only; hx-b-1.2.3: Chart.yaml+values.yaml+1 template)")
	c.Bound("keys", "2 (k0 RSA-2048 with RSA subkey via openpgp.NewEntity; k1 ECDSA P-256), fixed-seed generation")
	c.Bound("entry_points", strings.Join(entries, " "))
	for i, p := range f.pairs {
		c.Bound(fmt.Sprintf("pair%d", i), fmt.Sprintf("%s/k%d archive=%dB prov=%dB", p.Base, p.Key, len(p.Archive), len(p.Prov)))
	}
	bulkRings := []int{1}
	if c.Thorough() {
		bulkRings = []int{0, 1, 2, 3}
		c.Bound("bulk_keyrings", "signer, other+signer, other-only, empty")
		x.bulkEntries = coreEntries
		c.Bound("bulk_entry_points", "Signatory.Verify, VerifyChart, DownloadTo, LocateChart, action.Verify for bit flips and truncations; all nine for every other family")
	} else {
		x.bulkEntries = entries[:3]
		c.Bound("bulk_keyrings", "other+signer for bit flips and truncations; all four for every other family")
		c.Bound("bulk_entry_points", "Signatory.Verify, VerifyChart, DownloadTo for bit flips and truncations; all nine for every other family")
	}
	c.Bound("prov_bitflips", "every bit of every byte")
	c.Bound("prov_truncations", "every length 0..len-1")
	c.Bound("archive_bitflips", "every bit of every byte")
	c.Bound("archive_truncations", "every length 0..len-1")
	if c.Thorough() {
		c.Bound("prov_byte_substitutions", "every byte position x all 255 other values (keyring other+signer; Signatory.Verify, VerifyChart, DownloadTo)")
		c.Bound("prov_byte_deletions", "every byte position (keyring other+signer; Signatory.Verify, VerifyChart, DownloadTo)")
	}

	x.sentinels()
	if x.want("sign-by-name") {
		x.signByName()
	}
	if x.want("dep-update") {
		x.depUpdate()
	}
	x.structured()
	for pi := range f.pairs {
		for _, ri := range bulkRings {
			x.bulk(pi, ri)
		}
	}
	if c.Thorough() {
		for pi := range f.pairs {
			x.deep(pi, 1)
		}
	}
}

func firstWords(s string, n int) string {
	w := strings.Fields(s)
	if len(w) > n {
		w = w[:n]
	}
	return strings.Join(w, "_")
}

type explorer struct {
	c *core.Ctx
	f *fixture
	e *env
	n int
	// bulkEntries: entry points for the positional families
	bulkEntries []string
}

func (x *explorer) want(family string) bool {
	return x.c.Only == "" || strings.HasPrefix(family, x.c.Only)
}

// base builds the unmodified case of a pair under one of its four keyrings.
func (x *explorer) base(pi, ri int, family, desc string) *caseIn {
	p := x.f.pairs[pi]
	rn := ringNames(p.Key)[ri]
	return &caseIn{Family: family, Desc: desc, Pair: fmt.Sprintf("%s/k%d", p.Base, p.Key), Ring: ringKind(p.Key, rn), RingName: rn, RingBytes: x.f.rings[rn],
		ArchName: p.Base, Archive: p.Archive, Prov: p.Prov, OriginText: p.Text, OriginFP: x.f.keys[p.Key].FP, Root: x.f.root}
}

// emit runs one case if it belongs to this shard.
func (x *explorer) emit(canon string, build func() *caseIn) {
	c := x.c
	if !c.NextMine() {
		return
	}
	ci := build()
	if len(ci.Entries) > 0 {
		c.Eval(int64(len(ci.Entries)))
	} else {
		c.Eval(int64(len(entries)))
	}
	c.Distinct(canon)
	v, os_, vs := x.e.execCase(ci)
	cls := ci.Family + ":"
	if ci.Region != "" && !strings.HasPrefix(ci.Family, "signed-") {
		cls += ci.Region + ":"
	}
	reason := v.Reason
	if v.Accept && strings.HasPrefix(ci.Family, "prov-") {
		// why is a mutated provenance file still valid: same signature packet
		// (pure encoding/framing change) or a different packet the crypto base
		// still accepts (OpenPGP malleability outside the hashed data)
		if bytes.Equal(sigPacket(ci.Prov), sigPacket(x.f.pairs[x.pairOf(ci)].Prov)) {
			reason = "accept(same-signature-packet)"
		} else {
			reason = "accept(signature-packet-differs)"
		}
	}
	c.Outcome(cls + reason)
	for _, o := range os_ {
		if o.Panic != "" {
			c.Outcome("panic")
			c.Count("panics", 1)
			c.Note("panic in Helm (counted, C20's business unless the case is valid): %s on %s", o.Panic, ci.Desc)
		}
	}
	x.floors(ci, v, os_)
	for _, viol := range vs {
		c.Violate(viol.Property, viol.Key, viol.What, ci)
	}
	x.n++
	if len(vs) == 0 && (x.n%1499 == 1 || (v.Accept && ci.Family != "baseline" && x.n%7 == 0)) {
		helm := map[string]string{}
		for _, o := range os_ {
			if o.OK {
				helm[o.Entry] = "ok " + o.Hash
			} else {
				helm[o.Entry] = "error: " + o.Err + o.Panic
			}
		}
		c.Sample(map[string]any{"family": ci.Family, "case": ci.Desc, "pair": ci.Pair, "keyring": ci.Ring, "archive_name": ci.ArchName, "region": ci.Region,
			"reference": v.Reason, "helm": helm})
	}
}

// emitSteps runs one keyring-file sequence if it belongs to this shard.
func (x *explorer) emitSteps(canon string, build func() *caseIn) {
	c := x.c
	if !c.NextMine() {
		return
	}
	ci := build()
	c.Eval(int64(len(ci.Steps) * len(entries)))
	c.Distinct(canon)
	rs, vs := x.e.execSteps(ci)
	var trace []string
	for _, r := range rs {
		c.Outcome(ci.Family + ":" + r.Label + ":" + r.V.Reason)
		allOK, allErr := true, true
		for _, o := range r.Obs {
			if o.Panic != "" {
				c.Outcome("panic")
				c.Count("panics", 1)
			}
			if o.OK {
				allErr = false
			} else {
				allOK = false
			}
		}
		switch {
		case r.V.Accept && allOK:
			trace = append(trace, "accept")
		case !r.V.Accept && allErr:
			trace = append(trace, "reject")
		default:
			trace = append(trace, "mixed")
		}
	}
	if len(trace) >= 2 {
		c.Floor(ci.Family + ":" + trace[0] + "-then-" + trace[1])
	}
	for _, viol := range vs {
		c.Violate(viol.Property, viol.Key, viol.What, ci)
	}
	if len(vs) == 0 && len(trace) >= 2 && trace[0] != trace[1] {
		c.Sample(map[string]any{"family": ci.Family, "case": ci.Desc, "pair": ci.Pair, "steps": stepNames(ci), "helm_and_reference_per_step": trace})
	}
}

func stepNames(ci *caseIn) []string {
	var out []string
	for _, st := range ci.Steps {
		out = append(out, st.Label+": "+st.PathName+".gpg="+st.Ring)
	}
	return out
}

func (x *explorer) pairOf(ci *caseIn) int {
	for i, p := range x.f.pairs {
		if ci.Pair == fmt.Sprintf("%s/k%d", p.Base, p.Key) {
			return i
		}
	}
	return 0
}

// sigPacket returns the de-armored signature bytes (as far as they decode).
func sigPacket(prov []byte) []byte {
	blk, _ := clearsign.Decode(prov)
	if blk == nil {
		return nil
	}
	b, _ := io.ReadAll(blk.ArmoredSignature.Body)
	return b
}

func (x *explorer) floors(ci *caseIn, v verdict, os_ []obs) {
	c := x.c
	allOK, allErr := true, true
	for _, o := range os_ {
		if o.OK {
			allErr = false
		} else {
			allOK = false
		}
	}
	switch {
	case v.Accept && allOK && ci.Family == "real-clearsign":
		c.Floor("real-clearsign-roundtrip")
	case v.Accept && allOK && ci.Family == "baseline":
		c.Floor("accept-baseline")
	case v.Accept && allOK && strings.HasPrefix(ci.Family, "prov-"):
		c.Floor("accept-noop-mutant")
	case ci.Family == "ring-trust" && !v.Accept && allErr && ci.Region == "signature-by-encryption-subkey":
		c.Floor("ring-trust-subkey-rejected")
	case ci.Family == "ring-trust" && !v.Accept && allErr:
		c.Floor("ring-trust-revoked-rejected")
	case ci.Family == "large-archive" && v.Accept && allOK:
		c.Floor("large-archive-accept")
	case ci.Family == "large-archive" && !v.Accept && allErr && ci.Region != "bit-flipped-in-last-byte-before-limit":
		c.Floor("large-archive-tail-change-rejected")
	case v.Accept && allOK && ci.SubDir != "":
		c.Floor("accept-in-subdir")
	case !v.Accept && allErr:
		c.Floor("reject-" + v.Reason)
		if ci.Family != "baseline" {
			c.Floor("download-verifyalways-error")
		}
	}
}

// fixtureViolations checks the signing half of the property on the fixture:
// saving and signing works, and the message Signatory.ClearSign signs lists
// exactly the archive's base name with the digest of its bytes (read by the
// reference's own message reader).
func fixtureViolations(root string, f *fixture, err error) []core.Violation {
	rd, _ := json.Marshal(caseIn{Family: "fixture"})
	if err != nil {
		msg := strings.ReplaceAll(err.Error(), root, "<root>")
		return []core.Violation{{Property: prop, Key: core.SanitizeKey("fixture/cannot-save-and-sign/" + firstWords(msg, 3)),
			What: "saving and signing an ordinary chart with a generated key fails: " + msg, Replay: rd}}
	}
	var vs []core.Violation
	for _, p := range f.pairs {
		files, ok := parseFiles(p.Text)
		if !ok || len(files) != 1 || len(files[p.Base]) != 1 || files[p.Base][0] != digestOf(p.Archive) {
			vs = append(vs, core.Violation{Property: prop, Key: "clearsign/message-does-not-list-archive-under-its-file-name",
				What: fmt.Sprintf("Signatory.ClearSign(<dir>/%s) signs a message whose files section is %v; the property needs exactly {%s: %s}", p.Base, files, p.Base, digestOf(p.Archive)), Replay: rd})
			break
		}
	}
	return vs
}

// sentinels runs, in every shard and outside the case count, the simplest case
// of each reference verdict through every entry point. They only decide how
// finding keys are formed (see execCase); the same cases are part of the
// enumerated families, which is where they are judged.
func (x *explorer) sentinels() {
	p0, p2 := x.f.pairs[0], x.f.pairs[2]
	mk := func(ri int, mod func(ci *caseIn)) *caseIn {
		ci := x.base(0, ri, "sentinel", "sentinel")
		mod(ci)
		return ci
	}
	cases := []*caseIn{
		mk(0, func(ci *caseIn) {}),
		mk(0, func(ci *caseIn) { ci.Prov, ci.NoProv, ci.OriginText = nil, true, nil }),
		mk(3, func(ci *caseIn) {}),
		mk(0, func(ci *caseIn) { ci.Prov = []byte{} }),
		mk(0, func(ci *caseIn) { ci.Prov, ci.OriginText = splice(p0.Prov, p2.Prov), nil }),
		mk(0, func(ci *caseIn) { ci.Archive = []byte{} }),
		mk(0, func(ci *caseIn) { ci.ArchName = "renamed-" + p0.Base }),
	}
	bl := map[string]map[string]bool{}
	for _, en := range entries {
		bl[en] = map[string]bool{}
	}
	for _, ci := range cases {
		v, os_, _ := x.e.execCase(ci)
		for _, o := range os_ {
			if o.OK != v.Accept {
				bl[o.Entry][v.Reason] = true
			} else if v.Accept {
				// accepted as it should be, but already the simplest valid case is
				// reported wrongly (signer, hash): one key for that everywhere
				if fs := judge(ci, v, o.Entry, o); len(fs) > 0 {
					bl[o.Entry]["kind:"+fs[0].Kind] = true
				}
			}
		}
	}
	x.e.blanket = bl
}

// structured enumerates every family except the per-position ones.
func (x *explorer) structured() {
	f := x.f
	for pi, p := range f.pairs {
		other := f.pairs[(1-p.Chart)*2+p.Key] // same key, other chart
		for ri := 0; ri < 4; ri++ {
			pi, p, ri := pi, p, ri
			tag := fmt.Sprintf("|%d|%d", pi, ri)
			if x.want("real-clearsign") {
				x.emit("real-clearsign"+tag, func() *caseIn {
					ci := x.base(pi, ri, "real-clearsign", "unmodified output of Signatory.ClearSign")
					ci.Prov = p.RealProv
					if b, _ := clearsign.Decode(p.RealProv); b != nil {
						ci.OriginText = canonText(b.Bytes)
					}
					return ci
				})
			}
			if x.want("baseline") {
				x.emit("baseline"+tag, func() *caseIn {
					return x.base(pi, ri, "baseline", "unmodified archive and provenance (pinned signature time)")
				})
			}
			if x.want("no-prov") {
				x.emit("no-prov"+tag, func() *caseIn {
					ci := x.base(pi, ri, "no-prov", "provenance file absent")
					ci.Prov, ci.NoProv, ci.OriginText = nil, true, nil
					return ci
				})
			}
			if x.want("rename") {
				names := []struct{ sub, name, why string }{
					{"", other.Base, "archive stored under the other chart's file name"},
					{"", "renamed-" + p.Base, "archive stored under a new file name"},
					{"", strings.TrimSuffix(p.Base, ".tgz") + ".TGZ", "archive stored with upper-case extension"},
					{"", p.Base + ".tgz", "archive stored with a doubled extension"},
					{"sub/dir", p.Base, "archive stored in another directory under its own file name"},
				}
				for ni, nm := range names {
					nm := nm
					x.emit(fmt.Sprintf("rename%s|%d", tag, ni), func() *caseIn {
						ci := x.base(pi, ri, "rename", nm.why+" ("+path.Join(nm.sub, nm.name)+"), same bytes, same provenance")
						ci.ArchName, ci.SubDir = nm.name, nm.sub
						return ci
					})
				}
				// renamed through a symbolic link: the archive keeps its signed name where
				// it really is, and is offered under another name (or under its own name
				// in another directory) through a link; the name that counts is the one
				// the archive is presented under
				links := []struct{ sub, name, why string }{
					{"links", other.Base, "offered under the other chart's file name"},
					{"links", "linked-" + p.Base, "offered under a new file name"},
					{"links", p.Base, "offered under its own file name in another directory"},
				}
				for li, lk := range links {
					for _, mode := range []string{"archive", "archive+prov"} {
						if mode == "archive" && lk.name == p.Base {
							// own name, provenance only next to the link target: whether that
							// counts as "accompanied by its provenance file" is not for this
							// property to decide
							continue
						}
						lk, mode := lk, mode
						x.emit(fmt.Sprintf("rename-link%s|%d|%s", tag, li, mode), func() *caseIn {
							ci := x.base(pi, ri, "rename", fmt.Sprintf("archive %s through a symbolic link %s -> link-target/%s (%s linked)", lk.why, path.Join(lk.sub, lk.name), p.Base, mode))
							ci.ArchName, ci.SubDir, ci.Link, ci.LinkTarget, ci.Region = lk.name, lk.sub, mode, p.Base, "symlink:"+mode
							if mode == "archive" {
								ci.OriginText = nil // no provenance is presented with the archive
							}
							return ci
						})
					}
				}
			}
			if x.want("tamper-class") {
				// one representative of every tamper class, so that every entry point
				// (the positional families run a subset) meets every class
				regs := provRegions(p.Prov)
				firstOf := func(region string) int {
					for i, r := range regs {
						if r == region {
							return i
						}
					}
					return 0
				}
				type tc struct {
					k   string
					mod func(ci *caseIn)
				}
				flipProv := func(region string) tc {
					return tc{"prov-bit-in-" + region, func(ci *caseIn) {
						pos := firstOf(region) + 2
						ci.Prov = append([]byte{}, p.Prov...)
						ci.Prov[pos] ^= 1
						ci.Desc = fmt.Sprintf("provenance byte %d bit 0 flipped (%s)", pos, region)
					}}
				}
				flipArch := func(k string, pos int) tc {
					return tc{"archive-bit-" + k, func(ci *caseIn) {
						ci.Archive = append([]byte{}, p.Archive...)
						ci.Archive[pos] ^= 1
						ci.Desc = fmt.Sprintf("archive byte %d bit 0 flipped", pos)
					}}
				}
				classes := []tc{
					flipProv("begin-line"), flipProv("text-metadata"), flipProv("text-files"), flipProv("armor-body"), flipProv("sig-end-line"),
					{"prov-empty", func(ci *caseIn) { ci.Prov = []byte{}; ci.Desc = "provenance truncated to 0 bytes" }},
					{"prov-half", func(ci *caseIn) {
						ci.Prov = append([]byte{}, p.Prov[:len(p.Prov)/2]...)
						ci.Desc = "provenance truncated to its first half"
					}},
					flipArch("gzip-header", 4), flipArch("deflate-stream", len(p.Archive)/2), flipArch("gzip-trailer", len(p.Archive)-1),
					{"archive-empty", func(ci *caseIn) { ci.Archive = []byte{}; ci.Desc = "archive truncated to 0 bytes" }},
					{"archive-half", func(ci *caseIn) {
						ci.Archive = append([]byte{}, p.Archive[:len(p.Archive)/2]...)
						ci.Desc = "archive truncated to its first half"
					}},
				}
				for _, cl := range classes {
					cl := cl
					x.emit("tamper-class"+tag+"|"+cl.k, func() *caseIn {
						ci := x.base(pi, ri, "tamper-class", "")
						cl.mod(ci)
						ci.Region = cl.k
						return ci
					})
				}
			}
			if x.want("pull-flags") && ri < 3 {
				// helm pull without --verify: completes the flag product; executed, not judged
				mods := []struct {
					k   string
					mod func(ci *caseIn)
				}{
					{"unmodified", func(ci *caseIn) {}},
					{"archive-bit", func(ci *caseIn) {
						ci.Archive = append([]byte{}, p.Archive...)
						ci.Archive[len(p.Archive)/2] ^= 1
					}},
					{"prov-bit", func(ci *caseIn) {
						ci.Prov = append([]byte{}, p.Prov...)
						ci.Prov[len(p.Prov)/3] ^= 1
					}},
					{"no-prov", func(ci *caseIn) { ci.Prov, ci.NoProv, ci.OriginText = nil, true, nil }},
				}
				for _, m := range mods {
					m := m
					x.emit("pull-flags"+tag+"|"+m.k, func() *caseIn {
						ci := x.base(pi, ri, "pull-flags", "helm pull without --verify on "+m.k+" (executed, nothing required)")
						m.mod(ci)
						ci.Region = m.k
						ci.Entries = noVerifyPulls
						return ci
					})
				}
			}
			if x.want("cross") {
				for qi, q := range f.pairs {
					if qi == pi {
						continue
					}
					qi, q := qi, q
					// ring is taken relative to the key that signed the provenance in use
					x.emit(fmt.Sprintf("cross-prov%s|%d", tag, qi), func() *caseIn {
						ci := x.base(pi, ri, "cross", fmt.Sprintf("provenance of %s/k%d next to archive %s", q.Base, q.Key, p.Base))
						rn := ringNames(q.Key)[ri]
						ci.Prov, ci.OriginText, ci.OriginFP = q.Prov, q.Text, f.keys[q.Key].FP
						ci.Ring, ci.RingName, ci.RingBytes = ringKind(q.Key, rn), rn, f.rings[rn]
						return ci
					})
					if q.Chart == p.Chart {
						continue // same chart: same file name, same message
					}
					x.emit(fmt.Sprintf("cross-rename%s|%d", tag, qi), func() *caseIn {
						ci := x.base(pi, ri, "cross", fmt.Sprintf("provenance of %s/k%d next to archive %s renamed to %s", q.Base, q.Key, p.Base, q.Base))
						rn := ringNames(q.Key)[ri]
						ci.Prov, ci.OriginText, ci.OriginFP, ci.ArchName = q.Prov, q.Text, f.keys[q.Key].FP, q.Base
						ci.Ring, ci.RingName, ci.RingBytes = ringKind(q.Key, rn), rn, f.rings[rn]
						return ci
					})
					x.emit(fmt.Sprintf("splice%s|%d", tag, qi), func() *caseIn {
						ci := x.base(pi, ri, "splice", fmt.Sprintf("signed text of %s/k%d followed by the signature armor of %s/k%d", p.Base, p.Key, q.Base, q.Key))
						rn := ringNames(q.Key)[ri]
						ci.Ring, ci.RingName, ci.RingBytes = ringKind(q.Key, rn), rn, f.rings[rn]
						ci.Prov = splice(p.Prov, q.Prov)
						ci.OriginText = nil
						return ci
					})
				}
			}
		}
		if x.want("signed-variant") {
			x.signedVariants(pi)
		}
		if x.want("ring-") {
			x.ringFiles(pi)
		}
		if x.want("reopen") {
			x.reopenCases(pi)
		}
		if x.want("ring-trust") {
			x.ringTrust(pi)
		}
		if x.want("large-archive") && p.Chart == 0 {
			x.largeArchive(pi)
		}
	}
}

// ringFiles: the keyring is a file that can change between two verifications in
// one process. ring-rewrite: one fixed path holds ring1, everything is verified,
// the same path is overwritten with ring2, everything is verified again, then
// ring1 is restored and verified a third time - for every ordered pair of the
// four keyring contents. ring-copy: the same content under two different paths.
// Both for the unmodified pair and for a tampered one (one archive bit flipped).
func (x *explorer) ringFiles(pi int) {
	f := x.f
	p := f.pairs[pi]
	names := ringNames(p.Key)
	for t := 0; t < 2; t++ {
		t := t
		mk := func(family, desc string) *caseIn {
			ci := x.base(pi, 0, family, desc)
			ci.Ring, ci.RingName, ci.RingBytes = "", "", nil
			if t == 1 {
				pos := len(p.Archive) / 2
				ci.Archive = append([]byte{}, p.Archive...)
				ci.Archive[pos] ^= 1
				ci.Desc += fmt.Sprintf(", archive byte %d bit 0 flipped", pos)
			} else {
				ci.Desc += ", unmodified archive and provenance"
			}
			return ci
		}
		step := func(label string, ri int, path string) ringStep {
			return ringStep{Label: label, Ring: ringKind(p.Key, names[ri]), PathName: path, RingBytes: f.rings[names[ri]]}
		}
		for r1 := 0; r1 < 4; r1++ {
			for r2 := 0; r2 < 4; r2++ {
				if r1 == r2 {
					continue
				}
				r1, r2 := r1, r2
				x.emitSteps(fmt.Sprintf("ring-rewrite|%d|%d|%d|%d", pi, t, r1, r2), func() *caseIn {
					path := fmt.Sprintf("rewritten-p%d-t%d-%d-%d", pi, t, r1, r2)
					ci := mk("ring-rewrite", fmt.Sprintf("keyring file rewritten in place: %s -> %s -> %s", ringKind(p.Key, names[r1]), ringKind(p.Key, names[r2]), ringKind(p.Key, names[r1])))
					ci.Steps = []ringStep{step("first-use", r1, path), step("after-rewrite", r2, path), step("after-restore", r1, path)}
					return ci
				})
			}
			r1 := r1
			x.emitSteps(fmt.Sprintf("ring-copy|%d|%d|%d", pi, t, r1), func() *caseIn {
				ci := mk("ring-copy", fmt.Sprintf("same keyring content (%s) under two different paths", ringKind(p.Key, names[r1])))
				ci.Steps = []ringStep{step("first-use", r1, fmt.Sprintf("copy-a-p%d-t%d-%d", pi, t, r1)), step("same-content-other-path", r1, fmt.Sprintf("copy-b-p%d-t%d-%d", pi, t, r1))}
				return ci
			})
		}
	}
}

func splice(textOf, armorOf []byte) []byte {
	m := []byte("-----BEGIN PGP SIGNATURE-----")
	i, j := bytes.Index(textOf, m), bytes.Index(armorOf, m)
	return append(append([]byte{}, textOf[:i]...), armorOf[j:]...)
}

type kv struct{ k, v string }

func yamlScalar(s string) string {
	if s == "" || strings.HasSuffix(s, " ") || strings.HasPrefix(s, " ") {
		return "\"" + s + "\""
	}
	return s
}

func messageWith(p *pairInfo, entries []kv, dupTop bool) []byte {
	i := bytes.Index(p.Message, []byte("\n...\n"))
	var sb bytes.Buffer
	sb.Write(p.Message[:i+5])
	if len(entries) == 0 {
		sb.WriteString("files: {}\n")
		return sb.Bytes()
	}
	sb.WriteString("files:\n")
	for n, e := range entries {
		if dupTop && n == len(entries)-1 {
			sb.WriteString("files:\n")
		}
		fmt.Fprintf(&sb, "  %s: %s\n", e.k, yamlScalar(e.v))
	}
	return sb.Bytes()
}

// signedVariants: messages validly signed by the pair's key that list, for a
// grid of name keys and digest values, something other than (or in addition
// to) the archive; only the cell (base name, correct digest) may be accepted.
func (x *explorer) signedVariants(pi int) {
	f := x.f
	p := f.pairs[pi]
	o := f.pairs[(1-p.Chart)*2+p.Key]
	d := digestOf(p.Archive)
	hx := strings.TrimPrefix(d, "sha256:")
	flip := func(b byte) byte {
		if b == '0' {
			return '1'
		}
		return '0'
	}
	names := []kv{
		{"base", p.Base},
		{"abs-path", filepath.Join(f.root, "w", p.Base)},
		{"abs-download-path", filepath.Join(f.root, "dl", p.Base)},
		{"dot-slash", "./" + p.Base},
		{"other-chart", o.Base},
		{"upper-case", strings.ToUpper(p.Base)},
		{"prov-name", p.Base + ".prov"},
		{"absent", ""},
	}
	digests := []kv{
		{"correct", d},
		{"no-scheme", hx},
		{"prefix-16-hex", "sha256:" + hx[:16]},
		{"prefix-scheme-only", "sha256:"},
		{"last-hex-digit-changed", "sha256:" + hx[:63] + string(flip(hx[63]))},
		{"first-hex-digit-changed", "sha256:" + string(flip(hx[0])) + hx[1:]},
		{"upper-hex", "sha256:" + strings.ToUpper(hx)},
		{"other-chart-digest", digestOf(o.Archive)},
		{"empty", ""},
		{"sha512-label", "sha512:" + hx},
		{"trailing-space", d + " "},
		{"two-extra-hex", d + "00"},
	}
	seconds := []string{"none", "other-correct", "other-wrong"}
	sign := func(label string, msg []byte) ([]byte, []byte) {
		prov, err := signPinned(f.keys[p.Key], msg, label)
		if err != nil {
			panic("c17 harness: signing failed: " + err.Error())
		}
		b, _ := clearsign.Decode(prov)
		return prov, canonText(b.Bytes)
	}
	for _, ri := range []int{1, 2, 0} {
		for _, nm := range names {
			for _, dg := range digests {
				if nm.k == "absent" && dg.k != "correct" {
					continue
				}
				if dg.v == d && dg.k != "correct" {
					continue // e.g. upper-hex of an all-digit digest
				}
				for _, sec := range seconds {
					if ri == 0 && !(sec == "none") {
						continue
					}
					if sec != "none" && nm.k == "other-chart" {
						continue
					}
					nm, dg, sec, ri := nm, dg, sec, ri
					label := fmt.Sprintf("signed-variant|%d|%d|%s|%s|%s", pi, ri, nm.k, dg.k, sec)
					x.emit(label, func() *caseIn {
						var es []kv
						if sec == "other-correct" {
							es = append(es, kv{o.Base, digestOf(o.Archive)})
						} else if sec == "other-wrong" {
							es = append(es, kv{o.Base, d})
						}
						if nm.k != "absent" {
							es = append(es, kv{nm.v, dg.v})
						}
						sort.SliceStable(es, func(i, j int) bool { return es[i].k < es[j].k })
						ci := x.base(pi, ri, "signed-variant", fmt.Sprintf("validly signed message listing name=%s value=%s second-entry=%s", nm.k, dg.k, sec))
						ci.Region = "name=" + nm.k + ",value=" + dg.k
						ci.Prov, ci.OriginText = sign(label, messageWith(p, es, false))
						return ci
					})
				}
			}
		}
		// repeated entries: meaning undefined, one-sided requirement only
		reps := []struct {
			k      string
			es     []kv
			dupTop bool
		}{
			{"same-name-twice-wrong-then-correct", []kv{{p.Base, digestOf(o.Archive)}, {p.Base, d}}, false},
			{"same-name-twice-correct-then-wrong", []kv{{p.Base, d}, {p.Base, digestOf(o.Archive)}}, false},
			{"same-name-twice-both-wrong", []kv{{p.Base, digestOf(o.Archive)}, {p.Base, "sha256:" + hx[:16]}}, false},
			{"files-key-twice-wrong-then-correct", []kv{{p.Base, digestOf(o.Archive)}, {p.Base, d}}, true},
			{"files-key-twice-correct-then-wrong", []kv{{p.Base, d}, {p.Base, digestOf(o.Archive)}}, true},
			{"files-key-twice-other-then-correct", []kv{{o.Base, digestOf(o.Archive)}, {p.Base, d}}, true},
			{"files-key-twice-correct-then-other", []kv{{p.Base, d}, {o.Base, digestOf(o.Archive)}}, true},
		}
		for _, rp := range reps {
			rp, ri := rp, ri
			label := fmt.Sprintf("signed-repeat|%d|%d|%s", pi, ri, rp.k)
			x.emit(label, func() *caseIn {
				ci := x.base(pi, ri, "signed-repeat", "validly signed message with "+rp.k)
				ci.Region = rp.k
				ci.Prov, ci.OriginText = sign(label, messageWith(p, rp.es, rp.dupTop))
				return ci
			})
		}
	}
}

// emitB is emit for the positional families (tier-dependent entry points).
func (x *explorer) emitB(canon string, build func() *caseIn) {
	x.emit(canon, func() *caseIn {
		ci := build()
		ci.Entries = x.bulkEntries
		return ci
	})
}

// emitD is emit for the thorough-only byte substitution/deletion families: the
// three entry points named by the property.
func (x *explorer) emitD(canon string, build func() *caseIn) {
	x.emit(canon, func() *caseIn {
		ci := build()
		ci.Entries = entries[:3]
		return ci
	})
}

// bulk: every single-bit flip and every truncation of provenance and archive.
func (x *explorer) bulk(pi, ri int) {
	p := x.f.pairs[pi]
	if x.want("prov-bitflip") {
		regs := provRegions(p.Prov)
		for pos := range p.Prov {
			for bit := 0; bit < 8; bit++ {
				pos, bit := pos, bit
				x.emitB(fmt.Sprintf("prov-bitflip|%d|%d|%d|%d", pi, ri, pos, bit), func() *caseIn {
					ci := x.base(pi, ri, "prov-bitflip", fmt.Sprintf("provenance byte %d bit %d flipped (%q -> %q, %s)", pos, bit, p.Prov[pos], p.Prov[pos]^(1<<bit), regs[pos]))
					ci.Region = regs[pos]
					ci.Prov = append([]byte{}, p.Prov...)
					ci.Prov[pos] ^= 1 << bit
					return ci
				})
			}
		}
	}
	if x.want("prov-truncate") {
		regs := provRegions(p.Prov)
		for n := 0; n < len(p.Prov); n++ {
			n := n
			x.emitB(fmt.Sprintf("prov-truncate|%d|%d|%d", pi, ri, n), func() *caseIn {
				ci := x.base(pi, ri, "prov-truncate", fmt.Sprintf("provenance truncated to its first %d of %d bytes (cut in %s)", n, len(p.Prov), regs[n]))
				ci.Region = regs[n]
				ci.Prov = append([]byte{}, p.Prov[:n]...)
				return ci
			})
		}
	}
	if x.want("archive-bitflip") {
		for pos := range p.Archive {
			for bit := 0; bit < 8; bit++ {
				pos, bit := pos, bit
				x.emitB(fmt.Sprintf("archive-bitflip|%d|%d|%d|%d", pi, ri, pos, bit), func() *caseIn {
					ci := x.base(pi, ri, "archive-bitflip", fmt.Sprintf("archive byte %d bit %d flipped", pos, bit))
					ci.Region = archiveRegion(p.Archive, pos)
					ci.Archive = append([]byte{}, p.Archive...)
					ci.Archive[pos] ^= 1 << bit
					return ci
				})
			}
		}
	}
	if x.want("archive-truncate") {
		for n := 0; n < len(p.Archive); n++ {
			n := n
			x.emitB(fmt.Sprintf("archive-truncate|%d|%d|%d", pi, ri, n), func() *caseIn {
				ci := x.base(pi, ri, "archive-truncate", fmt.Sprintf("archive truncated to its first %d of %d bytes", n, len(p.Archive)))
				ci.Region = archiveRegion(p.Archive, n)
				ci.Archive = append([]byte{}, p.Archive[:n]...)
				return ci
			})
		}
	}
}

// deep (thorough tier): every byte of the provenance file replaced by every
// other value, and every single byte deleted.
func (x *explorer) deep(pi, ri int) {
	p := x.f.pairs[pi]
	regs := provRegions(p.Prov)
	if x.want("prov-bytesub") {
		for pos := range p.Prov {
			for d := 1; d < 256; d++ {
				if d&(d-1) == 0 {
					continue // single-bit differences are the prov-bitflip family
				}
				pos, d := pos, d
				x.emitD(fmt.Sprintf("prov-bytesub|%d|%d|%d|%d", pi, ri, pos, d), func() *caseIn {
					nb := p.Prov[pos] ^ byte(d)
					ci := x.base(pi, ri, "prov-bytesub", fmt.Sprintf("provenance byte %d replaced (%q -> %q, %s)", pos, p.Prov[pos], nb, regs[pos]))
					ci.Region = regs[pos]
					ci.Prov = append([]byte{}, p.Prov...)
					ci.Prov[pos] = nb
					return ci
				})
			}
		}
	}
	if x.want("prov-bytedel") {
		for pos := range p.Prov {
			pos := pos
			x.emitD(fmt.Sprintf("prov-bytedel|%d|%d|%d", pi, ri, pos), func() *caseIn {
				ci := x.base(pi, ri, "prov-bytedel", fmt.Sprintf("provenance byte %d (%q, %s) deleted", pos, p.Prov[pos], regs[pos]))
				ci.Region = regs[pos]
				ci.Prov = append(append([]byte{}, p.Prov[:pos]...), p.Prov[pos+1:]...)
				return ci
			})
		}
	}
}
