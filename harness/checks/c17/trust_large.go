package c17

import (
	"bytes"
	"compress/gzip"
	"crypto"
	"crypto/sha256"
	"fmt"
	"io"
	"os"
	"path/filepath"

	"golang.org/x/crypto/openpgp"           //nolint
	"golang.org/x/crypto/openpgp/clearsign" //nolint
	"golang.org/x/crypto/openpgp/packet"    //nolint

	"helm.sh/helm/v4/pkg/provenance"
)

// ---------- keyring trust: revoked signer, signature by a non-signing subkey ----------

// revokedRing returns the public key of k followed by a key revocation
// signature made by its owner (what importing a revocation certificate gives).
func revokedRing(k *keyInfo) ([]byte, error) {
	e := k.Entity
	var pk bytes.Buffer
	if err := e.PrimaryKey.Serialize(&pk); err != nil {
		return nil, err
	}
	if !bytes.HasPrefix(k.Pub, pk.Bytes()) {
		return nil, fmt.Errorf("unexpected entity serialization layout")
	}
	var prefix bytes.Buffer
	e.PrimaryKey.SerializeSignaturePrefix(&prefix)
	bodyLen := int(prefix.Bytes()[1])<<8 | int(prefix.Bytes()[2])
	body := pk.Bytes()[pk.Len()-bodyLen:]
	h := sha256.New()
	h.Write(prefix.Bytes())
	h.Write(body)
	rev := &packet.Signature{SigType: packet.SigTypeKeyRevocation, PubKeyAlgo: e.PrimaryKey.PubKeyAlgo, Hash: crypto.SHA256,
		CreationTime: sigTime, IssuerKeyId: &e.PrimaryKey.KeyId}
	if err := rev.Sign(h, e.PrivateKey, pinned("revoke/"+k.Label, sigTime, crypto.SHA256)); err != nil {
		return nil, err
	}
	var out bytes.Buffer
	out.Write(pk.Bytes())
	if err := rev.Serialize(&out); err != nil {
		return nil, err
	}
	out.Write(k.Pub[pk.Len():])
	el, err := openpgp.ReadKeyRing(bytes.NewReader(out.Bytes()))
	if err != nil || len(el) != 1 || len(el[0].Revocations) != 1 {
		return nil, fmt.Errorf("revoked keyring does not parse as one entity with one revocation (%v)", err)
	}
	return out.Bytes(), nil
}

// ringTrust: keyrings that hold the signer's key but do not trust it, and a
// provenance signed by the signer's encryption-only subkey.
func (x *explorer) ringTrust(pi int) {
	f := x.f
	p := f.pairs[pi]
	k, o := f.keys[p.Key], f.keys[1-p.Key]
	rings := []struct{ kind, name string }{
		{"signer-revoked", k.Label + "rev"},
		{"other+signer-revoked", o.Label + k.Label + "rev"},
	}
	for _, prov := range []string{"pinned", "real-clearsign"} {
		for _, rg := range rings {
			prov, rg := prov, rg
			x.emit(fmt.Sprintf("ring-trust|%d|%s|%s", pi, rg.kind, prov), func() *caseIn {
				ci := x.base(pi, 0, "ring-trust", "unmodified archive and provenance ("+prov+"); the keyring holds the signer's key together with its revocation signature")
				if prov == "real-clearsign" {
					ci.Prov, ci.OriginText = p.RealProv, canonText(mustDecode(p.RealProv).Bytes)
				}
				ci.Ring, ci.RingName, ci.RingBytes, ci.Region = rg.kind, rg.name, f.rings[rg.name], rg.kind
				return ci
			})
		}
	}
	if len(k.Entity.Subkeys) == 0 || k.Entity.Subkeys[0].PrivateKey == nil {
		return
	}
	for ri := 0; ri < 2; ri++ {
		ri := ri
		x.emit(fmt.Sprintf("ring-trust|%d|subkey|%d", pi, ri), func() *caseIn {
			var out bytes.Buffer
			w, err := clearsign.Encode(&out, k.Entity.Subkeys[0].PrivateKey, pinned("subkey-sig/"+p.Base, sigTime, crypto.SHA512))
			if err == nil {
				_, err = w.Write(p.Message)
			}
			if err == nil {
				err = w.Close()
			}
			if err != nil {
				panic("c17 harness: signing with the subkey failed: " + err.Error())
			}
			ci := x.base(pi, ri, "ring-trust", "same message signed by the signer's encryption-only subkey (key flags do not allow signing)")
			ci.Prov, ci.OriginText, ci.Region = out.Bytes(), nil, "signature-by-encryption-subkey"
			return ci
		})
	}
}

// ---------- archive larger than the loader's size limit ----------

const largeLimit = 16384

// largeArchive: the digest must cover the whole file, also past
// loader.MaxDecompressedChartSize (a package variable, lowered to 16 KiB while
// these cases run so that the archive can stay small: the chart of pair 0/1
// followed, after the tar end marker, by 20 KiB of incompressible padding).
func (x *explorer) largeArchive(pi int) {
	f := x.f
	p := f.pairs[pi]
	type mut struct {
		k   string
		mod func(b []byte) []byte
	}
	flip := func(off int) func(b []byte) []byte {
		return func(b []byte) []byte {
			c := append([]byte{}, b...)
			if off < 0 {
				off += len(c)
			}
			c[off] ^= 1
			return c
		}
	}
	muts := []mut{
		{"unmodified", func(b []byte) []byte { return b }},
		{"bit-flipped-in-last-byte", flip(-1)},
		{"bit-flipped-in-first-byte-past-limit", flip(largeLimit)},
		{"bit-flipped-in-last-byte-before-limit", flip(largeLimit - 1)},
		{"truncated-to-limit", func(b []byte) []byte { return append([]byte{}, b[:largeLimit]...) }},
		{"last-byte-removed", func(b []byte) []byte { return append([]byte{}, b[:len(b)-1]...) }},
		{"one-byte-appended", func(b []byte) []byte { return append(append([]byte{}, b...), 0) }},
		{"4KiB-appended", func(b []byte) []byte { return append(append([]byte{}, b...), make([]byte, 4096)...) }},
	}
	var big, prov, text []byte
	for _, m := range muts {
		m := m
		x.emit(fmt.Sprintf("large-archive|%d|%s", pi, m.k), func() *caseIn {
			if big == nil {
				big, prov, text = x.buildLarge(p)
			}
			ci := x.base(pi, 1, "large-archive", fmt.Sprintf("archive of %d bytes with loader.MaxDecompressedChartSize=%d: %s", len(big), largeLimit, m.k))
			ci.SubDir, ci.Archive, ci.Prov, ci.OriginText, ci.Region, ci.LoaderLimit = "large", m.mod(big), prov, text, m.k, largeLimit
			return ci
		})
	}
}

func (x *explorer) buildLarge(p *pairInfo) (big, prov, text []byte) {
	fail := func(err error) { panic("c17 harness: cannot build the large archive: " + err.Error()) }
	zr, err := gzip.NewReader(bytes.NewReader(p.Archive))
	if err != nil {
		fail(err)
	}
	tarBytes, err := io.ReadAll(zr)
	if err != nil {
		fail(err)
	}
	pad := make([]byte, 20480)
	newDet("large/" + p.Base).Read(pad)
	var out bytes.Buffer
	zw := gzip.NewWriter(&out)
	zw.Extra, zw.Comment = zr.Extra, zr.Comment
	zw.Write(tarBytes)
	zw.Write(pad)
	if err := zw.Close(); err != nil {
		fail(err)
	}
	big = out.Bytes()
	if len(big) < largeLimit+2048 {
		fail(fmt.Errorf("only %d bytes", len(big)))
	}
	dir := filepath.Join(x.f.root, "save-large")
	os.MkdirAll(dir, 0o755)
	path := filepath.Join(dir, p.Base)
	if err := os.WriteFile(path, big, 0o644); err != nil {
		fail(err)
	}
	k := x.f.keys[p.Key]
	restore := setLoaderLimit(largeLimit)
	defer restore()
	s, err := provenance.NewFromFiles(filepath.Join(x.f.root, "keys", k.Label+".sec"), x.f.ringPath(k.Label))
	if err != nil {
		fail(err)
	}
	real, err := s.ClearSign(path)
	if err != nil {
		fail(err)
	}
	return big, []byte(real), canonText(mustDecode([]byte(real)).Bytes)
}
