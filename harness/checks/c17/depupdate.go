package c17

import (
	"bytes"
	"fmt"
	"io"
	"os"
	"path/filepath"
	"strings"

	"sigs.k8s.io/yaml"

	chart "helm.sh/helm/v4/pkg/chart/v2"
	"helm.sh/helm/v4/pkg/downloader"
	"helm.sh/helm/v4/pkg/getter"
	"helm.sh/helm/v4/pkg/repo"

	"verif/harness/internal/core"
)

// Family "dep-update": helm dependency update --verify, i.e.
// downloader.Manager{Verify: VerifyAlways}.Update() on a parent chart with two
// repository dependencies served (index.yaml, archives, provenance files) by
// the worker's loopback HTTP server. Every position of the dependency list is
// valid or tampered. Oracle: if the reference rejects any dependency, Update
// must return an error; whatever it returns, every archive found in charts/
// afterwards must be one the reference accepts; if all are valid Update must
// succeed and both archives must be in charts/.

type depItem struct {
	Name     string `json:"name"`
	Version  string `json:"version"`
	ArchName string `json:"arch_name"`
	Archive  []byte `json:"archive"`
	Prov     []byte `json:"prov"`
	NoProv   bool   `json:"no_prov,omitempty"`
	State    string `json:"state"`
}

func (e *env) execDepUpdate(ci *caseIn, n int) (string, []core.Violation) {
	dir := filepath.Join(e.root, fmt.Sprintf("dep-%d", n))
	os.RemoveAll(dir)
	parent := filepath.Join(dir, "parent")
	os.MkdirAll(parent, 0o755)
	defer os.RemoveAll(dir)
	ringPath := filepath.Join(e.root, "rings", ci.RingName+".gpg")
	if err := e.setFile(ringPath, ci.RingBytes, false); err != nil {
		panic("c17 harness: " + err.Error())
	}
	files := map[string][]byte{}
	base, err := e.serve(files)
	if err != nil {
		panic("c17 harness: cannot listen on loopback: " + err.Error())
	}
	repoURL := base + "/deps"
	idx := repo.NewIndexFile()
	md := &chart.Metadata{APIVersion: "v2", Name: "parent", Version: "0.1.0"}
	accept := map[string]bool{}
	anyInvalid := false
	for _, d := range ci.Deps {
		files[d.ArchName] = d.Archive
		if !d.NoProv {
			files[d.ArchName+".prov"] = d.Prov
		}
		if err := idx.MustAdd(&chart.Metadata{APIVersion: "v2", Name: d.Name, Version: d.Version}, d.ArchName, repoURL, strings.TrimPrefix(digestOf(d.Archive), "sha256:")); err != nil {
			panic("c17 harness: index: " + err.Error())
		}
		md.Dependencies = append(md.Dependencies, &chart.Dependency{Name: d.Name, Version: d.Version, Repository: repoURL})
		v := reference(d.Archive, d.ArchName, d.Prov, d.NoProv, ci.RingBytes)
		accept[d.ArchName] = v.Accept
		if !v.Accept {
			anyInvalid = true
		}
	}
	idx.SortEntries()
	ib, _ := yaml.Marshal(idx)
	files["index.yaml"] = ib
	cb, _ := yaml.Marshal(md)
	os.WriteFile(filepath.Join(parent, "Chart.yaml"), cb, 0o644)

	m := &downloader.Manager{Out: io.Discard, ChartPath: parent, Verify: downloader.VerifyAlways, Keyring: ringPath,
		Getters: getter.All(e.settings), RepositoryConfig: filepath.Join(dir, "repositories.yaml"), RepositoryCache: filepath.Join(dir, "cache")}
	var uerr error
	func() {
		defer func() {
			if r := recover(); r != nil {
				uerr = fmt.Errorf("panic: %v", r)
			}
		}()
		uerr = m.Update()
	}()
	var vs []core.Violation
	viol := func(kind, what string) {
		// the key names the validity pattern of the dependency list, the text the concrete states
		var pat []string
		for _, d := range ci.Deps {
			if accept[d.ArchName] {
				pat = append(pat, "valid")
			} else {
				pat = append(pat, "invalid")
			}
		}
		vs = append(vs, core.Violation{Property: prop, Key: core.SanitizeKey("dep-update/" + kind + "/" + strings.Join(pat, ",") + "/Manager.Update(VerifyAlways)"),
			What: fmt.Sprintf("Manager.Update with VerifyAlways: %s [dependencies %s; keyring %s]", what, ci.Region, ci.Ring)})
	}
	errText := ""
	if uerr != nil {
		errText = strings.ReplaceAll(strings.ReplaceAll(uerr.Error(), base, "http://<loopback>"), dir, "<dir>")
	}
	if anyInvalid && uerr == nil {
		viol("accepts-invalid", "returns no error although the verification of a dependency must fail")
	}
	if !anyInvalid && uerr != nil {
		viol("rejects-valid", "fails with "+errText+" although every dependency is validly signed by a key of the ring")
	}
	des, _ := os.ReadDir(filepath.Join(parent, "charts"))
	left := 0
	for _, de := range des {
		if !strings.HasSuffix(de.Name(), ".tgz") {
			continue
		}
		left++
		b, _ := os.ReadFile(filepath.Join(parent, "charts", de.Name()))
		ok := false
		for _, d := range ci.Deps {
			if d.ArchName == de.Name() && bytes.Equal(d.Archive, b) && accept[d.ArchName] {
				ok = true
			}
		}
		if !ok {
			viol("unverified-archive-left-in-charts", fmt.Sprintf("charts/%s is an archive whose verification must fail (Update returned: %v)", de.Name(), errText))
		}
	}
	if !anyInvalid && uerr == nil && left != len(ci.Deps) {
		viol("dependencies-missing", fmt.Sprintf("succeeds but charts/ holds %d of %d archives", left, len(ci.Deps)))
	}
	switch {
	case uerr == nil:
		return "ok", vs
	case strings.HasPrefix(uerr.Error(), "panic"):
		return "panic", vs
	}
	return "error", vs
}

func (x *explorer) depUpdate() {
	f := x.f
	// dependencies: the two fixture charts signed by k0 (pairs 0 and 2)
	pa, pb := f.pairs[0], f.pairs[2]
	states := []string{"valid", "archive-bit-flipped", "prov-text-bit-flipped", "no-prov"}
	mk := func(p *pairInfo, st string) depItem {
		name := strings.TrimSuffix(p.Base, ".tgz")
		i := strings.LastIndex(name, "-")
		d := depItem{Name: name[:i], Version: name[i+1:], ArchName: p.Base, Archive: p.Archive, Prov: p.Prov, State: st}
		switch st {
		case "archive-bit-flipped":
			d.Archive = append([]byte{}, p.Archive...)
			d.Archive[4] ^= 1 // gzip header mtime: the archive still unpacks
		case "prov-text-bit-flipped":
			d.Prov = append([]byte{}, p.Prov...)
			d.Prov[bytes.Index(p.Prov, []byte("version:"))+9] ^= 1
		case "no-prov":
			d.Prov, d.NoProv = nil, true
		}
		return d
	}
	n := 0
	for _, order := range [][]*pairInfo{{pa, pb}, {pb, pa}} {
		for _, s0 := range states {
			for _, s1 := range states {
				for _, ri := range []int{0, 2} {
					if ri == 2 && !(s0 == "valid" && s1 == "valid") {
						continue
					}
					n++
					if !x.c.NextMine() {
						continue
					}
					rn := ringNames(0)[ri]
					ci := &caseIn{Family: "dep-update", Ring: ringKind(0, rn), RingName: rn, RingBytes: f.rings[rn], Root: f.root,
						Deps: []depItem{mk(order[0], s0), mk(order[1], s1)}}
					ci.Region = fmt.Sprintf("%s=%s,%s=%s", ci.Deps[0].Name, s0, ci.Deps[1].Name, s1)
					ci.Desc = "dependency update --verify: " + ci.Region
					x.c.Eval(1)
					x.c.Distinct(fmt.Sprintf("dep-update|%s|%d", ci.Region, ri))
					oc, vs := x.e.execDepUpdate(ci, n)
					invalid := s0 != "valid" || s1 != "valid" || ri == 2
					x.c.Outcome(fmt.Sprintf("dep-update:%s:any-invalid=%v", oc, invalid))
					if len(vs) == 0 {
						if invalid {
							x.c.Floor("dep-update-error-on-invalid")
							if s0 != "valid" && s1 == "valid" {
								x.c.Floor("dep-update-error-when-only-first-invalid")
							}
						} else {
							x.c.Floor("dep-update-ok-all-valid")
						}
					}
					for _, v := range vs {
						x.c.Violate(v.Property, v.Key, v.What, ci)
					}
					if len(vs) == 0 && n%7 == 0 {
						x.c.Sample(map[string]any{"family": "dep-update", "dependencies": ci.Region, "keyring": ci.Ring, "update": oc})
					}
				}
			}
		}
	}
}
