package c17

import (
	"bytes"
	"fmt"
	"os"
	"path/filepath"
	"sync"
	"sync/atomic"
	"syscall"
	"time"
	"unsafe"

	"verif/harness/internal/core"
)

// Family "reopen": archive and provenance are presented through named pipes
// whose k-th open yields the k-th content of a sequence (the last one for any
// further open). Nothing in Helm is changed: a feeder goroutine per pipe opens
// it for writing (which blocks until Helm opens it for reading), writes the
// content of that open and closes; it then waits until no descriptor of this
// process refers to the pipe any more (the reader has seen EOF and closed -
// /proc/self/fd, so a next reader that is still blocked in open is not mistaken
// for the old one) before it serves the next open. The order of events is
// therefore fixed by Helm's own sequence of opens, not by timing.
//
// Reference: what counts is what Helm was actually given. Acceptance is right
// only if every file was read at least once, every read of the provenance
// yielded one and the same content, every read of the archive yielded one and
// the same content, and the ordinary reference accepts that (archive,
// provenance, keyring).

type seqItem struct {
	Label      string `json:"label"`
	Bytes      []byte `json:"bytes"`
	OriginText []byte `json:"origin_text,omitempty"`
	OriginFP   string `json:"origin_fp,omitempty"`
}

type pipeFeed struct {
	path   string
	seq    []seqItem
	stop   atomic.Bool
	done   chan struct{}
	mu     sync.Mutex
	served []int // index into seq, one per open
}

func newPipeFeed(path string, seq []seqItem) (*pipeFeed, error) {
	os.Remove(path)
	if err := syscall.Mkfifo(path, 0o644); err != nil {
		return nil, err
	}
	p := &pipeFeed{path: path, seq: seq, done: make(chan struct{})}
	go p.feed()
	return p, nil
}

func (p *pipeFeed) feed() {
	defer close(p.done)
	for k := 0; ; k++ {
		fd, err := syscall.Open(p.path, syscall.O_WRONLY|syscall.O_CLOEXEC, 0) // blocks until a reader opens
		if err != nil {
			return
		}
		if p.stop.Load() {
			syscall.Close(fd)
			return
		}
		i := k
		if i >= len(p.seq) {
			i = len(p.seq) - 1
		}
		p.mu.Lock()
		p.served = append(p.served, i)
		p.mu.Unlock()
		b := p.seq[i].Bytes
		for len(b) > 0 {
			n, err := syscall.Write(fd, b)
			if err != nil {
				break
			}
			b = b[n:]
		}
		// 1. wait until the reader has taken everything out of the pipe: only then is
		//    its open certainly complete and its descriptor visible in /proc/self/fd
		//    (a reader is counted by the kernel before its descriptor is installed)
		for pipeUnread(fd) > 0 {
			if p.stop.Load() {
				syscall.Close(fd)
				return
			}
			time.Sleep(20 * time.Microsecond)
		}
		// 2. closing the last writer gives the reader its EOF
		syscall.Close(fd)
		// 3. wait until the reader has closed
		for pipeOpenInProcess(p.path) {
			if p.stop.Load() {
				return
			}
			time.Sleep(20 * time.Microsecond)
		}
	}
}

// pipeUnread returns the number of bytes written to the pipe and not yet read.
func pipeUnread(fd int) int {
	var n int32
	if _, _, e := syscall.Syscall(syscall.SYS_IOCTL, uintptr(fd), 0x541B /* FIONREAD */, uintptr(unsafe.Pointer(&n))); e != 0 {
		return 0
	}
	return int(n)
}

// pipeOpenInProcess reports whether a descriptor of this process refers to path.
func pipeOpenInProcess(path string) bool {
	des, err := os.ReadDir("/proc/self/fd")
	if err != nil {
		return false
	}
	for _, de := range des {
		if l, err := os.Readlink("/proc/self/fd/" + de.Name()); err == nil && l == path {
			return true
		}
	}
	return false
}

// shutdown ends the feeder (it is normally blocked waiting for a next reader).
func (p *pipeFeed) shutdown() bool {
	p.stop.Store(true)
	fd, err := syscall.Open(p.path, syscall.O_RDONLY|syscall.O_NONBLOCK|syscall.O_CLOEXEC, 0)
	ok := true
	select {
	case <-p.done:
	case <-time.After(10 * time.Second):
		ok = false
	}
	if err == nil {
		syscall.Close(fd)
	}
	return ok
}

func (p *pipeFeed) servedIdx() []int {
	p.mu.Lock()
	defer p.mu.Unlock()
	return append([]int{}, p.served...)
}

const reopenDeadline = 60 * time.Second

var reopenEntries = []string{"Signatory.Verify", "VerifyChart", "LocateChart", "action.Verify"}

type reopenResult struct {
	Entry      string
	O          obs
	ProvServed []int
	ArchServed []int
	V          verdict
	TimedOut   bool
}

// execReopen runs one reopen case through the entry points that take a local path.
func (e *env) execReopen(ci *caseIn, n int) ([]reopenResult, []core.Violation, error) {
	dir := filepath.Join(e.root, "w", fmt.Sprintf("reopen-%d", n))
	if err := os.MkdirAll(dir, 0o755); err != nil {
		return nil, nil, err
	}
	defer os.RemoveAll(dir)
	archPath := filepath.Join(dir, ci.ArchName)
	ringPath := filepath.Join(e.root, "rings", ci.RingName+".gpg")
	if err := e.setFile(ringPath, ci.RingBytes, false); err != nil {
		return nil, nil, err
	}
	var out []reopenResult
	byKey := map[string][]finding{}
	var gks []string
	for _, en := range reopenEntries {
		af, err := newPipeFeed(archPath, ci.ArchSeq)
		if err != nil {
			return nil, nil, err
		}
		pf, err := newPipeFeed(archPath+".prov", ci.ProvSeq)
		if err != nil {
			af.shutdown()
			return nil, nil, err
		}
		done := make(chan obs, 1)
		go func() { done <- e.runEntry(en, ci, archPath, ringPath) }()
		r := reopenResult{Entry: en}
		select {
		case r.O = <-done:
		case <-time.After(reopenDeadline):
			r.TimedOut = true
		}
		okA, okP := af.shutdown(), pf.shutdown()
		if r.TimedOut || !okA || !okP {
			r.TimedOut = true
			// release a reader that may be blocked in open: it will see an empty file
			for i := 0; i < 200; i++ {
				for _, p := range []string{archPath, archPath + ".prov"} {
					if fd, err := syscall.Open(p, syscall.O_WRONLY|syscall.O_NONBLOCK|syscall.O_CLOEXEC, 0); err == nil {
						syscall.Close(fd)
					}
				}
				select {
				case <-done:
					i = 200
				case <-time.After(10 * time.Millisecond):
				}
			}
			out = append(out, r)
			continue
		}
		r.O.Entry = en
		r.ProvServed, r.ArchServed = pf.servedIdx(), af.servedIdx()
		// what Helm was given decides
		jc := *ci
		jc.OriginText, jc.OriginFP = nil, ""
		switch {
		case len(r.ProvServed) == 0 || len(r.ArchServed) == 0:
			// e.g. a bad signature is rejected before the archive is looked at;
			// accepting without having read both files would be wrong
			r.V = verdict{Reason: "file-never-read"}
		case !sameContent(ci.ProvSeq, r.ProvServed) || !sameContent(ci.ArchSeq, r.ArchServed):
			r.V = verdict{Reason: "content-changed-between-reads"}
			jc.Archive, jc.Prov = ci.ArchSeq[r.ArchServed[len(r.ArchServed)-1]].Bytes, ci.ProvSeq[r.ProvServed[len(r.ProvServed)-1]].Bytes
		default:
			pi := ci.ProvSeq[r.ProvServed[0]]
			jc.Archive, jc.Prov, jc.OriginText, jc.OriginFP = ci.ArchSeq[r.ArchServed[0]].Bytes, pi.Bytes, pi.OriginText, pi.OriginFP
			r.V = reference(jc.Archive, ci.ArchName, jc.Prov, false, ci.RingBytes)
		}
		out = append(out, r)
		fs := judge(&jc, r.V, en, r.O)
		if len(fs) == 0 {
			continue
		}
		f0 := fs[0]
		for _, x := range fs[1:] {
			f0.What += "; also " + x.Kind + ": " + x.What
		}
		f0.What += fmt.Sprintf(" (opens: provenance %d, archive %d)", len(r.ProvServed), len(r.ArchServed))
		gk := ci.Family + "/" + f0.Kind + "/" + ci.Region
		if _, ok := byKey[gk]; !ok {
			gks = append(gks, gk)
		}
		byKey[gk] = append(byKey[gk], f0)
	}
	var vs []core.Violation
	for _, gk := range gks {
		fs := byKey[gk]
		ens := ""
		for i, f := range fs {
			if i > 0 {
				ens += "+"
			}
			ens += f.Entry
		}
		vs = append(vs, core.Violation{Property: prop, Key: core.SanitizeKey(gk + "/" + ens),
			What: fmt.Sprintf("%s: %s [case: %s; pair %s; keyring %s]", ens, fs[0].What, ci.Desc, ci.Pair, ci.Ring)})
	}
	return out, vs, nil
}

func sameContent(seq []seqItem, served []int) bool {
	for _, i := range served {
		if !bytes.Equal(seq[i].Bytes, seq[served[0]].Bytes) {
			return false
		}
	}
	return true
}

// reopenCases enumerates the family for one pair.
func (x *explorer) reopenCases(pi int) {
	f := x.f
	p := f.pairs[pi]
	other := f.keys[1-p.Key]
	tampered := append([]byte{}, p.Archive...)
	tampered[len(tampered)/2] ^= 1
	// forged provenance files vouching for the tampered archive
	unsigned := bytes.ReplaceAll(p.Prov, []byte(digestOf(p.Archive)), []byte(digestOf(tampered)))
	msg := bytes.ReplaceAll(p.Message, []byte(digestOf(p.Archive)), []byte(digestOf(tampered)))
	G := seqItem{Label: "genuine", Bytes: p.Prov, OriginText: p.Text, OriginFP: f.keys[p.Key].FP}
	F1 := seqItem{Label: "forged-unsigned", Bytes: unsigned}
	O := seqItem{Label: "original", Bytes: p.Archive}
	T := seqItem{Label: "tampered", Bytes: tampered}
	type sc struct {
		region string
		prov   []seqItem
		arch   []seqItem
	}
	mkCases := func(F2 seqItem) []sc {
		var cs []sc
		for _, a := range []seqItem{T, O} {
			for _, ps := range [][]seqItem{{G, F1}, {F1, G}, {G, F2}, {F2, G}, {G, G}, {F1, F1}, {F2, F2}} {
				cs = append(cs, sc{fmt.Sprintf("prov:%s,%s;archive:%s", ps[0].Label, ps[1].Label, a.Label), ps, []seqItem{a}})
			}
		}
		for _, as := range [][]seqItem{{O, T}, {T, O}, {O, O}, {T, T}} {
			for _, pv := range []seqItem{G, F1} {
				cs = append(cs, sc{fmt.Sprintf("archive:%s,%s;prov:%s", as[0].Label, as[1].Label, pv.Label), []seqItem{pv}, as})
			}
		}
		return cs
	}
	var f2 *seqItem
	for _, ri := range []int{0, 1} {
		ri := ri
		nCases := len(mkCases(seqItem{}))
		for ci := 0; ci < nCases; ci++ {
			ci := ci
			if !x.c.NextMine() {
				continue
			}
			if f2 == nil {
				prov, err := signPinned(other, msg, "reopen-forged/"+p.Base)
				if err != nil {
					panic("c17 harness: signing failed: " + err.Error())
				}
				txt := canonText(mustDecode(prov).Bytes)
				f2 = &seqItem{Label: "forged-signed-by-other-key", Bytes: prov, OriginText: txt, OriginFP: other.FP}
			}
			s := mkCases(*f2)[ci]
			cs := x.base(pi, ri, "reopen", "content differs per open ("+s.region+")")
			cs.Region, cs.ProvSeq, cs.ArchSeq = s.region, s.prov, s.arch
			cs.Archive, cs.Prov, cs.OriginText = nil, nil, nil
			x.runReopen(fmt.Sprintf("reopen|%d|%d|%s", pi, ri, s.region), cs)
		}
	}
}

func (x *explorer) runReopen(canon string, ci *caseIn) {
	c := x.c
	x.n++
	c.Eval(int64(len(reopenEntries)))
	c.Distinct(canon)
	rs, vs, err := x.e.execReopen(ci, x.n)
	if err != nil {
		c.NotExhaustive("reopen family: named pipes unavailable (%v); family skipped", err)
		return
	}
	trace := map[string]string{}
	for _, r := range rs {
		if r.TimedOut {
			// a harness deadline is never a violation; it is reported under its own name
			c.Outcome("reopen:deadline-exceeded")
			c.NotExhaustive("reopen/deadline-exceeded/%s: %s did not return within %s on %s", core.SanitizeKey(ci.Region), r.Entry, reopenDeadline, ci.Desc)
			continue
		}
		c.Outcome(fmt.Sprintf("reopen-opens:%s:prov=%d,archive=%d", r.Entry, len(r.ProvServed), len(r.ArchServed)))
		c.Outcome("reopen:" + r.V.Reason)
		if r.O.Panic != "" {
			c.Outcome("panic")
		}
		switch {
		case r.V.Accept && r.O.OK:
			c.Floor("reopen-accept")
		case !r.V.Accept && !r.O.OK:
			c.Floor("reopen-reject-" + r.V.Reason)
		}
		if len(r.ProvServed) == 1 && len(r.ArchServed) == 1 {
			c.Floor("reopen-one-open-per-file")
		}
		trace[r.Entry] = fmt.Sprintf("opens prov=%d archive=%d; reference %s; helm ok=%v %s", len(r.ProvServed), len(r.ArchServed), r.V.Reason, r.O.OK, r.O.Err)
	}
	for _, v := range vs {
		c.Violate(v.Property, v.Key, v.What, ci)
	}
	if len(vs) == 0 && x.n%5 == 0 {
		c.Sample(map[string]any{"family": "reopen", "case": ci.Desc, "pair": ci.Pair, "keyring": ci.Ring, "per_entry_point": trace})
	}
}
