package c05

// Confinement part of C05 (bullets (c) host isolation and (d) schema $ref of
// the design, plus the DNS probe of the Assumption bullet).
//
// Everything is a differential between runs of the *same* chart content under
// different host state ("worlds"): the value of a canary environment
// variable, the content of canary files outside the chart, the working
// directory. Chart content must not be able to tell the worlds apart.
//
//	confine.go         world (host state), dispatcher, replay
//	confine_funcs.go   every function of the live engine function map x canary argument tuples; env/expandenv; DNS; .Files
//	confine_schema.go  every $ref URL form x position x canary file state
//	confine_linkname.go  access to the engine's unexported funcMap()

import (
	"context"
	"encoding/json"
	"errors"
	"fmt"
	"net"
	"net/http"
	"os"
	"path/filepath"
	"strings"
	"sync/atomic"
	"time"

	"verif/harness/internal/core"
)

func init() {
	confineRun = cfRun
	confineReplay = cfReplay
}

// ---------- host state ----------

const cfEnvName = "CFCANARY"

// Tokens that exist only in host state. None of them is ever part of chart
// content, so seeing one in a render result means host state was read.
var (
	cfEnvVals        = [2]string{"cfenvval-alpha-5150", "cfenvval-bravo-7421"}
	cfFileVals       = [2]string{"cffileval-alpha-1207", "cffileval-bravo-9934"}
	cfCwdTok         = [2]string{"cfcwd-alpha-3386", "cfcwd-bravo-6612"}
	cfCwdFileVals    = [2]string{"cfcwdfile-alpha-4471", "cfcwdfile-bravo-8265"}
	cfParentFileVals = [2]string{"cfparentfile-alpha-2953", "cfparentfile-bravo-7708"}
)

// cfHost selects one of two values for each varied component of host state.
type cfHost struct{ Env, File, Cwd int }

var cfHostA, cfHostB = cfHost{0, 0, 0}, cfHost{1, 1, 1}

type cfWorld struct {
	root      string
	hostDir   string    // root/host: files "outside the chart"
	canaryTxt string    // root/host/canary.txt, content follows cfHost.File
	canaryJS  string    // root/host/canary.json, managed by the schema part
	chartsDir string    // root/charts: parent of the on-disk chart (holds "outside", "canary.txt")
	chartDir  string    // root/charts/mychart
	cwd       [2]string // root/<cwdTok>/work
	cur       cfHost
	applied   bool

	origCwd       string
	origEnv       string
	origEnvSet    bool
	origResolver  *net.Resolver
	origTransport http.RoundTripper
	origClientTr  http.RoundTripper
	dials         atomic.Int64
	httpReqs      atomic.Int64
	lastDial      atomic.Value
}

var cfWorldSeq atomic.Int64

func cfNewWorld() (*cfWorld, error) {
	w := &cfWorld{}
	w.root = fmt.Sprintf("/var/tmp/vc05c-w%d-%d", os.Getpid(), cfWorldSeq.Add(1))
	os.RemoveAll(w.root)
	w.hostDir = filepath.Join(w.root, "host")
	w.canaryTxt = filepath.Join(w.hostDir, "canary.txt")
	w.canaryJS = filepath.Join(w.hostDir, "canary.json")
	w.chartsDir = filepath.Join(w.root, "charts")
	w.chartDir = filepath.Join(w.chartsDir, "mychart")
	files := map[string]string{}
	for i := 0; i < 2; i++ {
		w.cwd[i] = filepath.Join(w.root, cfCwdTok[i], "work")
		files[filepath.Join(w.cwd[i], "canary.txt")] = cfCwdFileVals[i]
		files[filepath.Join(w.cwd[i], "outside")] = cfCwdFileVals[i]
		files[filepath.Join(w.root, cfCwdTok[i], "canary.txt")] = cfParentFileVals[i]
		files[filepath.Join(w.root, cfCwdTok[i], "outside")] = cfParentFileVals[i]
	}
	// the on-disk chart (for the loader.LoadDir source of the .Files probes)
	files[filepath.Join(w.chartDir, "Chart.yaml")] = "apiVersion: v2\nname: mychart\nversion: 0.1.0\n"
	files[filepath.Join(w.chartDir, "values.yaml")] = "t: \"\"\n"
	files[filepath.Join(w.chartDir, "templates", "t.yaml")] = "placeholder\n"
	for n, d := range cfChartFiles {
		files[filepath.Join(w.chartDir, n)] = d
	}
	if err := os.MkdirAll(w.hostDir, 0o755); err != nil {
		return nil, err
	}
	for p, d := range files {
		if err := os.MkdirAll(filepath.Dir(p), 0o755); err != nil {
			return nil, err
		}
		if err := os.WriteFile(p, []byte(d), 0o644); err != nil {
			return nil, err
		}
	}
	w.origCwd, _ = os.Getwd()
	w.origEnv, w.origEnvSet = os.LookupEnv(cfEnvName)

	// DNS: a pure-Go resolver whose every dial is recorded and refused, so a
	// lookup attempt is visible and nothing leaves the box.
	w.origResolver = net.DefaultResolver
	net.DefaultResolver = &net.Resolver{PreferGo: true, Dial: func(_ context.Context, network, address string) (net.Conn, error) {
		w.dials.Add(1)
		w.lastDial.Store(network + " " + address)
		return nil, errors.New("cf: resolver dial recorded and refused")
	}}
	// HTTP: whatever goes through the default transport/client is recorded and refused.
	w.origTransport = http.DefaultTransport
	w.origClientTr = http.DefaultClient.Transport
	rt := cfRecordingRT{w}
	http.DefaultTransport = rt
	http.DefaultClient.Transport = rt
	w.apply(cfHostA)
	return w, nil
}

type cfRecordingRT struct{ w *cfWorld }

func (r cfRecordingRT) RoundTrip(req *http.Request) (*http.Response, error) {
	r.w.httpReqs.Add(1)
	return nil, errors.New("cf: http request recorded and refused: " + req.URL.String())
}

// apply puts the process into host state h.
func (w *cfWorld) apply(h cfHost) {
	if !w.applied || w.cur.Env != h.Env {
		os.Setenv(cfEnvName, cfEnvVals[h.Env])
	}
	if !w.applied || w.cur.File != h.File {
		for _, p := range []string{w.canaryTxt, filepath.Join(w.chartsDir, "outside"), filepath.Join(w.chartsDir, "canary.txt")} {
			os.WriteFile(p, []byte(cfFileVals[h.File]), 0o644)
		}
	}
	if !w.applied || w.cur.Cwd != h.Cwd {
		os.Chdir(w.cwd[h.Cwd])
	}
	w.cur, w.applied = h, true
}

func (w *cfWorld) close() {
	net.DefaultResolver = w.origResolver
	http.DefaultTransport = w.origTransport
	http.DefaultClient.Transport = w.origClientTr
	if w.origCwd != "" {
		os.Chdir(w.origCwd)
	}
	if w.origEnvSet {
		os.Setenv(cfEnvName, w.origEnv)
	} else {
		os.Unsetenv(cfEnvName)
	}
	os.RemoveAll(w.root)
}

// cfLeak reports which class of host-only token occurs in s ("" = none).
func cfLeak(s string) string {
	if s == "" {
		return ""
	}
	l := strings.ToLower(s)
	for _, t := range []struct {
		class string
		vals  [2]string
	}{
		{"env-value", cfEnvVals}, {"file-content", cfFileVals}, {"cwd-name", cfCwdTok},
		{"cwd-file-content", cfCwdFileVals}, {"cwd-parent-file-content", cfParentFileVals},
	} {
		if strings.Contains(l, t.vals[0]) || strings.Contains(l, t.vals[1]) {
			return t.class
		}
	}
	return ""
}

// ---------- dispatcher ----------

// cfCase is the replay payload of every confinement case.
type cfCase struct {
	Kind   string        `json:"kind"` // defined | func | dns | files | schema
	Func   *cfFuncCase   `json:"func,omitempty"`
	DNS    *cfDNSCase    `json:"dns,omitempty"`
	Files  *cfFilesCase  `json:"files,omitempty"`
	Schema *cfSchemaCase `json:"schema,omitempty"`
	Action *cfActCase    `json:"action,omitempty"`
}

func cfWant(c *core.Ctx, sub string) bool {
	return c.Only == "" || c.Only == "confine" || c.Only == "confine-"+sub
}

func cfRun(c *core.Ctx) {
	if c.Only != "" && !strings.HasPrefix(c.Only, "confine") {
		return
	}
	w, err := cfNewWorld()
	if err != nil {
		c.NotExhaustive("confine: cannot build the canary world: %v", err)
		return
	}
	defer w.close()

	timed := func(name string, f func()) {
		t0 := time.Now()
		f()
		c.Count("confine_worker_wall_ms_"+name, time.Since(t0).Milliseconds())
	}
	ok := cfControls(c, w)
	if cfWant(c, "funcs") {
		timed("defined", func() { cfRunDefined(c, w) })
		timed("dns", func() { cfRunDNS(c, w) })
		timed("files", func() { cfRunFiles(c, w) })
		timed("funcs", func() { cfRunFuncs(c, w) })
		timed("actions", func() { cfRunActions(c, w) })
	}
	if cfWant(c, "schema") {
		timed("schema", func() { cfRunSchema(c, w) })
	}
	if n := w.httpReqs.Load(); n > 0 {
		c.Count("confine_http_requests_attempted", n)
	}
	c.SetExtra("confine_http_requests_attempted", w.httpReqs.Load() > 0)
	if ok {
		c.Floor("confine")
	}
}

func cfReplay(c *core.Ctx, data json.RawMessage) []core.Violation {
	var cs cfCase
	if err := json.Unmarshal(data, &cs); err != nil {
		return nil
	}
	w, err := cfNewWorld()
	if err != nil {
		return nil
	}
	defer w.close()
	switch {
	case cs.Kind == "defined" && cs.Func != nil:
		cfJudgeDefined(c, w, cs.Func.Func, cfLiveNames())
	case cs.Kind == "func" && cs.Func != nil:
		cfJudgeFunc(c, w, *cs.Func)
	case cs.Kind == "dns" && cs.DNS != nil:
		cfJudgeDNS(c, w, *cs.DNS)
	case cs.Kind == "files" && cs.Files != nil:
		cfJudgeFiles(c, w, *cs.Files)
	case cs.Kind == "schema" && cs.Schema != nil:
		cfJudgeSchema(c, w, *cs.Schema)
	case cs.Kind == "action" && cs.Action != nil:
		cfJudgeAction(c, w, *cs.Action)
	}
	return c.TakeViolations()
}

// cfControls runs the positive controls of the part in every worker (they are
// cheap): without them a silent harness (resolver hook not consulted, canary
// files not where the probes point, schema outcomes all alike) would look like
// a confined Helm. Returns false (and marks the run not exhaustive) when a
// control fails.
func cfControls(c *core.Ctx, w *cfWorld) bool {
	ok := true
	fail := func(format string, a ...any) {
		ok = false
		c.NotExhaustive("confine control failed: "+format, a...)
	}
	// 1. the canary world is readable by this process exactly where the probes point
	for _, h := range []cfHost{cfHostA, cfHostB} {
		w.apply(h)
		if b, _ := os.ReadFile(w.canaryTxt); string(b) != cfFileVals[h.File] {
			fail("canary file content is %q in world %v", b, h)
		}
		if b, _ := os.ReadFile("canary.txt"); string(b) != cfCwdFileVals[h.Cwd] {
			fail("cwd-relative canary content is %q in world %v", b, h)
		}
		if b, _ := os.ReadFile("../outside"); string(b) != cfParentFileVals[h.Cwd] {
			fail("../outside content is %q in world %v", b, h)
		}
		if os.Getenv(cfEnvName) != cfEnvVals[h.Env] || os.ExpandEnv("${"+cfEnvName+"}") != cfEnvVals[h.Env] {
			fail("canary environment variable not set in world %v", h)
		}
	}
	w.apply(cfHostA)
	// 2. the resolver hook sees a real lookup made with EnableDNS=true
	d0 := w.dials.Load()
	r := cfRenderText(w, cfEngine(true), `{{ getHostByName "canary.test" }}`, false)
	if w.dials.Load() == d0 {
		fail("EnableDNS=true getHostByName canary.test did not reach the recording resolver (result %q / %q)", r.Out, r.Err)
	} else {
		c.Floor("confine-dns-dial-seen")
	}
	// 3. a chart file is readable through .Files
	if r := cfRenderFiles(w, "mem", `{{ .Files.Get "a/x.txt" }}`, false); r.Out != cfChartFiles["a/x.txt"] {
		fail(".Files.Get of a chart file returned %q / %q", r.Out, r.Err)
	}
	if r := cfRenderFiles(w, "dir", `{{ .Files.Get "a/x.txt" }}`, false); r.Out != cfChartFiles["a/x.txt"] {
		fail(".Files.Get of a chart file (chart loaded from disk) returned %q / %q", r.Out, r.Err)
	}
	// 4. the schema entry points distinguish accept / reject / error on self-contained schemas
	if !cfSchemaControls(c, w) {
		ok = false
	}
	return ok
}
