package c05

import (
	"text/template"
	_ "unsafe" // go:linkname

	_ "helm.sh/helm/v4/pkg/engine"
)

// cfEngineFuncMap is the engine's own unexported funcMap() (pkg/engine/funcs.go),
// reached by symbol name so that the enumeration is over the live map and not
// over a list copied into the harness.
//
//go:linkname cfEngineFuncMap helm.sh/helm/v4/pkg/engine.funcMap
func cfEngineFuncMap() template.FuncMap
