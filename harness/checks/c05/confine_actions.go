package c05

import (
	"fmt"
	"io"

	"helm.sh/helm/v4/pkg/action"
	chart "helm.sh/helm/v4/pkg/chart/v2"
	chartutil "helm.sh/helm/v4/pkg/chart/v2/util"
	kubefake "helm.sh/helm/v4/pkg/kube/fake"
	"helm.sh/helm/v4/pkg/storage"
	"helm.sh/helm/v4/pkg/storage/driver"

	"verif/harness/internal/core"
	"verif/harness/internal/hx"
)

// The engine-level probes (confine_funcs.go) decide what a template can do with
// a given engine configuration. This section decides that every ACTION that
// renders hands the engine the configuration the caller asked for: for every
// rendering entry point x dry-run mode x EnableDNS, a chart calling
// getHostByName on the canary name must not reach the (recording, refusing)
// resolver unless EnableDNS was set, and must render the empty string.

type cfActCase struct {
	Entry     string `json:"entry"`   // install | upgrade
	DryRun    string `json:"dry_run"` // "" (real run) | client | server | client-only (helm template)
	EnableDNS bool   `json:"enable_dns"`
	Nested    bool   `json:"nested"`              // the call sits in a value rendered through tpl
	NoGetter  bool   `json:"no_getter,omitempty"` // Configuration without a RESTClientGetter (printing fake client)
}

func cfActChart(version string, nested bool) *chart.Chart {
	ch := &chart.Chart{Metadata: &chart.Metadata{Name: "dnsprobe", Version: version, APIVersion: "v2"}, Values: map[string]any{}}
	text := `{{ getHostByName "canary.test" | quote }}`
	if nested {
		ch.Values["t"] = text
		text = `{{ tpl .Values.t . }}`
	}
	ch.Templates = []*chart.File{{Name: "templates/cm.yaml", Data: []byte("apiVersion: v1\nkind: ConfigMap\nmetadata:\n  name: dnsprobe\ndata:\n  rev: \"" + version + "\"\n  host: " + text + "\n")}}
	return ch
}

func cfActRun(w *cfWorld, a cfActCase) (manifest string, dials int64, err error) {
	mem := driver.NewMemory()
	mem.SetNamespace("default")
	// the real kube.Client over the simulated API server, with a RESTClientGetter: this is the configuration in which
	// renderResources builds a cluster-aware engine (engine.New(restConfig)) instead of the zero Engine
	world := hx.NewWorld("memory")
	kc, getter := hx.NewKube(world.Sim, 0)
	cfg := &action.Configuration{KubeClient: kc, RESTClientGetter: getter, Releases: storage.Init(mem), Capabilities: chartutil.DefaultCapabilities.Copy()}
	if a.NoGetter {
		cfg = &action.Configuration{KubeClient: &kubefake.PrintingKubeClient{Out: io.Discard}, Releases: storage.Init(mem), Capabilities: chartutil.DefaultCapabilities}
	}
	setDry := func(dry *bool, opt *string, clientOnly *bool) {
		switch a.DryRun {
		case "client":
			*dry, *opt = true, "client"
		case "server":
			*dry, *opt = true, "server"
		case "client-only":
			*dry, *opt = true, "client"
			if clientOnly != nil {
				*clientOnly = true
			}
		}
	}
	if a.Entry == "upgrade" {
		// the deployed revision is produced with DNS off and is not part of the measurement
		first := action.NewInstall(cfg)
		first.ReleaseName, first.Namespace = "r", "default"
		if _, err := first.Run(cfActChart("1", a.Nested), map[string]any{}); err != nil {
			return "", 0, fmt.Errorf("setup install: %w", err)
		}
	}
	d0 := w.dials.Load()
	switch a.Entry {
	case "install":
		inst := action.NewInstall(cfg)
		inst.ReleaseName, inst.Namespace = "r", "default"
		inst.EnableDNS = a.EnableDNS
		setDry(&inst.DryRun, &inst.DryRunOption, &inst.ClientOnly)
		rel, e := inst.Run(cfActChart("1", a.Nested), map[string]any{})
		if rel != nil {
			manifest = rel.Manifest
		}
		err = e
	case "upgrade":
		up := action.NewUpgrade(cfg)
		up.Namespace = "default"
		up.EnableDNS = a.EnableDNS
		setDry(&up.DryRun, &up.DryRunOption, nil)
		rel, e := up.Run("r", cfActChart("2", a.Nested), map[string]any{})
		if rel != nil {
			manifest = rel.Manifest
		}
		err = e
	}
	return manifest, w.dials.Load() - d0, err
}

func cfJudgeAction(c *core.Ctx, w *cfWorld, a cfActCase) {
	manifest, dials, err := cfActRun(w, a)
	c.Eval(1)
	c.Distinct(fmt.Sprintf("act|%+v", a))
	cs := cfCase{Kind: "action", Action: &a}
	name := a.Entry
	if a.DryRun != "" {
		name += "[dry-run=" + a.DryRun + "]"
	}
	if !a.NoGetter {
		name += "[cluster-aware]"
	}
	if a.EnableDNS {
		// the recording resolver refuses every dial, so the lookup (and with it the render) fails here; what
		// counts is that the resolver was reached: the positive control of this section
		if dials > 0 {
			c.Outcome("action-dns:enabled-dialled")
			c.Floor("confine-actions-positive")
		} else {
			c.Outcome("action-dns:enabled-no-dial") // not judged: the statement only forbids lookups that were not enabled
		}
		return
	}
	if dials > 0 {
		ld, _ := w.lastDial.Load().(string)
		cfViolate(c, "action-dns-dial/"+name, fmt.Sprintf("%s of a chart calling getHostByName with EnableDNS=false made %d resolver dial(s) (last: %s): the action did not hand the caller's DNS setting to the engine (error: %v)", name, dials, ld, err), cs)
		return
	}
	if err != nil {
		c.Outcome("action-dns:error")
		c.NotExhaustive("confine/actions: %s failed on its own: %v", name, err)
		return
	}
	want := "host: \"\"\n"
	if !containsStr(manifest, want) {
		cfViolate(c, "action-dns-resolved/"+name, fmt.Sprintf("%s with EnableDNS=false must render getHostByName as the empty string; manifest: %q", name, manifest), cs)
		return
	}
	c.Outcome("action-dns:disabled-silent")
}

func containsStr(s, sub string) bool {
	for i := 0; i+len(sub) <= len(s); i++ {
		if s[i:i+len(sub)] == sub {
			return true
		}
	}
	return false
}

func cfActCases() []cfActCase {
	var out []cfActCase
	for _, entry := range []string{"install", "upgrade"} {
		for _, dry := range []string{"", "client", "server", "client-only"} {
			if entry == "upgrade" && dry == "client-only" {
				continue
			}
			for _, dns := range []bool{false, true} {
				for _, nested := range []bool{false, true} {
					for _, ng := range []bool{false, true} {
						out = append(out, cfActCase{Entry: entry, DryRun: dry, EnableDNS: dns, Nested: nested, NoGetter: ng})
					}
				}
			}
		}
	}
	return out
}

func cfRunActions(c *core.Ctx, w *cfWorld) {
	n := 0
	for _, a := range cfActCases() {
		if !c.NextMine() {
			continue
		}
		cfJudgeAction(c, w, a)
		n++
	}
	c.Count("confine_action_dns_cases", int64(n))
}
