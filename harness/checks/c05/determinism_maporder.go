//go:build maporder

package c05

import (
	"encoding/json"
	"fmt"
	"io"
	"os"
	"os/exec"
	"path/filepath"
	"runtime"
	"runtime/debug"
	"sort"
	"strings"

	"helm.sh/helm/v4/pkg/action"
	chart "helm.sh/helm/v4/pkg/chart/v2"
	chartutil "helm.sh/helm/v4/pkg/chart/v2/util"
	"helm.sh/helm/v4/pkg/engine"
	kubefake "helm.sh/helm/v4/pkg/kube/fake"
	"helm.sh/helm/v4/pkg/storage"
	"helm.sh/helm/v4/pkg/storage/driver"
	"helm.sh/helm/v4/pkg/vorder"

	"verif/harness/internal/core"
)

func init() {
	determinismRun = runDeterminism
	determinismReplay = replayDeterminism
}

// ---------- chart family ----------

func f(name, data string) *chart.File { return &chart.File{Name: name, Data: []byte(data)} }

func cm(name, body string) string {
	return "apiVersion: v1\nkind: ConfigMap\nmetadata:\n  name: " + name + "\ndata:\n" + body
}

func base(name string) *chart.Chart {
	return &chart.Chart{Metadata: &chart.Metadata{Name: name, Version: "0.1.0", APIVersion: "v2"}, Values: map[string]any{}}
}

type family struct {
	Name     string
	SubNotes bool
	Build    func() *chart.Chart
}

func sub(name string, files ...*chart.File) *chart.Chart {
	c := base(name)
	c.Templates = files
	return c
}

func families() []family {
	multiKind := func(c *chart.Chart) {
		c.Templates = append(c.Templates,
			f("templates/a.yaml", cm("a1", "  k: v\n")+"---\napiVersion: v1\nkind: Service\nmetadata:\n  name: s1\nspec:\n  ports:\n  - port: 80\n"),
			f("templates/b.yaml", "apiVersion: apps/v1\nkind: Deployment\nmetadata:\n  name: d1\n---\napiVersion: v1\nkind: Secret\nmetadata:\n  name: x1\n---\n"+cm("a2", "  k: w\n")),
			f("templates/sub/c.yaml", "apiVersion: v1\nkind: Namespace\nmetadata:\n  name: n1\n---\napiVersion: example.verif/v1\nkind: Widget\nmetadata:\n  name: w1\n"),
			f("templates/h1.yaml", "apiVersion: batch/v1\nkind: Job\nmetadata:\n  name: hj\n  annotations:\n    helm.sh/hook: pre-install\n---\napiVersion: v1\nkind: ConfigMap\nmetadata:\n  name: hc\n  annotations:\n    helm.sh/hook: pre-install,post-install\n    helm.sh/hook-weight: \"-1\"\n"),
			f("templates/h2.yaml", "apiVersion: v1\nkind: Pod\nmetadata:\n  name: hp\n  annotations:\n    helm.sh/hook: test\n---\napiVersion: v1\nkind: ConfigMap\nmetadata:\n  name: hc2\n  annotations:\n    helm.sh/hook: pre-install\n"))
	}
	dupDefine := func(c *chart.Chart) {
		c.Templates = append(c.Templates,
			f("templates/_a.tpl", `{{- define "x" -}}A{{- end -}}`),
			f("templates/_b.tpl", `{{- define "x" -}}B{{- end -}}`),
			f("templates/zz/_c.tpl", `{{- define "x" -}}C{{- end -}}`),
			f("templates/dd.yaml", cm("dd", `  x: {{ include "x" . | quote }}`+"\n")))
	}
	notes := func(c *chart.Chart) {
		c.Templates = append(c.Templates, f("templates/NOTES.txt", "root notes {{ .Release.Name }}\n"))
		c.AddDependency(sub("s1", f("templates/NOTES.txt", "s1 notes\n"), f("templates/s1.yaml", cm("s1cm", "  k: s1\n"))),
			sub("s2", f("templates/NOTES.txt", "s2 notes\n"), f("templates/s2.yaml", cm("s2cm", "  k: s2\n"))),
			sub("s3", f("templates/NOTES.txt", "s3 notes\n")))
	}
	tplInclude := func(c *chart.Chart) {
		c.Values["t"] = `{{ include "inner" . }}-{{ .Values.m.b }}`
		c.Values["m"] = map[string]any{"a": "1", "b": "2", "c": "3"}
		c.Templates = append(c.Templates,
			f("templates/_i.tpl", `{{- define "inner" -}}in-{{ .Values.m.a }}{{- end -}}{{- define "outer" -}}{{ tpl .Values.t . }}{{- end -}}`),
			f("templates/ti.yaml", cm("ti", `  o: {{ include "outer" . | quote }}`+"\n  m: {{ .Values.m | toJson | quote }}\n  r: \"{{ range $k, $v := .Values.m }}{{ $k }}={{ $v }};{{ end }}\"\n")))
	}
	files := func(c *chart.Chart) {
		c.Files = append(c.Files, f("a/x.txt", "from-a\n"), f("b/x.txt", "from-b\n"), f("c.txt", "l1\nl2\n"), f("d/y.txt", "y\n"))
		c.Templates = append(c.Templates, f("templates/fl.yaml",
			cm("fl", "  get: {{ .Files.Get \"a/x.txt\" | quote }}\n  lines: {{ .Files.Lines \"c.txt\" | toJson | quote }}\n  globbed: \"{{ range $p, $_ := .Files.Glob \"**\" }}{{ $p }};{{ end }}\"\n")+
				"---\napiVersion: v1\nkind: ConfigMap\nmetadata:\n  name: flc\ndata:\n{{ (.Files.Glob \"**/x.txt\").AsConfig | indent 2 }}\n"+
				"---\napiVersion: v1\nkind: Secret\nmetadata:\n  name: fls\ndata:\n{{ (.Files.Glob \"**/x.txt\").AsSecrets | indent 2 }}\n"))
	}
	subDefines := func(c *chart.Chart) {
		c.AddDependency(
			sub("d1", f("templates/_h.tpl", `{{- define "common.name" -}}from-d1{{- end -}}`), f("templates/u.yaml", cm("d1u", `  n: {{ include "common.name" . }}`+"\n"))),
			sub("d2", f("templates/_h.tpl", `{{- define "common.name" -}}from-d2{{- end -}}`), f("templates/u.yaml", cm("d2u", `  n: {{ include "common.name" . }}`+"\n"))))
		c.Templates = append(c.Templates, f("templates/ru.yaml", cm("ru", `  n: {{ include "common.name" . }}`+"\n")))
	}
	globals := func(c *chart.Chart) {
		c.Values["global"] = map[string]any{"g": "root", "t": map[string]any{"x": "1", "y": "2"}}
		g1 := sub("g1", f("templates/g.yaml", cm("g1cm", "  v: {{ .Values | toJson | quote }}\n")))
		g1.Values = map[string]any{"global": map[string]any{"g": "g1", "t": map[string]any{"z": "3"}}, "own": "g1"}
		g2 := sub("g2", f("templates/g.yaml", cm("g2cm", "  v: {{ .Values | toJson | quote }}\n")))
		g2.Values = map[string]any{"own": "g2", "m": map[string]any{"p": "1", "q": "2"}}
		g1.AddDependency(g2)
		c.AddDependency(g1)
		c.Values["g1"] = map[string]any{"own": "from-root", "g2": map[string]any{"own": "deep", "m": map[string]any{"q": "Q", "r": "R"}}}
	}
	importValues := func(c *chart.Chart) {
		e1 := sub("e1")
		e1.Values = map[string]any{"exports": map[string]any{"data": map[string]any{"shared": "e1", "only1": "1"}}}
		e2 := sub("e2")
		e2.Values = map[string]any{"exports": map[string]any{"data": map[string]any{"shared": "e2", "only2": "2"}}}
		c.Metadata.Dependencies = append(c.Metadata.Dependencies,
			&chart.Dependency{Name: "e1", Version: "*", ImportValues: []interface{}{"data"}},
			&chart.Dependency{Name: "e2", Version: "*", ImportValues: []interface{}{"data"}})
		c.AddDependency(e1, e2)
		c.Templates = append(c.Templates, f("templates/iv.yaml", cm("iv", "  v: {{ .Values | toJson | quote }}\n")))
	}
	twoFailing := func(c *chart.Chart) {
		// two template files that both fail: the reported error must not depend on execution order
		c.Templates = append(c.Templates, f("templates/fa.yaml", `{{ fail "A failed" }}`), f("templates/fb.yaml", `{{ fail "B failed" }}`), f("templates/ok.yaml", cm("ok", "  k: v\n")))
	}
	crossFile := func(c *chart.Chart) {
		// files of one chart share .Values: a file that writes it and files that read it make the
		// execution order of template files observable (it must be the sorted path order)
		c.Values["shared"] = "initial"
		c.Templates = append(c.Templates,
			f("templates/m1.yaml", cm("m1", "  before: {{ .Values.shared | quote }}\n")),
			f("templates/m2.yaml", `{{- $_ := set .Values "shared" "set-by-m2" -}}`+"\n"+cm("m2", "  wrote: \"yes\"\n")),
			f("templates/m3.yaml", cm("m3", "  after: {{ .Values.shared | quote }}\n")))
	}
	tplFails := func(c *chart.Chart) {
		// a tpl call that has produced output before it fails: nothing of it may survive into a later render
		c.Templates = append(c.Templates, f("templates/tf.yaml", cm("tf", `  o: {{ tpl "partial-output-{{ fail \"inner failure\" }}" . | quote }}`+"\n")))
	}
	listItems := func(c *chart.Chart) {
		// a template that edits the items of a list of tables from the chart's defaults: every render must
		// start from the chart's defaults, not from what an earlier render of the same chart object left there
		c.Values["containers"] = []any{map[string]any{"name": "app"}, map[string]any{"name": "side"}}
		c.Templates = append(c.Templates, f("templates/li.yaml",
			`{{- range .Values.containers }}{{ $_ := set . "name" (printf "%s-%s" $.Release.Name .name) }}{{ end -}}`+"\n"+
				cm("li", "  names: {{ .Values.containers | toJson | quote }}\n")))
	}
	// two charts whose values.schema.json share a $id but differ in content: whatever one render compiled must not
	// decide what a later render (or a sibling chart of the same render) is validated against
	schemaID := func(strict bool) func(*chart.Chart) {
		return func(c *chart.Chart) {
			typ := "integer"
			if strict {
				typ = "string"
			}
			c.Values["n"] = 1
			c.Schema = []byte(`{"$schema":"http://json-schema.org/draft-07/schema#","$id":"https://verif.test/schemas/values.json","type":"object","properties":{"n":{"type":"` + typ + `"}}}`)
			c.Templates = append(c.Templates, f("templates/sid.yaml", cm("sid", "  n: {{ .Values.n | quote }}\n")))
		}
	}
	siblingSchemas := func(c *chart.Chart) {
		mk := func(name, typ string) *chart.Chart {
			s := sub(name, f("templates/s.yaml", cm(name+"cm", "  n: {{ .Values.n | quote }}\n")))
			s.Values = map[string]any{"n": 1}
			s.Schema = []byte(`{"$id":"https://verif.test/schemas/sub.json","type":"object","properties":{"n":{"type":"` + typ + `"}}}`)
			return s
		}
		c.AddDependency(mk("sa", "integer"), mk("sb", "string"))
	}
	caps := func(c *chart.Chart) {
		c.Templates = append(c.Templates, f("templates/caps.yaml", cm("caps", "  hasA: {{ .Capabilities.APIVersions.Has \"verif.a/v1\" | quote }}\n  hasB: {{ .Capabilities.APIVersions.Has \"verif.b/v1\" | quote }}\n  kube: {{ .Capabilities.KubeVersion.Version | quote }}\n  rel: {{ .Release.Name | quote }}\n")))
	}
	mk := func(fs ...func(*chart.Chart)) func() *chart.Chart {
		return func() *chart.Chart {
			c := base("root")
			for _, fn := range fs {
				fn(c)
			}
			return c
		}
	}
	single := map[string]func(*chart.Chart){"schema-id-lenient": schemaID(false), "schema-id-strict": schemaID(true), "sibling-schemas-same-id": siblingSchemas, "edits-default-list-items": listItems, "tpl-fails-midway": tplFails, "two-failing": twoFailing, "cross-file-values": crossFile, "capabilities": caps, "multi-kind": multiKind, "dup-define": dupDefine, "notes": notes, "tpl-include": tplInclude, "files": files,
		"sub-defines": subDefines, "globals": globals, "import-values": importValues}
	var names []string
	for n := range single {
		names = append(names, n)
	}
	sort.Strings(names)
	var out []family
	for _, n := range names {
		out = append(out, family{Name: n, Build: mk(single[n]), SubNotes: n == "notes"})
	}
	out = append(out,
		family{Name: "notes-nosub", Build: mk(notes)},
		family{Name: "multi-kind+files", Build: mk(multiKind, files)},
		family{Name: "dup-define+sub-defines", Build: mk(dupDefine, subDefines)},
		family{Name: "globals+import-values+tpl", Build: mk(globals, importValues, tplInclude), SubNotes: true},
		family{Name: "all", Build: mk(multiKind, dupDefine, notes, tplInclude, files, subDefines, globals, importValues), SubNotes: true})
	return out
}

var valueSets = []map[string]any{
	nil,
	{"m": map[string]any{"a": "x", "d": "4"}, "global": map[string]any{"g": "user"}},
	{"g1": map[string]any{"g2": map[string]any{"m": map[string]any{"p": "P"}}}, "e1": map[string]any{"exports": map[string]any{"data": map[string]any{"shared": "user"}}}},
}

// ---------- one execution ----------

type outputs struct {
	Manifest string
	Hooks    string
	Notes    string
	Render   string
	Err      string
}

func copyVals(v map[string]any) map[string]any {
	if v == nil {
		return map[string]any{}
	}
	b, _ := json.Marshal(v)
	var o map[string]any
	json.Unmarshal(b, &o)
	return o
}

type variant struct {
	Family  int   `json:"family"`
	Values  int   `json:"values"`
	Reuse   bool  `json:"reuse,omitempty"`    // the outputs are those of a SECOND use of the same chart objects and values map
	TplPerm []int `json:"tpl_perm,omitempty"` // permutation of the root chart's Templates
	FilPerm []int `json:"file_perm,omitempty"`
	DepPerm []int `json:"dep_perm,omitempty"`
}

func permuteSlice[T any](xs []T, p []int) []T {
	if len(p) != len(xs) {
		return xs
	}
	out := make([]T, len(xs))
	for i, j := range p {
		out[i] = xs[j]
	}
	return out
}

func execute(fams []family, v variant, plan map[int]int) (outputs, []vorder.Occ) {
	fam := fams[v.Family]
	var o outputs
	vorder.Begin(plan)
	func() {
		defer func() {
			if p := recover(); p != nil {
				o.Err = fmt.Sprintf("PANIC: %v", p)
			}
		}()
		build := func() *chart.Chart {
			ch := fam.Build()
			ch.Templates = permuteSlice(ch.Templates, v.TplPerm)
			ch.Files = permuteSlice(ch.Files, v.FilPerm)
			if deps := ch.Dependencies(); len(v.DepPerm) == len(deps) && len(deps) > 0 {
				ch.SetDependencies(permuteSlice(deps, v.DepPerm)...)
			}
			return ch
		}
		// (A) dry-run client-only install through the real action
		cfg := &action.Configuration{}
		inst := action.NewInstall(cfg)
		inst.ClientOnly, inst.DryRun = true, true
		inst.ReleaseName, inst.Namespace = "r", "default"
		inst.SubNotes = fam.SubNotes
		chA, valsA := build(), copyVals(valueSets[v.Values])
		if v.Reuse {
			// first use of the very objects the judged run gets (a loaded chart installed twice in one process)
			first := action.NewInstall(&action.Configuration{})
			first.ClientOnly, first.DryRun = true, true
			first.ReleaseName, first.Namespace = "r", "default"
			first.SubNotes = fam.SubNotes
			first.Run(chA, valsA)
		}
		rel, err := inst.Run(chA, valsA)
		if err != nil {
			o.Err = "install: " + err.Error()
		}
		if rel != nil {
			o.Manifest = rel.Manifest
			var hs []string
			for _, h := range rel.Hooks {
				hs = append(hs, fmt.Sprintf("%s|%s|%v|%d|%s", h.Path, h.Name, h.Events, h.Weight, h.Manifest))
			}
			o.Hooks = strings.Join(hs, "\n#\n")
			if rel.Info != nil {
				o.Notes = rel.Info.Notes
			}
		}
		// (B) engine.Render directly
		ch := build()
		vals := copyVals(valueSets[v.Values])
		if err := chartutil.ProcessDependencies(ch, vals); err != nil {
			o.Render = "deps: " + err.Error()
			return
		}
		ropts := chartutil.ReleaseOptions{Name: "r", Namespace: "default", Revision: 1, IsInstall: true}
		if v.Reuse {
			if rv0, err := chartutil.ToRenderValues(ch, vals, ropts, chartutil.DefaultCapabilities); err == nil {
				engine.Render(ch, rv0)
			}
		}
		rv, err := chartutil.ToRenderValues(ch, vals, ropts, chartutil.DefaultCapabilities)
		if err != nil {
			o.Render = "values: " + err.Error()
			return
		}
		files, err := engine.Render(ch, rv)
		if err != nil {
			o.Render = "render: " + err.Error()
			return
		}
		var ks []string
		for k := range files {
			ks = append(ks, k)
		}
		sort.Strings(ks)
		var sb strings.Builder
		for _, k := range ks {
			sb.WriteString("## " + k + "\n" + files[k] + "\n")
		}
		o.Render = sb.String()
	}()
	return o, vorder.End()
}

func diffField(a, b outputs) string {
	switch {
	case a.Err != b.Err:
		return "error"
	case a.Manifest != b.Manifest:
		return "manifest"
	case a.Hooks != b.Hooks:
		return "hooks"
	case a.Notes != b.Notes:
		return "notes"
	case a.Render != b.Render:
		return "render"
	}
	return ""
}

func firstDiff(a, b string) string {
	i := 0
	for i < len(a) && i < len(b) && a[i] == b[i] {
		i++
	}
	lo := max(0, i-40)
	return fmt.Sprintf("default …%q… deviated …%q…", a[lo:min(len(a), i+60)], b[lo:min(len(b), i+60)])
}

func fieldOf(o outputs, name string) string {
	switch name {
	case "manifest":
		return o.Manifest
	case "hooks":
		return o.Hooks
	case "notes":
		return o.Notes
	case "render":
		return o.Render
	}
	return o.Err
}

type detReplay struct {
	FreshWant string      `json:"fresh_want,omitempty"` // hash the same variant produced late in a long-running worker
	Fresh     bool        `json:"fresh,omitempty"`      // only compute Variant's outputs in this (fresh) process and report their hash
	After     *variant    `json:"after,omitempty"`      // history independence: Variant rendered after this one
	CapsReuse []string    `json:"caps_reuse,omitempty"`
	Variant   variant     `json:"variant"`
	Base      variant     `json:"base"`
	Plan      map[int]int `json:"plan"`
	Key       string      `json:"key"`
}

// judge compares a deviated execution with its baseline and returns a violation or nil.
func judge(fams []family, base variant, v variant, plan map[int]int, occs []vorder.Occ, o0, o outputs) *core.Violation {
	d := diffField(o0, o)
	if d == "" {
		return nil
	}
	var cause []string
	for i := range plan {
		if i < len(occs) {
			cause = append(cause, occs[i].Site)
		}
	}
	sort.Strings(cause)
	kind := "map-order:" + strings.Join(cause, "+")
	if len(plan) == 0 {
		switch {
		case v.TplPerm != nil:
			kind = "template-file-order"
		case v.FilPerm != nil:
			kind = "files-order"
		case v.DepPerm != nil:
			kind = "dependency-order"
		case v.Reuse:
			kind = "second-use-of-the-same-chart-object"
		default:
			kind = "repetition"
		}
	}
	key := core.SanitizeKey(fmt.Sprintf("determinism|%s|output=%s|feature=%s", kind, d, fams[v.Family].Name))
	b, _ := json.Marshal(wrap("determinism", detReplay{Variant: v, Base: base, Plan: plan, Key: key}))
	return &core.Violation{Property: prop, Key: key,
		What:   fmt.Sprintf("%s of chart family %q (values set %d) depends on %s: %s", d, fams[v.Family].Name, v.Values, kind, firstDiff(fieldOf(o0, d), fieldOf(o, d))),
		Replay: b}
}

func replayDeterminism(c *core.Ctx, data json.RawMessage) []core.Violation {
	var rd detReplay
	if err := json.Unmarshal(data, &rd); err != nil {
		return nil
	}
	fams := families()
	if len(rd.CapsReuse) == 2 {
		first, third := capsReuse(fams, rd.Variant.Family, rd.CapsReuse[0], rd.CapsReuse[1])
		if first != third {
			return core.FilterKey([]core.Violation{{Property: prop, Key: rd.Key, What: firstDiff(first, third), Replay: data}}, rd.Key)
		}
		return nil
	}
	if rd.Fresh {
		o, _ := execute(fams, rd.Variant, nil)
		return []core.Violation{{Property: prop, Key: "fresh|" + outputsHash(o), What: "outputs of a fresh process", Replay: data}}
	}
	if rd.FreshWant != "" {
		// a violation found by the fresh-process comparison: this process IS a fresh one
		o, _ := execute(fams, rd.Variant, nil)
		if h := outputsHash(o); h != rd.FreshWant {
			return core.FilterKey([]core.Violation{{Property: prop, Key: rd.Key, What: "fresh process gives " + h + ", the long-running worker gave " + rd.FreshWant, Replay: data}}, rd.Key)
		}
		return nil
	}
	if rd.After != nil {
		if v := afterProbe(fams, *rd.After, rd.Variant, nil); v != nil {
			return core.FilterKey([]core.Violation{*v}, rd.Key)
		}
		return nil
	}
	o0, occs := execute(fams, rd.Base, nil)
	o, occs2 := execute(fams, rd.Variant, rd.Plan)
	if len(occs2) > len(occs) {
		occs = occs2
	}
	if v := judge(fams, rd.Base, rd.Variant, rd.Plan, occs, o0, o); v != nil {
		return core.FilterKey([]core.Violation{*v}, rd.Key)
	}
	return nil
}

func allPerms(n int) [][]int {
	if n > 4 {
		var out [][]int
		for r := 1; r < n; r++ {
			p := make([]int, n)
			for i := range p {
				p[i] = (i + r) % n
			}
			out = append(out, p)
		}
		rev := make([]int, n)
		for i := range rev {
			rev[i] = n - 1 - i
		}
		return append(out, rev)
	}
	var out [][]int
	var rec func(cur []int, used []bool)
	rec = func(cur []int, used []bool) {
		if len(cur) == n {
			id := true
			for i, x := range cur {
				if x != i {
					id = false
				}
			}
			if !id {
				out = append(out, append([]int{}, cur...))
			}
			return
		}
		for i := 0; i < n; i++ {
			if !used[i] {
				used[i] = true
				rec(append(cur, i), used)
				used[i] = false
			}
		}
	}
	rec(nil, make([]bool, n))
	return out
}

// capsReuse renders with configuration A (client-only, one extra API version),
// then with an unrelated configuration B (another extra API version), then again
// with A as a cluster dry run that reuses A's cached capabilities: the third
// output must equal the first (same chart, values, release options, capabilities).
func capsReuse(fams []family, famIdx int, extraA, extraB string) (string, string) {
	render := func(cfg *action.Configuration, clientOnly bool, api string) string {
		inst := action.NewInstall(cfg)
		inst.ClientOnly, inst.DryRun = clientOnly, true
		inst.ReleaseName, inst.Namespace = "r", "default"
		if api != "" {
			inst.APIVersions = chartutil.VersionSet{api}
		}
		rel, err := inst.Run(fams[famIdx].Build(), map[string]any{})
		if err != nil {
			return "error: " + err.Error()
		}
		return rel.Manifest
	}
	newCfg := func() *action.Configuration {
		mem := driver.NewMemory()
		mem.SetNamespace("default")
		return &action.Configuration{KubeClient: &kubefake.PrintingKubeClient{Out: io.Discard}, Releases: storage.Init(mem)}
	}
	cfgA, cfgB := newCfg(), newCfg()
	first := render(cfgA, true, extraA)
	_ = render(cfgB, true, extraB)
	third := render(cfgA, false, "")
	return first, third
}

func outputsHash(o outputs) string {
	return core.ShortHash([]byte(o.Manifest + "\x00" + o.Hooks + "\x00" + o.Notes + "\x00" + o.Render + "\x00" + o.Err))
}

// freshHash computes the outputs of v in a NEW process (the harness binary's own replay mode) and returns their hash.
func freshHash(v variant) (string, error) {
	self, err := os.Executable()
	if err != nil {
		return "", err
	}
	dir, err := os.MkdirTemp("/var/tmp", "vc05-fresh-")
	if err != nil {
		return "", err
	}
	defer os.RemoveAll(dir)
	rb, _ := json.Marshal(wrap("determinism", detReplay{Fresh: true, Variant: v, Base: v}))
	vb, _ := json.Marshal(core.Violation{Property: prop, Key: "fresh", Replay: rb})
	file := filepath.Join(dir, "fresh.json")
	if err := os.WriteFile(file, vb, 0o644); err != nil {
		return "", err
	}
	out, _ := exec.Command(self, "replay", file, "--quiet").CombinedOutput()
	for _, l := range strings.Split(string(out), "\n") {
		if i := strings.Index(l, `"fresh|`); strings.HasPrefix(l, "REPLAY-OBSERVATION ") && i >= 0 {
			rest := l[i+len(`"fresh|`):]
			if j := strings.Index(rest, `"`); j >= 0 {
				return rest[:j], nil
			}
		}
	}
	return "", fmt.Errorf("no observation from the fresh process: %s", firstLine(string(out)))
}

func firstLine(s string) string {
	if i := strings.Index(s, "\n"); i >= 0 {
		return s[:i]
	}
	return s
}

// afterProbe renders y, then x, then y again in one process on one P (so that
// process-wide caches and pools behave deterministically) and requires the
// two outputs of y to be equal: a render must not depend on what was rendered
// before it. base, when given, is y's output from before any probe.
func afterProbe(fams []family, x, y variant, base *outputs) *core.Violation {
	old := runtime.GOMAXPROCS(1)
	gc := debug.SetGCPercent(-1)
	defer func() { debug.SetGCPercent(gc); runtime.GOMAXPROCS(old) }()
	var o0 outputs
	if base != nil {
		o0 = *base
	} else {
		o0, _ = execute(fams, y, nil)
	}
	execute(fams, x, nil)
	o, _ := execute(fams, y, nil)
	d := diffField(o0, o)
	if d == "" {
		return nil
	}
	key := core.SanitizeKey(fmt.Sprintf("determinism|previous-render|output=%s|feature=%s", d, fams[y.Family].Name))
	b, _ := json.Marshal(wrap("determinism", detReplay{After: &x, Variant: y, Base: y, Key: key}))
	return &core.Violation{Property: prop, Key: key,
		What:   fmt.Sprintf("%s of chart family %q (values set %d) differs when family %q (values set %d) was rendered before it in the same process: %s", d, fams[y.Family].Name, y.Values, fams[x.Family].Name, x.Values, firstDiff(fieldOf(o0, d), fieldOf(o, d))),
		Replay: b}
}

func runDeterminism(c *core.Ctx) {
	fams := families()
	// history independence: every ordered pair of (family, values set)
	{
		var vs []variant
		for fi := range fams {
			for vi := range valueSets {
				vs = append(vs, variant{Family: fi, Values: vi})
			}
		}
		var bases []outputs
		pairs := 0
		for xi, x := range vs {
			if !c.NextMine() {
				continue
			}
			if bases == nil {
				for _, y := range vs {
					o, _ := execute(fams, y, nil)
					bases = append(bases, o)
				}
			}
			for yi, y := range vs {
				v := afterProbe(fams, x, y, &bases[yi])
				c.Eval(2)
				pairs++
				c.Distinct(fmt.Sprintf("after|%d|%d", xi, yi))
				if v != nil {
					c.Violate(prop, v.Key, v.What, json.RawMessage(v.Replay))
					c.Outcome("after-probe:output-differs")
				} else {
					c.Outcome("after-probe:same-output")
				}
			}
		}
		// fresh-process comparison: after everything above has run in this worker, every variant's output must still be
		// what a brand-new process produces for it (a process-wide cache that the FIRST use poisons for good is invisible
		// to comparisons made inside one process)
		for xi, x := range vs {
			if bases == nil || !c.Mine(int64(xi)) {
				continue
			}
			late, _ := execute(fams, x, nil)
			fresh, err := freshHash(x)
			c.Eval(2)
			if err != nil {
				c.NotExhaustive("determinism: fresh-process baseline of family %s unavailable: %v", fams[x.Family].Name, err)
				continue
			}
			c.Floor("fresh-process")
			if lh := outputsHash(late); lh != fresh {
				key := core.SanitizeKey(fmt.Sprintf("determinism|long-running-process|feature=%s", fams[x.Family].Name))
				b, _ := json.Marshal(wrap("determinism", detReplay{FreshWant: lh, Variant: x, Base: x, Key: key}))
				c.Violate(prop, key, fmt.Sprintf("chart family %q (values set %d): a worker that had rendered other charts before produces different outputs (hash %s) than a fresh process (hash %s); error in the worker: %q", fams[x.Family].Name, x.Values, lh, fresh, late.Err), json.RawMessage(b))
				c.Outcome("fresh-process:differs")
			} else {
				c.Outcome("fresh-process:same")
			}
		}
		c.Count("history_independence_ordered_pairs", int64(pairs))
		if pairs > 0 {
			c.Floor("history-independence")
		}
	}
	for fi := range fams {
		if fams[fi].Name != "capabilities" || !c.Mine(int64(fi)) {
			continue
		}
		for _, pair := range [][2]string{{"verif.a/v1", "verif.b/v1"}, {"verif.b/v1", "verif.a/v1"}} {
			first, third := capsReuse(fams, fi, pair[0], pair[1])
			c.Eval(3)
			c.Distinct("caps-reuse|" + pair[0])
			if first != third {
				key := "determinism|repetition-with-cached-capabilities|output=manifest|feature=capabilities"
				b, _ := json.Marshal(wrap("determinism", detReplay{Key: key, CapsReuse: []string{pair[0], pair[1]}, Variant: variant{Family: fi}, Base: variant{Family: fi}}))
				c.Violate(prop, key, fmt.Sprintf("a second render with the same configuration (cached capabilities incl. %s) differs after an unrelated render with %s: %s", pair[0], pair[1], firstDiff(first, third)), json.RawMessage(b))
			} else {
				c.Outcome("caps-reuse:same-output")
			}
		}
	}
	maxDev := 1
	if c.Thorough() {
		maxDev = 2
	}
	c.Bound("map_order_deviations", fmt.Sprint(maxDev))
	if p := os.Getenv("VERIF_MAPORDER_SITES"); p != "" {
		if b, err := os.ReadFile(p); err == nil {
			var s struct {
				Sites []struct {
					ID string `json:"id"`
				} `json:"sites"`
				Sync map[string][]string `json:"sync_constructs"`
			}
			json.Unmarshal(b, &s)
			var ids []string
			for _, x := range s.Sites {
				ids = append(ids, x.ID)
			}
			c.SetExtra("range_over_map_sites", ids)
			c.SetExtra("engine_sync_constructs", len(s.Sync["helm.sh/helm/v4/pkg/engine"]))
		}
	}
	seamLive := false
	var bigPairs [][2]int
	report := func(v *core.Violation) {
		if v != nil {
			c.Violate(prop, v.Key, v.What, json.RawMessage(v.Replay))
		}
	}
	for fi := range fams {
		for vi := range valueSets {
			if !c.NextMine() {
				continue
			}
			baseV := variant{Family: fi, Values: vi}
			o0, occs := execute(fams, baseV, nil)
			c.Eval(1)
			c.Outcome("baseline:" + map[bool]string{true: "ok", false: "error"}[o0.Err == ""])
			// repetition
			o1, _ := execute(fams, baseV, nil)
			c.Eval(1)
			report(judge(fams, baseV, baseV, nil, occs, o0, o1))
			// the same chart objects and values map used twice
			reuseV := variant{Family: fi, Values: vi, Reuse: true}
			o2, _ := execute(fams, reuseV, nil)
			c.Eval(1)
			c.Distinct(fmt.Sprintf("%d|%d|reuse", fi, vi))
			report(judge(fams, baseV, reuseV, nil, occs, o0, o2))
			// one deviation at every occurrence, every permutation
			type dev struct{ occ, perm int }
			var devs []dev
			for i, oc := range occs {
				for p := 1; p < vorder.Perms(oc.N); p++ {
					devs = append(devs, dev{i, p})
				}
			}
			for _, d := range devs {
				plan := map[int]int{d.occ: d.perm}
				o, occs2 := execute(fams, baseV, plan)
				c.Eval(1)
				c.Distinct(fmt.Sprintf("%d|%d|%v", fi, vi, plan))
				if len(occs2) != len(occs) {
					seamLive = true // the deviation changed control flow
				}
				if v := judge(fams, baseV, baseV, plan, occs, o0, o); v != nil {
					report(v)
					c.Outcome("deviation:output-differs")
				} else {
					c.Outcome("deviation:same-output")
				}
			}
			if maxDev >= 2 && len(devs) > 120 {
				bigPairs = append(bigPairs, [2]int{fi, vi}) // their pair space is spread over all shards below
			}
			if maxDev >= 2 && len(devs) <= 120 {
				for a := 0; a < len(devs); a++ {
					for b := a + 1; b < len(devs); b++ {
						if devs[a].occ == devs[b].occ {
							continue
						}
						plan := map[int]int{devs[a].occ: devs[a].perm, devs[b].occ: devs[b].perm}
						o, _ := execute(fams, baseV, plan)
						c.Eval(1)
						c.Distinct(fmt.Sprintf("%d|%d|%v", fi, vi, plan))
						report(judge(fams, baseV, baseV, plan, occs, o0, o))
					}
				}
			}
			if len(devs) > 0 {
				c.Floor("determinism")
				seamLive = true
			}
			// file-order variants: every permutation of templates / files / dependencies of the root chart
			ch := fams[fi].Build()
			for _, p := range allPerms(len(ch.Templates)) {
				v := variant{Family: fi, Values: vi, TplPerm: p}
				o, _ := execute(fams, v, nil)
				c.Eval(1)
				c.Distinct(fmt.Sprintf("%d|%d|tpl%v", fi, vi, p))
				report(judge(fams, baseV, v, nil, occs, o0, o))
			}
			for _, p := range allPerms(len(ch.Files)) {
				v := variant{Family: fi, Values: vi, FilPerm: p}
				o, _ := execute(fams, v, nil)
				c.Eval(1)
				c.Distinct(fmt.Sprintf("%d|%d|fil%v", fi, vi, p))
				report(judge(fams, baseV, v, nil, occs, o0, o))
			}
			for _, p := range allPerms(len(ch.Dependencies())) {
				v := variant{Family: fi, Values: vi, DepPerm: p}
				o, _ := execute(fams, v, nil)
				c.Eval(1)
				c.Distinct(fmt.Sprintf("%d|%d|dep%v", fi, vi, p))
				report(judge(fams, baseV, v, nil, occs, o0, o))
			}
			if fi == len(fams)-1 && vi == 0 {
				var sites []string
				for _, oc := range occs {
					sites = append(sites, fmt.Sprintf("%s(n=%d)", oc.Site, oc.N))
				}
				c.Sample(map[string]any{"part": "determinism", "chart_family": fams[fi].Name, "values_set": vi, "dynamic_map_ranges": sites, "single_deviation_executions": len(devs)})
			}
		}
	}
	// pairs of deviations of the families with many single deviations: every shard recomputes the baseline (one
	// execution) and takes every Shards-th pair, so that one family does not pin one worker for minutes
	if maxDev >= 2 {
		for fi := range fams {
			for vi := range valueSets {
				baseV := variant{Family: fi, Values: vi}
				o0, occs := execute(fams, baseV, nil)
				type dev struct{ occ, perm int }
				var devs []dev
				for i, oc := range occs {
					for p := 1; p < vorder.Perms(oc.N); p++ {
						devs = append(devs, dev{i, p})
					}
				}
				if len(devs) <= 120 {
					continue
				}
				if len(devs) > 800 {
					if c.Shard == 0 {
						c.Note("determinism: pairs of deviations skipped for family %s (values %d): %d single deviations", fams[fi].Name, vi, len(devs))
					}
					continue
				}
				k := int64(0)
				for a := 0; a < len(devs); a++ {
					for b := a + 1; b < len(devs); b++ {
						if devs[a].occ == devs[b].occ {
							continue
						}
						k++
						if !c.Mine(k) {
							continue
						}
						plan := map[int]int{devs[a].occ: devs[a].perm, devs[b].occ: devs[b].perm}
						o, _ := execute(fams, baseV, plan)
						c.Eval(1)
						c.Distinct(fmt.Sprintf("%d|%d|%v", fi, vi, plan))
						report(judge(fams, baseV, baseV, plan, occs, o0, o))
					}
				}
				c.Floor("determinism-pairs-big-families")
			}
		}
	}
	_ = bigPairs
	if !seamLive {
		c.Note("determinism: no occurrence with >= 2 keys seen in this shard")
	}
}
