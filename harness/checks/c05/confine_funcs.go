package c05

// Host isolation of templates: every function of the engine's live function
// map x canary argument tuples, env/expandenv undefined, getHostByName / DNS,
// and .Files access. See confine.go for the world the probes run in.

import (
	"fmt"
	"os"
	"path/filepath"
	"reflect"
	"regexp"
	"sort"
	"strconv"
	"strings"

	chart "helm.sh/helm/v4/pkg/chart/v2"
	"helm.sh/helm/v4/pkg/chart/v2/loader"
	chartutil "helm.sh/helm/v4/pkg/chart/v2/util"
	"helm.sh/helm/v4/pkg/engine"

	"verif/harness/internal/core"
)

// ---------- rendering ----------

type cfRes struct {
	Out string `json:"out"`
	Err string `json:"err"`
}

func (r cfRes) String() string {
	if r.Err != "" {
		return "error " + strconv.Quote(cfClip(r.Err))
	}
	return "output " + strconv.Quote(cfClip(r.Out))
}

func cfClip(s string) string {
	if len(s) > 160 {
		return s[:160] + "..."
	}
	return s
}

func cfEngine(dns bool) engine.Engine { return engine.Engine{EnableDNS: dns} }

const cfTplName = "templates/t.yaml"
const cfNestedOuter = `{{ tpl .Values.t . }}`

func cfRenderChart(eng engine.Engine, ch *chart.Chart, text string, nested bool) (res cfRes) {
	defer func() {
		if r := recover(); r != nil {
			res = cfRes{Err: fmt.Sprintf("PANIC: %v", r)}
		}
	}()
	src := text
	if nested {
		src = cfNestedOuter
	}
	ch.Templates = []*chart.File{{Name: cfTplName, Data: []byte(src)}}
	vals := chartutil.Values{
		"Values":       map[string]any{"t": text},
		"Release":      map[string]any{"Name": "r", "Namespace": "ns", "Service": "Helm"},
		"Capabilities": chartutil.DefaultCapabilities,
	}
	out, err := eng.Render(ch, vals)
	if err != nil {
		return cfRes{Err: err.Error()}
	}
	return cfRes{Out: out[ch.Name()+"/"+cfTplName]}
}

// cfRenderText renders one template text (directly, or through tpl) in a chart without files.
func cfRenderText(_ *cfWorld, eng engine.Engine, text string, nested bool) cfRes {
	ch := &chart.Chart{Metadata: &chart.Metadata{Name: "cf", Version: "0.1.0", APIVersion: "v2"}}
	return cfRenderChart(eng, ch, text, nested)
}

// cfChartFiles are the chart's own files of the .Files probes.
var cfChartFiles = map[string]string{
	"a/x.txt": "chart-a-x\nsecond",
	"b.txt":   "chart-b",
}

// cfRenderFiles renders text in a chart that owns cfChartFiles; source "mem"
// builds the chart in memory, "dir" loads it from disk with the real loader
// (the chart directory has siblings "outside" and "canary.txt").
func cfRenderFiles(w *cfWorld, source, text string, nested bool) cfRes {
	var ch *chart.Chart
	if source == "dir" {
		var err error
		ch, err = loader.LoadDir(w.chartDir)
		if err != nil {
			return cfRes{Err: "LOAD: " + err.Error()}
		}
	} else {
		ch = &chart.Chart{Metadata: &chart.Metadata{Name: "mychart", Version: "0.1.0", APIVersion: "v2"}}
		names := make([]string, 0, len(cfChartFiles))
		for n := range cfChartFiles {
			names = append(names, n)
		}
		sort.Strings(names)
		for _, n := range names {
			ch.Files = append(ch.Files, &chart.File{Name: n, Data: []byte(cfChartFiles[n])})
		}
	}
	return cfRenderChart(cfEngine(false), ch, text, nested)
}

// ---------- the function names ----------

// cfBuiltins are text/template's own predefined functions: not part of the
// engine's map but callable from every template, so they are probed as well.
var cfBuiltins = []string{"and", "call", "html", "index", "slice", "js", "len", "not", "or", "print", "printf", "println", "urlquery", "eq", "ge", "gt", "le", "lt", "ne"}

// cfMustBeUndefined: the statement says chart content cannot read environment variables.
var cfMustBeUndefined = []string{"env", "expandenv"}

func cfLiveNames() []string {
	m := cfEngineFuncMap()
	out := make([]string, 0, len(m))
	for k := range m {
		out = append(out, k)
	}
	sort.Strings(out)
	return out
}

func cfContains(xs []string, s string) bool {
	for _, x := range xs {
		if x == s {
			return true
		}
	}
	return false
}

// cfIsDefined probes whether a template may call name, by rendering {{ name }}
// through the real engine (directly, and nested in tpl).
func cfIsDefined(w *cfWorld, name string) (direct, nested bool) {
	und := fmt.Sprintf("function %q not defined", name)
	text := "{{ " + name + " }}"
	d := cfRenderText(w, cfEngine(false), text, false)
	n := cfRenderText(w, cfEngine(false), text, true)
	return !strings.Contains(d.Err, und), !strings.Contains(n.Err, und)
}

func cfCandidates() []string {
	seen := map[string]bool{}
	var out []string
	for _, l := range [][]string{cfLiveNames(), cfBuiltins, cfMustBeUndefined} {
		for _, n := range l {
			if !seen[n] {
				seen[n] = true
				out = append(out, n)
			}
		}
	}
	sort.Strings(out)
	return out
}

func cfJudgeDefined(c *core.Ctx, w *cfWorld, name string, live []string) {
	w.apply(cfHostA)
	d, n := cfIsDefined(w, name)
	cs := cfCase{Kind: "defined", Func: &cfFuncCase{Func: name}}
	switch {
	case cfContains(cfMustBeUndefined, name):
		if d || n {
			cfViolate(c, "defined/"+name, fmt.Sprintf("template function %q is callable from chart templates (direct=%v, inside tpl=%v); it reads the process environment", name, d, n), cs)
			c.Outcome("defined:forbidden-name-defined")
		} else {
			c.Outcome("defined:forbidden-name-undefined")
			c.Floor("confine-env-undefined")
		}
	case cfContains(live, name) && !(d && n):
		c.NotExhaustive("confine: %q is in engine.funcMap() but {{ %s }} says not defined (direct=%v nested=%v): the enumerated map is not the map templates see", name, name, d, n)
		c.Outcome("defined:live-name-undefined")
	case d && n:
		c.Outcome("defined:yes")
	default:
		c.Outcome("defined:no")
	}
}

func cfRunDefined(c *core.Ctx, w *cfWorld) {
	live := cfLiveNames()
	for _, name := range cfCandidates() {
		if !c.NextMine() {
			continue
		}
		c.Eval(1)
		cfJudgeDefined(c, w, name, live)
	}
}

// ---------- function x argument tuples ----------

type cfFuncCase struct {
	Func  string `json:"func"`
	Atoms []int  `json:"atoms,omitempty"`
}

// The first six atoms are the quick tier; the thorough tier adds a relative
// path (resolved against the varied working directory), a host name that is
// not in /etc/hosts, and the integer 1 (so that functions with integer
// parameters - repeat, trunc, randAlpha, genCA ... - are really invoked).
var cfAtomNames = []string{"envname", "$env", "${env}", "path", "fileurl", "localhost", "relpath", "host", "int1"}

func cfAtom(w *cfWorld, i int) string {
	switch i {
	case 0:
		return cfEnvName
	case 1:
		return "$" + cfEnvName
	case 2:
		return "${" + cfEnvName + "}"
	case 3:
		return w.canaryTxt
	case 4:
		return "file://" + w.canaryTxt
	case 5:
		return "localhost"
	case 6:
		return "canary.txt"
	case 7:
		return "canary.test"
	case 8:
		return "1"
	}
	return ""
}

// cfAtomLit is the atom as a template literal.
func cfAtomLit(w *cfWorld, i int) string {
	if cfAtomNames[i] == "int1" {
		return cfAtom(w, i)
	}
	return strconv.Quote(cfAtom(w, i))
}

func (fc cfFuncCase) canon() string {
	parts := []string{fc.Func}
	for _, a := range fc.Atoms {
		parts = append(parts, cfAtomNames[a])
	}
	return strings.Join(parts, " ")
}

func cfCallText(w *cfWorld, fc cfFuncCase) string {
	var sb strings.Builder
	sb.WriteString("{{ " + fc.Func)
	for _, a := range fc.Atoms {
		sb.WriteString(" " + cfAtomLit(w, a))
	}
	sb.WriteString(" }}")
	return sb.String()
}

// cfImpure: functions whose result is by design not a function of their
// arguments (sprig's random / key-generating / clock-reading functions; the
// design's Assumption bullet). They are exempt from the identical-output
// oracle but not from the canary-token oracle.
func cfImpure(name string) bool {
	if strings.HasPrefix(name, "rand") || strings.HasPrefix(name, "gen") {
		return true
	}
	switch name {
	// random / salted (observed to differ between two renders in one host state: uuidv4 shuffle bcrypt htpasswd encryptAES)
	case "uuidv4", "shuffle", "bcrypt", "htpasswd", "encryptAES",
		// read the clock (observed: now date dateInZone date_in_zone; the others of the family only at coarser granularity)
		"now", "ago", "date", "dateInZone", "date_in_zone", "htmlDate", "htmlDateInZone", "durationRound":
		return true
	}
	return false
}

func cfViolate(c *core.Ctx, key, what string, cs cfCase) {
	c.Violate(prop, core.SanitizeKey("confine/"+key), what, wrap("confine", cs))
}

func cfFuncOutcome(r cfRes) (class string, invoked bool) {
	switch {
	case strings.Contains(r.Err, "wrong number of args"):
		return "func:wrong-arity", false
	case strings.Contains(r.Err, "not defined"):
		return "func:undefined", false
	case strings.Contains(r.Err, "parse error"):
		return "func:parse-error", false
	case strings.HasPrefix(r.Err, "PANIC"):
		return "func:panic", true
	case r.Err != "":
		return "func:call-error", true
	case r.Out == "":
		return "func:empty-output", true
	}
	return "func:output", true
}

// cfFuncObs is what one function case showed under the two host states,
// rendered directly ([.][0]) and inside tpl ([.][1]).
type cfFuncObs struct {
	fc    cfFuncCase
	text  string
	r     [2][2]cfRes
	dials int64
}

// cfFuncExec renders a batch of cases under host state A, then all of them
// under host state B (switching host state costs system calls, rendering does not).
func cfFuncExec(w *cfWorld, fcs []cfFuncCase) []cfFuncObs {
	eng := cfEngine(false)
	obs := make([]cfFuncObs, len(fcs))
	for i, fc := range fcs {
		obs[i].fc, obs[i].text = fc, cfCallText(w, fc)
	}
	for hi, h := range [2]cfHost{cfHostA, cfHostB} {
		w.apply(h)
		for i := range obs {
			d0 := w.dials.Load()
			obs[i].r[hi][0] = cfRenderText(w, eng, obs[i].text, false)
			obs[i].r[hi][1] = cfRenderText(w, eng, obs[i].text, true)
			obs[i].dials += w.dials.Load() - d0
		}
	}
	return obs
}

func cfJudgeFunc(c *core.Ctx, w *cfWorld, fc cfFuncCase) (class string, invoked bool) {
	return cfJudgeFuncObs(c, w, cfFuncExec(w, []cfFuncCase{fc})[0])
}

func cfJudgeFuncObs(c *core.Ctx, w *cfWorld, o cfFuncObs) (class string, invoked bool) {
	fc, text, r := o.fc, o.text, o.r
	eng := cfEngine(false)
	cs := cfCase{Kind: "func", Func: &fc}
	forms := [2]string{"direct", "inside tpl"}
	if o.dials > 0 {
		ld, _ := w.lastDial.Load().(string)
		cfViolate(c, "dns-dial/"+fc.Func, fmt.Sprintf("rendering %s with EnableDNS=false made %d resolver dial(s) (last: %s)", cfShow(w, text), o.dials, ld), cs)
	}
	// One violation per case: the first symptom in the order host-dependent >
	// leak > nondeterministic names the key, all symptoms go into the text.
	var key string
	var symptoms, nondet []string
	add := func(k, what string) {
		if key == "" {
			key = k
		}
		symptoms = append(symptoms, what)
	}
	for f := 0; f < 2; f++ {
		if cfImpure(fc.Func) || r[0][f] == r[1][f] {
			continue
		}
		// Attribute the difference: same world again (non-determinism), then one component at a time.
		w.apply(cfHostA)
		again := cfRenderText(w, eng, text, f == 1)
		if again != r[0][f] {
			nondet = append(nondet, fmt.Sprintf("%s: two renders under identical host state differ: %s vs %s (the function is not in the declared impure set)", forms[f], r[0][f], again))
			continue
		}
		var comps []string
		for _, p := range []struct {
			name string
			h    cfHost
		}{{"env", cfHost{1, 0, 0}}, {"file", cfHost{0, 1, 0}}, {"cwd", cfHost{0, 0, 1}}} {
			w.apply(p.h)
			if cfRenderText(w, eng, text, f == 1) != r[0][f] {
				comps = append(comps, p.name)
			}
		}
		if len(comps) == 0 {
			comps = []string{"combination"}
		}
		add("host-dependent-"+strings.Join(comps, "+"), fmt.Sprintf("%s: depends on host %s: %s with one host state, %s with another", forms[f], strings.Join(comps, "+"), r[0][f], r[1][f]))
	}
	for f := 0; f < 2; f++ {
		for hi := 0; hi < 2; hi++ {
			if cl := cfLeak(r[hi][f].Out + "\x00" + r[hi][f].Err); cl != "" {
				add("leak-"+cl, fmt.Sprintf("%s: result contains host %s: %s", forms[f], cl, r[hi][f]))
				break
			}
		}
	}
	for _, n := range nondet {
		add("nondeterministic", n)
	}
	if key != "" {
		cfViolate(c, "func/"+fc.Func+"/"+key, fmt.Sprintf("rendering %s: %s", cfShow(w, text), strings.Join(symptoms, "; ")), cs)
	}
	return cfFuncOutcome(r[0][0])
}

// cfShow replaces the per-process world root in a text shown to people.
func cfShow(w *cfWorld, s string) string {
	s = strings.ReplaceAll(s, w.root, "<world>")
	return strings.ReplaceAll(s, strings.TrimPrefix(w.root, "/"), "<world-without-leading-slash>")
}

// cfTuples enumerates all tuples of length n over atoms 0..k-1 in lexicographic order.
func cfTuples(k, n int) [][]int {
	out := [][]int{{}}
	for i := 0; i < n; i++ {
		var next [][]int
		for _, t := range out {
			for a := 0; a < k; a++ {
				nt := append(append([]int{}, t...), a)
				next = append(next, nt)
			}
		}
		out = next
	}
	return out
}

func cfRunFuncs(c *core.Ctx, w *cfWorld) {
	// names: everything that is defined for a template among the live map, the
	// builtins and the forbidden names (computed identically by every worker).
	var names []string
	w.apply(cfHostA)
	for _, n := range cfCandidates() {
		if d, nn := cfIsDefined(w, n); d || nn {
			names = append(names, n)
		}
	}
	live := cfEngineFuncMap()
	atoms, maxArity := 6, 3
	if c.Thorough() {
		atoms = len(cfAtomNames)
	}
	c.Bound("confine.funcs.names", strconv.Itoa(len(names)))
	c.Bound("confine.funcs.live_map", strconv.Itoa(len(live)))
	c.Bound("confine.funcs.atoms", strings.Join(cfAtomNames[:atoms], ","))
	c.Bound("confine.funcs.arity", "0-3 for every function, plus the exact arity of every function taking 4-6 arguments over {envname,path}")
	sampled := 0
	var batch []cfFuncCase
	flush := func() {
		for _, o := range cfFuncExec(w, batch) {
			class, invoked := cfJudgeFuncObs(c, w, o)
			c.Outcome(class)
			if !invoked {
				continue
			}
			c.Distinct("func " + o.fc.canon())
			if class == "func:output" {
				c.Floor("confine-func-output")
				if sampled < 3 {
					sampled++
					c.Sample(map[string]any{"part": "confine", "case": o.fc.canon(), "template": cfShow(w, o.text), "class": class, "output": cfClip(cfShow(w, o.r[0][0].Out))})
				}
			}
		}
		batch = batch[:0]
	}
	runCase := func(fc cfFuncCase) {
		if !c.NextMine() {
			return
		}
		c.Eval(1)
		batch = append(batch, fc)
		if len(batch) >= 512 {
			flush()
		}
	}
	for n := 0; n <= maxArity; n++ {
		tuples := cfTuples(atoms, n)
		for _, name := range names {
			for _, t := range tuples {
				runCase(cfFuncCase{Func: name, Atoms: t})
			}
		}
	}
	// functions that cannot be reached with <= 3 arguments: their exact arity over two atoms
	two := []int{0, 3}
	for _, name := range names {
		fn, ok := live[name]
		if !ok {
			continue
		}
		t := reflect.TypeOf(fn)
		if t.Kind() != reflect.Func || t.IsVariadic() || t.NumIn() < 4 || t.NumIn() > 6 {
			continue
		}
		for _, tup := range cfTuples(2, t.NumIn()) {
			at := make([]int, len(tup))
			for i, x := range tup {
				at[i] = two[x]
			}
			runCase(cfFuncCase{Func: name, Atoms: at})
		}
	}
	flush()
}

// ---------- DNS ----------

type cfDNSCase struct {
	Host      string `json:"host"` // localhost | canary.test | 127.0.0.1 | envname
	Form      string `json:"form"` // direct | pipe | nested
	EnableDNS bool   `json:"enable_dns"`
}

func cfDNSText(d cfDNSCase) (string, bool) {
	h := d.Host
	if h == "envname" {
		h = cfEnvName
	}
	switch d.Form {
	case "pipe":
		return "{{ " + strconv.Quote(h) + " | getHostByName }}", false
	case "nested":
		return "{{ getHostByName " + strconv.Quote(h) + " }}", true
	}
	return "{{ getHostByName " + strconv.Quote(h) + " }}", false
}

func cfJudgeDNS(c *core.Ctx, w *cfWorld, d cfDNSCase) string {
	text, nested := cfDNSText(d)
	cs := cfCase{Kind: "dns", DNS: &d}
	var r [2]cfRes
	d0 := w.dials.Load()
	for hi, h := range [2]cfHost{cfHostA, cfHostB} {
		w.apply(h)
		r[hi] = cfRenderText(w, cfEngine(d.EnableDNS), text, nested)
	}
	dials := w.dials.Load() - d0
	if d.EnableDNS {
		// explicitly enabled: no oracle, only the positive control
		if dials > 0 {
			c.Floor("confine-dns-dial-seen")
			return "dns:enabled-dialed"
		}
		return "dns:enabled-no-dial"
	}
	bad := false
	if dials > 0 {
		ld, _ := w.lastDial.Load().(string)
		cfViolate(c, "dns-dial/getHostByName", fmt.Sprintf("%s (%s) with EnableDNS=false attempted %d resolver dial(s) (last: %s)", text, d.Form, dials, ld), cs)
		bad = true
	}
	for hi := 0; hi < 2; hi++ {
		if r[hi].Out != "" || r[hi].Err != "" {
			cfViolate(c, "dns-resolved/getHostByName", fmt.Sprintf("%s (%s) with EnableDNS=false must yield the empty string, got %s", text, d.Form, r[hi]), cs)
			bad = true
			break
		}
	}
	if bad {
		return "dns:disabled-violated"
	}
	return "dns:disabled-empty"
}

func cfRunDNS(c *core.Ctx, w *cfWorld) {
	for _, en := range []bool{false, true} {
		for _, form := range []string{"direct", "pipe", "nested"} {
			for _, host := range []string{"localhost", "canary.test", "127.0.0.1", "envname"} {
				if !c.NextMine() {
					continue
				}
				d := cfDNSCase{Host: host, Form: form, EnableDNS: en}
				c.Eval(1)
				c.Distinct(fmt.Sprintf("dns %s %s %v", host, form, en))
				c.Outcome(cfJudgeDNS(c, w, d))
			}
		}
	}
}

// ---------- .Files ----------

type cfFilesCase struct {
	Source string `json:"source"` // mem | dir
	Access string `json:"access"`
	Path   string `json:"path"` // symbolic, see cfFilesPath
	Nested bool   `json:"nested"`
}

var cfFilesAccess = []string{"get", "getbytes", "index", "lines", "glob", "asconfig", "assecrets"}

var cfFilesPaths = []string{"chart-file", "chart-file2", "empty", "missing", "template", "chart-yaml", "values-yaml",
	"outside-parent", "canary-parent", "canary-cwd", "canary-cwd-dot", "canary-abs", "canary-url", "chart-escape",
	"star", "star2", "abs-star2", "parent-star2", "hostdir-star2", "any-canary"}

func cfFilesPath(w *cfWorld, sym string) string {
	switch sym {
	case "chart-file":
		return "a/x.txt"
	case "chart-file2":
		return "b.txt"
	case "empty":
		return ""
	case "missing":
		return "nope.txt"
	case "template":
		return cfTplName
	case "chart-yaml":
		return "Chart.yaml"
	case "values-yaml":
		return "values.yaml"
	case "outside-parent":
		return "../outside"
	case "canary-parent":
		return "../canary.txt"
	case "canary-cwd":
		return "canary.txt"
	case "canary-cwd-dot":
		return "./canary.txt"
	case "canary-abs":
		return w.canaryTxt
	case "canary-url":
		return "file://" + w.canaryTxt
	case "chart-escape":
		return "a/../../outside"
	case "star":
		return "*"
	case "star2":
		return "**"
	case "abs-star2":
		return "/**"
	case "parent-star2":
		return "../**"
	case "hostdir-star2":
		return w.hostDir + "/**"
	case "any-canary":
		return "**/canary.txt"
	}
	return sym
}

func cfFilesText(access, p string) string {
	q := strconv.Quote(p)
	switch access {
	case "get":
		return `{{ .Files.Get ` + q + ` }}`
	case "getbytes":
		return `{{ printf "%s" (.Files.GetBytes ` + q + `) }}`
	case "index":
		return `{{ with index .Files ` + q + ` }}{{ printf "%s" . }}{{ end }}`
	case "lines":
		return `{{ range .Files.Lines ` + q + ` }}[{{ . }}]{{ end }}`
	case "glob":
		return `{{ range $k, $v := .Files.Glob ` + q + ` }}[{{ $k }}={{ printf "%s" $v }}]{{ end }}`
	case "asconfig":
		return `{{ range $k, $v := (.Files.Glob ` + q + `).AsConfig | fromYaml }}[{{ $k }}={{ $v }}]{{ end }}`
	case "assecrets":
		return `{{ range $k, $v := (.Files.Glob ` + q + `).AsSecrets | fromYaml }}[{{ $k }}={{ $v | b64dec }}]{{ end }}`
	}
	return ""
}

var cfItemRe = regexp.MustCompile(`(?s)\[([^=\]]*)=([^\]]*)\]`)

// cfOwnFiles lists what the chart owns, independently of Helm: for the
// in-memory chart the files put there; for the on-disk chart every regular
// file below the chart directory (relative, slash separated).
func cfOwnFiles(w *cfWorld, source string) map[string]string {
	if source != "dir" {
		return cfChartFiles
	}
	own := map[string]string{}
	filepath.Walk(w.chartDir, func(p string, info os.FileInfo, err error) error {
		if err == nil && info.Mode().IsRegular() {
			rel, _ := filepath.Rel(w.chartDir, p)
			b, _ := os.ReadFile(p)
			own[filepath.ToSlash(rel)] = string(b)
		}
		return nil
	})
	return own
}

// cfFilesAllowed is the reference: is out something the chart's own files can explain?
func cfFilesAllowed(own map[string]string, fc cfFilesCase, p, out string) (bool, string) {
	switch fc.Access {
	case "get", "getbytes", "index":
		if out == "" {
			return true, ""
		}
		if d, ok := own[p]; ok && d == out {
			return true, ""
		}
		return false, "non-empty result that is not the content of the chart's own file of that exact name"
	case "lines":
		if out == "" {
			return true, ""
		}
		if d, ok := own[p]; ok {
			want := ""
			for _, l := range strings.Split(strings.TrimSuffix(d, "\n"), "\n") {
				want += "[" + l + "]"
			}
			if want == out {
				return true, ""
			}
		}
		return false, "lines that are not the lines of the chart's own file of that exact name"
	default: // glob, asconfig, assecrets: a list of [name=content] items
		rest := cfItemRe.ReplaceAllStringFunc(out, func(item string) string {
			m := cfItemRe.FindStringSubmatch(item)
			name, data := m[1], m[2]
			for n, d := range own {
				if d != data {
					continue
				}
				if n == name || (fc.Access != "glob" && filepath.Base(n) == name) {
					return ""
				}
			}
			return item
		})
		if rest == "" {
			return true, ""
		}
		return false, "items that are not files of the chart: " + strconv.Quote(cfClip(rest))
	}
}

func cfJudgeFiles(c *core.Ctx, w *cfWorld, fc cfFilesCase) string {
	p := cfFilesPath(w, fc.Path)
	text := cfFilesText(fc.Access, p)
	cs := cfCase{Kind: "files", Files: &fc}
	own := cfOwnFiles(w, fc.Source)
	form := "direct"
	if fc.Nested {
		form = "inside tpl"
	}
	var r [2]cfRes
	for hi, h := range [2]cfHost{cfHostA, cfHostB} {
		w.apply(h)
		r[hi] = cfRenderFiles(w, fc.Source, text, fc.Nested)
	}
	var symptoms []string
	if r[0] != r[1] {
		symptoms = append(symptoms, fmt.Sprintf("depends on host state: %s vs %s", r[0], r[1]))
	}
	for hi := 0; hi < 2; hi++ {
		if cl := cfLeak(r[hi].Out + "\x00" + r[hi].Err); cl != "" {
			symptoms = append(symptoms, fmt.Sprintf("result contains host %s: %s", cl, r[hi]))
			break
		}
	}
	if r[0].Err == "" {
		if ok, why := cfFilesAllowed(own, fc, p, r[0].Out); !ok {
			symptoms = append(symptoms, fmt.Sprintf("returns %s: %s", why, r[0]))
		}
	}
	bad := len(symptoms) > 0
	if bad {
		cfViolate(c, "files/"+fc.Access, fmt.Sprintf("%s (chart %s, %s): %s", cfShow(w, text), fc.Source, form, strings.Join(symptoms, "; ")), cs)
	}
	switch {
	case bad:
		return "files:violated"
	case r[0].Err != "":
		return "files:error"
	case r[0].Out == "":
		return "files:nothing-visible"
	}
	c.Floor("confine-files-own-visible")
	return "files:own-files-visible"
}

func cfRunFiles(c *core.Ctx, w *cfWorld) {
	n := 0
	for _, nested := range []bool{false, true} {
		for _, source := range []string{"mem", "dir"} {
			for _, access := range cfFilesAccess {
				for _, p := range cfFilesPaths {
					n++
					if !c.NextMine() {
						continue
					}
					fc := cfFilesCase{Source: source, Access: access, Path: p, Nested: nested}
					c.Eval(1)
					c.Distinct(fmt.Sprintf("files %s %s %s %v", source, access, p, nested))
					c.Outcome(cfJudgeFiles(c, w, fc))
				}
			}
		}
	}
	c.Bound("confine.files.cases", strconv.Itoa(n))
}
