package c05

// Schema $ref confinement: the accept / reject / error outcome of validating
// fixed values against a chart's values.schema.json must not depend on the
// existence or content of a file outside the chart, whatever URL form a
// reference uses and wherever in the schema it stands.

import (
	"encoding/json"
	"errors"
	"fmt"
	"os"
	"path/filepath"
	"strconv"
	"strings"

	chart "helm.sh/helm/v4/pkg/chart/v2"
	chartutil "helm.sh/helm/v4/pkg/chart/v2/util"

	"verif/harness/internal/core"
)

type cfSchemaCase struct {
	Form   string `json:"form"`
	Pos    string `json:"pos"`
	Entry  string `json:"entry"`
	Draft  string `json:"draft,omitempty"`
	Values int    `json:"values"`
	// Deep selects the larger set of canary file states (thorough tier); part
	// of the case so that a replay uses the states of the run that found it.
	Deep bool `json:"deep,omitempty"`
}

func (s cfSchemaCase) canon() string {
	return fmt.Sprintf("schema %s %s %s %s v%d", s.Form, s.Pos, s.Entry, s.Draft, s.Values)
}

var cfSchemaFormsQuick = []string{"relative", "parent-relative", "abs-path", "file-url", "file-url-localhost", "http-url", "root-relative", "file-url-single-slash"}
var cfSchemaFormsThorough = []string{"https-url", "file-url-other-host", "file-url-upper-scheme", "abs-path-fragment"}
var cfSchemaPositions = []string{"root", "property", "items", "allOf", "defs", "meta-schema", "id-rebased"}
var cfSchemaEntries = []string{"single", "chart", "subchart", "render-values"}

// cfSchemaURL gives the concrete reference and the class used in finding keys.
func cfSchemaURL(w *cfWorld, form string) (url, class string) {
	j := w.canaryJS
	switch form {
	case "relative":
		return "canary.json", "relative"
	case "parent-relative":
		return "../canary.json", "relative"
	case "root-relative": // relative reference that, resolved against the document's own URL file:///values.schema.json, names the canary
		return strings.TrimPrefix(j, "/"), "relative"
	case "abs-path":
		return j, "abs-path"
	case "abs-path-fragment":
		return j + "#", "abs-path"
	case "file-url":
		return "file://" + j, "file-url"
	case "file-url-localhost":
		return "file://localhost" + j, "file-url"
	case "file-url-other-host":
		return "file://canary.test" + j, "file-url"
	case "file-url-single-slash":
		return "file:" + j, "file-url"
	case "file-url-upper-scheme":
		return "FILE://" + j, "file-url"
	case "http-url":
		return "http://canary.test/canary.json", "http-url"
	case "https-url":
		return "https://canary.test/canary.json", "http-url"
	}
	return form, "other"
}

func cfSchemaDoc(w *cfWorld, s cfSchemaCase) []byte {
	u, _ := cfSchemaURL(w, s.Form)
	ref := map[string]any{"$ref": u}
	var doc map[string]any
	switch s.Pos {
	case "root":
		doc = map[string]any{"$ref": u}
	case "property":
		doc = map[string]any{"type": "object", "properties": map[string]any{"a": ref}}
	case "items":
		doc = map[string]any{"type": "object", "properties": map[string]any{"l": map[string]any{"type": "array", "items": ref}}}
	case "allOf":
		doc = map[string]any{"allOf": []any{ref}}
	case "defs":
		doc = map[string]any{"$ref": "#/$defs/x", "$defs": map[string]any{"x": ref}}
	case "meta-schema":
		doc = map[string]any{"$schema": u, "type": "object"}
	case "id-rebased":
		doc = map[string]any{"$id": "file://" + w.hostDir + "/values.schema.json", "$ref": u}
	}
	if s.Draft != "" && s.Pos != "meta-schema" {
		doc["$schema"] = s.Draft
	}
	b, _ := json.Marshal(doc)
	return b
}

var cfSchemaValues = []map[string]any{
	{"a": "s", "l": []any{"x"}},
	{},
}

// canary states: what the file(s) outside the chart hold
var cfCanaryStatesQuick = []string{"absent", "accepts-all", "rejects-all"}
var cfCanaryStatesThorough = []string{"absent", "accepts-all", "rejects-all", "accepts-all-true", "integer-only", "not-json"}

func cfCanaryContent(state string) (string, bool) {
	switch state {
	case "accepts-all":
		return `{}`, true
	case "accepts-all-true":
		return `true`, true
	case "rejects-all":
		return `{"not": {}}`, true
	case "integer-only":
		return `{"type": "integer"}`, true
	case "not-json":
		return `{{{ not json`, true
	}
	return "", false
}

// cfSetCanary puts every file a reference could plausibly resolve to (the
// absolute canary, the same name in its parent directory, in the working
// directory and in the parent of that) into the given state. Not covered: a
// reference that resolves to /canary.json in the root directory of the host
// (forms "relative" and "parent-relative" outside the id-rebased position do:
// the document's own URL is file:///values.schema.json) - the harness does not
// write there; such attempts are counted from the error text instead and the
// dependence is demonstrated by the "root-relative" form.
func cfSetCanary(w *cfWorld, state string) {
	content, present := cfCanaryContent(state)
	for _, p := range []string{w.canaryJS, filepath.Join(w.root, "canary.json"), filepath.Join(w.cwd[0], "canary.json"), filepath.Join(filepath.Dir(w.cwd[0]), "canary.json")} {
		if present {
			os.WriteFile(p, []byte(content), 0o644)
		} else {
			os.Remove(p)
		}
	}
}

type cfSchemaRes struct {
	Class string `json:"class"` // accept | reject | error
	Msg   string `json:"msg"`
}

func cfCopyVals(v map[string]any) map[string]any {
	b, _ := json.Marshal(v)
	var out map[string]any
	json.Unmarshal(b, &out)
	return out
}

// cfValidate runs one entry point on schema + values.
func cfValidate(entry string, schema []byte, vals map[string]any) (res cfSchemaRes) {
	defer func() {
		if r := recover(); r != nil {
			res = cfSchemaRes{"error", fmt.Sprintf("PANIC: %v", r)}
		}
	}()
	vals = cfCopyVals(vals)
	meta := func(n string) *chart.Metadata { return &chart.Metadata{Name: n, Version: "0.1.0", APIVersion: "v2"} }
	var err error
	switch entry {
	case "single":
		err = chartutil.ValidateAgainstSingleSchema(chartutil.Values(vals), schema)
	case "chart":
		err = chartutil.ValidateAgainstSchema(&chart.Chart{Metadata: meta("top"), Schema: schema}, vals)
	case "subchart":
		top := &chart.Chart{Metadata: meta("top")}
		top.AddDependency(&chart.Chart{Metadata: meta("sub"), Schema: schema})
		err = chartutil.ValidateAgainstSchema(top, map[string]any{"sub": vals})
	case "render-values":
		_, err = chartutil.ToRenderValues(&chart.Chart{Metadata: meta("top"), Schema: schema, Values: map[string]any{}}, vals, chartutil.ReleaseOptions{Name: "r", Namespace: "ns", IsInstall: true, Revision: 1}, nil)
	}
	if err == nil {
		return cfSchemaRes{"accept", ""}
	}
	msg := err.Error()
	var ve chartutil.JSONSchemaValidationError
	if errors.As(err, &ve) || strings.Contains(msg, "\n- at '") || strings.HasPrefix(msg, "- at '") || strings.Contains(msg, "jsonschema validation failed") {
		return cfSchemaRes{"reject", msg}
	}
	return cfSchemaRes{"error", msg}
}

func cfJudgeSchema(c *core.Ctx, w *cfWorld, s cfSchemaCase) string {
	w.apply(cfHostA)
	states := cfCanaryStatesQuick
	if s.Deep {
		states = cfCanaryStatesThorough
	}
	doc := cfSchemaDoc(w, s)
	_, class := cfSchemaURL(w, s.Form)
	cs := cfCase{Kind: "schema", Schema: &s}
	h0 := w.httpReqs.Load()
	res := make([]cfSchemaRes, len(states))
	for i, st := range states {
		cfSetCanary(w, st)
		res[i] = cfValidate(s.Entry, doc, cfSchemaValues[s.Values])
	}
	cfSetCanary(w, "absent")
	if strings.Contains(res[0].Msg, "open /canary.json:") {
		c.Count("confine_schema_open_attempts_on_uncontrolled_host_path", 1)
	}
	if n := w.httpReqs.Load() - h0; n > 0 {
		cfViolate(c, "schema-ref/http-fetch", fmt.Sprintf("validating against schema %s (%s) attempted %d HTTP request(s)", cfShow(w, string(doc)), s.Entry, n), cs)
	}
	var diffs []string
	for i := 1; i < len(states); i++ {
		if res[i] != res[0] {
			diffs = append(diffs, fmt.Sprintf("file %s -> %s", states[i], res[i].Class))
		}
	}
	for _, r := range res {
		switch r.Class {
		case "accept":
			c.Floor("confine-schema-accept")
		case "reject":
			c.Floor("confine-schema-reject")
		default:
			c.Floor("confine-schema-error")
		}
	}
	if len(diffs) > 0 {
		cfViolate(c, "schema-ref/"+class,
			fmt.Sprintf("%s of values %s against schema %s depends on a host file outside the chart: file %s -> %s (%s); %s",
				s.Entry, cfJSON(cfSchemaValues[s.Values]), cfShow(w, string(doc)), states[0], res[0].Class, strconv.Quote(cfClip(cfShow(w, res[0].Msg))), strings.Join(diffs, "; ")), cs)
		return "schema:depends-on-host-file"
	}
	return "schema:independent-" + res[0].Class
}

func cfJSON(v any) string { b, _ := json.Marshal(v); return string(b) }

func cfRunSchema(c *core.Ctx, w *cfWorld) {
	forms := cfSchemaFormsQuick
	drafts := []string{""}
	if c.Thorough() {
		forms = append(append([]string{}, forms...), cfSchemaFormsThorough...)
		drafts = []string{"", "http://json-schema.org/draft-07/schema#", "https://json-schema.org/draft/2019-09/schema"}
	}
	n := 0
	sampled := 0
	for _, draft := range drafts {
		for _, entry := range cfSchemaEntries {
			for vi := range cfSchemaValues {
				for _, pos := range cfSchemaPositions {
					for _, form := range forms {
						n++
						if !c.NextMine() {
							continue
						}
						s := cfSchemaCase{Form: form, Pos: pos, Entry: entry, Draft: draft, Values: vi, Deep: c.Thorough()}
						c.Eval(1)
						c.Distinct(s.canon())
						out := cfJudgeSchema(c, w, s)
						c.Outcome(out)
						if sampled < 2 {
							sampled++
							c.Sample(map[string]any{"part": "confine", "case": s.canon(), "schema": cfShow(w, string(cfSchemaDoc(w, s))), "outcome": out})
						}
					}
				}
			}
		}
	}
	c.Bound("confine.schema.cases", strconv.Itoa(n))
	c.Bound("confine.schema.forms", strings.Join(forms, ","))
	c.Bound("confine.schema.positions", strings.Join(cfSchemaPositions, ","))
	if c.Thorough() {
		c.Bound("confine.schema.canary_states", strings.Join(cfCanaryStatesThorough, ","))
	} else {
		c.Bound("confine.schema.canary_states", strings.Join(cfCanaryStatesQuick, ","))
	}
	c.Bound("confine.schema.entry_points", strings.Join(cfSchemaEntries, ","))
}

// cfSchemaControls: on schemas without any reference the entry points must
// give accept, reject and error, and the classification must tell them apart.
func cfSchemaControls(c *core.Ctx, _ *cfWorld) bool {
	ok := true
	want := []struct{ schema, class string }{
		{`{"type":"object"}`, "accept"},
		{`{"type":"object","properties":{"a":{"type":"integer"}}}`, "reject"},
		{`{"$ref":"#/$defs/missing"}`, "error"},
	}
	for _, e := range cfSchemaEntries {
		for _, wnt := range want {
			if r := cfValidate(e, []byte(wnt.schema), cfSchemaValues[0]); r.Class != wnt.class {
				ok = false
				c.NotExhaustive("confine control failed: %s on self-contained schema %s gives %s (%q), expected %s", e, wnt.schema, r.Class, r.Msg, wnt.class)
			}
		}
	}
	return ok
}
