// Package c05: rendering is deterministic and sees only the chart, values and
// release data. Two parts: (1) determinism — Go map iteration order, file
// order and repetition are turned into explored choices (maporder seam,
// determinism_maporder.go, only in the instrumented build); (2) confinement —
// every template function and every schema $ref form against canary host
// state (confine.go).
package c05

import (
	"encoding/json"

	"verif/harness/internal/core"
)

const prop = "C05"

// set by determinism*.go / confine.go
var (
	determinismRun    func(c *core.Ctx)
	determinismReplay func(c *core.Ctx, data json.RawMessage) []core.Violation
	confineRun        func(c *core.Ctx)
	confineReplay     func(c *core.Ctx, data json.RawMessage) []core.Violation
)

func init() {
	core.Register(&core.Check{
		ID:    prop,
		Level: "exploration",
		Rule: "part 1 (determinism): for every chart of a feature family x value set, all executions of a dry-run install and of engine.Render in which at most k dynamic `range` over a map " +
			"(every such statement of pkg/engine, pkg/action/action.go, pkg/release/util, pkg/chart/v2/util, pkg/chart/v2/loader, pkg/cli/values is wrapped, found by type) iterate in a non-default permutation, " +
			"plus every permutation of template/file/dependency slices and repeated renders; outputs compared byte for byte with the default run. " +
			"part 2 (confinement): every function of the engine's function map x canary argument tuples, rendered twice with different host state; every $ref URL form x position x canary file state. " +
			"distinct = (chart, values, deviation vector) / (function, argument tuple) / ($ref form, position, canary state)",
		Run:    run,
		Replay: replay,
		Assumptions: []string{
			"templates of the determinism family are pure: sprig's intentionally random / clock functions and functions documented as order-unspecified are not used",
			"pkg/engine contains no lock, channel or go statement (verified syntactically on every run), so concurrent renders have one schedule class at synchronisation granularity; data races are outside a cooperative explorer",
			"part 1 runs in a build where every range-over-map of the listed packages is rewritten (with type information, from the current working tree) to iterate through an order chosen by the explorer",
		},
		RequiredFloors: []string{"determinism", "confine", "history-independence", "confine-actions-positive", "fresh-process"},
	})
}

type envelope struct {
	Part string          `json:"part"`
	Data json.RawMessage `json:"data"`
}

func run(c *core.Ctx) {
	if determinismRun != nil {
		determinismRun(c)
	} else {
		c.NotExhaustive("determinism part needs the maporder-instrumented build (run through ./run.sh)")
	}
	if confineRun != nil {
		confineRun(c)
	} else {
		c.NotExhaustive("confinement part not built")
	}
}

func replay(c *core.Ctx, data json.RawMessage) []core.Violation {
	var e envelope
	if err := json.Unmarshal(data, &e); err != nil {
		return nil
	}
	switch {
	case e.Part == "determinism" && determinismReplay != nil:
		return determinismReplay(c, e.Data)
	case e.Part == "confine" && confineReplay != nil:
		return confineReplay(c, e.Data)
	}
	return nil
}

func wrap(part string, v any) envelope {
	b, _ := json.Marshal(v)
	return envelope{Part: part, Data: b}
}
