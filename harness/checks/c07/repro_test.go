package c07

import (
	"encoding/json"
	"os"
	"testing"

	"verif/harness/internal/hx"
)

// Reproduction of finding B-stamp|upgrade_[take-ownership]|Widget|pre=unowned outside the
// explorer: three real actions on one world. Run with C07_REPRO=1 (it fails
// while the defect exists):
//
//	C07_REPRO=1 go test ./checks/c07 -run TestReproUpgradeTakeOwnershipUnstructured -v
//
// Helm's own TestCreatePatchCustomResourceMetadata (pkg/kube/client_test.go,
// second sub-test, "Previous behavior") pins the kube.Client half of it: a
// two-way patch with current == target is "{}" for unstructured objects.
func TestReproUpgradeTakeOwnershipUnstructured(t *testing.T) {
	if os.Getenv("C07_REPRO") == "" {
		t.Skip("set C07_REPRO=1")
	}
	w := hx.NewWorld("memory")
	base := &hx.ChartSpec{Name: "c", Version: "1", Resources: []hx.ResSpec{{Kind: "ConfigMap", Name: "b0", Variant: 1}}}
	next := &hx.ChartSpec{Name: "c", Version: "2", Resources: []hx.ResSpec{{Kind: "ConfigMap", Name: "b0", Variant: 1}, {Kind: "Widget", Name: "w", Variant: 1}}}
	if r := w.Exec(hx.Op{Kind: "install", Release: "r", Chart: base}, nil); r.Failed {
		t.Fatal(r.Err)
	}
	p := "/apis/example.verif/v1/namespaces/default/widgets/w"
	w.Sim.Put(p, map[string]any{"apiVersion": "example.verif/v1", "kind": "Widget", "metadata": map[string]any{"name": "w", "namespace": "default"}, "spec": map[string]any{"size": 7}})
	r := w.Exec(hx.Op{Kind: "upgrade", Release: "r", Chart: next, TakeOwnership: true}, nil)
	if r.Failed {
		t.Fatal(r.Err)
	}
	for _, e := range r.Log {
		t.Logf("%-6s %-60s %d", e.Verb, e.Path, e.Code)
	}
	b, _ := w.Sim.Get(p)
	var live map[string]any
	json.Unmarshal(b, &live)
	if why := hx.OwnershipProblem(live, "r", "default"); why != "" {
		t.Errorf("upgrade --take-ownership succeeded, revision %d is deployed and names Widget/w, but the live object is %s: %s", r.Release.Version, b, why)
	}
}
