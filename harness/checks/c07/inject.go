package c07

// Mid-operation injection family: ANOTHER ACTOR creates an object with the
// name of a resource the operation is adding, at every call position of the
// operation (before call k of the call list discovered from a plain run).
// Clause: Helm never takes over resources it does not own - an object that was
// not correctly owned by r/default at the moment of Helm's first mutating
// request on its path must be byte-identical after the operation, whatever the
// operation returns; an injection before Helm's ownership check falls under
// clause (a) (refusal before any mutation).

import (
	"bytes"
	"encoding/json"
	"fmt"
	"strings"
	"sync"

	"verif/harness/internal/core"
	"verif/harness/internal/hx"
	"verif/harness/internal/opspace"
	"verif/harness/internal/sim"
)

// injectSpec: put Obj at Path right before the Occurrence-th call labelled Label is handled.
type injectSpec struct {
	Label      string          `json:"label"`
	Occurrence int             `json:"occurrence"`
	Path       string          `json:"path"`
	Obj        json.RawMessage `json:"obj"`
}

type injResult struct {
	t        *opspace.Transition
	injected bool
	// state of a slot path at the moment of Helm's first mutating request on it (nil = absent)
	firstMut      map[string][]byte
	firstMutLabel map[string]string
}

var slotByRes = func() map[string]string {
	m := map[string]string{}
	for _, s := range slots {
		p := slotPath(s)
		m[resOfPath(p)] = p
	}
	return m
}()

func isMutVerb(v string) bool { return v == "POST" || v == "PUT" || v == "PATCH" || v == "DELETE" }

// execInjected runs one operation on a clone of pre with the environment step in the middle.
func execInjected(drv string, pre *hx.World, path []opspace.Step, st opspace.Step, inj injectSpec) injResult {
	post := pre.Clone()
	r := injResult{firstMut: map[string][]byte{}, firstMutLabel: map[string]string{}}
	var mu sync.Mutex
	occ := map[string]int{}
	post.Sim.Gate = func(_ int, label, class string) {
		mu.Lock()
		defer mu.Unlock()
		if class != "record-read" && class != "store-read" { // the calls sim.Enter numbers (Result.Calls)
			n := occ[label]
			occ[label] = n + 1
			if !r.injected && label == inj.Label && n == inj.Occurrence {
				var v any
				json.Unmarshal(inj.Obj, &v)
				post.Sim.Put(inj.Path, v)
				r.injected = true
			}
		}
		if class == "cluster" {
			verb, rest, _ := strings.Cut(label, " ")
			if p, ok := slotByRes[rest]; ok && isMutVerb(verb) {
				if _, seen := r.firstMut[p]; !seen {
					b, ok := post.Sim.Get(p)
					if !ok {
						b = nil
					}
					r.firstMut[p] = b
					r.firstMutLabel[p] = label
				}
			}
		}
	}
	op := st.Op
	op.Release = relOf(st)
	t := &opspace.Transition{Driver: drv, Init: "empty", Pre: pre, Post: post, Step: st,
		Path: append(append([]opspace.Step{}, path...), st), Depth: len(path) + 1}
	t.PreHist = pre.History(op.Release)
	t.Res = post.Exec(op, nil)
	post.Sim.Gate = nil
	t.PostHist = post.History(op.Release)
	r.t = t
	return r
}

// phaseOf places call position k relative to Helm's ownership check of the slot (first GET, install/upgrade only)
// and to Helm's own creation of it (POST) in the plain run.
func phaseOf(opKind string, calls []sim.Call, k int, slotRes string) string {
	idxCheck, idxApply := -1, -1
	for i, c := range calls {
		if opKind != "rollback" && idxCheck < 0 && c.Label == "GET "+slotRes {
			idxCheck = i
		}
		if idxApply < 0 && c.Label == "POST "+slotRes {
			idxApply = i
		}
	}
	switch {
	case idxCheck >= 0 && k <= idxCheck:
		return "pre-check"
	case idxApply >= 0 && k <= idxApply:
		if opKind == "rollback" {
			return "pre-apply"
		}
		return "check-to-apply"
	}
	return "post-apply"
}

func callIndex(calls []sim.Call, inj injectSpec) int {
	for i, c := range calls {
		if c.Label == inj.Label && c.Occurrence == inj.Occurrence {
			return i
		}
	}
	return -1
}

// evalInjected is the oracle of the family.
func evalInjected(r injResult, pre *hx.World, inj injectSpec, plainCalls []sim.Call) (probs []problem, phase string) {
	t := r.t
	op, res := t.Step.Op, t.Res
	name := relOf(t.Step)
	shape := op.Shape()
	k := callIndex(plainCalls, inj)
	phase = phaseOf(op.Kind, plainCalls, k, resOfPath(inj.Path))
	injKind := kindNameOfPath(inj.Path) + ":" + classify(inj.Obj, name)
	postObjs := t.Post.NonRecordObjects()

	// take-over: whatever was there and not owned when Helm first wrote to the path must still be there, unchanged
	for _, p := range sortedKeys(r.firstMut) {
		b := r.firstMut[p]
		if b == nil {
			continue
		}
		var live map[string]any
		json.Unmarshal(b, &live)
		if hx.OwnershipProblem(live, name, hx.Namespace) == "" {
			continue
		}
		if qb, ok := postObjs[p]; !ok || !bytes.Equal(b, qb) {
			after := "deleted"
			if ok {
				after = "changed to " + string(qb)
			}
			outcome := "reported success"
			if res.Failed {
				outcome = fmt.Sprintf("failed with %q", res.Err)
			}
			probs = append(probs, problem{Clause: "D", Key: core.SanitizeKey(fmt.Sprintf("D-takeover|%s|%s|%s", shape, phase, kindNameOfPath(p))),
				What: fmt.Sprintf("%s (%s, created by another actor before call #%d %q of the %s) was not owned by %s/%s when Helm sent its first mutating request %q on it, yet it was %s; the operation %s",
					resOfPath(p), classify(b, name), k, inj.Label, op.Kind, name, hx.Namespace, r.firstMutLabel[p], after, outcome)})
		}
	}

	// Helm's create of a manifest resource met an existing not-owned object: the operation must not end deployed
	// (clause (b): every object named by the deployed revision's manifest carries this release's ownership items)
	if !res.Failed && len(t.PostHist) > 0 && t.PostHist[len(t.PostHist)-1].Info.Status.String() == "deployed" {
		named := manifestDocs(t.PostHist[len(t.PostHist)-1].Manifest)
		for _, p := range sortedKeys(r.firstMut) {
			b := r.firstMut[p]
			if b == nil || !strings.HasPrefix(r.firstMutLabel[p], "POST ") {
				continue
			}
			var live map[string]any
			json.Unmarshal(b, &live)
			if _, ok := named[p]; !ok || hx.OwnershipProblem(live, name, hx.Namespace) == "" {
				continue
			}
			var now map[string]any
			json.Unmarshal(postObjs[p], &now)
			if why := hx.OwnershipProblem(now, name, hx.Namespace); why != "" {
				probs = append(probs, problem{Clause: "D", Key: core.SanitizeKey(fmt.Sprintf("D-deployed-over-unowned|%s|%s|%s", shape, phase, kindNameOfPath(p))),
					What: fmt.Sprintf("%s (%s, created by another actor before call #%d %q of the %s) existed and was not owned by %s/%s when Helm sent %q; the %s nevertheless reported success, revision %d is deployed and names the object, which still is not this release's: %s (%s)",
						resOfPath(p), classify(b, name), k, inj.Label, op.Kind, name, hx.Namespace, r.firstMutLabel[p], op.Kind, t.PostHist[len(t.PostHist)-1].Version, why, ownershipItems(now))})
			}
		}
	}

	// injection before the ownership check: clause (a)
	if phase == "pre-check" && !op.TakeOwnership {
		var muts []string
		for _, e := range res.Log {
			if isMutating(e) {
				muts = append(muts, e.Label)
			}
		}
		preWith := pre.Clone()
		var v any
		json.Unmarshal(inj.Obj, &v)
		preWith.Sim.Put(inj.Path, v)
		symptom := ""
		switch {
		case !res.Failed:
			symptom = "no-error"
		case len(muts) > 0:
			symptom = "mutated-before-refusal"
		case preWith.Canon() != t.Post.Canon():
			symptom = "state-changed"
		}
		if symptom != "" {
			probs = append(probs, problem{Clause: "A", Key: core.SanitizeKey(fmt.Sprintf("A-refuse-injected|%s|%s|%s", shape, symptom, injKind)),
				What: fmt.Sprintf("%s appeared before call #%d %q, i.e. before the ownership check of the %s, which must then refuse before any mutation: %s (err=%q, mutating requests %v)",
					injKind, k, inj.Label, op.Kind, symptom, res.Err, muts)})
		}
	}
	return probs, phase
}

func kindNameOfPath(p string) string {
	for _, s := range slots {
		if slotPath(s) == p {
			return s.Kind
		}
	}
	return kindOfPath(p)
}

// ---------- enumeration ----------

type injCtx struct {
	Name  string
	Build func(slotIdx int) (prefix []opspace.Step, op hx.Op)
}

func injContexts() []injCtx {
	base := chartC(0, 1, 1, false, "0.1")
	companion := func(slotIdx int) int { // another slot of the chart, pre-existing and correctly owned => the install adopts (Update path)
		if slotIdx == 0 {
			return 1
		}
		return 0
	}
	return []injCtx{
		{"install", func(i int) ([]opspace.Step, hx.Op) {
			return nil, hx.Op{Kind: "install", Chart: chartC(1<<i, 1, 0, true, "1")}
		}},
		{"install-adopting", func(i int) ([]opspace.Step, hx.Op) {
			y := companion(i)
			obj, _ := json.Marshal(preObject(slots[y], plOwned))
			return []opspace.Step{{Env: &opspace.EnvStep{Kind: "put", Path: slotPath(slots[y]), Obj: obj}}},
				hx.Op{Kind: "install", Chart: chartC(1<<i|1<<y, 1, 0, true, "1")}
		}},
		{"upgrade", func(i int) ([]opspace.Step, hx.Op) {
			return []opspace.Step{opStep(hx.Op{Kind: "install", Chart: base})}, hx.Op{Kind: "upgrade", Chart: chartC(1<<i, 1, 1, true, "1")}
		}},
		{"rollback", func(i int) ([]opspace.Step, hx.Op) {
			return []opspace.Step{opStep(hx.Op{Kind: "install", Chart: chartC(1<<i, 1, 1, true, "1")}), opStep(hx.Op{Kind: "upgrade", Chart: base})},
				hx.Op{Kind: "rollback"}
		}},
	}
}

func (x *explorer) injectFamily() {
	c := x.c
	drivers := []string{"memory"}
	kinds := []int{1, 2, 3} // foreign, other-release, other-ns
	if c.Thorough() {
		drivers = []string{"memory", "secrets"}
		kinds = []int{1, 2, 3, 4, 5, 7, 8} // every not-owned kind
	}
	ctxs := injContexts()
	c.Bound("inject_family", fmt.Sprintf("drivers=%s operations=install|install-adopting|upgrade|rollback (take-ownership off) x slots=a|s|w|cr x injected_kinds=%d x every call position of the operation's plain run",
		strings.Join(drivers, ","), len(kinds)))
	for _, drv := range drivers {
		for _, cx := range ctxs {
			if c.Only != "" && !strings.Contains(drv+"|inject/"+cx.Name, c.Only) {
				continue
			}
			for i := 0; i < nInjectSlots; i++ {
				for _, kind := range kinds {
					if !c.NextMine() {
						continue
					}
					x.injectUnit(drv, cx, i, kind)
				}
			}
		}
	}
}

func (x *explorer) injectUnit(drv string, cx injCtx, slotIdx, kind int) {
	c := x.c
	prefix, op := cx.Build(slotIdx)
	scen := fmt.Sprintf("%s|inject/%s|%s=%s", drv, cx.Name, slots[slotIdx].Name, placeNames[kind])
	w := hx.NewWorld(drv)
	var path []opspace.Step
	for _, s := range prefix {
		t := execStep(drv, w, path, s)
		if s.Env == nil {
			x.account(t, scen)
			if t.Res.Failed {
				c.NotExhaustive("inject family: prefix step %s failed: %s", s.String(), t.Res.Err)
				return
			}
		}
		w, path = t.Post, t.Path
	}
	plain := execStep(drv, w, path, opStep(op))
	x.account(plain, scen)
	if plain.Res.Failed {
		c.NotExhaustive("inject family: plain %s failed: %s", op.Short(), plain.Res.Err)
		return
	}
	calls := plain.Res.Calls
	obj, _ := json.Marshal(preObject(slots[slotIdx], kind))
	p := slotPath(slots[slotIdx])
	for k, call := range calls {
		inj := injectSpec{Label: call.Label, Occurrence: call.Occurrence, Path: p, Obj: obj}
		r := execInjected(drv, w, path, opStep(op), inj)
		c.Eval(1)
		c.Transition(1)
		c.State(r.t.Post.Canon())
		c.Distinct(fmt.Sprintf("%s|before#%d:%s", scen, k, call.Label))
		c.Count("injected_runs", 1)
		if !r.injected {
			c.NotExhaustive("inject family: call #%d %s of %s not reached", k, call.Label, op.Short())
			continue
		}
		probs, phase := evalInjected(r, w, inj, calls)
		for _, pr := range probs {
			c.Violate(prop, pr.Key, fmt.Sprintf("%s [driver=%s history=%v + injection before call #%d]", pr.What, drv, pathStrings(r.t.Path), k),
				replayData{Driver: drv, Path: r.t.Path, Key: pr.Key, Tier: c.Tier, Inject: &inj})
		}
		// outcome classes and vacuity floors
		res := r.t.Res
		out := "ok"
		switch {
		case !res.Failed:
		case strings.Contains(res.Err, "cannot be imported") || strings.Contains(res.Err, "invalid ownership"):
			out = "refused"
		case strings.Contains(res.Err, "already exists"):
			out = "create-409"
		case strings.Contains(res.Err, "with the name"):
			out = "abort-not-in-original"
		default:
			out = "failed-other"
			e := res.Err
			if len(e) > 100 {
				e = e[:100]
			}
			c.Count("inject-failed-other:"+cx.Name+":"+e, 1)
		}
		c.Outcome("inject/" + cx.Name + ":" + phase + ":" + out)
		c.Floor("inject:" + cx.Name)
		if phase == "pre-check" && out == "refused" {
			c.Floor("inject-refused-pre-check")
		}
		if out == "create-409" || out == "abort-not-in-original" {
			c.Floor("inject-" + out)
		}
		if out == "create-409" && len(probs) == 0 {
			if h := r.t.PostHist; len(h) == 0 || h[len(h)-1].Info.Status.String() != "deployed" || h[len(h)-1].Version == 1 && op.Kind != "install" {
				c.Floor("inject-create-met-unowned-not-deployed")
			}
		}
		untouched := 0
		for _, b := range r.firstMut {
			if b != nil {
				untouched++
			}
		}
		if untouched > 0 && len(probs) == 0 {
			c.Floor("inject-untouched-checked")
			c.Count("injected_objects_compared_after_helm_wrote_to_their_path", int64(untouched))
		}
		if k == len(calls)/2 && kind == 1 {
			c.Sample(map[string]any{"family": "inject", "operation": cx.Name, "slot": slots[slotIdx].Kind, "injected": placeNames[kind],
				"before_call": fmt.Sprintf("#%d %s", k, call.Label), "phase": phase, "outcome": out, "err": res.Err})
		}
	}
}

// replayInjected re-runs one injected case.
func replayInjected(c *core.Ctx, rd replayData) {
	n := len(rd.Path)
	if n == 0 {
		return
	}
	w := hx.NewWorld(rd.Driver)
	if ts := runPath(rd.Driver, rd.Path[:n-1]); len(ts) > 0 {
		w = ts[len(ts)-1].Post
	}
	st := rd.Path[n-1]
	plain := execStep(rd.Driver, w, rd.Path[:n-1], st)
	r := execInjected(rd.Driver, w, rd.Path[:n-1], st, *rd.Inject)
	if !r.injected {
		return
	}
	probs, _ := evalInjected(r, w, *rd.Inject, plain.Res.Calls)
	for _, pr := range probs {
		c.Violate(prop, pr.Key, pr.What, rd)
	}
}
