// Package c07: Helm never takes over or deletes resources it does not own.
//
// Bounded exhaustive enumeration on the real actions over the simulated API
// server: every placement of a pre-existing object (absent / foreign / owned by
// another release / owned by the same name in another namespace / label only /
// annotations only / correctly owned) on each of three resource slots, for
// install, install --replace and upgrade-adding-the-slots, with and without
// take-ownership, on empty and populated ledgers; plus follow-up operations
// (uninstall, rollback, upgrades that update / remove the slots) from every
// reached state. The oracle is stateless per transition and independent of
// Helm's own ownership helpers.
package c07

import (
	"bytes"
	"encoding/json"
	"fmt"
	"sort"
	"strings"

	rspb "helm.sh/helm/v4/pkg/release/v1"

	"verif/harness/internal/core"
	"verif/harness/internal/hx"
	"verif/harness/internal/opspace"
	"verif/harness/internal/sim"
)

const (
	prop = "C07"
	rel  = "r"
)

func init() {
	core.Register(&core.Check{
		ID:    prop,
		Level: "model_checking",
		Rule: "product space: context (install on empty ledger | install with another release's 2-revision ledger | install --replace after uninstall --keep-history on 1- and 2-revision ledgers | " +
			"upgrade adding the slots on 1- and 2-revision ledgers, keeping or dropping the base resource | rollback re-creating the slots; thorough adds: upgrade changing the base, ledgers with a failed last revision, charts without hook) " +
			"x take-ownership on/off x chart over a subset of the slots ConfigMap a, Service s, Widget w (unstructured), ClusterRole cr (cluster-scoped) (+ one pre-* hook) " +
			"x every placement vector in {absent,foreign,other-release,other-ns,label-only,annos-only,owned}^k over the placed slots (thorough: + label-wrong-value, no-namespace-annotation); placed slots outside the chart are bystanders. " +
			"quick: memory backend x subsets of >=2 of a,s,w, Secret backend x the chart a+s+w; cluster-scoped family: memory x charts {cr, a+cr} x 7^2 placements of (a,cr), Secret backend x chart {cr} x 7; " +
			"thorough: memory x all 7 subsets of a,s,w x 9^3, Secret backend x subsets of >=2 x 7^3, memory x {cr, a+cr} x 9^2 on all contexts, memory x chart a+s+w+cr x 7^4, Secret backend x {cr, a+cr} x 7^2. " +
			"From every state reached by the operation under test the follow-ups uninstall, rollback, upgrade-updating-the-slots and upgrade-removing-the-slots are executed; " +
			"every transition is the real action on a clone of the state; states = canonical worlds. distinct = (backend, context, chart, take-ownership, placement vector, step); " +
			"non-trivial = at least one slot occupied (counter cases_with_occupied_chart_slot). " +
			"Retry contexts: upgrade adding the slots after a first attempt that FAILED before creating any of them (failed pre-upgrade hook | rejected create of the first new resource): ledger 1:deployed 2:failed, then the placements, then the retry. " +
			"Create-namespace contexts: install / install --replace with --create-namespace, release namespace object absent | present, conflicts inside the namespace (a, w) and outside it (cluster-scoped cr); " +
			"a refused install must not have sent POST /namespaces either. Chart-own-metadata charts: every slot document hard-codes app.kubernetes.io/managed-by=kustomize (variant 2: also foreign meta.helm.sh/release-* annotations); " +
			"all contexts x the 4-slot chart x 7^2 placements of (a,w); oracle (b) demands this release's three values on the live objects. " +
			"Is-upgrade-flag contexts: the install / install --replace contexts with Install.IsUpgrade=true on a real (non dry-run) run, charts a+s+w, cr, a+cr. " +
			"Other-namespace slot: ConfigMap b0 with metadata.namespace: other (same kind and name as the base resource b0 of the release namespace), charts {b0@other, a+b0@other} x 7^2 placements of (a, b0@other) x all contexts. " +
			"Carry-over family: release owns {b0 + slots}; every subset of its live objects is deleted out-of-band; then {upgrade changing the content | upgrade with the identical chart | rollback} x --force on/off x take-ownership on/off (upgrades); " +
			"oracle (b): every manifest object carries the ownership metadata afterwards (re-created and PUT-replaced objects included). " +
			"Mid-operation injection family: {install of one slot, install of two slots adopting an owned one, upgrade adding a slot, rollback re-creating a slot} (take-ownership off) x slot in {a,s,w,cr} x " +
			"injected object kind in {foreign,other-release,other-ns} (thorough: all 7 not-owned kinds, + Secret backend) x every call position k of the operation's plain run " +
			"(another actor creates the object right before call k is handled, via the server's gate); oracle: what was not owned when Helm first wrote to its path is byte-identical afterwards, " +
			"and an injection before the ownership check is refused without mutation",
		Run:    run,
		Replay: replay,
		Assumptions: []string{
			"simulated API server that accepts every request (no admission/defaulting/resourceVersion conflicts); scripted waiter and hook completion",
			"'would be created' is computed from the chart's static documents minus the documents of the currently deployed revision, with an independent YAML parser and path table",
			"ownership of a live object is judged by an independent 10-line reference (managed-by label + both release annotations), never by Helm's checkOwnership",
			"no faults are injected, --atomic / --cleanup-on-fail (which delete what the failing operation itself created) are not part of the alphabet",
			"mid-operation injections happen at request granularity (before a request/storage call/wait is handled), one injected object per operation, take-ownership off",
			"hook objects are not ownership-checked by Helm and the statement allows deleting them; no pre-existing object is placed on the hook's name",
		},
		RequiredFloors: []string{
			"refused:install", "refused:replace", "refused:upgrade", "refused-on-populated-ledger",
			"adopted-owned:install", "adopted-owned:upgrade", "takeover:install", "takeover:replace", "takeover:upgrade", "created-fresh",
			"delete-checked", "hook-delete-checked", "bystander-compared", "uninstall-ok", "rollback-ok", "upgrade-removes-slots", "upgrade-updates-slots",
			"uninstall-after-refusal", "rollback-recreates",
			"refused-cluster-scoped-other-ns:install", "refused-cluster-scoped-other-ns:replace", "refused-cluster-scoped-other-ns:upgrade", "takeover-cluster-scoped",
			"refused:create-namespace(ns-absent)", "refused:create-namespace(ns-exists)", "refused:create-namespace-conflict-outside-namespace",
			"create-namespace:created", "create-namespace:already-exists-tolerated",
			"chart-own-metadata-1-overridden:install", "chart-own-metadata-1-overridden:replace", "chart-own-metadata-1-overridden:upgrade", "chart-own-metadata-1-overridden:rollback",
			"chart-own-metadata-2-overridden:install", "chart-own-metadata-2-overridden:upgrade",
			"refused:install-with-is-upgrade-flag", "refused:replace-with-is-upgrade-flag",
			"refused:upgrade-same-name-other-namespace", "inject-create-met-unowned-not-deployed",
			"refused:retry-after-failed-upgrade", "carry:recreated-stamped", "carry:force-replaced-stamped", "carry:rollback-recreated-stamped",
			"inject:install", "inject:install-adopting", "inject:upgrade", "inject:rollback", "inject-refused-pre-check", "inject-create-409", "inject-abort-not-in-original", "inject-untouched-checked",
		},
	})
}

// ---------- the slots and what may sit in them ----------

// NS != "": the document carries an explicit metadata.namespace other than the release namespace.
type slot struct{ Kind, Name, NS string }

func (s slot) id() string {
	if s.NS != "" {
		return s.Name + "@" + s.NS
	}
	return s.Name
}

// a, s, w are namespaced; cr is cluster-scoped (its release-namespace annotation is the only
// place where the owning release's namespace is recorded).
// b0@other: same kind AND name as the base resource b0 of the release namespace, but with metadata.namespace: other.
var slots = []slot{{"ConfigMap", "a", ""}, {"Service", "s", ""}, {"Widget", "w", ""}, {"ClusterRole", "cr", ""}, {"ConfigMap", "b0", "other"}}

// nInjectSlots: the mid-operation injection family uses the first four slots.
const nInjectSlots = 4

type placement [5]int

var placeNames = []string{"absent", "foreign", "other-release", "other-ns", "label-only", "annos-only", "owned", "label-wrong-value", "no-ns-anno"}

const (
	plAbsent = 0
	plOwned  = 6
)

func apiVersionOf(kind string) string {
	if kind == "Widget" || kind == "Gadget" {
		return "example.verif/v1"
	}
	if kind == "ClusterRole" {
		return "rbac.authorization.k8s.io/v1"
	}
	return "v1"
}

func slotPath(s slot) string {
	return docPath(hx.Doc{APIVersion: apiVersionOf(s.Kind), Kind: s.Kind, Name: s.Name, Namespace: s.NS})
}

// docPath is hx.Doc.Path with the cluster-scoped kinds of this check (Doc.Path only knows Namespace and CRD as such).
func docPath(d hx.Doc) string {
	if d.Kind == "ClusterRole" {
		i := strings.Index(d.APIVersion, "/")
		return sim.ObjPath(d.APIVersion[:i], d.APIVersion[i+1:], "", "clusterroles", d.Name)
	}
	return d.Path()
}

const (
	lblManagedBy = "app.kubernetes.io/managed-by"
	annName      = "meta.helm.sh/release-name"
	annNS        = "meta.helm.sh/release-namespace"
)

// preObject builds the pre-existing object of a slot for a placement kind; its
// content differs from every chart variant.
func preObject(s slot, kind int) map[string]any {
	md := map[string]any{"name": s.Name, "namespace": hx.Namespace}
	if s.Kind == "ClusterRole" {
		delete(md, "namespace")
	}
	if s.NS != "" {
		md["namespace"] = s.NS
	}
	var lb, an map[string]any
	switch kind {
	case 1:
	case 2:
		lb, an = map[string]any{lblManagedBy: "Helm"}, map[string]any{annName: "other", annNS: hx.Namespace}
	case 3:
		lb, an = map[string]any{lblManagedBy: "Helm"}, map[string]any{annName: rel, annNS: "other-ns"}
	case 4:
		lb = map[string]any{lblManagedBy: "Helm"}
	case 5:
		an = map[string]any{annName: rel, annNS: hx.Namespace}
	case 6:
		lb, an = map[string]any{lblManagedBy: "Helm"}, map[string]any{annName: rel, annNS: hx.Namespace}
	case 7:
		lb, an = map[string]any{lblManagedBy: "Tiller"}, map[string]any{annName: rel, annNS: hx.Namespace}
	case 8:
		lb, an = map[string]any{lblManagedBy: "Helm"}, map[string]any{annName: rel}
	default:
		panic("placement kind")
	}
	if lb != nil {
		md["labels"] = lb
	}
	if an != nil {
		md["annotations"] = an
	}
	o := map[string]any{"apiVersion": apiVersionOf(s.Kind), "kind": s.Kind, "metadata": md}
	switch s.Kind {
	case "ConfigMap":
		o["data"] = map[string]any{"k": "pre", "foreignField": "f"}
	case "Service":
		o["spec"] = map[string]any{"ports": []any{map[string]any{"name": "q", "port": 9, "protocol": "TCP"}}, "selector": map[string]any{"app": "pre"}}
	case "Widget":
		o["spec"] = map[string]any{"size": 7, "foreignField": "f"}
	case "ClusterRole":
		o["rules"] = []any{map[string]any{"apiGroups": []any{""}, "resources": []any{"secrets"}, "verbs": []any{"watch"}}}
	}
	return o
}

// classify names the ownership state of a live object relative to (release, default) - independent of Helm.
func classify(b []byte, name string) string {
	if b == nil {
		return "absent"
	}
	var m struct {
		Metadata struct {
			Labels      map[string]string `json:"labels"`
			Annotations map[string]string `json:"annotations"`
		} `json:"metadata"`
	}
	json.Unmarshal(b, &m)
	l, hasL := m.Metadata.Labels[lblManagedBy]
	n, hasN := m.Metadata.Annotations[annName]
	ns, hasNS := m.Metadata.Annotations[annNS]
	switch {
	case !hasL && !hasN && !hasNS:
		return "foreign"
	case l == "Helm" && n == name && ns == hx.Namespace:
		return "owned"
	case l == "Helm" && !hasN && !hasNS:
		return "label-only"
	case !hasL && n == name && ns == hx.Namespace:
		return "annos-only"
	case l == "Helm" && hasN && n != name && ns == hx.Namespace:
		return "other-release"
	case l == "Helm" && n == name && hasNS && ns != hx.Namespace:
		return "other-ns"
	case hasL && l != "Helm" && n == name && ns == hx.Namespace:
		return "label-wrong-value"
	case l == "Helm" && n == name && !hasNS:
		return "no-ns-anno"
	}
	return "partial"
}

// ownershipItems renders the three ownership items of a live object for messages.
func ownershipItems(live map[string]any) string {
	md, _ := live["metadata"].(map[string]any)
	lb, _ := md["labels"].(map[string]any)
	an, _ := md["annotations"].(map[string]any)
	return fmt.Sprintf("%s=%v %s=%v %s=%v", lblManagedBy, lb[lblManagedBy], annName, an[annName], annNS, an[annNS])
}

func coarse(b []byte, name string) string {
	switch classify(b, name) {
	case "absent":
		return "absent"
	case "owned":
		return "owned"
	}
	return "unowned"
}

// ---------- charts ----------

var hookH = hx.HookSpec{Name: "h", Kind: "ConfigMap", Events: []string{"pre-install", "pre-upgrade", "pre-rollback", "pre-delete"}}

// chartC: the slots selected by mask (bit i = slots[i]) at a variant, optionally the base ConfigMap b0, optionally the hook.
func chartC(mask, variant, base int, hook bool, version string) *hx.ChartSpec {
	return chartOwn(mask, variant, base, hook, version, 0)
}

// ownMetaYAML renders a slot document that hard-codes ownership metadata of its own (manifests exported from a
// cluster managed by another tool): own=1 a foreign managed-by label, own=2 also foreign release annotations.
func ownMetaYAML(r hx.ResSpec, own int, ns string) string {
	y := hx.ResourceYAML(r)
	marker := "metadata:\n  name: " + r.Name + "\n"
	ins := ""
	if ns != "" {
		ins += "  namespace: " + ns + "\n"
	}
	if own >= 1 {
		ins += "  labels:\n    " + lblManagedBy + ": kustomize\n    team: x\n"
	}
	if own >= 2 {
		ins += "  annotations:\n    " + annName + ": other\n    " + annNS + ": other-ns\n"
	}
	if !strings.Contains(y, marker) {
		panic("ownMetaYAML: marker not found in " + y)
	}
	return strings.Replace(y, marker, marker+ins, 1)
}

// chartOwn is chartC whose slot documents carry chart-supplied ownership metadata when own > 0 (raw templates).
func chartOwn(mask, variant, base int, hook bool, version string, own int) *hx.ChartSpec {
	cs := &hx.ChartSpec{Name: "c", Version: version}
	if own > 0 && mask != 0 {
		cs.Version = fmt.Sprintf("%s-own%d", version, own)
		cs.Extra = map[string]string{}
	}
	if base > 0 {
		cs.Resources = append(cs.Resources, hx.ResSpec{Kind: "ConfigMap", Name: "b0", Variant: base})
	}
	for i, s := range slots {
		if mask&(1<<i) != 0 {
			r := hx.ResSpec{Kind: s.Kind, Name: s.Name, Variant: variant}
			if own > 0 || s.NS != "" {
				if cs.Extra == nil {
					cs.Extra = map[string]string{}
				}
				if s.NS != "" {
					cs.Version += "-ns" + s.NS
				}
				cs.Extra[fmt.Sprintf("templates/raw-%s-%s%s.yaml", strings.ToLower(s.Kind), s.Name, s.NS)] = ownMetaYAML(r, own, s.NS)
				continue
			}
			cs.Resources = append(cs.Resources, r)
		}
	}
	if hook {
		cs.Hooks = []hx.HookSpec{hookH}
	}
	return cs
}

func baseOf(cs *hx.ChartSpec) int {
	if cs == nil {
		return 0
	}
	for _, r := range cs.Resources {
		if r.Name == "b0" {
			return r.Variant
		}
	}
	return 0
}

func maskName(mask int) string {
	var n []string
	for i, s := range slots {
		if mask&(1<<i) != 0 {
			n = append(n, s.id())
		}
	}
	return strings.Join(n, "+")
}

var (
	chartQ1 = &hx.ChartSpec{Name: "q", Version: "1", Resources: []hx.ResSpec{{Kind: "ConfigMap", Name: "qa", Variant: 1}}}
	chartQ2 = &hx.ChartSpec{Name: "q", Version: "2", Resources: []hx.ResSpec{{Kind: "ConfigMap", Name: "qa", Variant: 2}}}
)

// ---------- contexts ----------

type ctxDef struct {
	Name   string
	Kind   string // install | replace | upgrade | rollback
	TO     bool
	Hook   bool
	Ledger int // revisions of r (or of the other release) before the operation under test
	Prefix func(mask int) []opspace.Step
	Under  func(mask int) hx.Op
	// Own > 0: the slot documents carry chart-supplied ownership metadata (see ownMetaYAML).
	Own int
	// IsUpgradeFlag: the install runs with Install.IsUpgrade = true (not a dry run).
	IsUpgradeFlag bool
	// CreateNS: "" | "absent" | "exists" - install --create-namespace with the release namespace object absent / present.
	CreateNS string
	// SlotsAbsentAfterPrefix: the prefix ends with a failed attempt that must not have created any chart slot.
	SlotsAbsentAfterPrefix bool
}

// firstApplied: the chart slot kube.Client.update visits first (Helm's install order: ConfigMap, ClusterRole, Service, unknown kinds).
func firstApplied(mask int) slot {
	for _, i := range []int{0, 4, 3, 1, 2} {
		if mask&(1<<i) != 0 {
			return slots[i]
		}
	}
	panic("empty mask")
}

func opStep(o hx.Op) opspace.Step { return opspace.Step{Op: o} }

type ctxOpt struct {
	Own      int
	CreateNS string
	// IsUpgrade sets Install.IsUpgrade on a real (non dry-run) install; documented as ignored then.
	IsUpgrade bool
}

const nsObjPath = "/api/v1/namespaces/" + hx.Namespace

func contexts(thorough bool) []ctxDef { return contextsWith(thorough, ctxOpt{}) }

func contextsWith(thorough bool, opt ctxOpt) []ctxDef {
	all := contextsRaw(thorough, opt)
	if opt == (ctxOpt{}) {
		return all
	}
	var out []ctxDef
	for _, cx := range all {
		if (opt.CreateNS != "" || opt.IsUpgrade) && cx.Kind != "install" && cx.Kind != "replace" {
			continue
		}
		if opt.IsUpgrade {
			cx.Name += "/is-upgrade-flag"
			cx.IsUpgradeFlag = true
		}
		cx.Own, cx.CreateNS = opt.Own, opt.CreateNS
		if opt.Own > 0 {
			cx.Name += fmt.Sprintf("/chart-own-metadata-%d", opt.Own)
		}
		if opt.CreateNS != "" {
			cx.Name += "/create-namespace(ns-" + opt.CreateNS + ")"
		}
		if opt.CreateNS == "exists" {
			inner := cx.Prefix
			cx.Prefix = func(mask int) []opspace.Step {
				obj, _ := json.Marshal(map[string]any{"apiVersion": "v1", "kind": "Namespace", "metadata": map[string]any{"name": hx.Namespace}})
				return append([]opspace.Step{{Env: &opspace.EnvStep{Kind: "put", Path: nsObjPath, Obj: obj}}}, inner(mask)...)
			}
		}
		out = append(out, cx)
	}
	return out
}

func contextsRaw(thorough bool, opt ctxOpt) []ctxDef {
	var out []ctxDef
	chartC := func(mask, variant, base int, hook bool, version string) *hx.ChartSpec {
		return chartOwn(mask, variant, base, hook, version, opt.Own)
	}
	base := func(v int) *hx.ChartSpec { return chartC(0, 1, v, false, fmt.Sprintf("0.%d", v)) }
	installBase := opStep(hx.Op{Kind: "install", Chart: base(1)})
	upgradeBase2 := opStep(hx.Op{Kind: "upgrade", Chart: base(2)})
	failedUpgrade := opspace.Step{Op: hx.Op{Kind: "upgrade", Chart: base(2)}, Fault: &sim.Fault{Label: "PATCH configmaps/b0", Occurrence: 0, Kind: "reject"}}
	keep := opStep(hx.Op{Kind: "uninstall", KeepHistory: true})
	hooks := []bool{true}
	if thorough {
		hooks = []bool{true, false}
	}
	for _, hook := range hooks {
		hn := ""
		if !hook {
			hn = "/no-hook"
		}
		for _, to := range []bool{false, true} {
			add := func(name, kind string, ledger int, prefix []opspace.Step, under func(mask int) hx.Op) {
				out = append(out, ctxDef{Name: name + hn, Kind: kind, TO: to, Hook: hook, Ledger: ledger,
					Prefix: func(int) []opspace.Step { return prefix }, Under: under})
			}
			install := func(replace bool) func(int) hx.Op {
				return func(mask int) hx.Op {
					return hx.Op{Kind: "install", Chart: chartC(mask, 1, 0, hook, "1"), Replace: replace, TakeOwnership: to, CreateNamespace: opt.CreateNS != "", IsUpgrade: opt.IsUpgrade}
				}
			}
			upgrade := func(b int) func(int) hx.Op {
				return func(mask int) hx.Op {
					return hx.Op{Kind: "upgrade", Chart: chartC(mask, 1, b, hook, "1"), TakeOwnership: to}
				}
			}
			add("install/empty-ledger", "install", 0, nil, install(false))
			add("install/other-release-ledger", "install", 2, []opspace.Step{
				opStep(hx.Op{Kind: "install", Release: "q", Chart: chartQ1}), opStep(hx.Op{Kind: "upgrade", Release: "q", Chart: chartQ2})}, install(false))
			add("replace/ledger-1", "replace", 1, []opspace.Step{installBase, keep}, install(true))
			add("replace/ledger-2", "replace", 2, []opspace.Step{installBase, upgradeBase2, keep}, install(true))
			add("upgrade/ledger-1/keep-base", "upgrade", 1, []opspace.Step{installBase}, upgrade(1))
			add("upgrade/ledger-2/drop-base", "upgrade", 2, []opspace.Step{installBase, upgradeBase2}, upgrade(0))
			// retry of an upgrade whose first attempt FAILED before any slot was created: ledger 1:deployed 2:failed, the failed
			// revision's manifest already names the slots, the deployed one does not -> the slots are still "would be created"
			retry := func(name string, fault func(mask int) *sim.Fault) {
				hk, t := hook, to
				out = append(out, ctxDef{Name: name + hn, Kind: "upgrade", TO: to, Hook: hook, Ledger: 2, SlotsAbsentAfterPrefix: true,
					Prefix: func(mask int) []opspace.Step {
						return []opspace.Step{installBase, {Op: hx.Op{Kind: "upgrade", Chart: chartC(mask, 1, 1, hk, "1")}, Fault: fault(mask)}}
					},
					Under: func(mask int) hx.Op {
						return hx.Op{Kind: "upgrade", Chart: chartC(mask, 1, 1, hk, "1"), TakeOwnership: t}
					}})
			}
			if hook {
				retry("upgrade/retry-after-failed-pre-upgrade-hook", func(int) *sim.Fault {
					return &sim.Fault{Label: "wait:WatchUntilReady h", Occurrence: 0, Kind: "wait-fail"}
				})
			}
			retry("upgrade/retry-after-rejected-create", func(mask int) *sim.Fault {
				return &sim.Fault{Label: "POST " + resOfPath(slotPath(firstApplied(mask))), Occurrence: 0, Kind: "reject"}
			})
			if thorough {
				add("upgrade/ledger-1/change-base", "upgrade", 1, []opspace.Step{installBase}, upgrade(2))
				add("upgrade/ledger-1/drop-base", "upgrade", 1, []opspace.Step{installBase}, upgrade(0))
				add("upgrade/ledger-2/keep-base", "upgrade", 2, []opspace.Step{installBase, upgradeBase2}, upgrade(2))
				add("upgrade/ledger-2/change-base", "upgrade", 2, []opspace.Step{installBase, upgradeBase2}, upgrade(1))
				add("upgrade/ledger-deployed+failed/keep-base", "upgrade", 2, []opspace.Step{installBase, failedUpgrade}, upgrade(1))
				add("replace/ledger-superseded+failed+uninstalled", "replace", 2, []opspace.Step{installBase, failedUpgrade, keep}, install(true))
			}
		}
		// rollback re-creating the slots: no ownership check exists on that path; clauses (b) and (c) only
		h := hook
		out = append(out, ctxDef{Name: "rollback/recreate" + hn, Kind: "rollback", Hook: hook, Ledger: 2,
			Prefix: func(mask int) []opspace.Step {
				return []opspace.Step{opStep(hx.Op{Kind: "install", Chart: chartC(mask, 1, 1, h, "1")}), opStep(hx.Op{Kind: "upgrade", Chart: base(1)})}
			},
			Under: func(int) hx.Op { return hx.Op{Kind: "rollback"} }})
	}
	return out
}

// placements enumerates kinds^len(vary) vectors over the varied slots (the others stay absent),
// ordered by the number of occupied slots (simplest first).
func placements(kinds int, vary []int) []placement {
	all := []placement{{}}
	for _, slotIdx := range vary {
		var next []placement
		for _, p := range all {
			for k := 0; k < kinds; k++ {
				q := p
				q[slotIdx] = k
				next = append(next, q)
			}
		}
		all = next
	}
	occ := func(p placement) int {
		n := 0
		for _, k := range p {
			if k != plAbsent {
				n++
			}
		}
		return n
	}
	sort.SliceStable(all, func(i, j int) bool { return occ(all[i]) < occ(all[j]) })
	return all
}

func placementString(p placement) string {
	var s []string
	for i, k := range p {
		s = append(s, slots[i].id()+"="+placeNames[k])
	}
	return strings.Join(s, ",")
}

// ---------- execution ----------

func relOf(st opspace.Step) string {
	if st.Op.Release != "" {
		return st.Op.Release
	}
	return rel
}

// execStep runs one step on a clone of pre.
func execStep(drv string, pre *hx.World, path []opspace.Step, st opspace.Step) *opspace.Transition {
	post := pre.Clone()
	t := &opspace.Transition{Driver: drv, Init: "empty", Pre: pre, Post: post, Step: st,
		Path: append(append([]opspace.Step{}, path...), st), Depth: len(path) + 1}
	if st.Env != nil {
		opspace.ApplyEnv(post, st.Env)
		return t
	}
	op := st.Op
	op.Release = relOf(st)
	t.PreHist = pre.History(op.Release)
	t.Res = post.Exec(op, st.Fault)
	t.PostHist = post.History(op.Release)
	return t
}

// runPath executes a recorded path from the empty world.
func runPath(drv string, path []opspace.Step) []*opspace.Transition {
	w := hx.NewWorld(drv)
	var out []*opspace.Transition
	var sofar []opspace.Step
	for _, st := range path {
		t := execStep(drv, w, sofar, st)
		out = append(out, t)
		w, sofar = t.Post, t.Path
	}
	return out
}

// ---------- the oracle ----------

type problem struct {
	Clause    string
	Key       string
	What      string
	Conflicts []string
}

type verdict struct {
	Problems      []problem
	Applicable    bool // clause (a)/(b) of install/upgrade applies
	ExpectRefusal bool
	Refused       bool
	Occupied      int // would-be-created slots that are occupied
	Conflicts     int
	OwnedOccupied int
	Deletes       int
	HookDeletes   int
	Bystanders    int
	// NamespaceCreated: install --create-namespace created the release namespace object
	NamespaceCreated bool
	Stamped          int
}

func manifestDocs(manifest string) map[string]hx.Doc {
	out := map[string]hx.Doc{}
	docs, _ := hx.ParseManifest(manifest)
	for _, d := range docs {
		out[docPath(d)] = d
	}
	return out
}

// chartDocs: the documents a chart renders, computed from the spec (the templates are static).
func chartDocs(cs *hx.ChartSpec) map[string]hx.Doc {
	out := map[string]hx.Doc{}
	for _, r := range cs.Resources {
		for p, d := range manifestDocs(hx.ResourceYAML(r)) {
			out[p] = d
		}
	}
	for _, n := range sortedKeys(cs.Extra) {
		for p, d := range manifestDocs(cs.Extra[n]) {
			out[p] = d
		}
	}
	return out
}

func hookPathsOf(r *rspb.Release, into map[string]bool) {
	for _, h := range r.Hooks {
		for p := range manifestDocs(h.Manifest) {
			into[p] = true
		}
	}
}

func sortedKeys[V any](m map[string]V) []string {
	ks := make([]string, 0, len(m))
	for k := range m {
		ks = append(ks, k)
	}
	sort.Strings(ks)
	return ks
}

func isMutating(e sim.Entry) bool {
	return e.Mutating() || e.Class == "store-write" || e.Class == "record-write"
}

// resOfPath: "configmaps/a" from a store path.
func resOfPath(p string) string {
	segs := strings.Split(p, "/")
	if len(segs) < 2 {
		return p
	}
	r := segs[len(segs)-2] + "/" + segs[len(segs)-1]
	if i := strings.Index(p, "/namespaces/"); i >= 0 && len(segs) >= 4 && segs[len(segs)-4] == "namespaces" && segs[len(segs)-3] != hx.Namespace {
		r += "@" + segs[len(segs)-3] // the sim's call labels use the same suffix
	}
	return r
}

func kindOfPath(p string) string {
	segs := strings.Split(p, "/")
	if len(segs) < 2 {
		return p
	}
	return segs[len(segs)-2]
}

func eval(t *opspace.Transition) verdict {
	var v verdict
	if t.Step.Env != nil {
		return v
	}
	op, res := t.Step.Op, t.Res
	name := relOf(t.Step)
	pre, post := t.PreHist, t.PostHist
	preObjs, postObjs := t.Pre.NonRecordObjects(), t.Post.NonRecordObjects()
	shape := op.Shape()
	dry := op.DryRun || op.DryRunOption != "" || op.ClientOnly
	if op.IsUpgrade && op.Kind == "install" {
		shape += "[is-upgrade-flag]"
	}
	add := func(clause, key, what string, conflicts []string) {
		v.Problems = append(v.Problems, problem{Clause: clause, Key: core.SanitizeKey(key), What: what, Conflicts: conflicts})
	}
	maxPre := 0
	for _, r := range pre {
		if r.Version > maxPre {
			maxPre = r.Version
		}
	}

	// (a) refusal before any mutation
	if (op.Kind == "install" || op.Kind == "upgrade") && !dry && op.Chart != nil {
		v.Applicable = true
		would := chartDocs(op.Chart)
		if op.Kind == "upgrade" {
			var cur *rspb.Release
			for _, r := range pre {
				if r.Info.Status == rspb.StatusDeployed {
					cur = r
				}
			}
			if cur == nil && len(pre) > 0 {
				cur = pre[len(pre)-1]
			}
			if cur != nil {
				for p := range manifestDocs(cur.Manifest) {
					delete(would, p)
				}
			}
		}
		var conflicts, desc []string
		for _, p := range sortedKeys(would) {
			b, ok := preObjs[p]
			if !ok {
				continue
			}
			v.Occupied++
			var live map[string]any
			json.Unmarshal(b, &live)
			if hx.OwnershipProblem(live, name, hx.Namespace) != "" {
				conflicts = append(conflicts, p)
				desc = append(desc, would[p].Kind+":"+classify(b, name))
			} else {
				v.OwnedOccupied++
			}
		}
		v.Conflicts = len(conflicts)
		if len(conflicts) > 0 && !op.TakeOwnership {
			v.ExpectRefusal = true
			var muts []string
			for _, e := range res.Log {
				if isMutating(e) {
					muts = append(muts, e.Label)
				}
			}
			symptom, detail := "", ""
			switch {
			case !res.Failed:
				symptom, detail = "no-error", fmt.Sprintf("the operation succeeded (mutating requests: %v)", muts)
			case len(muts) > 0:
				symptom, detail = "mutated-before-refusal", fmt.Sprintf("the operation failed with %q but had already sent mutating requests %v", res.Err, muts)
			case t.Pre.Canon() != t.Post.Canon():
				symptom, detail = "state-changed", fmt.Sprintf("the operation failed with %q, sent no mutating request, but the state differs", res.Err)
			}
			if symptom != "" {
				// a missing refusal depends on what the object looks like; a refusal that comes too late does not
				keyDesc := desc
				if symptom != "no-error" {
					keyDesc = nil
					for _, p := range conflicts {
						keyDesc = append(keyDesc, would[p].Kind)
					}
				}
				add("A", fmt.Sprintf("A-refuse|%s|%s|%s", shape, symptom, strings.Join(keyDesc, "+")),
					fmt.Sprintf("%s without take-ownership over %s that exist(s) and is/are not owned by %s/%s must be refused before any mutation: %s",
						op.Kind, strings.Join(desc, ", "), name, hx.Namespace, detail), conflicts)
			} else {
				v.Refused = true
			}
		}
	}

	// (b) everything Helm created or updated from a manifest carries the ownership metadata
	if (op.Kind == "install" || op.Kind == "upgrade" || op.Kind == "rollback") && !dry && !v.ExpectRefusal {
		checkDoc := func(p string, d hx.Doc, how string) {
			b, ok := postObjs[p]
			if !ok {
				return
			}
			var live map[string]any
			json.Unmarshal(b, &live)
			if why := hx.OwnershipProblem(live, name, hx.Namespace); why != "" {
				add("B", fmt.Sprintf("B-stamp|%s|%s|pre=%s", shape, d.Kind, coarse(preObjs[p], name)),
					fmt.Sprintf("%s/%s is in the manifest of the revision just %s (live object before: %s) but after the operation: %s (live metadata now: %s)", d.Kind, d.Name, how, classify(preObjs[p], name), why, ownershipItems(live)), nil)
			} else {
				v.Stamped++
			}
		}
		if !res.Failed && len(post) > 0 {
			nr := post[len(post)-1]
			docs := manifestDocs(nr.Manifest)
			for _, p := range sortedKeys(docs) {
				checkDoc(p, docs[p], "deployed")
			}
		} else if res.Failed {
			for _, nr := range post {
				if nr.Version <= maxPre {
					continue
				}
				docs := manifestDocs(nr.Manifest)
				for _, p := range sortedKeys(docs) {
					pb, existed := preObjs[p]
					if qb, ok := postObjs[p]; ok && (!existed || !bytes.Equal(pb, qb)) {
						checkDoc(p, docs[p], "attempted (object created or changed by the failed operation)")
					}
				}
			}
		}
	}

	// (c) deletes are confined to the release's own manifests / the operated revision's hooks; everything else is untouched
	allowed := map[string]bool{}
	for _, r := range pre {
		for p := range manifestDocs(r.Manifest) {
			allowed[p] = true
		}
	}
	hooks := map[string]bool{}
	for _, r := range post {
		if r.Version > maxPre {
			hookPathsOf(r, hooks)
		}
	}
	if op.Kind == "uninstall" && len(pre) > 0 {
		hookPathsOf(pre[len(pre)-1], hooks)
	}
	for _, e := range res.Log {
		if e.Class != "cluster" || e.Verb != "DELETE" {
			continue
		}
		v.Deletes++
		switch {
		case allowed[e.Path]:
		case hooks[e.Path]:
			v.HookDeletes++
		default:
			add("C", fmt.Sprintf("C-delete|%s|%s|pre=%s", shape, kindOfPath(e.Path), coarse(preObjs[e.Path], name)),
				fmt.Sprintf("DELETE %s (status %d) was sent although no manifest of any stored revision of %s and no hook of the operated revision names it (live object before: %s)",
					resOfPath(e.Path), e.Code, name, classify(preObjs[e.Path], name)), nil)
		}
	}
	named := map[string]bool{}
	for p := range allowed {
		named[p] = true
	}
	for p := range hooks {
		named[p] = true
	}
	for _, r := range post {
		for p := range manifestDocs(r.Manifest) {
			named[p] = true
		}
	}
	union := map[string]bool{}
	for p := range preObjs {
		union[p] = true
	}
	for p := range postObjs {
		union[p] = true
	}
	for _, p := range sortedKeys(union) {
		if named[p] {
			continue
		}
		pb, existed := preObjs[p]
		qb, exists := postObjs[p]
		how := ""
		switch {
		case !existed:
			how = "created"
		case !exists:
			how = "deleted"
		case !bytes.Equal(pb, qb):
			how = "changed"
		}
		if how == "" {
			v.Bystanders++
			continue
		}
		if p == nsObjPath && how == "created" && op.Kind == "install" && op.CreateNamespace && !v.ExpectRefusal {
			// install --create-namespace may create the release namespace (never on a refused install: clause (a))
			v.NamespaceCreated = true
			continue
		}
		add("C", fmt.Sprintf("C-touched|%s|%s|%s", shape, kindOfPath(p), how),
			fmt.Sprintf("%s is not named by any manifest or operated hook of %s but was %s (before: %s)", resOfPath(p), name, how, classify(pb, name)), nil)
	}
	return v
}

// DeleteConfinement evaluates clause (c) alone on any fault-free transition of
// any history-based check (C01-C03 can call it from their Check functions):
// it returns one line per DELETE request outside the release's stored
// manifests / operated hooks and per touched object that no manifest names.
func DeleteConfinement(t *opspace.Transition) []string {
	var out []string
	for _, p := range eval(t).Problems {
		if p.Clause == "C" {
			out = append(out, p.Key+" "+p.What)
		}
	}
	return out
}

// ---------- reporting ----------

type replayData struct {
	Driver string         `json:"driver"`
	Path   []opspace.Step `json:"path"`
	Key    string         `json:"key"`
	Tier   string         `json:"tier"`
	// Inject, when set, is the mid-operation environment step of the last step of Path (inject.go).
	Inject *injectSpec `json:"inject,omitempty"`
}

func pathStrings(path []opspace.Step) []string {
	var out []string
	for _, s := range path {
		if s.Env != nil && s.Env.Kind == "put" {
			out = append(out, fmt.Sprintf("pre-existing %s (%s)", resOfPath(s.Env.Path), classify(normalisedObj(s.Env.Obj), rel)))
			continue
		}
		str := s.String()
		if s.Op.Release != "" && s.Op.Release != rel {
			str = "[release " + s.Op.Release + "] " + str
		}
		if s.Op.IsUpgrade {
			str += " [Install.IsUpgrade=true]"
		}
		if s.Op.Chart != nil && len(s.Op.Chart.Extra) > 0 {
			str += fmt.Sprintf(" +raw documents (own ownership metadata / explicit namespace): %v", sortedKeys(s.Op.Chart.Extra))
		}
		out = append(out, str)
	}
	return out
}

func normalisedObj(raw json.RawMessage) []byte { return []byte(raw) }

// minimiseA re-runs an (a)-violation with a single conflicting pre-existing object.
func minimiseA(t *opspace.Transition, p problem) (*opspace.Transition, *problem) {
	nPuts := 0
	for _, s := range t.Path {
		if s.Env != nil && s.Env.Kind == "put" {
			nPuts++
		}
	}
	if nPuts <= 1 {
		return nil, nil
	}
	// first try to keep one conflicting object and nothing else (no other conflicts, no owned objects,
	// no bystanders); then one conflicting object plus everything that is not a conflict
	for _, onlyConflicts := range []bool{false, true} {
		for _, keep := range p.Conflicts {
			isConflict := map[string]bool{}
			for _, q := range p.Conflicts {
				isConflict[q] = true
			}
			var np []opspace.Step
			for _, s := range t.Path {
				if s.Env != nil && s.Env.Kind == "put" && s.Env.Path != keep && (isConflict[s.Env.Path] || !onlyConflicts) {
					continue
				}
				np = append(np, s)
			}
			if len(np) == len(t.Path) {
				continue
			}
			ts := runPath(t.Driver, np)
			last := ts[len(ts)-1]
			for _, q := range eval(last).Problems {
				if q.Clause == "A" && len(q.Conflicts) == 1 && (len(p.Conflicts) > 1 || q.Key == p.Key) {
					q := q
					return last, &q
				}
			}
		}
	}
	return nil, nil
}

func report(c *core.Ctx, t *opspace.Transition, v verdict, minimise bool) {
	for _, p := range v.Problems {
		rt := t
		if minimise && p.Clause == "A" {
			if mt, mp := minimiseA(t, p); mp != nil {
				rt, p = mt, *mp
			}
		}
		c.Violate(prop, p.Key, fmt.Sprintf("%s [driver=%s history=%v]", p.What, rt.Driver, pathStrings(rt.Path)),
			replayData{Driver: rt.Driver, Path: rt.Path, Key: p.Key, Tier: c.Tier})
	}
}

func replay(c *core.Ctx, data json.RawMessage) []core.Violation {
	var rd replayData
	if err := json.Unmarshal(data, &rd); err != nil {
		return nil
	}
	if rd.Inject != nil {
		replayInjected(c, rd)
		return core.FilterKey(c.TakeViolations(), rd.Key)
	}
	for _, t := range runPath(rd.Driver, rd.Path) {
		report(c, t, eval(t), false)
	}
	return core.FilterKey(c.TakeViolations(), rd.Key)
}

// ---------- the explorer ----------

// block is one product sub-space: driver x contexts x chart masks x kinds^3 placements.
type block struct {
	driver string
	ctxs   []ctxDef
	masks  []int
	kinds  int
	vary   []int // slot indexes whose placement is enumerated
}

func blocksOf(thorough bool) []block {
	nsSlots := []int{0, 1, 2} // a, s, w
	const cr = 8              // mask bit of the cluster-scoped slot
	if !thorough {
		return []block{
			{driver: "memory", ctxs: contexts(false), masks: []int{3, 5, 6, 7}, kinds: 7, vary: nsSlots},
			{driver: "secrets", ctxs: contexts(false), masks: []int{7}, kinds: 7, vary: nsSlots},
			// cluster-scoped family: ClusterRole cr alone and together with ConfigMap a
			{driver: "memory", ctxs: contexts(false), masks: []int{cr, cr | 1}, kinds: 7, vary: []int{0, 3}},
			{driver: "secrets", ctxs: contexts(false), masks: []int{cr}, kinds: 7, vary: []int{3}},
			// install --create-namespace, release namespace object absent / present; conflicts inside (a, w) and outside (cr) the namespace
			{driver: "memory", ctxs: createNsContexts(false), masks: []int{7}, kinds: 7, vary: []int{0, 2}},
			{driver: "memory", ctxs: createNsContexts(false), masks: []int{cr, cr | 1}, kinds: 7, vary: []int{0, 3}},
			// charts whose documents hard-code ownership metadata of their own
			{driver: "memory", ctxs: contextsWith(false, ctxOpt{Own: 1}), masks: []int{15}, kinds: 7, vary: []int{0, 2}},
			{driver: "memory", ctxs: contextsWith(false, ctxOpt{Own: 2}), masks: []int{15}, kinds: 7, vary: []int{0, 2}},
			// install / install --replace with Install.IsUpgrade set on a real run (the flag must stay without effect)
			{driver: "memory", ctxs: contextsWith(false, ctxOpt{IsUpgrade: true}), masks: []int{7}, kinds: 7, vary: []int{0, 2}},
			{driver: "memory", ctxs: contextsWith(false, ctxOpt{IsUpgrade: true}), masks: []int{cr, cr | 1}, kinds: 7, vary: []int{0, 3}},
			// a document with metadata.namespace: other whose kind+name equal the base resource b0 of the release namespace
			{driver: "memory", ctxs: contexts(false), masks: []int{16, 17}, kinds: 7, vary: []int{0, 4}},
		}
	}
	// thorough: the memory backend with every chart subset, 9 placement kinds, hook and no-hook charts and the
	// extra ledgers; the Secret backend (records live in the same cluster, so "no mutating request" also covers
	// record writes over HTTP) with the quick alphabet; the cluster-scoped family with 9 kinds on all contexts,
	// and the 4-slot chart with all 7^4 placements
	return []block{
		{driver: "memory", ctxs: contexts(true), masks: []int{1, 2, 4, 3, 5, 6, 7}, kinds: 9, vary: nsSlots},
		{driver: "secrets", ctxs: contexts(false), masks: []int{3, 5, 6, 7}, kinds: 7, vary: nsSlots},
		{driver: "memory", ctxs: contexts(true), masks: []int{cr, cr | 1}, kinds: 9, vary: []int{0, 3}},
		{driver: "memory", ctxs: contexts(false), masks: []int{15}, kinds: 7, vary: []int{0, 1, 2, 3}},
		{driver: "secrets", ctxs: contexts(false), masks: []int{cr, cr | 1}, kinds: 7, vary: []int{0, 3}},
		{driver: "memory", ctxs: createNsContexts(true), masks: []int{7}, kinds: 7, vary: []int{0, 1, 2}},
		{driver: "memory", ctxs: createNsContexts(true), masks: []int{cr, cr | 1}, kinds: 9, vary: []int{0, 3}},
		{driver: "secrets", ctxs: createNsContexts(false), masks: []int{cr, cr | 1}, kinds: 7, vary: []int{0, 3}},
		{driver: "memory", ctxs: contextsWith(true, ctxOpt{Own: 1}), masks: []int{15, 5}, kinds: 7, vary: []int{0, 2}},
		{driver: "memory", ctxs: contextsWith(true, ctxOpt{Own: 2}), masks: []int{15, 5}, kinds: 7, vary: []int{0, 2}},
		{driver: "secrets", ctxs: contextsWith(false, ctxOpt{Own: 1}), masks: []int{15}, kinds: 7, vary: []int{0, 2}},
		{driver: "memory", ctxs: contextsWith(true, ctxOpt{IsUpgrade: true}), masks: []int{7}, kinds: 7, vary: []int{0, 1, 2}},
		{driver: "memory", ctxs: contextsWith(true, ctxOpt{IsUpgrade: true}), masks: []int{cr, cr | 1}, kinds: 9, vary: []int{0, 3}},
		{driver: "secrets", ctxs: contextsWith(false, ctxOpt{IsUpgrade: true}), masks: []int{7}, kinds: 7, vary: []int{0, 2}},
		{driver: "memory", ctxs: contexts(true), masks: []int{16, 17}, kinds: 9, vary: []int{0, 4}},
		{driver: "secrets", ctxs: contexts(false), masks: []int{16, 17}, kinds: 7, vary: []int{0, 4}},
	}
}

// createNsContexts: the install / install --replace contexts with --create-namespace, with the release namespace
// object absent and present. quick: install on an empty ledger (both) and install --replace on a 1-revision ledger (absent).
func createNsContexts(thorough bool) []ctxDef {
	var out []ctxDef
	for _, cx := range contextsWith(false, ctxOpt{CreateNS: "absent"}) {
		if thorough || strings.HasPrefix(cx.Name, "install/empty-ledger") || strings.HasPrefix(cx.Name, "replace/ledger-1") {
			out = append(out, cx)
		}
	}
	for _, cx := range contextsWith(false, ctxOpt{CreateNS: "exists"}) {
		if thorough || strings.HasPrefix(cx.Name, "install/empty-ledger") {
			out = append(out, cx)
		}
	}
	return out
}

type prefixState struct {
	w    *hx.World
	path []opspace.Step
	ok   bool
}

type explorer struct {
	c        *core.Ctx
	prefixes map[string]*prefixState
}

// account evaluates one executed transition.
func (x *explorer) account(t *opspace.Transition, scen string) verdict {
	c := x.c
	c.Eval(1)
	c.Transition(1)
	nOps := 0
	for _, s := range t.Path {
		if s.Env == nil {
			nOps++
		}
	}
	c.Depth(nOps)
	c.State(t.Post.Canon())
	c.Distinct(scen + "|" + t.Step.String())
	v := eval(t)
	report(c, t, v, true)
	if v.Deletes > 0 {
		c.Floor("delete-checked")
		c.Count("delete_requests_checked", int64(v.Deletes))
	}
	if v.HookDeletes > 0 {
		c.Floor("hook-delete-checked")
	}
	if v.Bystanders > 0 {
		c.Floor("bystander-compared")
		c.Count("bystander_objects_compared", int64(v.Bystanders))
	}
	c.Count("objects_stamp_checked", int64(v.Stamped))
	return v
}

func (x *explorer) prefix(drv string, cx ctxDef, mask int) *prefixState {
	steps := cx.Prefix(mask)
	var sb strings.Builder
	sb.WriteString(drv)
	for _, s := range steps {
		sb.WriteString("|" + relOf(s) + ":" + s.String())
	}
	key := sb.String()
	if ps, ok := x.prefixes[key]; ok {
		return ps
	}
	ps := &prefixState{w: hx.NewWorld(drv), ok: true}
	x.c.State(ps.w.Canon())
	for _, s := range steps {
		t := execStep(drv, ps.w, ps.path, s)
		x.account(t, "prefix")
		if s.Fault != nil && !t.Res.FaultHit {
			ps.ok = false
			x.c.NotExhaustive("prefix fault %s not reached in %s", s.Fault, cx.Name)
		}
		if t.Res.Failed != (s.Fault != nil) {
			ps.ok = false
			x.c.NotExhaustive("prefix step %s of %s: unexpected result %q", s.String(), cx.Name, t.Res.Err)
		}
		ps.w, ps.path = t.Post, t.Path
	}
	if cx.SlotsAbsentAfterPrefix && ps.ok {
		hist := ps.w.History(rel)
		if len(hist) != 2 || hist[0].Info.Status != rspb.StatusDeployed || hist[1].Info.Status != rspb.StatusFailed {
			ps.ok = false
			x.c.NotExhaustive("prefix of %s: ledger is %s, expected 1:deployed 2:failed", cx.Name, hx.StatusVector(hist))
		}
		for i, sl := range slots {
			if _, exists := ps.w.Sim.Get(slotPath(sl)); exists && mask&(1<<i) != 0 {
				ps.ok = false
				x.c.NotExhaustive("prefix of %s: the failed attempt created %s/%s", cx.Name, sl.Kind, sl.Name)
			}
		}
	}
	x.prefixes[key] = ps
	return ps
}

func run(c *core.Ctx) {
	blocks := blocksOf(c.Thorough())
	c.Bound("slots", "ConfigMap a, Service s, Widget w, ClusterRole cr (cluster-scoped), ConfigMap b0 in namespace other (same kind+name as the base resource)")
	c.Bound("ledger_depth_before_operation", "0..2 revisions")
	c.Bound("followup_depth", "1 operation after the operation under test")
	for i, b := range blocks {
		var charts, varied []string
		for _, m := range b.masks {
			charts = append(charts, maskName(m))
		}
		for _, v := range b.vary {
			varied = append(varied, slots[v].Name)
		}
		c.Bound(fmt.Sprintf("block%d", i+1), fmt.Sprintf("driver=%s contexts(incl. take-ownership on/off)=%d charts=%s placement_kinds=%d placed_slots=%s placement_vectors=%d",
			b.driver, len(b.ctxs), strings.Join(charts, "|"), b.kinds, strings.Join(varied, "+"), len(placements(b.kinds, b.vary))))
	}
	x := &explorer{c: c, prefixes: map[string]*prefixState{}}
	for _, b := range blocks {
		pls := placements(b.kinds, b.vary)
		for _, cx := range b.ctxs {
			if c.Only != "" && !strings.Contains(b.driver+"|"+cx.Name, c.Only) {
				continue
			}
			for _, mask := range b.masks {
				for _, pl := range pls {
					if !c.NextMine() {
						continue
					}
					x.scenario(b.driver, cx, mask, pl)
				}
			}
		}
	}
	x.carryOverFamily()
	x.injectFamily()
}

func (x *explorer) scenario(drv string, cx ctxDef, mask int, pl placement) {
	c := x.c
	ps := x.prefix(drv, cx, mask)
	if !ps.ok {
		return
	}
	scen := fmt.Sprintf("%s|%s|to=%v|chart=%s|%s", drv, cx.Name, cx.TO, maskName(mask), placementString(pl))
	w, path := ps.w, ps.path
	occupiedChart := 0
	for i, k := range pl {
		if k == plAbsent {
			continue
		}
		if mask&(1<<i) != 0 {
			occupiedChart++
		}
		obj, _ := json.Marshal(preObject(slots[i], k))
		t := execStep(drv, w, path, opspace.Step{Env: &opspace.EnvStep{Kind: "put", Path: slotPath(slots[i]), Obj: obj}})
		w, path = t.Post, t.Path
	}
	under := cx.Under(mask)
	t := execStep(drv, w, path, opStep(under))
	v := x.account(t, scen)
	if occupiedChart > 0 {
		c.Count("cases_with_occupied_chart_slot", 1)
	}

	// outcome of the operation under test
	out := ""
	switch {
	case cx.Kind == "rollback":
		out = "rollback:" + t.Res.ErrClass()
		if !t.Res.Failed {
			c.Floor("rollback-recreates")
		}
	case v.ExpectRefusal && v.Refused:
		out = "refused"
		c.Floor("refused:" + cx.Kind)
		if mask&8 != 0 && pl[3] == 3 && v.Conflicts == 1 {
			// the only conflict is the cluster-scoped object annotated r/other-ns
			c.Floor("refused-cluster-scoped-other-ns:" + cx.Kind)
		}
		if cx.Ledger > 0 {
			c.Floor("refused-on-populated-ledger")
		}
		if cx.SlotsAbsentAfterPrefix {
			c.Floor("refused:retry-after-failed-upgrade")
		}
		if mask&16 != 0 && v.Conflicts == 1 && pl[4] != plAbsent && pl[4] != plOwned && cx.Kind == "upgrade" {
			// the only conflict is the other-namespace twin of a resource the deployed manifest has in the release namespace
			c.Floor("refused:upgrade-same-name-other-namespace")
		}
		if cx.IsUpgradeFlag {
			c.Floor("refused:" + cx.Kind + "-with-is-upgrade-flag")
		}
		if cx.CreateNS != "" {
			c.Floor("refused:create-namespace(ns-" + cx.CreateNS + ")")
			if mask&8 != 0 && v.Conflicts == 1 && pl[3] != plAbsent && pl[3] != plOwned {
				// the only conflict lives outside the release namespace (cluster-scoped)
				c.Floor("refused:create-namespace-conflict-outside-namespace")
			}
		}
	case v.ExpectRefusal:
		out = "REFUSAL-MISSING"
	case t.Res.Failed:
		out = "failed:" + t.Res.ErrClass()
		e := t.Res.Err
		if len(e) > 100 {
			e = e[:100]
		}
		c.Count("failed:"+cx.Kind+":"+e, 1)
	case v.Conflicts > 0:
		out = "takeover"
		c.Floor("takeover:" + cx.Kind)
		if mask&8 != 0 && pl[3] != plAbsent && pl[3] != plOwned {
			c.Floor("takeover-cluster-scoped")
		}
	case v.OwnedOccupied > 0:
		out = "adopted-owned"
		c.Floor("adopted-owned:" + cx.Kind)
	default:
		out = "created-fresh"
		c.Floor("created-fresh")
	}
	if cx.CreateNS != "" {
		out = "create-ns(" + cx.CreateNS + "):" + out
		if v.NamespaceCreated {
			c.Floor("create-namespace:created")
		}
		if cx.CreateNS == "exists" && !t.Res.Failed && !v.ExpectRefusal {
			c.Floor("create-namespace:already-exists-tolerated")
		}
	}
	if cx.Own > 0 {
		out = fmt.Sprintf("chart-own-metadata-%d:%s", cx.Own, out)
		if !t.Res.Failed && !v.ExpectRefusal && len(v.Problems) == 0 && v.Stamped > 0 {
			c.Floor(fmt.Sprintf("chart-own-metadata-%d-overridden:%s", cx.Own, cx.Kind))
		}
	}
	c.Outcome(cx.Kind + ":" + out)
	if occupiedChart >= 2 || (occupiedChart == 1 && cx.Ledger == 2) {
		c.Sample(map[string]any{"context": cx.Name, "take_ownership": cx.TO, "chart_slots": maskName(mask), "placement": placementString(pl),
			"outcome": out, "err": t.Res.Err, "history": pathStrings(t.Path)})
	}

	// follow-ups from the reached state
	hist := t.PostHist
	if len(hist) == 0 {
		return
	}
	if st := hist[len(hist)-1].Info.Status; st != rspb.StatusDeployed && st != rspb.StatusFailed {
		return
	}
	var fus []hx.Op
	fus = append(fus, hx.Op{Kind: "uninstall"})
	if len(hist) >= 2 {
		fus = append(fus, hx.Op{Kind: "rollback"})
	}
	succeeded := cx.Kind != "rollback" && !t.Res.Failed
	if succeeded {
		fus = append(fus,
			hx.Op{Kind: "upgrade", Chart: chartOwn(mask, 2, baseOf(under.Chart), cx.Hook, "2", cx.Own)},
			hx.Op{Kind: "upgrade", Chart: chartC(0, 1, 1, false, "0.1")})
	}
	if c.Thorough() {
		fus = append(fus, hx.Op{Kind: "uninstall", KeepHistory: true})
	}
	for _, fo := range fus {
		ft := execStep(drv, t.Post, t.Path, opStep(fo))
		x.account(ft, scen)
		cls := fo.Kind + ":" + ft.Res.ErrClass()
		c.Outcome("followup:" + cls)
		if ft.Res.Failed {
			continue
		}
		switch {
		case fo.Kind == "uninstall":
			c.Floor("uninstall-ok")
			if v.Refused {
				c.Floor("uninstall-after-refusal")
			}
		case fo.Kind == "rollback":
			c.Floor("rollback-ok")
		case fo.Kind == "upgrade" && strings.HasPrefix(fo.Chart.Version, "2"):
			c.Floor("upgrade-updates-slots")
		case fo.Kind == "upgrade":
			c.Floor("upgrade-removes-slots")
		}
	}
}
