package c07

// Carry-over family: resources that are in BOTH the old and the new manifest.
// The release owns {b0 + slots}; every subset of its live objects is deleted
// out-of-band; then an upgrade (changing the content, or with the identical
// chart) or a rollback runs, with --force off/on (PUT replace instead of
// patch). These are the write paths that do not merge with the live object:
// re-creation from the target and replacement. Clause (b): every manifest
// object Helm created or updated carries the managed-by label and both
// release annotations afterwards (evaluated by eval like any transition).

import (
	"fmt"
	"strings"

	"verif/harness/internal/hx"
	"verif/harness/internal/opspace"
)

type carryOp struct {
	Name   string
	Prefix func(mask int) []opspace.Step
	Under  func(mask int, force, to bool) hx.Op
	HasTO  bool
}

func carryOps() []carryOp {
	inst := func(mask, variant int) opspace.Step {
		return opStep(hx.Op{Kind: "install", Chart: chartC(mask, variant, 1, true, "1")})
	}
	return []carryOp{
		{"upgrade-changing", func(mask int) []opspace.Step { return []opspace.Step{inst(mask, 1)} },
			func(mask int, force, to bool) hx.Op {
				return hx.Op{Kind: "upgrade", Chart: chartC(mask, 2, 2, true, "2"), Force: force, TakeOwnership: to}
			}, true},
		{"upgrade-identical", func(mask int) []opspace.Step { return []opspace.Step{inst(mask, 1)} },
			func(mask int, force, to bool) hx.Op {
				return hx.Op{Kind: "upgrade", Chart: chartC(mask, 1, 1, true, "1"), Force: force, TakeOwnership: to}
			}, true},
		{"rollback", func(mask int) []opspace.Step {
			return []opspace.Step{inst(mask, 1), opStep(hx.Op{Kind: "upgrade", Chart: chartC(mask, 2, 2, true, "2")})}
		}, func(_ int, force, _ bool) hx.Op { return hx.Op{Kind: "rollback", Force: force} }, false},
	}
}

func (x *explorer) carryOverFamily() {
	c := x.c
	drivers := []string{"memory"}
	masks := []int{3, 5, 6, 7, 9, 15}
	if c.Thorough() {
		drivers = []string{"memory", "secrets"}
		masks = []int{1, 2, 4, 8, 3, 5, 6, 7, 9, 15}
	}
	c.Bound("carry_over_family", fmt.Sprintf("drivers=%s operations=upgrade-changing|upgrade-identical (x take-ownership on/off)|rollback x force on/off x charts=%d slot subsets (+ base b0) x every subset of the release's live objects deleted out-of-band; follow-ups uninstall, rollback",
		strings.Join(drivers, ","), len(masks)))
	for _, drv := range drivers {
		for _, co := range carryOps() {
			if c.Only != "" && !strings.Contains(drv+"|carry/"+co.Name, c.Only) {
				continue
			}
			for _, mask := range masks {
				// the release's objects: b0 + the chart's slots
				paths := []string{hx.Doc{APIVersion: "v1", Kind: "ConfigMap", Name: "b0"}.Path()}
				for i, sl := range slots {
					if mask&(1<<i) != 0 {
						paths = append(paths, slotPath(sl))
					}
				}
				for _, force := range []bool{false, true} {
					for _, to := range []bool{false, true} {
						if to && !co.HasTO {
							continue
						}
						for del := 0; del < 1<<len(paths); del++ {
							if !c.NextMine() {
								continue
							}
							x.carryCase(drv, co, mask, force, to, paths, del)
						}
					}
				}
			}
		}
	}
}

func (x *explorer) carryCase(drv string, co carryOp, mask int, force, to bool, paths []string, del int) {
	c := x.c
	ps := x.prefix(drv, ctxDef{Name: "carry/" + co.Name, Prefix: co.Prefix}, mask)
	if !ps.ok {
		return
	}
	var deleted []string
	w, path := ps.w, ps.path
	for i, p := range paths {
		if del&(1<<i) == 0 {
			continue
		}
		deleted = append(deleted, resOfPath(p))
		t := execStep(drv, w, path, opspace.Step{Env: &opspace.EnvStep{Kind: "delete", Path: p}})
		w, path = t.Post, t.Path
	}
	scen := fmt.Sprintf("%s|carry/%s|chart=%s|force=%v|to=%v|deleted=%s", drv, co.Name, maskName(mask), force, to, strings.Join(deleted, ","))
	t := execStep(drv, w, path, opStep(co.Under(mask, force, to)))
	v := x.account(t, scen)
	c.Count("carry_over_cases", 1)
	out := "ok"
	if t.Res.Failed {
		out = "failed:" + t.Res.ErrClass()
		e := t.Res.Err
		if len(e) > 100 {
			e = e[:100]
		}
		c.Count("carry-failed:"+co.Name+":"+e, 1)
	}
	fl := ""
	if force {
		fl = "+force"
	}
	c.Outcome("carry/" + co.Name + fl + ":" + out)
	if !t.Res.Failed && len(v.Problems) == 0 {
		switch {
		case co.Name == "rollback" && len(deleted) > 0:
			c.Floor("carry:rollback-recreated-stamped")
		case len(deleted) > 0:
			c.Floor("carry:recreated-stamped")
		}
		if force && len(deleted) < len(paths) {
			c.Floor("carry:force-replaced-stamped")
		}
	}
	if len(deleted) == 1 && mask == 7 {
		c.Sample(map[string]any{"family": "carry-over", "operation": co.Name, "force": force, "take_ownership": to, "deleted_out_of_band": deleted,
			"outcome": out, "err": t.Res.Err, "history": pathStrings(t.Path)})
	}
	if t.Res.Failed {
		return
	}
	for _, fo := range []hx.Op{{Kind: "uninstall"}, {Kind: "rollback"}} {
		ft := execStep(drv, t.Post, t.Path, opStep(fo))
		x.account(ft, scen)
		c.Outcome("carry-followup:" + fo.Kind + ":" + ft.Res.ErrClass())
	}
}
