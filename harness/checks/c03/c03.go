// Package c03: a failed operation is contained; --atomic restores the last
// good state. Every single cluster-side fault at every call position of
// every operation of bounded histories (prefixes fault-free and faulty).
package c03

import (
	"encoding/json"
	"fmt"
	"strings"

	rspb "helm.sh/helm/v4/pkg/release/v1"

	"verif/harness/internal/core"
	"verif/harness/internal/hx"
	"verif/harness/internal/opspace"
	"verif/harness/internal/sim"
)

const prop = "C03"

func init() {
	core.Register(&core.Check{
		ID:    prop,
		Level: "fault_enumeration",
		Rule: "BFS over operation histories (install/upgrade/rollback x atomic/cleanup-on-fail/no-hooks, charts with hooks for every event); " +
			"for every reached state and operation, one run per (cluster call | readiness wait | hook wait) discovered from the fault-free run, with that call rejected / failing; " +
			"prefixes may themselves contain one faulty operation. non-trivial = the fault was reached; distinct = canonical (state, operation, fault)",
		Run:    run,
		Replay: replay,
		Assumptions: []string{
			"simulated API server; readiness and hook completion are scripted (success unless faulted)",
			"a rejected call is answered 403 Forbidden (not retried by client-go)",
			"charts have at most one resource per kind (deterministic request order)",
			"finding keys do not include the storage driver: only cluster-side faults are injected and the behaviour lives in pkg/action",
		},
		RequiredFloors: []string{"atomic-upgrade-restored", "atomic-install-cleaned", "cleanup-deleted", "failed-recorded", "hook-fault", "wait-fault", "reject-fault", "deployed-kept"},
	})
}

var hooks = []hx.HookSpec{
	{Name: "hpre", Kind: "ConfigMap", Events: []string{"pre-install", "pre-upgrade", "pre-rollback", "pre-delete"}, Weight: 0},
	{Name: "hpost", Kind: "Job", Events: []string{"post-install", "post-upgrade", "post-rollback", "post-delete"}, Weight: 0, Policies: []string{"before-hook-creation", "hook-succeeded"}},
}
var (
	chartP = &hx.ChartSpec{Name: "c", Version: "1", Resources: []hx.ResSpec{{Kind: "ConfigMap", Name: "a", Variant: 1}, {Kind: "Service", Name: "s", Variant: 1}}, Hooks: hooks}
	chartQ = &hx.ChartSpec{Name: "c", Version: "2", Resources: []hx.ResSpec{{Kind: "ConfigMap", Name: "a", Variant: 2}, {Kind: "Secret", Name: "x", Variant: 1}}, Hooks: hooks}
)

func alphabet() []hx.Op {
	var ops []hx.Op
	for _, atomic := range []bool{false, true} {
		for _, nh := range []bool{false, true} {
			ops = append(ops, hx.Op{Kind: "install", Chart: chartP, Atomic: atomic, DisableHooks: nh})
		}
	}
	for _, atomic := range []bool{false, true} {
		for _, cl := range []bool{false, true} {
			for _, nh := range []bool{false, true} {
				ops = append(ops, hx.Op{Kind: "upgrade", Chart: chartQ, Atomic: atomic, CleanupOnFail: cl, DisableHooks: nh})
			}
		}
	}
	ops = append(ops, hx.Op{Kind: "upgrade", Chart: chartP})
	ops = append(ops, hx.Op{Kind: "install", Chart: chartQ, Replace: true}, hx.Op{Kind: "install", Chart: chartP, Replace: true, DisableHooks: true})
	for _, cl := range []bool{false, true} {
		for _, nh := range []bool{false, true} {
			ops = append(ops, hx.Op{Kind: "rollback", CleanupOnFail: cl, DisableHooks: nh})
		}
	}
	ops = append(ops, hx.Op{Kind: "uninstall", KeepHistory: true}, hx.Op{Kind: "uninstall"})
	return ops
}

func config(tier string) *opspace.Config {
	ops := alphabet()
	cfg := &opspace.Config{
		Property: prop,
		Drivers:  []string{"memory", "secrets"},
		Inits:    []string{"empty", "failed-rollback"},
		MakeInit: func(drv, init string) *hx.World {
			w := hx.NewWorld(drv)
			if init == "failed-rollback" {
				// install P, upgrade to Q, rollback rejected by the cluster: rev2 superseded, rev3 failed, nothing deployed
				w.Exec(hx.Op{Kind: "install", Release: "r", Chart: chartP}, nil)
				w.Exec(hx.Op{Kind: "upgrade", Release: "r", Chart: chartQ}, nil)
				w.Exec(hx.Op{Kind: "rollback", Release: "r"}, &sim.Fault{Label: "PATCH configmaps/a", Occurrence: 0, Kind: "reject"})
			}
			return w
		},
		Alphabet: func(_ *hx.World, _ []*rspb.Release, _ []opspace.Step) []opspace.Step {
			var out []opspace.Step
			for _, o := range ops {
				out = append(out, opspace.Step{Op: o})
			}
			return out
		},
		MaxDepth: 3,
		DepthFor: func(init string) int {
			if init == "failed-rollback" {
				return 2
			}
			return 0
		},
		MaxFaulty: 1,
		FaultKinds: func(_ string, op hx.Op, call sim.Call) []string {
			if op.Kind == "uninstall" {
				return nil
			}
			switch call.Class {
			case "cluster":
				return []string{"reject"}
			case "wait":
				return []string{"wait-fail"}
			}
			return nil
		},
		Check: check,
	}
	if tier == "thorough" {
		cfg.Drivers = hx.Drivers
	}
	return cfg
}

// doubleFault: two faulty operations back to back (so that "previously deployed" and "most recent
// revision that had been deployed" differ from the last revision), from populated histories, over the
// operations without the no-hooks dimension.
func doubleFault(tier string) *opspace.Config {
	d := config(tier)
	var ops []hx.Op
	for _, o := range alphabet() {
		if !o.DisableHooks && o.Kind != "uninstall" {
			ops = append(ops, o)
		}
	}
	d.Inits = []string{"installed", "upgraded", "failed-rollback"}
	base := d.MakeInit
	d.MakeInit = func(drv, init string) *hx.World {
		switch init {
		case "installed":
			w := hx.NewWorld(drv)
			w.Exec(hx.Op{Kind: "install", Release: "r", Chart: chartP}, nil)
			return w
		case "upgraded":
			w := hx.NewWorld(drv)
			w.Exec(hx.Op{Kind: "install", Release: "r", Chart: chartP}, nil)
			w.Exec(hx.Op{Kind: "upgrade", Release: "r", Chart: chartQ}, nil)
			return w
		}
		return base(drv, init)
	}
	d.Alphabet = func(_ *hx.World, _ []*rspb.Release, _ []opspace.Step) []opspace.Step {
		var out []opspace.Step
		for _, o := range ops {
			out = append(out, opspace.Step{Op: o})
		}
		return out
	}
	d.DepthFor = nil
	d.MaxDepth, d.MaxFaulty = 2, 2
	return d
}

func run(c *core.Ctx) {
	config(c.Tier).Run(c)
	doubleFault(c.Tier).Run(c)
	if c.Thorough() {
		// depth 4 with one faulty operation per history (memory driver)
		d := config("quick")
		d.Drivers, d.Inits, d.DepthFor = []string{"memory"}, []string{"empty"}, nil
		d.MaxDepth, d.MaxFaulty = 4, 1
		d.Run(c)
	}
}

type replayData struct {
	opspace.Replay
	Key  string `json:"key"`
	Tier string `json:"tier"`
}

func replay(c *core.Ctx, data json.RawMessage) []core.Violation {
	var rd replayData
	if err := json.Unmarshal(data, &rd); err != nil {
		return nil
	}
	doubleFault(rd.Tier).ReplayPath(c, rd.Replay) // its MakeInit knows every initial state
	return core.FilterKey(c.TakeViolations(), rd.Key)
}

func find(h []*rspb.Release, v int) *rspb.Release {
	for _, r := range h {
		if r.Version == v {
			return r
		}
	}
	return nil
}

// role classifies the object a call label refers to, relative to what the
// operation diffs: hook | version | added | kept | obsolete | other.
func role(label string, op hx.Op, pre []*rspb.Release) string {
	if strings.HasSuffix(label, "/version") {
		return "version"
	}
	if strings.HasPrefix(label, "wait:") {
		if strings.Contains(label, "hpre") || strings.Contains(label, "hpost") {
			return "hook"
		}
		return "resources"
	}
	obj := label[strings.Index(label, " ")+1:]
	if strings.HasSuffix(obj, "/hpre") || strings.HasSuffix(obj, "/hpost") {
		return "hook"
	}
	names := func(manifest string) map[string]bool {
		out := map[string]bool{}
		docs, _ := hx.ParseManifest(manifest)
		for _, d := range docs {
			p := d.Path()
			segs := strings.Split(p, "/")
			out[segs[len(segs)-2]+"/"+segs[len(segs)-1]] = true
		}
		return out
	}
	cur, tgt := map[string]bool{}, map[string]bool{}
	if len(pre) > 0 {
		base := pre[len(pre)-1]
		if op.Kind == "upgrade" {
			// upgrade diffs against the deployed revision when there is one
			for _, r := range pre {
				if r.Info.Status == rspb.StatusDeployed {
					base = r
				}
			}
		}
		cur = names(base.Manifest)
	}
	switch op.Kind {
	case "rollback":
		tv := op.Version
		if tv == 0 && len(pre) > 0 {
			tv = pre[len(pre)-1].Version - 1
		}
		if r := find(pre, tv); r != nil {
			tgt = names(r.Manifest)
		}
	default:
		for _, r := range op.Chart.Resources {
			for k := range names(hx.ResourceYAML(r)) {
				tgt[k] = true
			}
		}
	}
	switch {
	case cur[obj] && tgt[obj]:
		return "kept"
	case tgt[obj]:
		return "added"
	case cur[obj]:
		return "obsolete"
	}
	return "other"
}

func check(c *core.Ctx, t *opspace.Transition) {
	if t.Step.Env != nil {
		return
	}
	op, res, f := t.Step.Op, t.Res, t.Step.Fault
	if op.Kind == "uninstall" {
		return
	}
	pre, post := t.PreHist, t.PostHist
	var faultClass, kind string
	switch {
	case f != nil:
		if !res.FaultHit || t.Base == nil || t.Base.Res.Failed {
			// the injected fault is not the single cause of failure: out of the
			// statement ("every single cluster-side fault")
			c.Count("skipped_double_failure", 1)
			return
		}
		verb := strings.SplitN(f.Label, " ", 2)[0]
		if strings.HasPrefix(f.Label, "wait:") {
			verb = strings.Fields(f.Label)[0]
		}
		faultClass, kind = f.Kind+"@"+verb+"_"+role(f.Label, op, pre), f.Kind
	default:
		// fault-free run that fails because the cluster itself rejected a call
		if !res.Failed {
			return
		}
		var rej *sim.Entry
		for i, e := range res.Log {
			if e.Class == "cluster" && e.Code >= 400 && !(e.Code == 404 && (e.Verb == "GET" || e.Verb == "DELETE")) {
				rej = &res.Log[i]
				break
			}
		}
		if rej == nil {
			return
		}
		faultClass, kind = fmt.Sprintf("natural-%d@%s_%s", rej.Code, rej.Verb, role(rej.Label, op, pre)), "natural"
	}
	opClass := op.Kind
	if op.Atomic {
		opClass += "[atomic]"
	}
	violate := func(inv, what string) {
		cause := "fault=" + faultClass
		oc := opClass
		switch {
		case inv == "O1-error-returned":
			oc = op.Kind
		case op.Atomic && strings.Contains(res.Err, "rolling back the release") && strings.Contains(res.Err, "with the name"):
			// one root cause whatever the position of the original fault: the atomic
			// rollback diffs against the failed revision's manifest and refuses a live
			// object that is not in it ("no <Kind> with the name ... found")
			cause = "cause=rollback-refuses-live-object-not-in-failed-manifest"
		}
		key := core.SanitizeKey(fmt.Sprintf("%s|%s|%s", inv, oc, cause))
		c.Violate(prop, key, fmt.Sprintf("%s: %s [driver=%s history=%v pre=(%s) post=(%s) err=%q]", inv, what, t.Driver, opspace.PathStrings(t.Path), hx.StatusVector(pre), hx.StatusVector(post), res.Err),
			replayData{Replay: opspace.Replay{Driver: t.Driver, Init: t.Init, Path: t.Path}, Key: key, Tier: c.Tier})
	}
	c.Distinct(t.Pre.Canon() + "|" + t.Step.String())
	c.Outcome(op.Kind + ":" + res.ErrClass() + ":" + kind)
	if f != nil {
		switch {
		case strings.HasPrefix(f.Label, "wait:WatchUntilReady"):
			c.Floor("hook-fault")
		case strings.HasPrefix(f.Label, "wait:"):
			c.Floor("wait-fault")
		default:
			c.Floor("reject-fault")
		}
	}
	if t.Depth >= 2 && t.Faulty == 1 {
		c.Sample(map[string]any{"driver": t.Driver, "history": opspace.PathStrings(t.Path), "ledger_after": hx.StatusVector(post), "error": res.Err})
	}

	// O1: the operation returns an error
	if !res.Failed {
		violate("O1-error-returned", fmt.Sprintf("%s was injected but the operation reported success", f))
	}
	var created []*rspb.Release
	for _, r := range post {
		if find(pre, r.Version) == nil {
			created = append(created, r)
		}
	}
	// O2: the revision created by the operation is recorded as failed
	if len(created) > 0 {
		first := created[0]
		if first.Info.Status != rspb.StatusFailed && res.Failed {
			violate("O2-created-failed", fmt.Sprintf("the revision %d created by the failed operation is %s", first.Version, first.Info.Status))
		} else if first.Info.Status == rspb.StatusFailed {
			c.Floor("failed-recorded")
		}
	}
	atomic := op.Atomic
	// O3: previously deployed revision keeps its status (install/upgrade, not atomic)
	if (op.Kind == "install" || op.Kind == "upgrade") && !atomic && res.Failed {
		for _, d := range pre {
			if d.Info.Status != rspb.StatusDeployed {
				continue
			}
			if r := find(post, d.Version); r == nil || r.Info.Status != rspb.StatusDeployed {
				st := "gone"
				if r != nil {
					st = r.Info.Status.String()
				}
				violate("O3-deployed-kept", fmt.Sprintf("previously deployed revision %d is now %s", d.Version, st))
			} else {
				c.Floor("deployed-kept")
			}
		}
	}
	// O4: cleanup-on-fail deletes what this upgrade newly created
	if op.Kind == "upgrade" && op.CleanupOnFail && res.Failed && len(created) > 0 {
		docs, _ := hx.ParseManifest(created[0].Manifest)
		man := map[string]bool{}
		for _, d := range docs {
			man[d.Path()] = true
		}
		for _, e := range res.Log {
			if e.Verb == "POST" && e.Applied && e.Class == "cluster" {
				// path of the created object = collection path + name from the label
				name := e.Label[strings.LastIndex(e.Label, "/")+1:]
				p := e.Path + "/" + name
				if !man[p] {
					continue
				}
				if _, ok := t.Post.Sim.Get(p); ok && !restoredByRollback(op, post, p) {
					violate("O4-cleanup", fmt.Sprintf("%s was created by this upgrade and still exists after cleanup-on-fail", p))
				} else {
					c.Floor("cleanup-deleted")
				}
			}
		}
	}
	// O4b: ... and nothing else: a failed upgrade/rollback with cleanup-on-fail must not delete an object that
	// existed before the operation and that the new revision's manifest still names (it did not create it)
	if (op.Kind == "upgrade" || op.Kind == "rollback") && op.CleanupOnFail && !atomic && res.Failed && len(created) > 0 {
		docs, _ := hx.ParseManifest(created[0].Manifest)
		man := map[string]bool{}
		for _, d := range docs {
			man[d.Path()] = true
		}
		for _, e := range res.Log {
			if e.Verb == "DELETE" && e.Applied && e.Class == "cluster" && man[sim.StorePath(e.Path)] {
				if _, existed := t.Pre.Sim.Get(sim.StorePath(e.Path)); existed {
					violate("O4-cleanup-overreach", fmt.Sprintf("%s existed before the operation and is named by the new revision's manifest, but the failed %s deleted it (%s)", sim.StorePath(e.Path), op.Kind, e.Label))
				}
			}
		}
	}
	// O5: atomic upgrade restores the most recent revision that had been deployed
	if op.Kind == "upgrade" && atomic && res.Failed && len(created) > 0 {
		var good *rspb.Release
		for _, r := range pre {
			if r.Info.Status == rspb.StatusDeployed || r.Info.Status == rspb.StatusSuperseded {
				good = r
			}
		}
		if good != nil {
			last := post[len(post)-1]
			switch {
			case find(pre, last.Version) != nil || len(created) < 2:
				violate("O5-atomic-new-revision", "atomic upgrade failed but no new revision restores the last good one")
			case last.Info.Status != rspb.StatusDeployed:
				violate("O5-atomic-deployed", fmt.Sprintf("atomic upgrade failed and revision %d is %s, not deployed", last.Version, last.Info.Status))
			case last.Manifest != good.Manifest:
				violate("O5-atomic-manifest", fmt.Sprintf("revision %d does not carry the manifest of revision %d", last.Version, good.Version))
			default:
				// objects that only the failed revision's manifest names must be gone again
				var left []string
				goodDocs, _ := hx.ParseManifest(good.Manifest)
				inGood := map[string]bool{}
				for _, d := range goodDocs {
					inGood[d.Path()] = true
				}
				failedDocs, _ := hx.ParseManifest(created[0].Manifest)
				for _, d := range failedDocs {
					if _, ok := t.Post.Sim.Get(d.Path()); ok && !inGood[d.Path()] {
						left = append(left, d.Kind+"/"+d.Name)
					}
				}
				if bad := t.Post.ClusterMatches(good.Manifest, "r"); len(bad) > 0 {
					violate("O5-atomic-cluster", fmt.Sprintf("cluster does not match restored revision %d: %s", good.Version, strings.Join(bad, "; ")))
				} else if len(left) > 0 {
					violate("O5-atomic-leftover", fmt.Sprintf("after the atomic rollback to revision %d the cluster still holds %v, which only the failed revision's manifest names", good.Version, left))
				} else {
					c.Floor("atomic-upgrade-restored")
				}
			}
		}
	}
	// O6: atomic install leaves nothing behind
	if op.Kind == "install" && atomic && res.Failed && len(pre) == 0 {
		if len(post) != 0 {
			violate("O6-atomic-install-history", fmt.Sprintf("atomic install failed but history is (%s)", hx.StatusVector(post)))
		}
		left := 0
		for _, r := range op.Chart.Resources {
			docs, _ := hx.ParseManifest(hx.ResourceYAML(r))
			for _, d := range docs {
				if _, ok := t.Post.Sim.Get(d.Path()); ok {
					left++
					violate("O6-atomic-install-objects", fmt.Sprintf("atomic install failed but %s/%s is still in the cluster", d.Kind, d.Name))
				}
			}
		}
		if len(post) == 0 && left == 0 {
			c.Floor("atomic-install-cleaned")
		}
	}
}

// restoredByRollback: with --atomic the rollback may legitimately re-create
// an object that the cleanup removed (it is part of the restored manifest).
func restoredByRollback(op hx.Op, post []*rspb.Release, path string) bool {
	if !op.Atomic || len(post) == 0 {
		return false
	}
	docs, _ := hx.ParseManifest(post[len(post)-1].Manifest)
	for _, d := range docs {
		if d.Path() == path {
			return true
		}
	}
	return false
}
