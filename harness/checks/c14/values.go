package c14

import (
	"encoding/json"
	"fmt"
	"math"
	"strconv"
	"strings"

	"verif/harness/internal/hx"
)

// ---------- value trees ----------
//
// A value tree is a map[string]any whose leaves are string, bool, float64,
// int64 or json.Number, nested through map[string]any. Trees never contain
// null or lists: what null does while layering values is the subject of
// C04/C13, not of the schema gate.

func deepCopy(v any) any {
	if m, ok := v.(map[string]any); ok {
		c := make(map[string]any, len(m))
		for k, x := range m {
			c[k] = deepCopy(x)
		}
		return c
	}
	if v == nil {
		panic("c14: null in a value tree")
	}
	return v
}

func copyMap(m map[string]any) map[string]any {
	if m == nil {
		return map[string]any{}
	}
	return deepCopy(m).(map[string]any)
}

// layer returns a fresh map: hi overrides lo; maps are merged key by key, any
// other value of hi replaces lo's.
func layer(hi, lo map[string]any) map[string]any {
	out := copyMap(hi)
	for k, lv := range lo {
		hv, present := out[k]
		if !present {
			out[k] = deepCopy(lv)
			continue
		}
		hm, hIsMap := hv.(map[string]any)
		lm, lIsMap := lv.(map[string]any)
		if hIsMap && lIsMap {
			out[k] = layer(hm, lm)
		}
	}
	return out
}

func lookup(m map[string]any, path string) (any, bool) {
	var cur any = m
	for _, p := range strings.Split(path, ".") {
		mm, ok := cur.(map[string]any)
		if !ok {
			return nil, false
		}
		if cur, ok = mm[p]; !ok {
			return nil, false
		}
	}
	return cur, true
}

// put stores val under path (creating tables), merging when both are tables.
func put(m map[string]any, path []string, val map[string]any) {
	if val == nil {
		return
	}
	for _, p := range path {
		next, ok := m[p].(map[string]any)
		if !ok {
			next = map[string]any{}
			m[p] = next
		}
		m = next
	}
	for k, v := range layer(val, m) {
		m[k] = v
	}
}

// ---------- reference: which enabled charts have final values that violate their schema ----------

type verdict struct {
	Chart   string   `json:"chart"`   // the name the parent knows the chart by (alias if any)
	Names   []string `json:"names"`   // acceptable names in an error text (alias and declared name)
	Where   string   `json:"where"`   // JSON pointer of the first violation inside that chart's values
	Keyword string   `json:"keyword"` // violated keyword
	Depth   int      `json:"depth"`
}

// refVerdicts computes, without any Helm code, the final values of the chart
// and of every enabled subchart (defaults overridden by the parent's section
// for it, overridden by the user's values; globals handed down) and evaluates
// each chart's schema on them. ignoreConditions evaluates disabled subcharts
// too (used only to label cases, never to decide them).
func refVerdicts(spec *hx.ChartSpec, user map[string]any, ignoreConditions bool) []verdict {
	var out []verdict
	refWalk(spec, []string{spec.Name}, layer(user, spec.Values), 0, ignoreConditions, &out)
	return out
}

func refWalk(x *hx.ChartSpec, names []string, vals map[string]any, depth int, ignoreConditions bool, out *[]verdict) {
	if x.Schema != "" {
		if where, kw, ok := firstViolation(parseSchema(x.Schema), vals, ""); !ok {
			*out = append(*out, verdict{Chart: names[0], Names: names, Where: where, Keyword: kw, Depth: depth})
		}
	}
	for _, s := range x.Subcharts {
		key, subNames := s.Name, []string{s.Name}
		for _, d := range x.Deps {
			if d.Name != s.Name {
				continue
			}
			if d.Alias != "" {
				key, subNames = d.Alias, []string{d.Alias, s.Name}
			}
			if d.Condition != "" && !ignoreConditions {
				if b, ok := lookup(vals, d.Condition); ok && b == false {
					key = ""
				}
			}
		}
		if key == "" {
			continue // disabled: its schema is not evaluated, nor are its subcharts'
		}
		section, _ := vals[key].(map[string]any)
		sv := layer(section, s.Values)
		// globals: the parent's win over what the section or the subchart's own defaults say
		pg, _ := vals["global"].(map[string]any)
		sg, _ := sv["global"].(map[string]any)
		sv["global"] = layer(pg, sg)
		refWalk(s, subNames, sv, depth+1, ignoreConditions, out)
	}
}

// ---------- number representations ----------

// withRep rewrites every float64 of the tree into another Go representation a
// Helm caller can produce: "int64" (--set), "jnum" (values files are decoded
// with UseNumber), "jnum.0" (a file saying 1.0).
func withRep(v any, rep string) any {
	switch x := v.(type) {
	case map[string]any:
		c := map[string]any{}
		for k, e := range x {
			c[k] = withRep(e, rep)
		}
		return c
	case float64:
		integral := x == math.Trunc(x)
		switch rep {
		case "int64":
			if integral {
				return int64(x)
			}
		case "jnum":
			return json.Number(strconv.FormatFloat(x, 'f', -1, 64))
		case "jnum.0":
			if integral {
				return json.Number(strconv.FormatFloat(x, 'f', 1, 64))
			}
			return json.Number(strconv.FormatFloat(x, 'f', -1, 64))
		}
	}
	return v
}

// encodeTyped / decodeTyped keep number representations through the JSON of
// a replay file.
func encodeTyped(v any) any {
	switch x := v.(type) {
	case map[string]any:
		c := map[string]any{}
		for k, e := range x {
			c[k] = encodeTyped(e)
		}
		return c
	case int64:
		return map[string]any{"$int64": strconv.FormatInt(x, 10)}
	case json.Number:
		return map[string]any{"$jnum": string(x)}
	}
	return v
}

func decodeTyped(v any) any {
	m, ok := v.(map[string]any)
	if !ok {
		return v
	}
	if s, ok := m["$int64"].(string); ok && len(m) == 1 {
		i, err := strconv.ParseInt(s, 10, 64)
		if err != nil {
			panic(err)
		}
		return i
	}
	if s, ok := m["$jnum"].(string); ok && len(m) == 1 {
		return json.Number(s)
	}
	c := map[string]any{}
	for k, e := range m {
		c[k] = decodeTyped(e)
	}
	return c
}

// show renders a tree deterministically with the Go type of numbers visible.
func show(v any) string {
	switch x := v.(type) {
	case map[string]any:
		var parts []string
		for _, k := range sortedKeys(x) {
			parts = append(parts, k+":"+show(x[k]))
		}
		return "{" + strings.Join(parts, ",") + "}"
	case int64:
		return fmt.Sprintf("%di", x)
	case json.Number:
		return string(x) + "j"
	case string:
		return strconv.Quote(x)
	}
	return fmt.Sprint(v)
}
