package c14

import (
	"bytes"
	"encoding/json"
	"fmt"
	"math/big"
	"sort"
	"strconv"
)

// ---------- independent evaluator for the generated keyword family ----------
//
// Keywords understood: type (one of integer|number|string|boolean|object),
// properties, required, enum (scalars), minimum, maximum,
// additionalProperties:false. Anything else makes parseSchema panic, so the
// generator cannot silently leave the family the evaluator was written for.
// Numbers are compared by value: 1, 1.0, int64(1) and json.Number("1.0") are
// all the integer one (JSON Schema: a number with a zero fractional part is an
// integer).

func parseSchema(text string) map[string]any {
	d := json.NewDecoder(bytes.NewReader([]byte(text)))
	d.UseNumber()
	var s map[string]any
	if err := d.Decode(&s); err != nil {
		panic("c14: generated schema does not parse: " + err.Error())
	}
	return s
}

// rat reports whether v is a JSON number (in any Go representation a value
// tree can carry) and its EXACT value (integers above 2^53 must not be rounded).
func rat(v any) (*big.Rat, bool) {
	switch x := v.(type) {
	case float64:
		r := new(big.Rat).SetFloat64(x)
		return r, r != nil
	case int64:
		return new(big.Rat).SetInt64(x), true
	case int:
		return new(big.Rat).SetInt64(int64(x)), true
	case json.Number:
		r, ok := new(big.Rat).SetString(string(x))
		if !ok {
			panic("c14: bad json.Number " + string(x))
		}
		return r, true
	}
	return nil, false
}

// num is rat rounded to float64 (only for turning typed trees into plain ones).
func num(v any) (float64, bool) {
	switch x := v.(type) {
	case float64:
		return x, true
	case int64:
		return float64(x), true
	case int:
		return float64(x), true
	case json.Number:
		f, err := strconv.ParseFloat(string(x), 64)
		if err != nil {
			panic("c14: bad json.Number " + string(x))
		}
		return f, true
	}
	return 0, false
}

func hasType(v any, t string) bool {
	r, isNum := rat(v)
	switch t {
	case "integer":
		return isNum && r.IsInt()
	case "number":
		return isNum
	case "string":
		_, ok := v.(string)
		return ok
	case "boolean":
		_, ok := v.(bool)
		return ok
	case "object":
		_, ok := v.(map[string]any)
		return ok
	}
	panic("c14: type outside the family: " + t)
}

func scalarEqual(a, b any) bool {
	ra, na := rat(a)
	rb, nb := rat(b)
	if na || nb {
		return na && nb && ra.Cmp(rb) == 0
	}
	switch x := a.(type) {
	case string:
		y, ok := b.(string)
		return ok && x == y
	case bool:
		y, ok := b.(bool)
		return ok && x == y
	case nil:
		return b == nil
	}
	return false // objects are never enum members in the family
}

// firstViolation evaluates value against schema and returns the first
// violation in a fixed keyword/key order ("" path = root), or ok.
func firstViolation(schema map[string]any, v any, path string) (where, keyword string, ok bool) {
	keys := make([]string, 0, len(schema))
	for k := range schema {
		keys = append(keys, k)
	}
	sort.Strings(keys)
	for _, k := range keys {
		arg := schema[k]
		switch k {
		case "$schema", "title":
		case "type":
			if !hasType(v, arg.(string)) {
				return path, "type", false
			}
		case "const":
			if !scalarEqual(arg, v) {
				return path, "const", false
			}
		case "enum":
			found := false
			for _, m := range arg.([]any) {
				found = found || scalarEqual(m, v)
			}
			if !found {
				return path, "enum", false
			}
		case "minimum", "maximum":
			lim, _ := rat(arg)
			if r, isNum := rat(v); isNum && ((k == "minimum" && r.Cmp(lim) < 0) || (k == "maximum" && r.Cmp(lim) > 0)) {
				return path, k, false
			}
		case "required":
			if m, isObj := v.(map[string]any); isObj {
				for _, r := range arg.([]any) {
					if _, present := m[r.(string)]; !present {
						return path + "/" + r.(string), "required", false
					}
				}
			}
		case "additionalProperties":
			if arg != false {
				panic("c14: additionalProperties outside the family")
			}
			props, _ := schema["properties"].(map[string]any)
			if m, isObj := v.(map[string]any); isObj {
				for _, mk := range sortedKeys(m) {
					if _, declared := props[mk]; !declared {
						return path + "/" + mk, "additionalProperties", false
					}
				}
			}
		case "properties":
			if m, isObj := v.(map[string]any); isObj {
				ps := arg.(map[string]any)
				for _, pk := range sortedKeys(ps) {
					if pv, present := m[pk]; present {
						if w, kw, ok := firstViolation(ps[pk].(map[string]any), pv, path+"/"+pk); !ok {
							return w, kw, false
						}
					}
				}
			}
		default:
			panic(fmt.Sprintf("c14: keyword outside the family: %s", k))
		}
	}
	return "", "", true
}

func sortedKeys(m map[string]any) []string {
	ks := make([]string, 0, len(m))
	for k := range m {
		ks = append(ks, k)
	}
	sort.Strings(ks)
	return ks
}
