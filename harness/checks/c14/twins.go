package c14

import (
	"strconv"

	"verif/harness/internal/core"
	"verif/harness/internal/hx"
)

// ---------- Part F: two different charts with the same name and version ----------
//
// Two schema-bearing charts sit at different positions of one tree, have the
// same Metadata.Name (declared, or given by an alias) and Metadata.Version,
// and carry DIFFERENT schemas; each gets its own content. Anything that
// identifies a chart's schema by name(-version) instead of by the chart at
// that position validates one of them against the other's schema: values
// violating the second are accepted, or values satisfying both are rejected.
// Ordered schema pairs give both directions.

type twinPlacement struct {
	Name string
	// build returns the tree with schema s1 / defaults d1 on the first twin
	// (first in dependency order) and s2 / d2 on the second, and the paths of
	// the two charts' sections in the user's values.
	build func(s1, s2 string, d1, d2 map[string]any) (root *hx.ChartSpec, path1, path2 []string)
}

func withSub(parent *hx.ChartSpec, sub *hx.ChartSpec, alias string) {
	parent.Subcharts = append(parent.Subcharts, sub)
	parent.Deps = append(parent.Deps, hx.DepSpec{Name: sub.Name, Alias: alias})
}

// twin makes one of the two like-named charts; which (1 or 2) names its
// resource, so that the two charts do not render the same object.
func twin(name string, which int, schema string, defaults map[string]any) *hx.ChartSpec {
	c := newChart(name)
	c.Resources[0].Name = "cm-twin" + strconv.Itoa(which)
	c.Schema, c.Values = schema, copyMap(defaults)
	return c
}

func twinPlacements() []twinPlacement {
	return []twinPlacement{
		{"cousins(a/db,b/db)", func(s1, s2 string, d1, d2 map[string]any) (*hx.ChartSpec, []string, []string) {
			root, a, b := newChart("rootc"), newChart("a"), newChart("b")
			withSub(a, twin("db", 1, s1, d1), "")
			withSub(b, twin("db", 2, s2, d2), "")
			withSub(root, a, "")
			withSub(root, b, "")
			return root, []string{"a", "db"}, []string{"b", "db"}
		}},
		{"parent-child(db,db/db)", func(s1, s2 string, d1, d2 map[string]any) (*hx.ChartSpec, []string, []string) {
			root, outer := newChart("rootc"), twin("db", 1, s1, d1)
			withSub(outer, twin("db", 2, s2, d2), "")
			withSub(root, outer, "")
			return root, []string{"db"}, []string{"db", "db"}
		}},
		{"uncle-nephew(db,a/db)", func(s1, s2 string, d1, d2 map[string]any) (*hx.ChartSpec, []string, []string) {
			root, a := newChart("rootc"), newChart("a")
			withSub(root, twin("db", 1, s1, d1), "")
			withSub(a, twin("db", 2, s2, d2), "")
			withSub(root, a, "")
			return root, []string{"db"}, []string{"a", "db"}
		}},
		{"cousins-by-alias(a/pg->db,b/my->db)", func(s1, s2 string, d1, d2 map[string]any) (*hx.ChartSpec, []string, []string) {
			root, a, b := newChart("rootc"), newChart("a"), newChart("b")
			withSub(a, twin("pg", 1, s1, d1), "db")
			withSub(b, twin("my", 2, s2, d2), "db")
			withSub(root, a, "")
			withSub(root, b, "")
			return root, []string{"a", "db"}, []string{"b", "db"}
		}},
		{"root-child(db,db/db)", func(s1, s2 string, d1, d2 map[string]any) (*hx.ChartSpec, []string, []string) {
			root := twin("db", 1, s1, d1)
			withSub(root, twin("db", 2, s2, d2), "")
			return root, nil, []string{"db"}
		}},
	}
}

// twinBodies: schemas that pairwise disagree on the twin contents.
func twinBodies(thorough bool) []body {
	idx := [][4]int{{1, 0, 0, 0}, {4, 0, 0, 0}, {2, 0, 0, 1}, {0, 1, 0, 0}, {0, 0, 1, 0}}
	if thorough {
		idx = append(idx, [4]int{3, 0, 0, 0}, [4]int{0, 0, 0, 2}, [4]int{2, 1, 1, 3})
	}
	var out []body
	for _, x := range idx {
		out = append(out, mkBody(x[0], x[1], x[2], x[3], false))
	}
	return out
}

func twinContents(thorough bool) []map[string]any {
	out := []map[string]any{
		obj("n", 1.0, "s", "a", "o", obj("k", 1.0)),
		obj("n", "x"),
		obj("n", 7.0, "s", "z"),
		obj("o", obj("k", 1.0, "extra", 2.0)),
	}
	if thorough {
		out = append(out, obj(), obj("n", 2.0, "s", "b", "o", "str"))
	}
	return out
}

type twinUnit struct {
	P      twinPlacement
	B1, B2 body
}

func twinUnits(thorough bool) []twinUnit {
	var out []twinUnit
	bs := twinBodies(thorough)
	for _, p := range twinPlacements() {
		for i, b1 := range bs {
			for j, b2 := range bs {
				if i != j {
					out = append(out, twinUnit{p, b1, b2})
				}
			}
		}
	}
	return out
}

func twinPairs(thorough bool) int {
	n := len(twinContents(thorough))
	return len(twinUnits(thorough)) * n * n * 2
}

// twinCases enumerates the cases of one unit: contents c1 x c2 x route {U, D}
// x entries x skip. discr says how the case tells the two schemas apart:
// "reject" (a twin violates its own schema but would satisfy the tree with the
// schemas exchanged), "accept" (all satisfied, but not with the schemas
// exchanged), "" otherwise.
func twinCases(u twinUnit, thorough bool, visit func(cs Case, discr string)) {
	cs := twinContents(thorough)
	for _, route := range []string{"U", "D"} {
		for _, c1 := range cs {
			for _, c2 := range cs {
				var spec, swapped *hx.ChartSpec
				var p1, p2 []string
				user := map[string]any{}
				if route == "D" {
					spec, _, _ = u.P.build(u.B1.Text, u.B2.Text, c1, c2)
					swapped, _, _ = u.P.build(u.B2.Text, u.B1.Text, c1, c2)
				} else {
					spec, p1, p2 = u.P.build(u.B1.Text, u.B2.Text, nil, nil)
					swapped, _, _ = u.P.build(u.B2.Text, u.B1.Text, nil, nil)
					put(user, p2, copyMap(c2))
					put(user, p1, copyMap(c1)) // p1 may be a prefix of p2: merged
				}
				own, exch := len(refVerdicts(spec, user, false)), len(refVerdicts(swapped, user, false))
				discr := ""
				switch {
				case own > 0 && exch == 0:
					discr = "reject"
				case own == 0 && exch > 0:
					discr = "accept"
				}
				for _, en := range entriesAll {
					if en == "upgrade-reuse" || historyEntry(en) || (en == "lint" && route != "U") {
						continue // lint meets the twins with one chart on disk per schema pair (route U)
					}
					for _, skip := range []bool{false, true} {
						visit(Case{Part: "F", Placement: u.P.Name, Class: "twins", Body: u.B1.ID + " | " + u.B2.ID, Route: route + ":" + show(c1) + "/" + show(c2),
							Chart: spec, User: encodeTyped(user), Entry: en, Skip: skip}, discr)
					}
				}
			}
		}
	}
}

func runTwins(c *core.Ctx, e *env, seenOutcome map[string]bool) {
	th := c.Thorough()
	c.Bound("twin-placements", strconv.Itoa(len(twinPlacements())))
	c.Bound("twin-schema-pairs(ordered)", strconv.Itoa(len(twinUnits(th))/len(twinPlacements())))
	c.Bound("twin-pairs", strconv.Itoa(twinPairs(th)))
	if c.Only != "" && c.Only != "F" {
		return
	}
	for _, u := range twinUnits(th) {
		if !c.NextMine() {
			continue
		}
		twinCases(u, th, func(cs Case, discr string) {
			o := e.judge(cs)
			record(c, cs, o, true, u.B1.Text+"|"+u.B2.Text+"|"+cs.Placement+"|"+cs.Route+"|"+cs.entryName(), u.B1.Text+" | "+u.B2.Text, seenOutcome)
			if len(o.Findings) == 0 && discr != "" && !cs.Skip {
				c.Floor("twins-discriminating-" + discr + "@" + cs.Entry)
			}
		})
	}
}
